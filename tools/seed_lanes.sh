#!/bin/bash
# usage: tools/seed_lanes.sh <tag> "<seed-id> <prop...>" ...   — runs tools/seed_cycle.sh for several seeded changes, 3 at a time.
TAG=$1; shift
i=0
declare -a L
for a in "$@"; do L[$((i%3))]+="$a;"; i=$((i+1)); done
for k in 0 1 2; do
  ( IFS=';'; for a in ${L[$k]}; do [ -z "$a" ] && continue; IFS=' ' read id props <<< "$a"; /verif/tools/seed_cycle.sh $id $props > /tmp/seed/rc-$id.out 2>&1; IFS=';'; done ) &
done
wait
echo done > /tmp/seed/lanes-$TAG.done
