#!/bin/bash
# usage: tools/seed_cycle.sh <seed-id> <prop> [prop...]   — confirm a seeded change (demo fails with / passes without / tests pass)
# and run the given checks against it at seeds 1 and 2. Output: /tmp/seed/cycle-<id>.log (summary lines printed).
ID=$1; shift
OUT=/tmp/seed/$ID-demo/out
CMD=$(python3 - "$OUT/meta.json" <<'PY'
import json,sys,re
c=json.load(open(sys.argv[1]))['demo_cmd']
c=re.split(r'\s{2,}[#(]',c)[0].strip()
print(c)
PY
)
mkdir -p /tmp/seed/$ID/code/go/0chain.net/miner/data/rocksdb/state /tmp/seed/$ID/code/go/0chain.net/miner/log 2>/dev/null
{
  echo "DEMO-CMD $CMD"
  /verif/tools/confirm_seed.sh $ID "$CMD"
  rmdir /tmp/seed/$ID/code/go/0chain.net/miner/data/rocksdb/state /tmp/seed/$ID/code/go/0chain.net/miner/data/rocksdb /tmp/seed/$ID/code/go/0chain.net/miner/data /tmp/seed/$ID/code/go/0chain.net/miner/log 2>/dev/null
  echo "##### $ID"
  SEEDS="1 2" /verif/tools/try_seed.sh $OUT/patch.diff "$@" 2>&1 | grep -v "^KNOWN" | cut -c1-330
} > /tmp/seed/cycle-$ID.log 2>&1
grep "^CONFIRM\|^RESULT\|signature=" /tmp/seed/cycle-$ID.log | cut -c1-220
