#!/bin/bash
# usage: tools/try_seed.sh <patch.diff> <prop> [prop...]   (env SEEDS="1 2", TIER=quick)
# Applies a seeded change to a scratch worktree of /repo (never to /repo itself), runs the given checks against it with
# evidence/replays redirected to a scratch VERIF_DIR, prints the verdict lines, removes the worktree.
set -u
PATCH=$(readlink -f "$1"); shift
WT=/tmp/mut/wt-$$
mkdir -p /tmp/mut
git -C /repo worktree add --detach -q "$WT" HEAD || exit 2
trap 'git -C /repo worktree remove --force "$WT" 2>/dev/null; rm -rf /tmp/mut/vd-$$' EXIT
git -C "$WT" apply "$PATCH" 2>/dev/null || git -C "$WT" apply -C1 --recount "$PATCH" 2>/dev/null || (cd "$WT" && patch -p1 --fuzz=3 -s < "$PATCH") || { echo "PATCH DOES NOT APPLY"; exit 2; }
VD=/tmp/mut/vd-$$; mkdir -p $VD
# scratch verif dir: same harness sources and known findings, own evidence/replays/.build
for f in harness bin tools known_findings.json MANIFEST.json third_party; do ln -s /verif/$f $VD/$f; done
for s in ${SEEDS:-1}; do for p in "$@"; do
  echo "--- $p seed $s"
  VERIF_DIR=$VD VERIF_REPO=$WT VERIF_SEED=$s /verif/bin/check $p ${TIER:-quick} 2>&1 | grep '^VIOLATION\|^  signature\|^RESULT\|^INCONCLUSIVE\|^BUILD-FAILED\|^KNOWN' | cut -c1-260
done; done
