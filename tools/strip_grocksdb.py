#!/usr/bin/env python3
# Iteratively remove top-level Go decls in a grocksdb copy that reference C symbols
# absent from the installed rocksdb c.h.
import re, subprocess, sys, os, glob
d = sys.argv[1]
env = dict(os.environ, GOPROXY='off', GOSUMDB='off', GOTOOLCHAIN='local', GOFLAGS='-mod=mod')
removed_syms=set()
for it in range(40):
    p = subprocess.run(['go','build','.'],cwd=d,env=env,capture_output=True,text=True)
    out = p.stdout+p.stderr
    if p.returncode==0:
        print('BUILD OK after',it,'iterations; removed C symbols:',len(removed_syms)); break
    syms=set(re.findall(r'could not determine kind of name for C\.(\w+)',out))
    undef=set(re.findall(r'undefined: (\w+)',out))
    if not syms and not undef:
        print(out[:4000]); sys.exit(1)
    removed_syms|=syms
    pats=[re.compile(r'\bC\.'+s+r'\b') for s in syms]+[re.compile(r'\b'+s+r'\b') for s in undef]
    for f in glob.glob(d+'/*.go'):
        if f.endswith('_test.go'): continue
        L=open(f).read().split('\n'); outL=[]; i=0; ch=False
        while i<len(L):
            if re.match(r'^(func|type) ',L[i]):
                j=i
                if L[i].rstrip().endswith('{') or '{' in L[i]:
                    if not (L[i].rstrip().endswith('}') and L[i].count('{')==L[i].count('}')):
                        while j<len(L) and L[j]!='}': j+=1
                block='\n'.join(L[i:j+1])
                # decl name itself being undefined shouldn't remove its own definition
                hit=any(p.search(block) for p in pats[:len(syms)]) or any(p.search('\n'.join(L[i+1:j+1])+ ' ' + L[i].split('(',1)[-1] if L[i].startswith('func') else '') for p in pats[len(syms):])
                if hit:
                    # drop preceding comment lines
                    while outL and outL[-1].startswith('//'): outL.pop()
                    ch=True; i=j+1; continue
                outL.extend(L[i:j+1]); i=j+1; continue
            outL.append(L[i]); i+=1
        if ch: open(f,'w').write('\n'.join(outL))
    print('iter',it,'missing C:',sorted(syms),'undefined Go:',sorted(undef))
else:
    sys.exit(2)
print(sorted(removed_syms))
