#!/bin/bash
# usage: tools/sweep.sh "<seeds>" [tier] [props...]  — runs the registered checks at several seeds from fresh processes,
# 3 at a time, and prints one line per (property, seed) plus every VIOLATION / INCONCLUSIVE line.
SEEDS="${1:-1 2 3 7 42}"; TIER="${2:-quick}"; shift 2 2>/dev/null
export VERIF_DIR="${VERIF_DIR:-$PWD}"
PROPS="$*"
[ -z "$PROPS" ] && PROPS=$(jq -r '.checks[].property_id' "$VERIF_DIR/MANIFEST.json")
OUT="$VERIF_DIR/.build/sweep-$$"; mkdir -p "$OUT"
run_one() { p=$1; s=$2; VERIF_SEED=$s "$VERIF_DIR/bin/check" $p $TIER > "$OUT/$p-$s.log" 2>&1; echo "exit=$? $(grep -h '^RESULT' "$OUT/$p-$s.log" | tail -1)"; grep -h '^VIOLATION\|^  signature\|^INCONCLUSIVE\|^BUILD-FAILED' "$OUT/$p-$s.log" | cut -c1-300; }
export -f run_one; export OUT TIER
for s in $SEEDS; do for p in $PROPS; do echo "$p $s"; done; done | xargs -P 3 -L 1 bash -c 'run_one $0 $1'
echo SWEEP-DONE
