#!/bin/bash
# usage: tools/confirm_seed.sh <seed-id e.g. C14a> '<demo command>'
# Confirms a seeded change in its scratch worktree /tmp/seed/<id>: demo FAILS with the change, PASSES without it,
# the repository's own runnable tests pass with it. Prints one summary line.
ID=$1; CMD=$2; WT=/tmp/seed/$ID; OUT=/tmp/seed/$ID-demo/out
cd $WT || exit 2
git -C $WT diff > /tmp/seed/$ID.cur.diff
if ! diff -q <(grep '^[-+]' $OUT/patch.diff | grep -v '^+++\|^---\|^index') <(grep '^[-+]' /tmp/seed/$ID.cur.diff | grep -v '^+++\|^---\|^index') >/dev/null; then echo "$ID WARNING worktree diff differs from patch.diff"; git -C $WT checkout -q -- . ; git -C $WT apply $OUT/patch.diff || { echo "$ID patch does not apply"; exit 2; }; fi
( eval "$CMD" ) > /tmp/seed/$ID.with.log 2>&1; W=$?
git -C $WT apply -R $OUT/patch.diff || { echo "$ID cannot revert"; exit 2; }
( eval "$CMD" ) > /tmp/seed/$ID.without.log 2>&1; WO=$?
git -C $WT apply $OUT/patch.diff
( cd $WT/code/go/0chain.net && unset GOFLAGS && go test -vet=off -count=1 ./chaincore/client/ ./chaincore/node/ ./conductor/conductrpc/stats/ ./core/cache/ ./core/config/ ./core/encryption/ ./core/sortedmap/ ./core/util/entitywrapper/ ./core/util/orderbuffer/ ./core/viper/ ./sharder/blockdb/ ) > /tmp/seed/$ID.tests.log 2>&1; T=$?
git -C /repo apply --check $OUT/patch.diff 2>/dev/null; A=$?
echo "CONFIRM $ID demo_with_change_exit=$W demo_without_change_exit=$WO existing_tests_exit=$T applies_to_repo_head=$A"
