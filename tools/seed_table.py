#!/usr/bin/env python3
"""Prints the markdown table of /verif/seeded/*/meta.json (seed, change, needs, detected, how)."""
import json, glob, os, re
rows = []
for p in sorted(glob.glob('/verif/seeded/*/meta.json')):
    m = json.load(open(p))
    sid = os.path.basename(os.path.dirname(p))
    def cell(s, n):
        s = re.sub(r'\s+', ' ', str(s)).replace('|', '/')
        return s if len(s) <= n else s[:n - 1] + '…'
    rows.append((sid, cell(m.get('summary', ''), 230), cell(m.get('needs_to_manifest', ''), 200), m.get('detected_by_checks', '?'), cell(m.get('what_i_ran', ''), 330)))
print('| seed | change (sub-agent\'s summary) | needs to manifest | caught | checks that report it / what was strengthened |')
print('|---|---|---|---|---|')
for r in rows:
    print('| ' + ' | '.join(r) + ' |')
