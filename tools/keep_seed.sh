#!/bin/bash
# usage: tools/keep_seed.sh <seed-id e.g. C14a> <detected: yes|no|partly> "<what I ran / which checks fired>"
# Stores a confirmed seeded change under /verif/seeded/<id>/ (patch rebased onto /repo HEAD, demonstration, meta.json)
# and removes its scratch worktree and build output.
set -u
ID=$1; DET=$2; RAN=$3
SRC=/tmp/seed/$ID-demo/out; DST=/verif/seeded/$ID
mkdir -p $DST/demo
WT=/tmp/mut/rebase-$$; git -C /repo worktree add --detach -q $WT HEAD
( git -C $WT apply $SRC/patch.diff 2>/dev/null || git -C $WT apply -C1 --recount $SRC/patch.diff 2>/dev/null || (cd $WT && patch -p1 --fuzz=3 -s < $SRC/patch.diff) ) || { echo "cannot rebase patch"; git -C /repo worktree remove --force $WT; exit 2; }
git -C $WT diff > $DST/patch.diff
git -C /repo worktree remove --force $WT
cp -r $SRC/demo/. $DST/demo/ 2>/dev/null; cp $SRC/*.sh $SRC/*.log $SRC/*.txt $DST/demo/ 2>/dev/null
CONF=$(cat /tmp/seed/confirm-*.log /tmp/seed/cycle-$ID.log 2>/dev/null | grep "CONFIRM $ID " | tail -1 | sed "s/.*CONFIRM //")
python3 - "$SRC/meta.json" "$DST/meta.json" "$DET" "$RAN" "$CONF" <<'PY'
import json,sys
m=json.load(open(sys.argv[1]))
m['detected_by_checks']=sys.argv[3]
m['what_i_ran']=sys.argv[4]
m['confirmed_by_coordinator']=sys.argv[5]
m['breaks_property']=m.get('property')
json.dump(m,open(sys.argv[2],'w'),indent=1)
PY
git -C /repo worktree remove --force /tmp/seed/$ID 2>/dev/null
rm -rf /tmp/seed/$ID-demo /tmp/seed/$ID.*.log /tmp/seed/$ID.cur.diff
git -C /repo worktree prune
echo kept $DST
