#!/usr/bin/env python3
"""Generates /verif/MANIFEST.json and harness/props.json from tools/checks.json (one entry per claimed property)."""
import json, os, subprocess
V = os.path.dirname(os.path.dirname(os.path.abspath(__file__)))
checks = json.load(open(os.path.join(V, 'tools', 'checks.json')))
props = [json.loads(l) for l in open(os.path.join(V, 'properties.jsonl'))]
ids = [p['id'] for p in props]
hooks = subprocess.run(['git', '-C', '/repo', 'log', '--format=%H %s'], capture_output=True, text=True).stdout.splitlines()
hook_commits = [l.split()[0] for l in hooks if l.split(' ', 1)[1].startswith('verif hook')]
man = {
    "version": 1,
    "setup_cmd": "cd /verif && bin/setup",
    "hooks": {
        "guard": "verif",
        "enable": "go build -tags verif (harness module /verif/harness with replace 0chain.net => /repo/code/go/0chain.net); the conc engine adds -race",
        "baseline_off_cmd": "/verif/bin/baseline_off",
        "source_commits": hook_commits,
        "add_only": True,
    },
    "engines": [],
    "checks": [],
    "notes": "Technique family: runtime monitoring. Every check executes the real 0chain code (no model of it) under generated workloads and decides with an oracle over observed state/events. See DESIGN.md.",
    "not_applicable": [],
}
eng = {}
pj = {}
for pid in ids:
    c = checks['checks'].get(pid)
    if not c:
        reason = checks['not_claimed'].get(pid, "engine not built yet in this session (see DESIGN.md §8); not claimed rather than claimed with a hollow check")
        man['not_applicable'].append({"property_id": pid, "reason": reason})
        continue
    pj[pid] = {"engine": c['engine'], "race": c.get('race', False)}
    eng.setdefault(c['engine'], []).append(pid)
    entry = {
        "property_id": pid,
        "quick_cmd": f"bin/check {pid} quick",
        "thorough_cmd": f"bin/check {pid} thorough",
        "evidence_file": f"/verif/evidence/{pid}.json",
        "engine": c['engine'],
        "level_claimed": {"category": c.get('level', 'exploration'), "text": c['text'], "design_ref": c.get('design_ref', 'DESIGN.md §3 ' + pid)},
        "level_note": c['note'],
        "technique": c['technique'],
    }
    man['checks'].append(entry)
for e, ps in sorted(eng.items()):
    man['engines'].append({"name": e, "path": f"harness/eng/{e}", "serves_properties": ps, "kind_free_text": checks['engines'].get(e, '')})
json.dump(man, open(os.path.join(V, 'MANIFEST.json'), 'w'), indent=1)
json.dump(pj, open(os.path.join(V, 'harness', 'props.json'), 'w'), indent=1)
print("claimed", len(man['checks']), "not claimed", len(man['not_applicable']))
