#!/usr/bin/env python3
"""Prints the prompt for a mutation-seeding sub-agent for one property (only the property text + a scratch worktree)."""
import json, sys
pid = sys.argv[1]
variant = sys.argv[2] if len(sys.argv) > 2 else "a"
props = {json.loads(l)['id']: json.loads(l) for l in open('/verif/properties.jsonl')}
p = props[pid]
wt = f"/tmp/seed/{pid}{variant}"
extra = ""
if variant != "a":
    extra = ("* Another engineer has already produced one seeded change for this property. To diversify, AVOID the single most obvious one-line slip in the "
             "first anchor function; prefer a defect in a different function or file of the mechanism, or one that only shows through a multi-step interaction, "
             "a failure after partial work, a restart/reload, a boundary value, or a particular interleaving.\n")
print(f"""You are helping to evaluate a verification effort for the 0chain blockchain (Go). Your job is to write ONE realistic, subtle code change ("seeded defect") that BREAKS the property below while the code still compiles and the repository's existing tests still pass — plus a demonstration that fails with the change and passes without it.

PROPERTY {pid} — {p['title']}
Statement: {p['statement']}
Quantifier: {p['quantifier']['text']}
Code anchors: files {', '.join(p['anchors']['files'])}; mechanisms: {json.dumps(p['anchors']['mechanism'])}

WORKSPACE
* Create your own git worktree of the repository: `git -C /repo worktree add --detach {wt} HEAD` (Go module at {wt}/code/go/0chain.net, module path `0chain.net`). Work ONLY there and under {wt}-demo. Never touch /repo itself or /verif (you may READ /verif/third_party/grocksdb, see below — nothing else under /verif).
* Build notes for this sandbox (no network): most packages depend on rocksdb; `go build ./...` inside the repo fails only because github.com/linxGnu/grocksdb v1.8.1 is newer than the installed librocksdb. Use a scratch module instead: `mkdir {wt}-demo && cd {wt}-demo`, create go.mod:
  ```
  module demo
  go 1.21
  require 0chain.net v0.0.0
  replace 0chain.net => {wt}/code/go/0chain.net
  replace github.com/linxGnu/grocksdb => /verif/third_party/grocksdb
  replace github.com/tinylib/msgp => github.com/0chain/msgp v1.1.62
  ```
  `cp {wt}/code/go/0chain.net/go.sum .` and run every go command with `export GOFLAGS=-mod=mod GOPROXY=off GOSUMDB=off GOTOOLCHAIN=local GOWORK=off CGO_ENABLED=1`. From there `go build 0chain.net/smartcontract/...` etc. compile the real packages (first build ~2 min), and a `main.go` / `*_test.go` in that module can import them. Always run binaries under `timeout`.
* Existing tests that must still pass with your change: `cd {wt}/code/go/0chain.net && go test -vet=off -count=1 ./chaincore/client/ ./chaincore/node/ ./conductor/conductrpc/stats/ ./core/cache/ ./core/config/ ./core/encryption/ ./core/sortedmap/ ./core/util/entitywrapper/ ./core/util/orderbuffer/ ./core/viper/ ./sharder/blockdb/` (unset GOFLAGS for this one; these are the only packages whose tests run in this sandbox).

WHAT KIND OF CHANGE
{extra}* It must look like something a developer could plausibly commit (a refactoring slip, an off-by-one, a dropped check on one path, a wrong variable, a missing lock, an operation moved before a validation, a cache/copy forgetting a field, two sites that each look fine alone) — not sabotage with an obvious marker, and not a change to test files.
* Prefer a change that needs something SPECIFIC to manifest: a particular multi-step sequence of operations, an unusual but legal input or boundary value, a failure on one path after partial work, a particular interleaving, a crash/fault at a particular point. Avoid changes that any ordinary use would expose at once (e.g. every transaction failing).
* The change must actually violate the property as stated (not merely change behaviour), must compile (`go build` of the touched packages through the scratch module, and `go vet` clean enough to build), and must keep the existing tests above passing.
* Keep it small (typically 1–15 lines in one or two files under code/go/0chain.net, non-test files).

DELIVERABLES (all under {wt}-demo/out/)
1. `patch.diff` — `git -C {wt} diff` of your change (must apply to /repo HEAD with `git apply`).
2. A demonstration: a Go test or small program in the scratch module (put a copy in out/demo/) that exercises the REAL code and FAILS (non-zero exit / test failure) with the change and PASSES without it. State the exact commands. It is fine if the demonstration drives the code at the function level (e.g. builds the needed state by calling the package's own functions / exported APIs); if you need unexported access, put the test file inside the package directory of your worktree copy temporarily (package-internal _test.go) and copy it to out/demo/ with a note where it goes.
3. `meta.json`: {{"property": "{pid}", "summary": one sentence, "files": [...], "needs_to_manifest": what specific sequence/input/interleaving/fault is needed, "why_realistic": one sentence, "demo_cmd": command, "demo_result_with_change": ..., "demo_result_without_change": ..., "existing_tests": "pass"}}.
Verify yourself: demonstration fails with the change, passes without it (save your change with `git -C {wt} diff > /tmp/...diff`, `git -C {wt} checkout -- .`, run, then `git -C {wt} apply` it back — do NOT use `git stash`: the stash is shared by all worktrees of the repository and other people are working in sibling worktrees), existing tests pass with the change. When done, leave the worktree and {wt}-demo in place (the coordinator will inspect and remove them) and reply with the content of meta.json and the path of out/.""")
