// Package snap takes full snapshots of an MPT (every value leaf: path -> raw stored bytes) and diffs them.
package snap

import (
	"context"
	"encoding/binary"
	"sort"

	"github.com/0chain/common/core/util"
)

// Snapshot maps the full 64-nibble path (as the hex string the trie uses) to the stored value bytes.
type Snapshot map[string][]byte

// Take iterates the whole trie. Missing nodes are returned as an error.
func Take(mpt util.MerklePatriciaTrieI) (Snapshot, error) {
	s := Snapshot{}
	err := mpt.Iterate(context.Background(), func(ctx context.Context, path util.Path, key util.Key, node util.Node) error {
		if node == nil {
			return nil
		}
		vn, ok := node.(*util.ValueNode)
		if !ok {
			return nil
		}
		p := string(append([]byte{}, path...)) // the iterator reuses the path slice
		b := vn.GetValueBytes()
		s[p] = append([]byte{}, b...)
		return nil
	}, util.NodeTypeValueNode)
	return s, err
}

// Delta is the difference between two snapshots.
type Delta struct {
	Changed, Created, Deleted []string
}

// Diff compares two snapshots.
func Diff(pre, post Snapshot) Delta {
	var d Delta
	for p, a := range pre {
		b, ok := post[p]
		if !ok {
			d.Deleted = append(d.Deleted, p)
		} else if string(a) != string(b) {
			d.Changed = append(d.Changed, p)
		}
	}
	for p := range post {
		if _, ok := pre[p]; !ok {
			d.Created = append(d.Created, p)
		}
	}
	sort.Strings(d.Changed)
	sort.Strings(d.Created)
	sort.Strings(d.Deleted)
	return d
}

// Empty tells whether nothing differs.
func (d Delta) Empty() bool { return len(d.Changed)+len(d.Created)+len(d.Deleted) == 0 }

// All returns every touched path.
func (d Delta) All() []string {
	out := append(append(append([]string{}, d.Changed...), d.Created...), d.Deleted...)
	sort.Strings(out)
	return out
}

// ClientLeaf decodes the fixed 56-byte account layout (32 txn hash, round, balance, nonce; little endian).
type ClientLeaf struct {
	Round   int64
	Balance uint64
	Nonce   int64
}

// DecodeClient decodes raw bytes as an account leaf; ok=false if the length does not match.
func DecodeClient(b []byte) (ClientLeaf, bool) {
	if len(b) != 56 {
		return ClientLeaf{}, false
	}
	return ClientLeaf{
		Round:   int64(binary.LittleEndian.Uint64(b[32:40])),
		Balance: binary.LittleEndian.Uint64(b[40:48]),
		Nonce:   int64(binary.LittleEndian.Uint64(b[48:56])),
	}, true
}
