module verifh

go 1.21

require (
	0chain.net v0.0.0
	github.com/0chain/common v1.13.1-0.20240726100134-cbf5bf9beaac
	github.com/alicebob/miniredis/v2 v2.30.5
	github.com/anishathalye/porcupine v1.3.0
	github.com/gomodule/redigo v1.8.9
	github.com/herumi/bls-go-binary v1.33.0
	github.com/tinylib/msgp v1.1.6
	github.com/vmihailenco/msgpack/v5 v5.4.0
	go.uber.org/zap v1.24.0
	golang.org/x/crypto v0.21.0
	gorm.io/gorm v1.25.4
)

require (
	github.com/0chain/errors v1.0.3 // indirect
	github.com/0chain/gosdk v1.16.0 // indirect
	github.com/IBM/sarama v1.42.2 // indirect
	github.com/alicebob/gopher-json v0.0.0-20230218143504-906a9b012302 // indirect
	github.com/asaskevich/govalidator v0.0.0-20230301143203-a9d515a09cc2 // indirect
	github.com/aws/aws-sdk-go-v2 v1.22.2 // indirect
	github.com/aws/aws-sdk-go-v2/config v1.24.0 // indirect
	github.com/aws/aws-sdk-go-v2/credentials v1.15.2 // indirect
	github.com/aws/aws-sdk-go-v2/feature/ec2/imds v1.14.3 // indirect
	github.com/aws/aws-sdk-go-v2/internal/configsources v1.2.2 // indirect
	github.com/aws/aws-sdk-go-v2/internal/endpoints/v2 v2.5.2 // indirect
	github.com/aws/aws-sdk-go-v2/internal/ini v1.7.0 // indirect
	github.com/aws/aws-sdk-go-v2/service/internal/presigned-url v1.10.2 // indirect
	github.com/aws/aws-sdk-go-v2/service/secretsmanager v1.23.1 // indirect
	github.com/aws/aws-sdk-go-v2/service/sso v1.17.1 // indirect
	github.com/aws/aws-sdk-go-v2/service/ssooidc v1.19.1 // indirect
	github.com/aws/aws-sdk-go-v2/service/sts v1.25.1 // indirect
	github.com/aws/smithy-go v1.16.0 // indirect
	github.com/davecgh/go-spew v1.1.1 // indirect
	github.com/didip/tollbooth v4.0.2+incompatible // indirect
	github.com/eapache/go-resiliency v1.6.0 // indirect
	github.com/eapache/go-xerial-snappy v0.0.0-20230731223053-c322873962e3 // indirect
	github.com/eapache/queue v1.1.0 // indirect
	github.com/ethereum/go-ethereum v1.10.26 // indirect
	github.com/fsnotify/fsnotify v1.6.0 // indirect
	github.com/gabriel-vasile/mimetype v1.4.2 // indirect
	github.com/go-openapi/analysis v0.21.4 // indirect
	github.com/go-openapi/errors v0.20.3 // indirect
	github.com/go-openapi/jsonpointer v0.19.5 // indirect
	github.com/go-openapi/jsonreference v0.20.0 // indirect
	github.com/go-openapi/loads v0.21.2 // indirect
	github.com/go-openapi/runtime v0.26.0 // indirect
	github.com/go-openapi/spec v0.20.8 // indirect
	github.com/go-openapi/strfmt v0.21.7 // indirect
	github.com/go-openapi/swag v0.22.3 // indirect
	github.com/go-openapi/validate v0.22.1 // indirect
	github.com/go-playground/locales v0.14.1 // indirect
	github.com/go-playground/universal-translator v0.18.1 // indirect
	github.com/go-playground/validator/v10 v10.15.5 // indirect
	github.com/golang/snappy v0.0.5-0.20220116011046-fa5810519dcb // indirect
	github.com/google/uuid v1.3.0 // indirect
	github.com/guregu/null v4.0.0+incompatible // indirect
	github.com/hashicorp/errwrap v1.0.0 // indirect
	github.com/hashicorp/go-multierror v1.1.1 // indirect
	github.com/hashicorp/go-uuid v1.0.3 // indirect
	github.com/hashicorp/golang-lru v0.5.5-0.20210104140557-80c98217689d // indirect
	github.com/hashicorp/golang-lru/v2 v2.0.7 // indirect
	github.com/hashicorp/hcl v1.0.0 // indirect
	github.com/jackc/pgpassfile v1.0.0 // indirect
	github.com/jackc/pgservicefile v0.0.0-20221227161230-091c0ba34f0a // indirect
	github.com/jackc/pgx/v5 v5.4.3 // indirect
	github.com/jcmturner/aescts/v2 v2.0.0 // indirect
	github.com/jcmturner/dnsutils/v2 v2.0.0 // indirect
	github.com/jcmturner/gofork v1.7.6 // indirect
	github.com/jcmturner/gokrb5/v8 v8.4.4 // indirect
	github.com/jcmturner/rpc/v2 v2.0.3 // indirect
	github.com/jinzhu/inflection v1.0.0 // indirect
	github.com/jinzhu/now v1.1.5 // indirect
	github.com/josharian/intern v1.0.0 // indirect
	github.com/klauspost/compress v1.17.0 // indirect
	github.com/klauspost/cpuid/v2 v2.2.4 // indirect
	github.com/koding/cache v0.0.0-20161222233018-4a3175c6b2fe // indirect
	github.com/leodido/go-urn v1.2.4 // indirect
	github.com/lib/pq v1.10.9 // indirect
	github.com/linxGnu/grocksdb v1.8.1 // indirect
	github.com/lithammer/shortuuid/v3 v3.0.7 // indirect
	github.com/magiconair/properties v1.8.7 // indirect
	github.com/mailru/easyjson v0.7.7 // indirect
	github.com/mattn/go-sqlite3 v1.14.17 // indirect
	github.com/minio/sha256-simd v1.0.1 // indirect
	github.com/mitchellh/mapstructure v1.5.0 // indirect
	github.com/oklog/ulid v1.3.1 // indirect
	github.com/patrickmn/go-cache v2.1.0+incompatible // indirect
	github.com/pelletier/go-toml/v2 v2.0.8 // indirect
	github.com/philhofer/fwd v1.1.2-0.20210722190033-5c56ac6d0bb9 // indirect
	github.com/pierrec/lz4/v4 v4.1.21 // indirect
	github.com/pkg/errors v0.9.1 // indirect
	github.com/pmezard/go-difflib v1.0.0 // indirect
	github.com/pressly/goose/v3 v3.15.0 // indirect
	github.com/rcrowley/go-metrics v0.0.0-20201227073835-cf1acfcdf475 // indirect
	github.com/shopspring/decimal v1.3.1 // indirect
	github.com/spf13/afero v1.9.5 // indirect
	github.com/spf13/cast v1.5.1 // indirect
	github.com/spf13/jwalterweatherman v1.1.0 // indirect
	github.com/spf13/pflag v1.0.5 // indirect
	github.com/spf13/viper v1.16.0 // indirect
	github.com/stretchr/testify v1.9.0 // indirect
	github.com/subosito/gotenv v1.4.2 // indirect
	github.com/valyala/gozstd v1.20.1 // indirect
	github.com/vmihailenco/tagparser/v2 v2.0.0 // indirect
	github.com/yuin/gopher-lua v1.1.0 // indirect
	go.mongodb.org/mongo-driver v1.11.3 // indirect
	go.uber.org/atomic v1.11.0 // indirect
	go.uber.org/multierr v1.9.0 // indirect
	golang.org/x/exp v0.0.0-20230515195305-f3d0a9c9a5cc // indirect
	golang.org/x/net v0.22.0 // indirect
	golang.org/x/sys v0.18.0 // indirect
	golang.org/x/text v0.14.0 // indirect
	golang.org/x/time v0.3.0 // indirect
	gopkg.in/ini.v1 v1.67.0 // indirect
	gopkg.in/natefinch/lumberjack.v2 v2.2.1 // indirect
	gopkg.in/yaml.v2 v2.4.0 // indirect
	gopkg.in/yaml.v3 v3.0.1 // indirect
	gorm.io/driver/postgres v1.5.2 // indirect
	gorm.io/driver/sqlite v1.5.3 // indirect
	moul.io/zapgorm2 v1.3.0 // indirect
)

replace 0chain.net => /repo/code/go/0chain.net

replace github.com/linxGnu/grocksdb => /verif/third_party/grocksdb

replace github.com/tinylib/msgp => github.com/0chain/msgp v1.1.62
