// Package world builds one real 0chain Chain (real rocksdb state DB, real contracts, real genesis) per process
// and offers the primitives the engines need: wallets the harness can sign for, block construction and
// transaction execution through the exported Chain.UpdateState.
package world

import (
	"context"
	"encoding/hex"
	"encoding/json"
	"fmt"
	"os"
	"path/filepath"
	"strings"
	"time"

	"0chain.net/chaincore/block"
	"0chain.net/chaincore/chain"
	"0chain.net/chaincore/client"
	"0chain.net/chaincore/node"
	"0chain.net/chaincore/round"
	"0chain.net/chaincore/state"
	"0chain.net/chaincore/transaction"
	"0chain.net/core/common"
	"0chain.net/core/config"
	"0chain.net/core/datastore"
	"0chain.net/core/encryption"
	"0chain.net/core/memorystore"
	"0chain.net/core/viper"
	"0chain.net/smartcontract/dbs/event"
	"0chain.net/smartcontract/faucetsc"
	"0chain.net/smartcontract/minersc"
	"0chain.net/smartcontract/multisigsc"
	"0chain.net/smartcontract/setupsc"
	"0chain.net/smartcontract/storagesc"
	"0chain.net/smartcontract/vestingsc"
	"0chain.net/smartcontract/zcnsc"
	"github.com/0chain/common/core/currency"
	"github.com/0chain/common/core/logging"
	"github.com/0chain/common/core/statecache"
	"github.com/0chain/common/core/util"
	"github.com/herumi/bls-go-binary/bls"
)

// Epoch is the logical genesis time: far in the past so that no contract comparison with the wall clock can flip.
const Epoch = common.Timestamp(1400000000)

const (
	origOwnerSC    = "1746b06bb09f55ee01b33b5e2e055d6cc7a900cb57c0a3a5eaabb8a0e7745802"
	origOwnerChain = "edb90b850f2e7e7cbd0a1fa370fdcc5cd378ffbec95363a7bc0e5a98b8ba5759"
)

// Wallet is a key pair the harness owns.
type Wallet struct {
	Name   string
	ID     string
	PubKey string
	Scheme encryption.SignatureScheme
	SecHex string
}

func (w *Wallet) Sign(hash string) string {
	s, err := w.Scheme.Sign(hash)
	if err != nil {
		panic(err)
	}
	return s
}

// NewWallet derives a deterministic bls0chain key pair from a label.
func NewWallet(label string) *Wallet {
	raw := encryption.RawHash("verif-wallet:" + label)
	var sk bls.SecretKey
	if err := sk.SetLittleEndianMod(raw); err != nil {
		panic(err)
	}
	pub := sk.GetPublicKey().SerializeToHexStr()
	sec := hex.EncodeToString(sk.GetLittleEndian())
	sch := encryption.NewBLS0ChainScheme()
	if err := sch.ReadKeys(strings.NewReader(pub + "\n" + sec + "\n")); err != nil {
		panic(err)
	}
	pkb, _ := hex.DecodeString(sch.GetPublicKey())
	return &Wallet{Name: label, ID: encryption.Hash(pkb), PubKey: sch.GetPublicKey(), Scheme: sch, SecHex: sec}
}

// Options configure world construction.
type Options struct {
	Seed        uint64
	NumClients  int
	NumMiners   int
	NumSharders int
	ClientFunds currency.Coin
	ViperSet    map[string]interface{} // overrides on the chain config
	SCSet       map[string]interface{} // overrides on sc.yaml (keys relative to "smart_contracts.")
	Redis       bool
	ViewChange  bool
	KeepDir     bool
	// GenesisShape selects how the genesis client distribution is spread over the contract entries of the initial
	// states: 0 all clients under the first entry; 1 round-robin over all entries; 2 all under the last entry;
	// 3 round-robin over the first three entries with an empty first list when there are few clients.
	GenesisShape int
}

// World is one chain instance plus harness key material.
type World struct {
	Opt      Options
	Dir      string
	Chain    *chain.Chain
	Owner    *Wallet
	Clients  []*Wallet
	Miners   []*Wallet
	Sharders []*Wallet
	Wallets  map[string]*Wallet // id -> wallet
	MB       *block.MagicBlock
	GB       *block.Block
	Now      common.Timestamp
	blockSeq int
}

var SCAddresses = map[string]string{
	"faucet":   faucetsc.ADDRESS,
	"miner":    minersc.ADDRESS,
	"storage":  storagesc.ADDRESS,
	"vesting":  vestingsc.ADDRESS,
	"zcn":      zcnsc.ADDRESS,
	"multisig": multisigsc.Address,
	"probe":    ProbeAddress,
}

func must(err error) {
	if err != nil {
		panic(err)
	}
}

func repoRoot() string {
	if r := os.Getenv("VERIF_REPO"); r != "" {
		return r
	}
	return "/repo"
}

// New builds the world. Only one world per process: 0chain keeps its configuration and registries in globals.
func New(opt Options) *World {
	if opt.NumClients == 0 {
		opt.NumClients = 6
	}
	if opt.NumMiners == 0 {
		opt.NumMiners = 4
	}
	if opt.NumSharders == 0 {
		opt.NumSharders = 2
	}
	if opt.ClientFunds == 0 {
		opt.ClientFunds = 1e15
	}
	w := &World{Opt: opt, Wallets: map[string]*Wallet{}}
	tmp := os.Getenv("VERIF_TMP")
	if tmp == "" {
		tmp = os.TempDir()
	}
	dir, err := os.MkdirTemp(tmp, "verifw-")
	must(err)
	w.Dir = dir
	must(os.MkdirAll(filepath.Join(dir, "config"), 0o755))
	must(os.MkdirAll(filepath.Join(dir, "log"), 0o755))
	must(os.MkdirAll(filepath.Join(dir, "data", "rocksdb", "state"), 0o755))

	w.Owner = w.mk("owner")
	for i := 0; i < opt.NumClients; i++ {
		w.Clients = append(w.Clients, w.mk(fmt.Sprintf("client%d", i)))
	}
	for i := 0; i < opt.NumMiners; i++ {
		w.Miners = append(w.Miners, w.mk(fmt.Sprintf("miner%d", i)))
	}
	for i := 0; i < opt.NumSharders; i++ {
		w.Sharders = append(w.Sharders, w.mk(fmt.Sprintf("sharder%d", i)))
	}

	// configuration: the repository's own files with the owner ids replaced by a key the harness holds
	cfgDir := filepath.Join(repoRoot(), "docker.local", "config")
	c0, err := os.ReadFile(filepath.Join(cfgDir, "0chain.yaml"))
	must(err)
	sc, err := os.ReadFile(filepath.Join(cfgDir, "sc.yaml"))
	must(err)
	c0s := strings.ReplaceAll(string(c0), origOwnerChain, w.Owner.ID)
	scs := strings.ReplaceAll(string(sc), origOwnerSC, w.Owner.ID)
	must(os.WriteFile(filepath.Join(dir, "config", "0chain.yaml"), []byte(c0s), 0o644))
	must(os.WriteFile(filepath.Join(dir, "config", "sc.yaml"), []byte(scs), 0o644))

	logging.InitLogging("testing", "")
	config.Configuration().DeploymentMode = config.DeploymentDevelopment
	config.SetupDefaultConfig()
	config.SetupConfig(dir)
	config.SetupSmartContractConfig(dir)
	for _, k := range []string{"storage", "faucet", "miner", "multisig", "vesting", "zcn"} {
		viper.Set("server_chain.smart_contract."+k, true)
	}
	viper.Set("server_chain.smart_contract.timeout", "60s")
	viper.Set("server_chain.dbs.events.enabled", false)
	viper.Set("server_chain.view_change", opt.ViewChange)
	for k, v := range opt.ViperSet {
		viper.Set(k, v)
	}
	for k, v := range opt.SCSet {
		config.SmartContractConfig.Set("smart_contracts."+k, v)
	}
	config.Configuration().ChainID = viper.GetString("server_chain.id")
	transaction.SetTxnTimeout(int64(viper.GetInt("server_chain.transaction.timeout")))
	config.SetServerChainID(config.Configuration().ChainID)
	common.SetupRootContext(node.GetNodeContext())

	var store datastore.Store = memorystore.GetStorageProvider()
	chain.SetupEntity(store, dir)
	round.SetupEntity(store)
	round.SetupVRFShareEntity(store)
	block.SetupEntity(store)
	block.SetupBlockSummaryEntity(store)
	block.SetupStateChange(store)
	state.SetupPartialState(store)
	state.SetupStateNodes(store)
	client.SetupEntity(store)
	transaction.SetupEntity(store)
	setupsc.SetupSmartContracts()
	registerProbe()

	c := chain.NewChainFromConfig()
	w.Chain = c
	c.SetupStateCache()
	chain.SetServerChain(c)
	go c.StartLFMBWorker(common.GetRootContext())

	// magic block and self node
	mb := block.NewMagicBlock()
	mb.Miners = node.NewPool(node.NodeTypeMiner)
	mb.Sharders = node.NewPool(node.NodeTypeSharder)
	mb.StartingRound = 0
	mb.MagicBlockNumber = 1
	for i, m := range w.Miners {
		n := &node.Node{Type: node.NodeTypeMiner, Host: "127.0.0.1", N2NHost: "127.0.0.1", Port: 7071 + i, Status: node.NodeStatusActive, SetIndex: i}
		must(n.SetSignatureScheme(m.Scheme))
		n.Client.ID = m.ID
		must(mb.Miners.AddNode(n))
		if i == 0 {
			node.Self = &node.SelfNode{}
			node.Self.Node = n
			must(node.Self.SetSignatureScheme(m.Scheme))
		}
	}
	for i, s := range w.Sharders {
		n := &node.Node{Type: node.NodeTypeSharder, Host: "127.0.0.1", N2NHost: "127.0.0.1", Port: 7171 + i, Status: node.NodeStatusActive, SetIndex: i}
		must(n.SetSignatureScheme(s.Scheme))
		n.Client.ID = s.ID
		must(mb.Sharders.AddNode(n))
	}
	mb.T = (len(w.Miners)*66 + 99) / 100
	mb.N = len(w.Miners)
	mb.K = len(w.Miners)
	mb.Hash = mb.GetHash()
	w.MB = mb

	// genesis distribution: the whole supply, split between contract wallets, owner and clients
	is := state.NewInitStates()
	var clientsTotal currency.Coin
	var ids []state.IDTokens
	for i, cl := range w.Clients {
		f := opt.ClientFunds
		if i == 0 {
			f = 2e17 // one rich client: amounts beyond 2^53 (float64 precision) are reachable
		}
		ids = append(ids, state.IDTokens{ID: cl.ID, Tokens: f})
		clientsTotal += f
	}
	ids = append(ids, state.IDTokens{ID: w.Owner.ID, Tokens: opt.ClientFunds})
	clientsTotal += opt.ClientFunds
	ids = append(ids, state.IDTokens{ID: ProbeAddress, Tokens: 1e15}) // wallet of the probe contract
	clientsTotal += 1e15
	for _, n := range append(append([]*Wallet{}, w.Miners...), w.Sharders...) {
		ids = append(ids, state.IDTokens{ID: n.ID, Tokens: opt.ClientFunds})
		clientsTotal += opt.ClientFunds
	}
	per := currency.Coin(config.MaxTokenSupply / 10)
	scOrder := []string{"miner", "storage", "faucet", "zcn", "vesting"}
	var used currency.Coin
	for i, name := range scOrder {
		tok := per
		st := state.InitState{ID: SCAddresses[name], Tokens: tok}
		if i == 0 {
			// miner contract wallet carries the remainder of the supply (and, in shape 0, the whole client distribution)
			st.Tokens = currency.Coin(config.MaxTokenSupply) - per*currency.Coin(len(scOrder)-1)
		}
		switch opt.GenesisShape {
		case 0:
			if i == 0 {
				st.State = ids
			}
		case 1:
			for k, it := range ids {
				if k%len(scOrder) == i {
					st.State = append(st.State, it)
				}
			}
		case 2:
			if i == len(scOrder)-1 {
				st.State = ids
			}
		default:
			for k, it := range ids {
				if 1+k%3 == i {
					st.State = append(st.State, it)
				}
			}
		}
		used += st.Tokens
		is.States = append(is.States, st)
	}
	if used != currency.Coin(config.MaxTokenSupply) {
		panic("genesis distribution does not add up")
	}
	_ = clientsTotal

	gr, gb := c.GenerateGenesisBlock(viper.GetString("server_chain.genesis_block.id"), mb, is)
	gb.CreationDate = Epoch
	c.AddGenesisBlock(gb)
	c.AddRound(gr)
	w.GB = gb
	w.Now = Epoch
	return w
}

func (w *World) mk(label string) *Wallet {
	wl := NewWallet(fmt.Sprintf("%d:%s", w.Opt.Seed, label))
	wl.Name = label
	w.Wallets[wl.ID] = wl
	return wl
}

// AddWallet creates (and remembers) another deterministic wallet.
func (w *World) AddWallet(label string) *Wallet { return w.mk(label) }

// Close releases the rocksdb directory.
func (w *World) Close() {
	defer func() { _ = recover() }()
	chain.CloseStateDB()
	if !w.Opt.KeepDir {
		os.RemoveAll(w.Dir)
	}
}

// BlockCtx is a block under construction.
type BlockCtx struct {
	W     *World
	B     *block.Block
	State util.MerklePatriciaTrieI
	Cache *statecache.BlockCache
	Prev  *block.Block
}

// NewBlock opens a block on top of prev, the way Block.ComputeState and the generator do.
func (w *World) NewBlock(prev *block.Block, roundNum int64, minerIdx int) *BlockCtx {
	b := block.NewBlock(w.Chain.GetKey(), roundNum)
	b.MinerID = w.Miners[minerIdx%len(w.Miners)].ID
	b.SetPreviousBlock(prev)
	w.blockSeq++
	b.CreationDate = w.Now
	b.SetRoundRandomSeed(int64(encryption.RawHash(fmt.Sprintf("seed:%d:%d:%d", w.Opt.Seed, roundNum, w.blockSeq))[0])<<32 | int64(w.blockSeq) + 1)
	b.Hash = encryption.Hash(fmt.Sprintf("verif-block:%d:%d:%d:%s", w.Opt.Seed, roundNum, w.blockSeq, prev.Hash))
	st := block.CreateStateWithPreviousBlock(prev, w.Chain.GetStateDB(), roundNum)
	bc := statecache.NewBlockCache(w.Chain.GetStateCache(), statecache.Block{Round: b.Round, Hash: b.Hash, PrevHash: b.PrevHash})
	return &BlockCtx{W: w, B: b, State: st, Cache: bc, Prev: prev}
}

// Exec runs one transaction through the real Chain.UpdateState.
func (bc *BlockCtx) Exec(txn *transaction.Transaction) ([]event.Event, error) {
	ev, err := bc.W.Chain.UpdateState(context.Background(), bc.B, bc.State, txn, bc.Cache)
	if err == nil {
		bc.B.Txns = append(bc.B.Txns, txn)
	}
	return ev, err
}

// Seal finishes the block: state root, status, cache commit.
func (bc *BlockCtx) Seal() *block.Block {
	b := bc.B
	b.SetClientState(bc.State)
	b.ClientStateHash = bc.State.GetRoot()
	b.SetStateChangesCount(bc.State)
	b.SetStateStatus(block.StateSuccessful)
	bc.Cache.Commit()
	return b
}

// TxnSpec describes a transaction to be built and signed.
type TxnSpec struct {
	From     *Wallet
	To       string
	Value    currency.Coin
	Fee      currency.Coin
	Nonce    int64
	Type     int
	Func     string
	Input    interface{} // marshalled to JSON unless RawInput is set
	RawInput []byte
	Data     string // for data/send txns
	Time     common.Timestamp
}

// MakeTxn builds, hashes and signs a transaction.
func (w *World) MakeTxn(s TxnSpec) *transaction.Transaction {
	t := transaction.Provider().(*transaction.Transaction)
	t.ClientID = s.From.ID
	t.PublicKey = s.From.PubKey
	t.ToClientID = s.To
	t.Value = s.Value
	t.Fee = s.Fee
	t.Nonce = s.Nonce
	t.TransactionType = s.Type
	t.ChainID = w.Chain.GetKey()
	if s.Time == 0 {
		s.Time = w.Now
	}
	t.CreationDate = s.Time
	if s.Type == transaction.TxnTypeSmartContract {
		in := s.RawInput
		if in != nil && len(in) == 0 {
			in = []byte("null")
		}
		if in == nil {
			var err error
			in, err = json.Marshal(s.Input)
			must(err)
		}
		d, err := json.Marshal(map[string]interface{}{"name": s.Func, "input": json.RawMessage(in)})
		must(err)
		t.TransactionData = string(d)
	} else {
		t.TransactionData = s.Data
	}
	must(t.ComputeProperties())
	t.Hash = t.ComputeHash()
	t.Signature = s.From.Sign(t.Hash)
	return t
}

// Advance moves logical time forward.
func (w *World) Advance(d time.Duration) { w.Now += common.Timestamp(d / time.Second) }

// Reopen starts a second, independent execution of an already built block: same header (hash, round, miner, seed, time),
// same previous block, fresh state trie and block cache.
func (w *World) Reopen(orig *block.Block) *BlockCtx {
	b := block.NewBlock(w.Chain.GetKey(), orig.Round)
	b.MinerID = orig.MinerID
	b.SetPreviousBlock(orig.PrevBlock)
	b.CreationDate = orig.CreationDate
	b.SetRoundRandomSeed(orig.GetRoundRandomSeed())
	b.Hash = orig.Hash
	st := block.CreateStateWithPreviousBlock(orig.PrevBlock, w.Chain.GetStateDB(), orig.Round)
	bc := statecache.NewBlockCache(w.Chain.GetStateCache(), statecache.Block{Round: b.Round, Hash: b.Hash, PrevHash: b.PrevHash})
	return &BlockCtx{W: w, B: b, State: st, Cache: bc, Prev: orig.PrevBlock}
}
