package world

import (
	"context"
	"encoding/json"
	"errors"
	"net/url"

	cstate "0chain.net/chaincore/chain/state"
	"0chain.net/chaincore/smartcontract"
	sci "0chain.net/chaincore/smartcontractinterface"
	"0chain.net/chaincore/state"
	"0chain.net/chaincore/transaction"
	"0chain.net/core/encryption"
	"github.com/0chain/common/core/currency"
)

// ProbeAddress is the address of the harness' probe contract: an HONEST contract (it only moves its own wallet's tokens,
// or the sender's tokens up to the transaction value) that lets the workload reach chain-level transfer handling with
// arbitrary amounts, orders, repeated pairs, self transfers and late failures — independent of what the six real
// contracts happen to queue.
var ProbeAddress = encryption.Hash("verif-probe-smart-contract")

type probeSC struct{ *sci.SmartContract }

// ProbeStep is one queued transfer of a probe call.
type ProbeStep struct {
	From   string `json:"from"` // "sc" (probe wallet) or "sender"
	To     string `json:"to"`
	Amount uint64 `json:"amount"`
}

// ProbeInput is the input of the probe contract's "run" function.
type ProbeInput struct {
	Steps    []ProbeStep `json:"steps"`
	ThenFail bool        `json:"then_fail"` // return an error AFTER queuing the transfers (chargeable failure after partial work)
}

func (p *probeSC) Execute(t *transaction.Transaction, fn string, input []byte, balances cstate.StateContextI) (string, error) {
	if fn != "run" {
		return "", errors.New("probe: unknown function")
	}
	var in ProbeInput
	if err := json.Unmarshal(input, &in); err != nil {
		return "", err
	}
	var fromSender uint64
	for _, s := range in.Steps {
		from := ProbeAddress
		if s.From == "sender" {
			from = t.ClientID
			if fromSender+s.Amount < fromSender || fromSender+s.Amount > uint64(t.Value) {
				return "", errors.New("probe: would debit the sender above the transaction value")
			}
			fromSender += s.Amount
		}
		if err := balances.AddTransfer(state.NewTransfer(from, s.To, currency.Coin(s.Amount))); err != nil {
			return "", err
		}
	}
	if in.ThenFail {
		return "", errors.New("probe: requested failure after queuing transfers")
	}
	return "probe ok", nil
}

func (p *probeSC) GetHandlerStats(ctx context.Context, params url.Values) (interface{}, error) {
	return nil, nil
}
func (p *probeSC) GetExecutionStats() map[string]interface{} { return p.SmartContractExecutionStats }
func (p *probeSC) GetName() string                            { return "verifprobe" }
func (p *probeSC) GetAddress() string                         { return ProbeAddress }
func (p *probeSC) GetCostTable(cstate.StateContextI) (map[string]int, error) {
	return map[string]int{"run": 1}, nil
}

func registerProbe() {
	smartcontract.ContractMap[ProbeAddress] = &probeSC{sci.NewSC(ProbeAddress)}
}
