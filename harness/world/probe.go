package world

import (
	"context"
	"encoding/json"
	"errors"
	"net/url"
	"strconv"

	cstate "0chain.net/chaincore/chain/state"
	"0chain.net/chaincore/smartcontract"
	sci "0chain.net/chaincore/smartcontractinterface"
	"0chain.net/chaincore/state"
	"0chain.net/chaincore/transaction"
	"0chain.net/core/encryption"
	"0chain.net/smartcontract/partitions"
	"github.com/0chain/common/core/currency"
	"github.com/tinylib/msgp/msgp"
)

// ProbeAddress is the address of the harness' probe contract: an HONEST contract (it only moves its own wallet's tokens,
// or the sender's tokens up to the transaction value) that lets the workload reach chain-level transfer handling with
// arbitrary amounts, orders, repeated pairs, self transfers and late failures — independent of what the six real
// contracts happen to queue.
var ProbeAddress = encryption.Hash("verif-probe-smart-contract")

type probeSC struct{ *sci.SmartContract }

// ProbeStep is one queued transfer of a probe call.
type ProbeStep struct {
	From   string `json:"from"` // "sc" (probe wallet) or "sender"
	To     string `json:"to"`
	Amount uint64 `json:"amount"`
}

// ProbeInput is the input of the probe contract's "run" function.
type ProbeInput struct {
	Steps    []ProbeStep `json:"steps"`
	ThenFail bool        `json:"then_fail"` // return an error AFTER queuing the transfers (chargeable failure after partial work)
}

// ProbePartStep is one operation on the probe contract's own partitions list (the real partitions library on the real state
// context): "add", "update", "remove", "get", "exist", "size".
type ProbePartStep struct {
	Op   string `json:"op"`
	ID   string `json:"id"`
	Data string `json:"data"`
}

// ProbePartsInput is the input of the probe contract's "parts" function: a sequence of partition operations, then optionally
// no Save (objects read through the cache were mutated in place and dropped) and optionally a chargeable failure after the work.
type ProbePartsInput struct {
	List     int             `json:"list"` // which of the probe's lists (partition sizes 2, 3, 5)
	Steps    []ProbePartStep `json:"steps"`
	SkipSave bool            `json:"skip_save"`
	ThenFail bool            `json:"then_fail"`
}

// ProbePartSizes are the partition sizes of the probe lists.
var ProbePartSizes = []int{2, 3, 5}

// ProbePartsName names a probe list.
func ProbePartsName(i int) string { return ProbeAddress + ":verif-parts:" + string(rune('a'+i)) }

// ProbeItem is the item type stored in the probe lists.
type ProbeItem struct {
	ID   string
	Data string
}

func (i *ProbeItem) GetID() string { return i.ID }
func (i *ProbeItem) Msgsize() int   { return 16 + len(i.ID) + len(i.Data) }
func (i *ProbeItem) MarshalMsg(b []byte) ([]byte, error) {
	b = msgp.AppendArrayHeader(b, 2)
	b = msgp.AppendString(b, i.ID)
	return msgp.AppendString(b, i.Data), nil
}
func (i *ProbeItem) UnmarshalMsg(b []byte) ([]byte, error) {
	n, b, err := msgp.ReadArrayHeaderBytes(b)
	if err != nil || n != 2 {
		return b, errors.New("probe item: bad header")
	}
	if i.ID, b, err = msgp.ReadStringBytes(b); err != nil {
		return b, err
	}
	i.Data, b, err = msgp.ReadStringBytes(b)
	return b, err
}

func (p *probeSC) parts(input []byte, balances cstate.StateContextI) (string, error) {
	var in ProbePartsInput
	if err := json.Unmarshal(input, &in); err != nil {
		return "", err
	}
	if in.List < 0 || in.List >= len(ProbePartSizes) {
		return "", errors.New("probe: no such list")
	}
	ps, err := partitions.CreateIfNotExists(balances, ProbePartsName(in.List), ProbePartSizes[in.List])
	if err != nil {
		return "", err
	}
	out := ""
	for _, st := range in.Steps {
		var e error
		switch st.Op {
		case "add":
			e = ps.Add(balances, &ProbeItem{ID: st.ID, Data: st.Data})
		case "update":
			e = ps.UpdateItem(balances, &ProbeItem{ID: st.ID, Data: st.Data})
		case "remove":
			e = ps.Remove(balances, st.ID)
		case "get":
			var it ProbeItem
			if _, e = ps.Get(balances, st.ID, &it); e == nil {
				out += st.ID + "=" + it.Data + ";"
			}
		case "exist":
			var ok bool
			if ok, e = ps.Exist(balances, st.ID); e == nil && ok {
				out += st.ID + "+;"
			}
		case "size":
			var n int
			if n, e = ps.Size(balances); e == nil {
				out += "n=" + strconv.Itoa(n) + ";"
			}
		default:
			return "", errors.New("probe: unknown partition op")
		}
		if e != nil {
			if partitions.ErrItemNotFound(e) || partitions.ErrItemExist(e) {
				out += st.Op + ":" + st.ID + ":refused;"
				continue
			}
			return "", e
		}
	}
	if !in.SkipSave {
		if err := ps.Save(balances); err != nil {
			return "", err
		}
	}
	if in.ThenFail {
		return "", errors.New("probe: requested failure after partition work")
	}
	return "probe parts " + out, nil
}

func (p *probeSC) Execute(t *transaction.Transaction, fn string, input []byte, balances cstate.StateContextI) (string, error) {
	if fn == "parts" {
		return p.parts(input, balances)
	}
	if fn != "run" {
		return "", errors.New("probe: unknown function")
	}
	var in ProbeInput
	if err := json.Unmarshal(input, &in); err != nil {
		return "", err
	}
	var fromSender uint64
	for _, s := range in.Steps {
		from := ProbeAddress
		if s.From == "sender" {
			from = t.ClientID
			if fromSender+s.Amount < fromSender || fromSender+s.Amount > uint64(t.Value) {
				return "", errors.New("probe: would debit the sender above the transaction value")
			}
			fromSender += s.Amount
		}
		if err := balances.AddTransfer(state.NewTransfer(from, s.To, currency.Coin(s.Amount))); err != nil {
			return "", err
		}
	}
	if in.ThenFail {
		return "", errors.New("probe: requested failure after queuing transfers")
	}
	return "probe ok", nil
}

func (p *probeSC) GetHandlerStats(ctx context.Context, params url.Values) (interface{}, error) {
	return nil, nil
}
func (p *probeSC) GetExecutionStats() map[string]interface{} { return p.SmartContractExecutionStats }
func (p *probeSC) GetName() string                            { return "verifprobe" }
func (p *probeSC) GetAddress() string                         { return ProbeAddress }
func (p *probeSC) GetCostTable(cstate.StateContextI) (map[string]int, error) {
	return map[string]int{"run": 1, "parts": 1}, nil
}

func registerProbe() {
	smartcontract.ContractMap[ProbeAddress] = &probeSC{sci.NewSC(ProbeAddress)}
}
