package mon

import (
	"encoding/json"
	"fmt"
	"os"
	"os/exec"
	"path/filepath"
	"sync"
	"syscall"
	"time"
)

// ChildSpec is one child process of an engine (0chain keeps its world in process globals, so every
// world lives in its own process; a panic or fatal error in one child cannot take the monitors of the others down).
type ChildSpec struct {
	Name    string
	Args    []string
	Env     []string
	Timeout time.Duration
}

// ChildResult is what came back.
type ChildResult struct {
	Spec     ChildSpec
	Partial  *Partial
	TimedOut bool
	Crashed  bool
	ExitCode int
	LogPath  string
	LogTail  string
}

// IsChild tells whether this process was started by RunChildren.
func IsChild() bool { return os.Getenv("VERIF_CHILD_OUT") != "" }

// Checkpoint writes the run's partial state where the parent will find it (atomic rename), so that a later
// crash of this child still leaves everything observed so far.
func (r *Run) Checkpoint() {
	out := os.Getenv("VERIF_CHILD_OUT")
	if out == "" {
		return
	}
	b, err := json.Marshal(r.Export())
	if err != nil {
		return
	}
	tmp := out + ".tmp"
	if os.WriteFile(tmp, b, 0o644) == nil {
		_ = os.Rename(tmp, out)
	}
}

// ScratchDir returns (and creates) the per-run scratch directory.
func ScratchDir() string {
	d := os.Getenv("VERIF_TMP")
	if d == "" {
		d = filepath.Join(os.TempDir(), fmt.Sprintf("verif-%d", os.Getpid()))
		os.Setenv("VERIF_TMP", d)
	}
	_ = os.MkdirAll(d, 0o755)
	return d
}

// RunChildren re-executes this binary once per spec, at most `parallel` at a time, and merges every child's
// partial result into r. A watchdog firing makes the run inconclusive (never a violation); a crash is
// reported to the caller through ChildResult so that the engine can decide (DESIGN §2.8).
func RunChildren(r *Run, specs []ChildSpec, parallel int) []ChildResult {
	if parallel <= 0 {
		parallel = 8
	}
	scratch := ScratchDir()
	res := make([]ChildResult, len(specs))
	sem := make(chan struct{}, parallel)
	var wg sync.WaitGroup
	for i := range specs {
		wg.Add(1)
		go func(i int) {
			defer wg.Done()
			sem <- struct{}{}
			defer func() { <-sem }()
			sp := specs[i]
			if sp.Timeout == 0 {
				sp.Timeout = 5 * time.Minute
			}
			out := filepath.Join(scratch, fmt.Sprintf("child-%d-%d.json", os.Getpid(), i))
			logp := filepath.Join(scratch, fmt.Sprintf("child-%d-%d.log", os.Getpid(), i))
			childTmp := filepath.Join(scratch, fmt.Sprintf("c%d", i))
			_ = os.MkdirAll(childTmp, 0o755)
			lf, _ := os.Create(logp)
			cmd := exec.Command(os.Args[0], sp.Args...)
			cmd.Stdout = lf
			cmd.Stderr = lf
			cmd.Env = append(os.Environ(), "VERIF_CHILD_OUT="+out, "VERIF_TMP="+childTmp, "TMPDIR="+childTmp)
			cmd.Env = append(cmd.Env, sp.Env...)
			cr := ChildResult{Spec: sp, LogPath: logp}
			if err := cmd.Start(); err != nil {
				cr.Crashed = true
				cr.LogTail = err.Error()
				res[i] = cr
				return
			}
			done := make(chan error, 1)
			go func() { done <- cmd.Wait() }()
			select {
			case err := <-done:
				if err != nil {
					cr.Crashed = true
					if ee, ok := err.(*exec.ExitError); ok {
						cr.ExitCode = ee.ExitCode()
					}
				}
			case <-time.After(sp.Timeout):
				cr.TimedOut = true
				_ = cmd.Process.Signal(syscall.SIGQUIT)
				select {
				case <-done:
				case <-time.After(10 * time.Second):
					_ = cmd.Process.Kill()
					<-done
				}
			}
			lf.Close()
			if b, err := os.ReadFile(out); err == nil {
				var p Partial
				if json.Unmarshal(b, &p) == nil {
					cr.Partial = &p
				}
			}
			cr.LogTail = tail(logp, 6000)
			os.RemoveAll(childTmp)
			os.Remove(out)
			res[i] = cr
		}(i)
	}
	wg.Wait()
	for i := range res {
		cr := &res[i]
		if cr.Partial != nil {
			r.Merge(*cr.Partial)
		}
		if cr.TimedOut {
			r.Inconclusive(fmt.Sprintf("child %s: watchdog after %s", cr.Spec.Name, cr.Spec.Timeout))
			r.Count("child_watchdogs", 1)
		} else if cr.Crashed {
			r.Count("child_crashes", 1)
		}
	}
	return res
}

// KeepLog copies a child's log next to the replays so a VIOLATION line can point at it.
func KeepLog(cr ChildResult, name string) string {
	dir := filepath.Join(VerifDir(), "replays")
	_ = os.MkdirAll(dir, 0o755)
	dst := filepath.Join(dir, name)
	_ = os.WriteFile(dst, []byte(cr.LogTail), 0o644)
	return dst
}

func tail(path string, n int64) string {
	f, err := os.Open(path)
	if err != nil {
		return ""
	}
	defer f.Close()
	st, _ := f.Stat()
	off := st.Size() - n
	if off < 0 {
		off = 0
	}
	b := make([]byte, st.Size()-off)
	_, _ = f.ReadAt(b, off)
	return string(b)
}

// CleanScratch removes the scratch directory of a parent process.
func CleanScratch() {
	if IsChild() {
		return
	}
	if d := os.Getenv("VERIF_TMP"); d != "" {
		os.RemoveAll(d)
	}
}
