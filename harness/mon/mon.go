// Package mon holds the verdict/evidence plumbing shared by every engine.
//
// A check creates one Run per property, feeds it observations (Eval / Distinct / Sample / Count), reports
// violations with a stable *signature* (matched against /verif/known_findings.json) and calls Finish, which
// writes evidence/<id>.json, prints VIOLATION / KNOWN-FINDING / INCONCLUSIVE lines and returns the exit code.
package mon

import (
	"crypto/sha256"
	"encoding/hex"
	"encoding/json"
	"fmt"
	"os"
	"path/filepath"
	"sort"
	"strconv"
	"strings"
	"sync"
	"time"
)

// VerifDir is /verif unless overridden (background snapshots run from another directory).
func VerifDir() string {
	if d := os.Getenv("VERIF_DIR"); d != "" {
		return d
	}
	return "/verif"
}

// Seed returns VERIF_SEED (default 1).
func Seed() uint64 {
	if s := os.Getenv("VERIF_SEED"); s != "" {
		if v, err := strconv.ParseUint(s, 10, 64); err == nil {
			return v
		}
		if v, err := strconv.ParseInt(s, 10, 64); err == nil {
			return uint64(v)
		}
	}
	return 1
}

// Violation is one observed refutation of the property.
type Violation struct {
	Property  string      `json:"property"`
	Signature string      `json:"signature"` // stable class of the failing input / call site
	Detail    string      `json:"detail"`
	Replay    interface{} `json:"replay,omitempty"`
}

// KnownFinding is an entry of known_findings.json.
type KnownFinding struct {
	Property  string `json:"property"`
	Signature string `json:"signature"`
	What      string `json:"what"`
	Status    string `json:"status"` // "open" suppresses (KNOWN-FINDING line); "fixed" suppresses nothing
	Commit    string `json:"commit,omitempty"`
}

// Run accumulates what one check observed for one property.
type Run struct {
	mu          sync.Mutex
	Property    string
	Tier        string
	SeedV       uint64
	Level       string
	Rule        string
	Start       time.Time
	evals       int64
	distinct    map[string]struct{}
	samples     []interface{}
	maxSamples  int
	counters    map[string]int64
	violations  []Violation
	inconcl     []string
	assumptions []string
	extra       map[string]interface{}
	exhaustive  bool
	minEvals    map[string]int64 // counter name -> minimum for a conclusive run
}

// NewRun starts a run. level is the MANIFEST level category.
func NewRun(property, tier, level, rule string) *Run {
	if tier != "thorough" {
		tier = "quick"
	}
	return &Run{Property: property, Tier: tier, SeedV: Seed(), Level: level, Rule: rule, Start: time.Now(),
		distinct: map[string]struct{}{}, counters: map[string]int64{}, extra: map[string]interface{}{}, maxSamples: 6,
		minEvals: map[string]int64{}}
}

// Eval counts one evaluated case (execution / input / call judged by the oracle).
func (r *Run) Eval(n int64) { r.mu.Lock(); r.evals += n; r.mu.Unlock() }

// Distinct records a non-trivial case by its key; equal keys are counted once.
func (r *Run) Distinct(key string) {
	h := sha256.Sum256([]byte(key))
	k := hex.EncodeToString(h[:12])
	r.mu.Lock()
	r.distinct[k] = struct{}{}
	r.mu.Unlock()
}

// DistinctHashed merges already-hashed keys (from child processes).
func (r *Run) DistinctHashed(keys []string) {
	r.mu.Lock()
	for _, k := range keys {
		r.distinct[k] = struct{}{}
	}
	r.mu.Unlock()
}

// Sample keeps a few literal cases for the evidence file.
func (r *Run) Sample(v interface{}) {
	r.mu.Lock()
	if len(r.samples) < r.maxSamples {
		r.samples = append(r.samples, v)
	}
	r.mu.Unlock()
}

// Count bumps a named monitor counter (how often an assertion was actually evaluated, op histograms, …).
func (r *Run) Count(name string, n int64) { r.mu.Lock(); r.counters[name] += n; r.mu.Unlock() }

// Counter reads a counter.
func (r *Run) Counter(name string) int64 { r.mu.Lock(); defer r.mu.Unlock(); return r.counters[name] }

// RequireMin declares that counter `name` must reach n for the run to be conclusive.
func (r *Run) RequireMin(name string, n int64) { r.mu.Lock(); r.minEvals[name] = n; r.mu.Unlock() }

// Violate records a violation.
func (r *Run) Violate(signature, detail string, replay interface{}) {
	r.mu.Lock()
	if len(r.violations) < 200 {
		r.violations = append(r.violations, Violation{Property: r.Property, Signature: signature, Detail: detail, Replay: replay})
	}
	r.mu.Unlock()
}

// Inconclusive records a reason why the run cannot be called "held".
func (r *Run) Inconclusive(reason string) {
	r.mu.Lock()
	r.inconcl = append(r.inconcl, reason)
	r.mu.Unlock()
}

// Assume records a stated assumption / trusted base.
func (r *Run) Assume(s string) { r.mu.Lock(); r.assumptions = append(r.assumptions, s); r.mu.Unlock() }

// Set stores an extra coverage key.
func (r *Run) Set(key string, v interface{}) { r.mu.Lock(); r.extra[key] = v; r.mu.Unlock() }

// DropExtra removes extra keys with a prefix (transport-only data that is not coverage).
func (r *Run) DropExtra(prefix string) {
	r.mu.Lock()
	for k := range r.extra {
		if strings.HasPrefix(k, prefix) {
			delete(r.extra, k)
		}
	}
	r.mu.Unlock()
}

// Exhaustive marks that a finite space was enumerated completely.
func (r *Run) Exhaustive(b bool) { r.mu.Lock(); r.exhaustive = b; r.mu.Unlock() }

// Violations returns the violations so far.
func (r *Run) Violations() []Violation {
	r.mu.Lock()
	defer r.mu.Unlock()
	return append([]Violation{}, r.violations...)
}

// Partial is the serialisable state of a Run, used to merge child-process results.
type Partial struct {
	Evals       int64                  `json:"evals"`
	Distinct    []string               `json:"distinct"`
	Samples     []interface{}          `json:"samples"`
	Counters    map[string]int64       `json:"counters"`
	Violations  []Violation            `json:"violations"`
	Inconcl     []string               `json:"inconclusive"`
	Assumptions []string               `json:"assumptions"`
	Extra       map[string]interface{} `json:"extra"`
}

// Export returns the run's state for a parent process.
func (r *Run) Export() Partial {
	r.mu.Lock()
	defer r.mu.Unlock()
	p := Partial{Evals: r.evals, Samples: r.samples, Counters: r.counters, Violations: r.violations, Inconcl: r.inconcl, Assumptions: r.assumptions, Extra: r.extra}
	for k := range r.distinct {
		p.Distinct = append(p.Distinct, k)
	}
	sort.Strings(p.Distinct)
	return p
}

// Merge folds a child's partial result into the run.
func (r *Run) Merge(p Partial) {
	r.mu.Lock()
	defer r.mu.Unlock()
	r.evals += p.Evals
	for _, k := range p.Distinct {
		r.distinct[k] = struct{}{}
	}
	for _, s := range p.Samples {
		if len(r.samples) < r.maxSamples {
			r.samples = append(r.samples, s)
		}
	}
	for k, v := range p.Counters {
		r.counters[k] += v
	}
	r.violations = append(r.violations, p.Violations...)
	r.inconcl = append(r.inconcl, p.Inconcl...)
	for _, a := range p.Assumptions {
		dup := false
		for _, b := range r.assumptions {
			if a == b {
				dup = true
			}
		}
		if !dup {
			r.assumptions = append(r.assumptions, a)
		}
	}
	for k, v := range p.Extra {
		if _, ok := r.extra[k]; !ok {
			r.extra[k] = v
		}
	}
}

// LoadKnown reads known_findings.json (missing file = none).
func LoadKnown() []KnownFinding {
	b, err := os.ReadFile(filepath.Join(VerifDir(), "known_findings.json"))
	if err != nil {
		return nil
	}
	var f struct {
		Findings []KnownFinding `json:"findings"`
	}
	if err := json.Unmarshal(b, &f); err != nil {
		fmt.Fprintf(os.Stderr, "known_findings.json unreadable: %v\n", err)
		return nil
	}
	return f.Findings
}

// Finish writes the evidence file, prints the verdict lines and returns the process exit code.
func (r *Run) Finish() int {
	r.mu.Lock()
	defer r.mu.Unlock()
	known := LoadKnown()
	for name, min := range r.minEvals {
		if r.counters[name] < min {
			r.inconcl = append(r.inconcl, fmt.Sprintf("monitor %q evaluated %d times (< %d)", name, r.counters[name], min))
		}
	}
	// classify violations
	type agg struct {
		v     Violation
		count int
	}
	unknown := map[string]*agg{}
	knownHit := map[string]*agg{}
	var order []string
	for _, v := range r.violations {
		isKnown := false
		for _, k := range known {
			if k.Property == r.Property && k.Status == "open" && k.Signature == v.Signature {
				isKnown = true
				if a, ok := knownHit[v.Signature]; ok {
					a.count++
				} else {
					knownHit[v.Signature] = &agg{v: v, count: 1}
				}
				break
			}
		}
		if !isKnown {
			if a, ok := unknown[v.Signature]; ok {
				a.count++
			} else {
				unknown[v.Signature] = &agg{v: v, count: 1}
				order = append(order, v.Signature)
			}
		}
	}
	exit := 0
	var knownLines []map[string]interface{}
	for _, k := range known {
		if k.Property != r.Property || k.Status != "open" {
			continue
		}
		if a, ok := knownHit[k.Signature]; ok {
			fmt.Printf("KNOWN-FINDING: property=%s %s [signature=%s observed=%d]\n", r.Property, k.What, k.Signature, a.count)
			knownLines = append(knownLines, map[string]interface{}{"signature": k.Signature, "observed": a.count, "example": a.v.Detail})
		} else {
			// listed but not reproduced on this run: say so, it is not suppressed silently
			fmt.Printf("KNOWN-FINDING: property=%s %s [signature=%s observed=0 on this run]\n", r.Property, k.What, k.Signature)
			knownLines = append(knownLines, map[string]interface{}{"signature": k.Signature, "observed": 0})
		}
	}
	var vioOut []map[string]interface{}
	for _, sig := range order {
		a := unknown[sig]
		exit = 1
		dir := filepath.Join(VerifDir(), "replays")
		_ = os.MkdirAll(dir, 0o755)
		name := fmt.Sprintf("%s-%s-seed%d.json", r.Property, sanitize(sig), r.SeedV)
		path := filepath.Join(dir, name)
		rb, _ := json.MarshalIndent(map[string]interface{}{"property": r.Property, "signature": sig, "detail": a.v.Detail, "seed": r.SeedV, "tier": r.Tier, "count": a.count, "replay": a.v.Replay}, "", " ")
		_ = os.WriteFile(path, rb, 0o644)
		fmt.Printf("VIOLATION property=%s replay=%s\n", r.Property, path)
		fmt.Printf("  signature=%s count=%d detail=%s\n", sig, a.count, trunc(a.v.Detail, 600))
		vioOut = append(vioOut, map[string]interface{}{"signature": sig, "count": a.count, "detail": trunc(a.v.Detail, 600), "replay": path})
	}
	inconclusive := len(r.inconcl) > 0 && exit == 0
	if inconclusive {
		seen := map[string]bool{}
		for _, reason := range r.inconcl {
			if !seen[reason] {
				seen[reason] = true
				fmt.Printf("INCONCLUSIVE property=%s reason=%s\n", r.Property, trunc(reason, 300))
			}
		}
	}
	cov := map[string]interface{}{}
	for k, v := range r.extra {
		cov[k] = v
	}
	cov["evaluations"] = r.evals
	cov["distinct_nontrivial"] = len(r.distinct)
	cov["rule"] = r.Rule
	samples := r.samples
	if len(samples) == 0 {
		// engines record literal cases; if one did not, the evidence still says what was counted (never an empty list)
		top := map[string]int64{}
		for k, v := range r.counters {
			if len(top) < 8 {
				top[k] = v
			}
		}
		samples = []interface{}{map[string]interface{}{"note": "no literal case was recorded by the engine on this run; monitor counters shown instead", "counters": top}}
	}
	cov["samples"] = samples
	cov["monitor_counters"] = r.counters
	cov["inconclusive"] = inconclusive
	if len(r.inconcl) > 0 {
		cov["inconclusive_reasons"] = dedup(r.inconcl)
	}
	if r.exhaustive {
		cov["exhaustive"] = true
	}
	if len(knownLines) > 0 {
		cov["known_findings"] = knownLines
	}
	if len(vioOut) > 0 {
		cov["violation_list"] = vioOut
	}
	ev := map[string]interface{}{
		"property_id": r.Property,
		"tier":        r.Tier,
		"seed":        int64(r.SeedV),
		"level":       r.Level,
		"coverage":    cov,
		"assumptions": append([]string{}, r.assumptions...),
		"wall_s":      time.Since(r.Start).Seconds(),
		"violations":  len(unknown),
	}
	b, _ := json.MarshalIndent(ev, "", " ")
	dir := filepath.Join(VerifDir(), "evidence")
	_ = os.MkdirAll(dir, 0o755)
	if err := os.WriteFile(filepath.Join(dir, r.Property+".json"), b, 0o644); err != nil {
		fmt.Fprintf(os.Stderr, "cannot write evidence: %v\n", err)
	}
	verdict := "held"
	if exit != 0 {
		verdict = "violated"
	} else if inconclusive {
		verdict = "inconclusive"
	}
	fmt.Printf("RESULT property=%s tier=%s seed=%d verdict=%s evaluations=%d distinct=%d known=%d wall=%.1fs\n",
		r.Property, r.Tier, r.SeedV, verdict, r.evals, len(r.distinct), len(knownHit), time.Since(r.Start).Seconds())
	return exit
}

func dedup(in []string) []string {
	seen := map[string]bool{}
	var out []string
	for _, s := range in {
		if !seen[s] {
			seen[s] = true
			out = append(out, s)
		}
	}
	return out
}

func trunc(s string, n int) string {
	if len(s) > n {
		return s[:n] + "…"
	}
	return s
}

func sanitize(s string) string {
	var b strings.Builder
	for _, c := range s {
		if (c >= 'a' && c <= 'z') || (c >= 'A' && c <= 'Z') || (c >= '0' && c <= '9') || c == '-' || c == '_' || c == '.' {
			b.WriteRune(c)
		} else {
			b.WriteByte('_')
		}
	}
	out := b.String()
	if len(out) > 80 {
		out = out[:80]
	}
	return out
}

// Rand is a splitmix64 generator: all case lists are functions of VERIF_SEED only.
type Rand struct{ s uint64 }

func NewRand(seed uint64) *Rand { return &Rand{s: seed*0x9E3779B97F4A7C15 + 0x1234567} }

func (r *Rand) U64() uint64 {
	r.s += 0x9E3779B97F4A7C15
	z := r.s
	z = (z ^ (z >> 30)) * 0xBF58476D1CE4E5B9
	z = (z ^ (z >> 27)) * 0x94D049BB133111EB
	return z ^ (z >> 31)
}

// Intn returns a value in [0,n).
func (r *Rand) Intn(n int) int {
	if n <= 0 {
		return 0
	}
	return int(r.U64() % uint64(n))
}

// Chance returns true with probability p (0..1).
func (r *Rand) Chance(p float64) bool { return float64(r.U64()%1000000)/1000000.0 < p }

// Fork derives an independent stream.
func (r *Rand) Fork(label string) *Rand {
	h := sha256.Sum256([]byte(fmt.Sprintf("%d:%s", r.U64(), label)))
	var s uint64
	for i := 0; i < 8; i++ {
		s = s<<8 | uint64(h[i])
	}
	return &Rand{s: s}
}

// Pick chooses one element index by weights.
func (r *Rand) Pick(weights []int) int {
	t := 0
	for _, w := range weights {
		t += w
	}
	if t == 0 {
		return 0
	}
	x := r.Intn(t)
	for i, w := range weights {
		if x < w {
			return i
		}
		x -= w
	}
	return len(weights) - 1
}

// Shuffle permutes n items.
func (r *Rand) Shuffle(n int, swap func(i, j int)) {
	for i := n - 1; i > 0; i-- {
		j := r.Intn(i + 1)
		swap(i, j)
	}
}
