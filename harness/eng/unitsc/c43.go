package unitsc

import (
	"encoding/json"
	"fmt"
	"math"
	"sort"
	"strings"

	"verifh/mon"
	"verifh/world"

	"0chain.net/chaincore/block"
	cstate "0chain.net/chaincore/chain/state"
	"0chain.net/chaincore/transaction"
	"0chain.net/smartcontract/minersc"
)

// fStep is one step of a hard-fork scenario. ExpectOK is decided by construction (sender is the owner, the input is a
// well-formed StringMap and every value is a decimal int64), never by asking the code.
type fStep struct {
	Kind     string            `json:"kind"`
	From     string            `json:"from,omitempty"`
	Fields   map[string]string `json:"fields,omitempty"`
	Rounds   map[string]int64  `json:"rounds,omitempty"` // parsed value of every valid field
	Raw      string            `json:"raw,omitempty"`
	ExpectOK bool              `json:"expect_ok"`
	Advance  int64             `json:"advance,omitempty"`
}

type fScenario struct {
	Child, Idx int
	Names      []string
	Unknown    []string
	Steps      []fStep
}

var (
	c43RealNames = []string{"demeter", "electra", "apollo", "ares", "hermes", "artemis", "athena", "hercules"}
	c43BadValues = []string{"", "abc", "1.5", "1e3", "0x10", " 5", "5 ", "9223372036854775808", "-9223372036854775809", "1_000", "٣", "5\n"}
	c43BadJSON   = []string{"not json", `{"fields": 5}`, `{"fields": {"x": 5}}`, `[]`, `{"fields": {"demeter": "1"}`}
)

func nameClass(n string) string {
	for _, r := range c43RealNames {
		if r == n {
			return "real"
		}
	}
	switch {
	case n == "":
		return "empty"
	case len(n) > 100:
		return "long"
	case strings.ContainsAny(n, " :/"):
		return "punct"
	}
	for _, c := range n {
		if c > 127 {
			return "unicode"
		}
	}
	return "random"
}

func genScenario(seed uint64, child, idx int) *fScenario {
	r := mon.NewRand(seed).Fork(fmt.Sprintf("c43-%d-%d", child, idx))
	sc := &fScenario{Child: child, Idx: idx}
	pool := append([]string{}, c43RealNames...)
	pool = append(pool, "", "hard fork: v2/β", "φορκ", strings.Repeat("n", 180), "hardfork:demeter", "Demeter", "demeter ")
	for i := 0; i < 4; i++ {
		pool = append(pool, fmt.Sprintf("f%08x", r.U64()&0xffffffff))
	}
	r.Shuffle(len(pool), func(i, j int) { pool[i], pool[j] = pool[j], pool[i] })
	sc.Names = pool[:6+r.Intn(4)]
	sc.Unknown = pool[len(sc.Names) : len(sc.Names)+3]
	cur := int64(1)
	recorded := map[string]bool{}
	pickRound := func() (int64, string) {
		switch r.Intn(14) {
		case 0, 1, 2:
			v := cur + 1 + int64(r.Intn(3))
			return v, fmt.Sprint(v)
		case 3:
			return cur, fmt.Sprint(cur)
		case 4:
			return cur - 1, fmt.Sprint(cur - 1)
		case 5:
			return 0, "0"
		case 6:
			return 1, "1"
		case 7:
			return 1e9, "1000000000"
		case 8:
			return math.MaxInt64, "9223372036854775807"
		case 9:
			return math.MaxInt64 - 1, "9223372036854775806"
		case 10:
			return -1, "-1"
		case 11:
			v := cur + 2
			return v, "+" + fmt.Sprint(v) // ParseInt accepts an explicit sign
		case 12:
			v := cur + 1
			return v, "00" + fmt.Sprint(v) // and leading zeros
		}
		return -5, "-5"
	}
	name := func() string { return sc.Names[r.Intn(len(sc.Names))] }
	nsteps := 14 + r.Intn(8)
	for k := 0; k < nsteps; k++ {
		var st fStep
		switch r.Pick([]int{6, 3, 3, 4, 3, 3, 2, 1, 6}) {
		case 0: // owner records one fork
			n := name()
			v, s := pickRound()
			st = fStep{Kind: "record", From: "owner", Fields: map[string]string{n: s}, Rounds: map[string]int64{n: v}, ExpectOK: true}
		case 1: // owner records several forks in one txn
			st = fStep{Kind: "record-multi", From: "owner", Fields: map[string]string{}, Rounds: map[string]int64{}, ExpectOK: true}
			for j := 0; j < 2+r.Intn(2); j++ {
				n := name()
				v, s := pickRound()
				st.Fields[n], st.Rounds[n] = s, v
			}
		case 2: // owner moves a recorded fork
			n := name()
			for n2 := range recorded {
				n = n2
				break
			}
			keys := make([]string, 0, len(recorded))
			for n2 := range recorded {
				keys = append(keys, n2)
			}
			sort.Strings(keys)
			if len(keys) > 0 {
				n = keys[r.Intn(len(keys))]
			}
			v, s := pickRound()
			st = fStep{Kind: "re-record", From: "owner", Fields: map[string]string{n: s}, Rounds: map[string]int64{n: v}, ExpectOK: true}
		case 3: // somebody else tries
			n := name()
			_, s := pickRound()
			st = fStep{Kind: "non-owner", From: []string{"client0", "client1", "miner0", "sharder0"}[r.Intn(4)], Fields: map[string]string{n: s}}
		case 4: // owner, unparsable round
			st = fStep{Kind: "bad-value", From: "owner", Fields: map[string]string{name(): c43BadValues[r.Intn(len(c43BadValues))]}}
		case 5: // owner, several keys, one of them unparsable: nothing may take effect
			st = fStep{Kind: "bad-multi", From: "owner", Fields: map[string]string{}}
			for j := 0; j < 2+r.Intn(2); j++ {
				_, s := pickRound()
				st.Fields[name()] = s
			}
			st.Fields[name()] = c43BadValues[r.Intn(len(c43BadValues))]
		case 6: // owner, malformed input
			st = fStep{Kind: "bad-json", From: "owner", Raw: c43BadJSON[r.Intn(len(c43BadJSON))]}
		case 7: // owner, empty map: succeeds and changes nothing
			st = fStep{Kind: "empty-map", From: "owner", Fields: map[string]string{}, Rounds: map[string]int64{}, ExpectOK: true}
		default:
			st = fStep{Kind: "advance", Advance: 1 + int64(r.Intn(2))}
			if r.Intn(6) == 0 {
				st.Advance = 1 + int64(r.Intn(5))
			}
			cur += st.Advance
		}
		if st.ExpectOK {
			for n := range st.Rounds {
				recorded[n] = true
			}
		}
		sc.Steps = append(sc.Steps, st)
	}
	return sc
}

func c43Child(run *mon.Run, w *world.World, seed uint64, child, from, count int) {
	vcap := newCapper(run)
	for i := from; i < count; i++ {
		sc := genScenario(seed, child, i)
		fmt.Printf("CASE %d child=%d steps=%d\n", i, child, len(sc.Steps))
		c43Scenario(run, vcap, w, sc)
		run.Eval(1)
		run.Count("scenarios", 1)
		run.Checkpoint()
	}
}

func c43Scenario(run *mon.Run, vcap *capper, w *world.World, sc *fScenario) {
	ref := map[string]int64{} // forks that, by the statement, are recorded
	attempted := map[string]bool{}
	wallets := map[string]*world.Wallet{"owner": w.Owner, "client0": w.Clients[0], "client1": w.Clients[1], "miner0": w.Miners[0], "sharder0": w.Sharders[0]}
	round := int64(1)
	bc := w.NewBlock(w.GB, round, 0)
	ptxn := dummyTxn(w, "c43")
	var log []interface{}

	probe := func(after string) {
		tc := newTxnCtx(w, bc, ptxn)
		names := append(append([]string{}, sc.Names...), sc.Unknown...)
		for _, n := range names {
			r, isRec := ref[n]
			rounds := []int64{0, 1, math.MaxInt64 - 1, math.MaxInt64, bc.B.Round}
			if isRec {
				for _, x := range []int64{r - 1, r, r + 1} {
					if x >= 0 && !(r == math.MaxInt64 && x < 0) {
						rounds = append(rounds, x)
					}
				}
			}
			if isRec {
				run.Count("probe:getroundbyname", 1)
				got, err := cstate.GetRoundByName(tc.Ctx, n)
				if err != nil || got != r {
					vcap.Violate("C43:recorded-round-misread", fmt.Sprintf("fork %q recorded at %d, GetRoundByName returned (%d, %v) after %s", n, r, got, err, after),
						map[string]interface{}{"scenario": sc, "log": log})
				}
			}
			for _, R := range rounds {
				if R < 0 {
					continue
				}
				pb := bc.B
				if R != bc.B.Round {
					pb = block.NewBlock(w.Chain.GetKey(), R)
				}
				ctx := w.Chain.NewStateContext(pb, tc.mpt, ptxn, nil)
				var ranBefore, ranAfter int
				err := cstate.WithActivation(ctx, n, func() error { ranBefore++; return nil }, func() error { ranAfter++; return nil })
				run.Count("probe:withactivation", 1)
				wantAfter := isRec && R >= r
				rel := "unrecorded"
				if isRec {
					switch {
					case R == r:
						rel = "R==r"
					case R == r-1:
						rel = "R==r-1"
					case R == r+1:
						rel = "R==r+1"
					case R < r:
						rel = "R<r"
					default:
						rel = "R>r"
					}
				}
				branch := "none"
				switch {
				case ranBefore == 1 && ranAfter == 0:
					branch = "before"
				case ranBefore == 0 && ranAfter == 1:
					branch = "after"
				case ranBefore+ranAfter > 1:
					branch = "both"
				}
				run.Count("branch:"+branch+"/"+rel, 1)
				st := "never-attempted"
				if attempted[n] && !isRec {
					st = "only-failed-attempts"
				} else if isRec {
					st = "recorded"
				}
				run.Distinct(strings.Join([]string{nameClass(n), st, rel, branch, roundClass(R, bc.B.Round), after}, "|"))
				replay := map[string]interface{}{"name": n, "block_round": R, "recorded": isRec, "recorded_round": r, "after_step": after, "steps_so_far": log}
				switch {
				case branch == "none" || branch == "both" || err != nil:
					vcap.Violate("C43:not-exactly-one-branch", fmt.Sprintf("fork %q block round %d: before ran %d times, after ran %d times, err=%v", n, R, ranBefore, ranAfter, err), replay)
				case wantAfter && branch != "after", !wantAfter && branch != "before":
					sig := "C43:wrong-branch-at-boundary"
					if !isRec {
						sig = "C43:unrecorded-fork-active"
						if R == math.MaxInt64 {
							sig += "/block-round=MaxInt64"
						} else if attempted[n] {
							sig = "C43:failed-recording-took-effect"
						}
					} else if rel == "R>r" || rel == "R<r" {
						sig = "C43:wrong-branch-away-from-boundary"
					}
					vcap.Violate(sig, fmt.Sprintf("fork %q (recorded=%v at %d, state %s) block round %d after %s: %s-branch ran, statement requires %s", n, isRec, r, st, R, after, branch, map[bool]string{true: "after", false: "before"}[wantAfter]), replay)
				}
			}
		}
	}

	probe("genesis")
	for k, st := range sc.Steps {
		if st.Kind == "advance" {
			sealed := bc.Seal()
			round += st.Advance
			bc = w.NewBlock(sealed, round, int(round))
			log = append(log, map[string]interface{}{"step": k, "kind": "advance", "round": round})
			run.Count("step:advance", 1)
			probe("advance")
			continue
		}
		wl := wallets[st.From]
		spec := world.TxnSpec{From: wl, To: minersc.ADDRESS, Type: transaction.TxnTypeSmartContract, Func: "add_hardfork", Nonce: nextNonce(bc, wl.ID)}
		if st.Raw != "" {
			if isJSON(st.Raw) {
				spec.RawInput = []byte(st.Raw)
			} else {
				spec.RawInput, _ = json.Marshal(st.Raw) // as a JSON string, so that the txn data itself stays well-formed
			}
		} else {
			spec.Input = map[string]interface{}{"fields": st.Fields}
		}
		txn := w.MakeTxn(spec)
		_, err := bc.Exec(txn)
		outcome := "success"
		switch {
		case err != nil:
			outcome = "rejected"
		case txn.Status == transaction.TxnError:
			outcome = "failed"
		}
		for n := range st.Fields {
			attempted[n] = true
		}
		log = append(log, map[string]interface{}{"step": k, "kind": st.Kind, "from": st.From, "fields": st.Fields, "raw": st.Raw, "round": round, "outcome": outcome, "output": trunc(txn.TransactionOutput, 160)})
		run.Count("step:"+st.Kind+"/"+outcome, 1)
		if st.ExpectOK {
			if outcome != "success" {
				run.Inconclusive(fmt.Sprintf("owner add_hardfork %v did not succeed (%s: %v %s): the scenario cannot be judged", st.Fields, outcome, err, trunc(txn.TransactionOutput, 200)))
				return
			}
			run.Count("record:owner-success", 1)
			for n, v := range st.Rounds {
				ref[n] = v
			}
		} else {
			run.Count("record:failed-attempt", 1)
			if outcome == "success" {
				run.Count("record:failed-attempt-reported-success", 1)
			}
		}
		probe(st.Kind)
		if k == 0 && sc.Child == 0 && sc.Idx == 0 {
			run.Sample(map[string]interface{}{"first_step": log[len(log)-1], "names": sc.Names})
		}
	}
}

func roundClass(R, cur int64) string {
	switch {
	case R == cur:
		return "real-block"
	case R == math.MaxInt64:
		return "max"
	case R == 0:
		return "0"
	}
	return "probe-block"
}

func isJSON(s string) bool {
	var v interface{}
	return json.Unmarshal([]byte(s), &v) == nil
}
