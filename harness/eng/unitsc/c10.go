package unitsc

import (
	"encoding/json"
	"fmt"
	"math"
	"math/big"
	"regexp"
	"sort"
	"strings"

	"verifh/mon"
	"verifh/world"

	"0chain.net/chaincore/transaction"
	"0chain.net/smartcontract/minersc"
	"0chain.net/smartcontract/stakepool"
	"0chain.net/smartcontract/stakepool/spenum"
	"github.com/0chain/common/core/currency"
)

// c10Case is one generated input of the reward distribution. Everything is a function of (VERIF_SEED, child, idx).
type c10Case struct {
	Idx      int      `json:"idx"`
	Child    int      `json:"child"`
	Method   string   `json:"method"` // DistributeRewards | DistributeRewards+alloc | DistributeRewardsRandN
	Value    uint64   `json:"value"`
	Ratio    float64  `json:"service_charge_ratio"`
	PoolIDs  []string `json:"pool_ids"`
	Balances []uint64 `json:"balances"`
	PriorDP  []uint64 `json:"prior_delegate_rewards,omitempty"`
	PriorSP  uint64   `json:"prior_provider_reward"`
	MinStake uint64   `json:"min_stake"`
	Killed   bool     `json:"killed"`
	Seed     int64    `json:"seed,omitempty"`
	N        int      `json:"rand_n,omitempty"`
	Fork     bool     `json:"demeter_active"`
	PType    int      `json:"provider_type"`
	RType    int      `json:"reward_type"`

	balPattern, valClass, ratioClass, nClass, minClass string
}

var c10Pow10 = []uint64{1e3, 1e4, 1e6, 1e9, 1e10, 1e12, 1e15, 1e17, 1e18}

func genC10(seed uint64, child, idx int) *c10Case {
	r := mon.NewRand(seed).Fork(fmt.Sprintf("c10-%d-%d", child, idx))
	c := &c10Case{Idx: idx, Child: child}
	// number of pools
	var n int
	switch r.Intn(10) {
	case 0:
		n = 0
	case 1:
		n = 1
	case 2:
		n = 2
	case 3:
		n = 3
	case 4:
		n = 40
	default:
		n = r.Intn(41)
	}
	// balances
	c.Balances = make([]uint64, n)
	pat := r.Intn(12)
	switch pat {
	case 0:
		c.balPattern = "all-zero"
	case 1:
		c.balPattern = "all-one"
		for i := range c.Balances {
			c.Balances[i] = 1
		}
	case 2, 3:
		c.balPattern = "equal"
		b := c10Pow10[r.Intn(len(c10Pow10)-2)] * uint64(1+r.Intn(9))
		for i := range c.Balances {
			c.Balances[i] = b
		}
	case 4, 5:
		c.balPattern = "skewed"
		b := uint64(1 + r.Intn(1000))
		f := uint64(2 + r.Intn(9))
		for i := range c.Balances {
			c.Balances[i] = b
			if b < 1<<55 {
				b *= f
			}
		}
		r.Shuffle(n, func(i, j int) { c.Balances[i], c.Balances[j] = c.Balances[j], c.Balances[i] })
	case 6:
		c.balPattern = "near-2^63"
		for i := range c.Balances {
			c.Balances[i] = uint64(r.Intn(1000))
		}
		if n > 0 {
			c.Balances[r.Intn(n)] = 1<<63 - 1 - uint64(r.Intn(100000))
		}
	case 7:
		c.balPattern = "with-zeros"
		for i := range c.Balances {
			if r.Chance(0.5) {
				c.Balances[i] = uint64(1+r.Intn(1000)) * c10Pow10[r.Intn(5)]
			}
		}
	case 8:
		c.balPattern = "small"
		for i := range c.Balances {
			c.Balances[i] = uint64(r.Intn(10))
		}
	case 9:
		c.balPattern = "realistic"
		for i := range c.Balances {
			c.Balances[i] = uint64(1+r.Intn(100000)) * 1e9 // 0.1 .. 10k ZCN
		}
	case 10:
		c.balPattern = "random64"
		for i := range c.Balances {
			c.Balances[i] = r.U64() >> uint(1+r.Intn(63))
			if n > 1 {
				c.Balances[i] /= uint64(n) // keep the sum inside uint64
			}
		}
	default:
		c.balPattern = "one-staker-rest-zero"
		if n > 0 {
			c.Balances[r.Intn(n)] = uint64(1+r.Intn(1000)) * c10Pow10[r.Intn(len(c10Pow10)-1)]
		}
	}
	c.PoolIDs = make([]string, n)
	for i := range c.PoolIDs {
		c.PoolIDs[i] = fmt.Sprintf("%016x%016x%016x%016x", r.U64(), r.U64(), r.U64(), r.U64())
	}
	var total big.Int
	for _, b := range c.Balances {
		total.Add(&total, new(big.Int).SetUint64(b))
	}
	// value
	un := uint64(n)
	switch r.Intn(14) {
	case 0:
		c.Value, c.valClass = 0, "0"
	case 1:
		c.Value, c.valClass = 1, "1"
	case 2:
		c.Value, c.valClass = 2, "2"
	case 3:
		if un > 0 {
			c.Value = un - 1
		}
		c.valClass = "n-1"
	case 4:
		c.Value, c.valClass = un, "n"
	case 5:
		c.Value, c.valClass = un+1, "n+1"
	case 6, 7:
		k := r.Intn(len(c10Pow10))
		c.Value, c.valClass = c10Pow10[k]+uint64(r.Intn(3))-1, "~1e"+fmt.Sprint(int(math.Round(math.Log10(float64(c10Pow10[k])))))
	case 8:
		c.Value, c.valClass = uint64(1+r.Intn(1000000)), "small-random"
	case 9:
		c.Value, c.valClass = uint64(1+r.Intn(1000000))*1e6+uint64(r.Intn(1000)), "mid-random"
	case 10:
		sh := uint(53 + r.Intn(10))
		c.Value, c.valClass = (uint64(1)<<sh)+uint64(r.Intn(7))-3, "~2^53..2^62"
	case 11:
		c.Value, c.valClass = (uint64(1)<<62)+uint64(r.Intn(3))-1, "~2^62"
	case 12:
		c.Value, c.valClass = 4e18-uint64(r.Intn(2)), "max-supply"
	default:
		c.Value, c.valClass = r.U64()>>uint(2+r.Intn(60)), "random64"
	}
	// ratio
	switch r.Intn(10) {
	case 0:
		c.Ratio, c.ratioClass = 0, "0"
	case 1:
		c.Ratio, c.ratioClass = []float64{1e-18, 1e-12, 1e-9, 1e-6}[r.Intn(4)], "tiny"
	case 2:
		c.Ratio, c.ratioClass = 0.1, "0.1"
	case 3:
		c.Ratio, c.ratioClass = 0.5, "0.5"
	case 4:
		c.Ratio, c.ratioClass = 0.999, "0.999"
	case 5:
		c.Ratio, c.ratioClass = 1, "1"
	case 6:
		c.Ratio, c.ratioClass = []float64{0.2, 0.25, 0.3, 0.05, 0.01}[r.Intn(5)], "typical"
	case 7:
		c.Ratio, c.ratioClass = 1-[]float64{1e-16, 1e-12, 1e-9}[r.Intn(3)], "1-eps"
	default:
		c.Ratio, c.ratioClass = float64(r.Intn(1000001))/1000000.0, "random"
	}
	// min stake relative to the total
	c.minClass = "0"
	if total.IsUint64() {
		t := total.Uint64()
		switch r.Intn(20) {
		case 0:
			if t > 0 {
				c.MinStake, c.minClass = t-1, "stake-1"
			}
		case 1:
			c.MinStake, c.minClass = t, "stake"
		case 2:
			if t < math.MaxUint64 {
				c.MinStake, c.minClass = t+1, "stake+1"
			}
		case 3:
			c.MinStake, c.minClass = 1<<63, "huge"
		case 4:
			c.MinStake, c.minClass = 1e10, "1zcn"
		}
	}
	c.Killed = r.Intn(12) == 0
	// prior rewards (increments, not absolute values, are judged)
	if r.Intn(3) == 0 {
		c.PriorSP = uint64(r.Intn(1000000)) * c10Pow10[r.Intn(6)]
		c.PriorDP = make([]uint64, n)
		for i := range c.PriorDP {
			if r.Chance(0.6) {
				c.PriorDP[i] = uint64(r.Intn(1000000)) * c10Pow10[r.Intn(6)]
			}
		}
	}
	// method
	switch r.Intn(5) {
	case 0, 1:
		c.Method = "DistributeRewards"
	case 2:
		c.Method = "DistributeRewards+alloc"
	default:
		c.Method = "DistributeRewardsRandN"
		c.Seed = int64(r.U64())
		if r.Intn(4) == 0 {
			c.Seed = int64(r.Intn(5)) - 2
		}
		switch r.Intn(7) {
		case 0:
			c.N, c.nClass = 0, "0"
		case 1:
			c.N, c.nClass = 1, "1"
		case 2:
			c.N, c.nClass = n-1, "n-1"
			if c.N < 0 {
				c.N = 0
			}
		case 3:
			c.N, c.nClass = n, "n"
		case 4:
			c.N, c.nClass = n+1, "n+1"
		case 5:
			c.N, c.nClass = 10, "10" // the configured num_*_delegates_rewarded
		default:
			c.N, c.nClass = r.Intn(n+2), "random"
		}
	}
	c.Fork = r.Intn(2) == 0
	c.PType = 1 + r.Intn(5)
	c.RType = r.Intn(8)
	return c
}

func (c *c10Case) build() *stakepool.StakePool {
	sp := stakepool.NewStakePool()
	sp.Settings.DelegateWallet = "provider-delegate-wallet"
	sp.Settings.ServiceChargeRatio = c.Ratio
	sp.Settings.MinStake = currency.Coin(c.MinStake)
	sp.Settings.MaxNumDelegates = 100
	sp.HasBeenKilled = c.Killed
	sp.Reward = currency.Coin(c.PriorSP)
	for i, id := range c.PoolIDs {
		dp := &stakepool.DelegatePool{Balance: currency.Coin(c.Balances[i]), DelegateID: id, Status: spenum.Active, RoundCreated: 1}
		if c.PriorDP != nil {
			dp.Reward = currency.Coin(c.PriorDP[i])
		}
		sp.Pools[id] = dp
	}
	return sp
}

var reDigits = regexp.MustCompile(`[0-9]+`)

func errClass(s string) string {
	s = reDigits.ReplaceAllString(s, "#")
	if len(s) > 80 {
		s = s[:80]
	}
	return s
}

func c10CaseJSON(seed uint64, child, idx int) string {
	b, _ := json.Marshal(genC10(seed, child, idx))
	return string(b)
}

func c10Child(run *mon.Run, w *world.World, seed uint64, child, from, count int) {
	// two sibling blocks on genesis: one without the "demeter" fork, one where the owner recorded it at round 0
	bcOff := w.NewBlock(w.GB, 1, 0)
	bcOn := w.NewBlock(w.GB, 1, 1)
	ht := w.MakeTxn(world.TxnSpec{From: w.Owner, To: minersc.ADDRESS, Type: transaction.TxnTypeSmartContract, Func: "add_hardfork",
		Input: map[string]interface{}{"fields": map[string]string{"demeter": "0"}}, Nonce: nextNonce(bcOn, w.Owner.ID)})
	if _, err := bcOn.Exec(ht); err != nil || ht.Status != transaction.TxnSuccess {
		panic(fmt.Sprintf("add_hardfork demeter failed: err=%v status=%d out=%s", err, ht.Status, ht.TransactionOutput))
	}
	txn := dummyTxn(w, "c10")
	var ctxOff, ctxOn *txnCtx
	shrunk := map[string]bool{}
	vcap := newCapper(run)
	for i := from; i < count; i++ {
		if ctxOff == nil || (i-from)%500 == 0 {
			// fresh contexts regularly: emitted events accumulate in a state context
			ctxOff, ctxOn = newTxnCtx(w, bcOff, txn), newTxnCtx(w, bcOn, txn)
			run.Checkpoint()
		}
		c := genC10(seed, child, i)
		ctx := ctxOff
		if c.Fork {
			ctx = ctxOn
		}
		fmt.Printf("CASE %d child=%d method=%s value=%d ratio=%v pools=%d pattern=%s n=%d seed=%d killed=%v min=%d fork=%v\n", i, child, c.Method, c.Value, c.Ratio, len(c.Balances), c.balPattern, c.N, c.Seed, c.Killed, c.MinStake, c.Fork)
		c10Judge(run, vcap, c, ctx, ctxOff, ctxOn, shrunk)
	}
}

// c10Call performs the real call; a panic is returned as a string.
func c10Call(c *c10Case, sp *stakepool.StakePool, ctx *txnCtx) (err error, panicked string) {
	defer func() {
		if e := recover(); e != nil {
			panicked = fmt.Sprint(e)
		}
	}()
	v := currency.Coin(c.Value)
	pt, rt := spenum.Provider(c.PType), spenum.Reward(c.RType)
	switch c.Method {
	case "DistributeRewards":
		err = sp.DistributeRewards(v, "provider-id", pt, rt, ctx.Ctx)
	case "DistributeRewards+alloc":
		err = sp.DistributeRewards(v, "provider-id", pt, rt, ctx.Ctx, "allocation-id")
	default:
		err = sp.DistributeRewardsRandN(v, "provider-id", pt, c.Seed, c.N, rt, ctx.Ctx)
	}
	return
}

type c10Viol struct{ Sig, Detail string }

type c10Res struct {
	outcome string
	counts  []string
	viols   []c10Viol
	dSP     *big.Int
	dDP     []*big.Int
}

func (r *c10Res) has(sig string) *c10Viol {
	for i := range r.viols {
		if r.viols[i].Sig == sig {
			return &r.viols[i]
		}
	}
	return nil
}

// c10Eval performs the real call on a freshly built stake pool and judges the observed increments.
func c10Eval(c *c10Case, ctx *txnCtx) *c10Res {
	res := &c10Res{}
	sp := c.build()
	n := len(c.PoolIDs)
	err, panicked := c10Call(c, sp, ctx)
	violate := func(sig, detail string) { res.viols = append(res.viols, c10Viol{sig, detail}) }
	count := func(name string) { res.counts = append(res.counts, name) }
	isRandN := c.Method == "DistributeRewardsRandN"
	methodShort := "DistributeRewards"
	if isRandN {
		methodShort = "DistributeRewardsRandN"
	}

	// observed increments
	value := new(big.Int).SetUint64(c.Value)
	dSP := new(big.Int).Sub(new(big.Int).SetUint64(uint64(sp.Reward)), new(big.Int).SetUint64(c.PriorSP))
	dDP := make([]*big.Int, n)
	sum := new(big.Int).Set(dSP)
	credited := 0
	anyNeg := dSP.Sign() < 0
	for i, id := range c.PoolIDs {
		prior := uint64(0)
		if c.PriorDP != nil {
			prior = c.PriorDP[i]
		}
		dDP[i] = new(big.Int).Sub(new(big.Int).SetUint64(uint64(sp.Pools[id].Reward)), new(big.Int).SetUint64(prior))
		sum.Add(sum, dDP[i])
		if dDP[i].Sign() > 0 {
			credited++
		}
		if dDP[i].Sign() < 0 {
			anyNeg = true
		}
	}
	res.dSP, res.dDP = dSP, dDP
	total := new(big.Int)
	for _, b := range c.Balances {
		total.Add(total, new(big.Int).SetUint64(b))
	}
	notPaidExpected := c.Value == 0 || c.Killed || total.Cmp(new(big.Int).SetUint64(c.MinStake)) < 0

	res.outcome = "paid"
	switch {
	case panicked != "":
		res.outcome = "panic"
		if strings.Contains(panicked, "distribute rewards error") {
			count("outcome:own-assertion-panic")
			violate("C10:own-exactness-assertion", "the code's own deferred exactness assertion fired: "+trunc(panicked, 200))
		} else {
			count("outcome:other-panic")
			violate("C10:panic/"+methodShort, "call panicked instead of paying: "+trunc(panicked, 300))
		}
	case err != nil:
		res.outcome = "err:" + errClass(err.Error())
		count("outcome:error:" + errClass(err.Error()))
	default:
		if anyNeg {
			violate("C10:reward-decreased/"+methodShort, fmt.Sprintf("a reward counter decreased: provider delta %s, delegates %v", dSP, dDP))
		}
		if notPaidExpected {
			res.outcome = "not-paid"
			count("oracle:not-paid-all-zero")
			if sum.Sign() != 0 || credited != 0 || dSP.Sign() != 0 {
				sig := "C10:understaked-provider-paid"
				if c.Killed {
					sig = "C10:killed-provider-paid"
				} else if c.Value == 0 {
					sig = "C10:zero-value-paid"
				}
				violate(sig, fmt.Sprintf("nothing must be credited (value=%d killed=%v stake=%s min=%d) but provider delta=%s, %d delegates credited, sum=%s", c.Value, c.Killed, total, c.MinStake, dSP, credited, sum))
			}
			break
		}
		chargeOK := dSP.Sign() >= 0 && dSP.Cmp(value) <= 0
		count("oracle:charge-in-range")
		if !chargeOK {
			violate("C10:charge-exceeds-value/"+methodShort, fmt.Sprintf("provider share %s outside [0,%d]; all increments sum to %s", dSP, c.Value, sum))
		}
		// exact split (a charge above the value is reported once, above)
		count("oracle:sum-exact")
		if chargeOK && sum.Cmp(value) != 0 {
			cause := ""
			switch {
			case isRandN && c.N == 0:
				cause = "/n=0"
			case isRandN && credited == 0 && n > 0 && total.Sign() == 0:
				cause = "/pools-without-any-stake"
			case isRandN && credited == 0 && n > 0:
				cause = "/selected-delegates-without-stake"
			}
			violate("C10:sum-mismatch/"+methodShort+cause, fmt.Sprintf("value=%d but provider delta %s + delegate deltas = %s (difference %s)", c.Value, dSP, sum, new(big.Int).Sub(sum, value)))
		}
		if isRandN {
			count("oracle:randn-at-most-n")
			if credited > c.N {
				violate("C10:randn-more-than-n", fmt.Sprintf("N=%d but %d delegates were credited", c.N, credited))
			}
		}
		// proportionality, only meaningful when the split itself was sane
		if n > 0 && chargeOK && !anyNeg {
			rest := new(big.Int).Sub(value, dSP)
			subset := isRandN && c.N < n
			stake := new(big.Int).Set(total)
			tol := int64(n)
			if subset {
				stake.SetInt64(0)
				for i := range c.PoolIDs {
					if dDP[i].Sign() > 0 {
						stake.Add(stake, new(big.Int).SetUint64(c.Balances[i]))
					}
				}
				tol = 2 * int64(n)
			}
			count("oracle:proportional")
			worstI := -1
			var worstDiff, worstExp *big.Int
			for i := range c.PoolIDs {
				if subset && dDP[i].Sign() == 0 {
					continue
				}
				exp := new(big.Int)
				if stake.Sign() > 0 {
					exp.Mul(rest, new(big.Int).SetUint64(c.Balances[i]))
					exp.Div(exp, stake)
				}
				diff := new(big.Int).Sub(dDP[i], exp)
				diff.Abs(diff)
				if diff.Cmp(big.NewInt(tol)) > 0 && (worstDiff == nil || diff.Cmp(worstDiff) > 0) {
					worstDiff, worstI, worstExp = diff, i, exp
				}
			}
			if worstI >= 0 {
				cls := ""
				if c.Value >= 1<<53 {
					cls = "/value>=2^53"
				}
				violate("C10:disproportionate/"+methodShort+cls, fmt.Sprintf("pool #%d (balance %d of stake %s) got %s, proportional share of %s is %s: off by %s > tolerance %d", worstI, c.Balances[worstI], stake, dDP[worstI], rest, worstExp, worstDiff, tol))
			}
		}
	}
	count("outcome:" + strings.SplitN(res.outcome, ":", 2)[0])
	return res
}

func (c *c10Case) clone() *c10Case {
	d := *c
	d.PoolIDs = append([]string{}, c.PoolIDs...)
	d.Balances = append([]uint64{}, c.Balances...)
	if c.PriorDP != nil {
		d.PriorDP = append([]uint64{}, c.PriorDP...)
	}
	return &d
}

// c10Shrink looks for a smaller input with the same violation signature (bounded greedy search).
func c10ShrinkCtx(c *c10Case, sig string, pick func(*c10Case) *txnCtx) *c10Case {
	budget := 600
	best := c.clone()
	try := func(mut func(d *c10Case) bool) bool {
		if budget <= 0 {
			return false
		}
		d := best.clone()
		if !mut(d) {
			return false
		}
		budget--
		if c10Eval(d, pick(d)).has(sig) != nil {
			best = d
			return true
		}
		return false
	}
	for pass := 0; pass < 6 && budget > 0; pass++ {
		changed := false
		changed = try(func(d *c10Case) bool {
			if d.PriorSP == 0 && d.PriorDP == nil {
				return false
			}
			d.PriorSP, d.PriorDP = 0, nil
			return true
		}) || changed
		changed = try(func(d *c10Case) bool {
			if d.Method != "DistributeRewards+alloc" {
				return false
			}
			d.Method = "DistributeRewards"
			return true
		}) || changed
		changed = try(func(d *c10Case) bool {
			if !d.Fork {
				return false
			}
			d.Fork = false
			return true
		}) || changed
		changed = try(func(d *c10Case) bool {
			if d.PType == 1 && d.RType == 0 {
				return false
			}
			d.PType, d.RType = 1, 0
			return true
		}) || changed
		for i := len(best.PoolIDs) - 1; i >= 0; i-- {
			i := i
			changed = try(func(d *c10Case) bool {
				if i >= len(d.PoolIDs) {
					return false
				}
				d.PoolIDs = append(d.PoolIDs[:i], d.PoolIDs[i+1:]...)
				d.Balances = append(d.Balances[:i], d.Balances[i+1:]...)
				if d.PriorDP != nil {
					d.PriorDP = append(d.PriorDP[:i], d.PriorDP[i+1:]...)
				}
				return true
			}) || changed
		}
		changed = try(func(d *c10Case) bool {
			same := true
			for i := range d.PoolIDs {
				id := fmt.Sprintf("delegate-%02d", i)
				if d.PoolIDs[i] != id {
					same = false
				}
				d.PoolIDs[i] = id
			}
			return !same
		}) || changed
		for i := range best.Balances {
			for _, f := range []func(uint64) uint64{func(uint64) uint64 { return 0 }, func(uint64) uint64 { return 1 }, func(b uint64) uint64 { return b / 1000 }, func(b uint64) uint64 { return b / 10 }, func(b uint64) uint64 { return b - 1 }} {
				i, f := i, f
				changed = try(func(d *c10Case) bool {
					if i >= len(d.Balances) || d.Balances[i] == 0 {
						return false
					}
					nb := f(d.Balances[i])
					if nb >= d.Balances[i] {
						return false
					}
					d.Balances[i] = nb
					return true
				}) || changed
			}
		}
		for _, f := range []func(uint64) uint64{func(uint64) uint64 { return 1 }, func(uint64) uint64 { return 2 }, func(uint64) uint64 { return 3 }, func(uint64) uint64 { return 5 }, func(uint64) uint64 { return 10 },
			func(uint64) uint64 { return 1<<53 + 3 }, func(v uint64) uint64 { return v / 1000 }, func(v uint64) uint64 { return v / 2 }, func(v uint64) uint64 { return v - v/8 }, func(v uint64) uint64 { return v - 1 }} {
			f := f
			changed = try(func(d *c10Case) bool {
				nv := f(d.Value)
				if nv >= d.Value || nv == 0 {
					return false
				}
				d.Value = nv
				return true
			}) || changed
		}
		for _, nr := range []float64{0, 1, 0.5, 0.25, 0.1} {
			nr := nr
			changed = try(func(d *c10Case) bool {
				for _, simple := range []float64{0, 1, 0.5, 0.25, 0.1} {
					if d.Ratio == simple {
						return false // already one of the simple values
					}
				}
				d.Ratio = nr
				return true
			}) || changed
		}
		changed = try(func(d *c10Case) bool {
			if d.MinStake == 0 {
				return false
			}
			d.MinStake = 0
			return true
		}) || changed
		for _, ns := range []int64{0, 1} {
			ns := ns
			changed = try(func(d *c10Case) bool {
				if d.Method != "DistributeRewardsRandN" || d.Seed == 0 || d.Seed == 1 {
					return false
				}
				d.Seed = ns
				return true
			}) || changed
		}
		for _, f := range []func(int) int{func(int) int { return 0 }, func(int) int { return 1 }, func(n int) int { return n - 1 }} {
			f := f
			changed = try(func(d *c10Case) bool {
				nn := f(d.N)
				if d.Method != "DistributeRewardsRandN" || nn >= d.N || nn < 0 || (nn == 0 && !strings.HasSuffix(sig, "/n=0")) {
					return false
				}
				d.N = nn
				return true
			}) || changed
		}
		if !changed {
			break
		}
	}
	return best
}

func c10Judge(run *mon.Run, vcap *capper, c *c10Case, ctx *txnCtx, ctxOff *txnCtx, ctxOn *txnCtx, shrunk map[string]bool) {
	res := c10Eval(c, ctx)
	run.Eval(1)
	run.Count("call:"+c.Method, 1)
	for _, k := range res.counts {
		run.Count(k, 1)
	}
	for _, v := range res.viols {
		w, detail, note := c, v.Detail, ""
		if !shrunk[v.Sig] {
			shrunk[v.Sig] = true
			pick := func(d *c10Case) *txnCtx {
				if d.Fork {
					return ctxOn
				}
				return ctxOff
			}
			// the shrinker may switch the fork off, so it evaluates on the matching context
			m := c10ShrinkCtx(c, v.Sig, pick)
			if r2 := c10Eval(m, pick(m)).has(v.Sig); r2 != nil {
				w, detail, note = m, r2.Detail, fmt.Sprintf(" (shrunk from generated case child=%d idx=%d)", c.Child, c.Idx)
			}
		}
		vcap.Violate(v.Sig, detail+note+" | input: "+mustJSON(w), map[string]interface{}{"case": w, "generated_from": map[string]int{"child": c.Child, "idx": c.Idx}})
	}
	n := len(c.PoolIDs)
	nb := "0"
	switch {
	case n == 1:
		nb = "1"
	case n == 2 || n == 3:
		nb = "2-3"
	case n >= 4 && n <= 10:
		nb = "4-10"
	case n > 10 && n < 40:
		nb = "11-39"
	case n == 40:
		nb = "40"
	}
	methodShort := strings.TrimSuffix(c.Method, "+alloc")
	run.Distinct(strings.Join([]string{methodShort, nb, c.balPattern, c.valClass, c.ratioClass, c.nClass, c.minClass, fmt.Sprint(c.Killed), fmt.Sprint(c.Fork), res.outcome}, "|"))
	if c.Idx < 2 && c.Child == 0 {
		run.Sample(map[string]interface{}{"case": c, "provider_delta": res.dSP.String(), "delegate_deltas": bigs(res.dDP), "outcome": res.outcome})
	}
}

func bigs(v []*big.Int) []string {
	out := make([]string, len(v))
	for i, b := range v {
		out[i] = b.String()
	}
	return out
}

func mustJSON(v interface{}) string {
	b, err := json.Marshal(v)
	if err != nil {
		return fmt.Sprintf("%v", v)
	}
	return string(b)
}

var _ = sort.Strings
