package unitsc

import (
	"bytes"
	"errors"
	"fmt"
	"math/rand"
	"sort"
	"strings"

	"verifh/mon"
	"verifh/world"

	"0chain.net/chaincore/transaction"
	"0chain.net/smartcontract/partitions"
)

// pItem is the harness' partition item: an id and a payload.
type pItem struct {
	ID      string
	Payload string
}

func (it *pItem) GetID() string { return it.ID }
func (it *pItem) MarshalMsg(o []byte) ([]byte, error) {
	o = append(o, it.ID...)
	o = append(o, 0)
	return append(o, it.Payload...), nil
}
func (it *pItem) UnmarshalMsg(b []byte) ([]byte, error) {
	i := bytes.IndexByte(b, 0)
	if i < 0 {
		return nil, errors.New("pItem: no separator")
	}
	it.ID, it.Payload = string(b[:i]), string(b[i+1:])
	return nil, nil
}
func (it *pItem) Msgsize() int { return len(it.ID) + 1 + len(it.Payload) }

// pOp is one operation of a history; the list is generated up-front (state independent), so any sub-list can be replayed.
type pOp struct {
	Kind string `json:"op"`
	ID   int    `json:"id"`
	Tag  int    `json:"tag"`  // makes the payload unique
	Full bool   `json:"full"` // full check after the op (else light check: Size + Exist for every id)
	Seed int64  `json:"seed"`
}

type pHist struct {
	Child, Idx int
	Size       int
	Universe   int
	Ops        []pOp
}

var pKinds = []string{"add", "addx", "update_item", "update", "remove", "removex", "save", "save_reload", "commit", "discard", "save_discard", "seal"}

func genHist(seed uint64, child, idx, nops int) *pHist {
	r := mon.NewRand(seed).Fork(fmt.Sprintf("c25-%d-%d", child, idx))
	h := &pHist{Child: child, Idx: idx}
	h.Size = []int{1, 2, 3, 5, 10}[(child+idx)%5]
	h.Universe = []int{h.Size + 1, 3 * h.Size, 4*h.Size + 3, 8 * h.Size, 12 + h.Size, 25}[r.Intn(6)]
	if h.Universe > 45 {
		h.Universe = 45
	}
	if h.Universe < 3 {
		h.Universe = 3
	}
	allFull := r.Intn(2) == 0
	//                      add addx upI upd rem remx save s_rl commit discard s_disc seal
	grow := []int{30, 10, 4, 4, 6, 3, 3, 3, 6, 3, 2, 1}
	shrink := []int{6, 3, 3, 3, 30, 12, 3, 3, 6, 3, 2, 1}
	mixed := []int{14, 6, 6, 6, 14, 6, 4, 4, 8, 5, 3, 2}
	var wts []int
	for k := 0; k < nops; k++ {
		if k%20 == 0 {
			wts = [][]int{grow, shrink, mixed, grow}[r.Intn(4)]
			if k == 0 {
				wts = grow
			}
		}
		op := pOp{Kind: pKinds[r.Pick(wts)], ID: r.Intn(h.Universe), Tag: k, Seed: int64(r.U64() >> 1)}
		op.Full = allFull || r.Intn(4) == 0
		h.Ops = append(h.Ops, op)
	}
	return h
}

type pFail struct {
	Sig, Detail string
	At          int
}

// pRunner executes one history against the real partitions and the reference set.
type pRunner struct {
	w        *world.World
	run      *mon.Run // nil during shrink replays
	txn      *transaction.Transaction
	name     string
	size     int
	universe int
	bc       *world.BlockCtx
	round    int64
	ctx      *txnCtx
	p        *partitions.Partitions
	commit   map[string]string
	work     map[string]string
	where    map[string]int // id -> partition index at the last full check (coverage only)
	maxPart  int
	fresh    bool // `where` is accurate (nothing happened since the last full check)
	removed  map[string]bool
}

func idName(i int) string { return fmt.Sprintf("item-%02d", i) }

func (pr *pRunner) count(name string) {
	if pr.run != nil {
		pr.run.Count(name, 1)
	}
}

var pReplaySeq int

func runHist(w *world.World, run *mon.Run, h *pHist, ops []pOp) *pFail {
	pReplaySeq++
	pr := &pRunner{w: w, run: run, size: h.Size, universe: h.Universe, commit: map[string]string{}, work: map[string]string{}, where: map[string]int{}, removed: map[string]bool{}}
	pr.name = fmt.Sprintf("verif:partitions:%d:%d:%d:%d", w.Opt.Seed, h.Child, h.Idx, pReplaySeq)
	pr.txn = dummyTxn(w, "c25")
	pr.round = 1
	pr.bc = w.NewBlock(w.GB, pr.round, 0)
	pr.ctx = newTxnCtx(w, pr.bc, pr.txn)
	p, err := partitions.CreateIfNotExists(pr.ctx.Ctx, pr.name, h.Size)
	if err != nil {
		return &pFail{"C25:create-failed", err.Error(), -1}
	}
	pr.p = p
	if err := pr.ctx.Commit(); err != nil {
		return &pFail{"C25:harness-commit-failed", err.Error(), -1}
	}
	if f := pr.reload("create"); f != nil {
		return f
	}
	for k, op := range ops {
		if f := pr.step(k, op); f != nil {
			f.At = k
			return f
		}
	}
	return nil
}

func copyMap(m map[string]string) map[string]string {
	o := make(map[string]string, len(m))
	for k, v := range m {
		o[k] = v
	}
	return o
}

// reload opens a fresh state context on the current block and loads the partitions from it.
func (pr *pRunner) reload(why string) *pFail {
	pr.ctx = newTxnCtx(pr.w, pr.bc, pr.txn)
	p, err := partitions.GetPartitions(pr.ctx.Ctx, pr.name)
	if err != nil {
		return &pFail{"C25:reload-failed", fmt.Sprintf("GetPartitions after %s: %v", why, err), 0}
	}
	pr.p = p
	pr.fresh = false
	pr.count("reload:" + why)
	return pr.check(true, true, 1)
}

func (pr *pRunner) step(k int, op pOp) *pFail {
	id := idName(op.ID)
	payload := fmt.Sprintf("%s#%d", id, op.Tag)
	_, member := pr.work[id]
	c := pr.ctx.Ctx
	pr.count("op:" + op.Kind)
	reloaded := false
	switch op.Kind {
	case "add", "addx":
		var err error
		if op.Kind == "add" {
			err = pr.p.Add(c, &pItem{id, payload})
		} else {
			_, err = pr.p.AddX(c, &pItem{id, payload})
		}
		switch {
		case member && err == nil:
			return &pFail{"C25:add-existing-accepted", fmt.Sprintf("%s(%s) succeeded although the id is a member", op.Kind, id), k}
		case member && !partitions.ErrItemExist(err):
			pr.count("note:add-existing-refused-with-other-error") // refused, which is all the statement needs
		case !member && err != nil:
			return &pFail{"C25:add-new-rejected", fmt.Sprintf("%s(%s) on a non-member returned %v", op.Kind, id, err), k}
		}
		if !member {
			pr.work[id] = payload
			pr.count("op:add-ok")
			if pr.removed[id] {
				pr.count("cover:id-reused-after-removal")
			}
		} else {
			pr.count("op:add-duplicate-refused")
		}
	case "update_item", "update":
		var err error
		if op.Kind == "update_item" {
			err = pr.p.UpdateItem(c, &pItem{id, payload})
		} else {
			_, err = pr.p.Update(c, id, func(data []byte) ([]byte, error) {
				return (&pItem{id, payload}).MarshalMsg(nil)
			})
		}
		switch {
		case member && err != nil:
			return &pFail{"C25:update-existing-rejected", fmt.Sprintf("%s(%s) on a member returned %v", op.Kind, id, err), k}
		case !member && err == nil:
			return &pFail{"C25:update-missing-accepted", fmt.Sprintf("%s(%s) succeeded although the id is not a member", op.Kind, id), k}
		case !member && !partitions.ErrItemNotFound(err):
			pr.count("note:update-missing-refused-with-other-error")
		}
		if member {
			pr.work[id] = payload
			pr.count("op:update-ok")
		}
	case "remove", "removex":
		// coverage classification only (never used by the oracle)
		if member && pr.fresh {
			wi, ok := pr.where[id]
			switch {
			case !ok:
			case wi == pr.maxPart && pr.maxPart > 0 && pr.lastCount() == 1:
				pr.count("cover:remove-tail-emptying")
			case wi == pr.maxPart:
				pr.count("cover:remove-from-last")
			case wi == 0:
				pr.count("cover:remove-from-first")
				if pr.lastCount() == 1 {
					pr.count("cover:remove-earlier-emptying-tail")
				}
			default:
				pr.count("cover:remove-from-middle")
				if pr.lastCount() == 1 {
					pr.count("cover:remove-earlier-emptying-tail")
				}
			}
		}
		var err error
		if op.Kind == "remove" {
			err = pr.p.Remove(c, id)
		} else {
			_, err = pr.p.RemoveX(c, id)
		}
		switch {
		case member && err != nil:
			return &pFail{"C25:remove-existing-rejected", fmt.Sprintf("%s(%s) on a member returned %v", op.Kind, id, err), k}
		case !member && err == nil:
			return &pFail{"C25:remove-missing-accepted", fmt.Sprintf("%s(%s) succeeded although the id is not a member", op.Kind, id), k}
		case !member && !partitions.ErrItemNotFound(err):
			pr.count("note:remove-missing-refused-with-other-error")
		}
		if member {
			delete(pr.work, id)
			pr.count("op:remove-ok")
			pr.removed[id] = true
		}
	case "save":
		if err := pr.p.Save(c); err != nil {
			return &pFail{"C25:save-failed", err.Error(), k}
		}
	case "save_reload":
		if err := pr.p.Save(c); err != nil {
			return &pFail{"C25:save-failed", err.Error(), k}
		}
		p, err := partitions.GetPartitions(c, pr.name)
		if err != nil {
			return &pFail{"C25:reload-failed", fmt.Sprintf("GetPartitions in the saving context: %v", err), k}
		}
		pr.p = p
		pr.fresh = false
		pr.count("reload:same-context")
		if f := pr.check(true, true, op.Seed); f != nil {
			return f
		}
		reloaded = true
	case "commit", "seal":
		if err := pr.p.Save(c); err != nil {
			return &pFail{"C25:save-failed", err.Error(), k}
		}
		if err := pr.ctx.Commit(); err != nil {
			return &pFail{"C25:harness-commit-failed", err.Error(), k}
		}
		pr.commit = copyMap(pr.work)
		if op.Kind == "seal" {
			sealed := pr.bc.Seal()
			pr.round++
			pr.bc = pr.w.NewBlock(sealed, pr.round, int(pr.round))
		}
		if f := pr.reload(op.Kind); f != nil {
			return f
		}
		reloaded = true
	case "discard", "save_discard":
		if op.Kind == "save_discard" {
			if err := pr.p.Save(c); err != nil {
				return &pFail{"C25:save-failed", err.Error(), k}
			}
		}
		pr.work = copyMap(pr.commit)
		if f := pr.reload(op.Kind); f != nil {
			return f
		}
		reloaded = true
	}
	if reloaded {
		return nil
	}
	return pr.check(op.Full, false, op.Seed)
}

func (pr *pRunner) lastCount() int {
	n := 0
	for _, wi := range pr.where {
		if wi == pr.maxPart {
			n++
		}
	}
	return n
}

// check compares the real partitions with the reference set.
func (pr *pRunner) check(full, afterReload bool, seed int64) *pFail {
	c := pr.ctx.Ctx
	p := pr.p
	lost := func(sig string) string {
		if afterReload {
			return "C25:lost-after-reload"
		}
		return sig
	}
	// Size
	pr.count("check:size")
	sz, err := p.Size(c)
	if err != nil {
		return &pFail{"C25:size-error", err.Error(), 0}
	}
	if sz != len(pr.work) {
		return &pFail{"C25:size-wrong", fmt.Sprintf("Size()=%d, reference set has %d items", sz, len(pr.work)), 0}
	}
	// Exist for every id of the universe
	for i := 0; i < pr.universe; i++ {
		id := idName(i)
		_, member := pr.work[id]
		pr.count("check:exist")
		ok, err := p.Exist(c, id)
		if err != nil {
			return &pFail{"C25:exist-error", fmt.Sprintf("Exist(%s): %v", id, err), 0}
		}
		if ok != member {
			sig := "C25:exist-wrong"
			if member {
				sig = lost(sig)
			}
			return &pFail{sig, fmt.Sprintf("Exist(%s)=%v but membership in the reference set is %v", id, ok, member), 0}
		}
	}
	if !full {
		pr.count("check:light")
		pr.fresh = false
		return nil
	}
	pr.count("check:full")
	if afterReload {
		pr.count("check:after-reload")
	}
	// ForEach
	seen := map[string]string{}
	perPart := map[int]int{}
	where := map[string]int{}
	maxPart := 0
	var dup string
	err = p.ForEach(c, func(partIndex int, id string, data []byte) bool {
		var it pItem
		if _, e := it.UnmarshalMsg(data); e != nil {
			it.Payload = "undecodable:" + e.Error()
		}
		if _, ok := seen[id]; ok {
			dup = id
		}
		if it.ID != id {
			it.Payload = "id-mismatch:" + it.ID + ":" + it.Payload
		}
		seen[id] = it.Payload
		perPart[partIndex]++
		where[id] = partIndex
		if partIndex > maxPart {
			maxPart = partIndex
		}
		return false
	})
	pr.count("check:foreach")
	if err != nil {
		return &pFail{lost("C25:foreach-error"), err.Error(), 0}
	}
	if dup != "" {
		return &pFail{"C25:foreach-duplicate", fmt.Sprintf("ForEach yielded id %s twice", dup), 0}
	}
	if d := diffSets(pr.work, seen); d != "" {
		sig := "C25:foreach-differs-from-set"
		if afterReload && strings.Contains(d, "missing") {
			sig = "C25:lost-after-reload"
		}
		return &pFail{sig, d, 0}
	}
	for pi := 0; pi < maxPart; pi++ {
		pr.count("check:non-last-full")
		if perPart[pi] != pr.size {
			return &pFail{"C25:non-last-partition-not-full", fmt.Sprintf("partition %d of %d holds %d items, partition size is %d", pi, maxPart, perPart[pi], pr.size), 0}
		}
	}
	if perPart[maxPart] > pr.size {
		return &pFail{"C25:partition-overfull", fmt.Sprintf("last partition %d holds %d items, partition size is %d", maxPart, perPart[maxPart], pr.size), 0}
	}
	pr.where, pr.maxPart, pr.fresh = where, maxPart, true
	if pr.run != nil {
		pr.run.Count(fmt.Sprintf("cover:partitions=%s", bucket(maxPart+1)), 1)
	}
	// Get for every id of the universe
	for i := 0; i < pr.universe; i++ {
		id := idName(i)
		want, member := pr.work[id]
		var it pItem
		pr.count("check:get")
		_, err := p.Get(c, id, &it)
		switch {
		case member && err != nil:
			return &pFail{lost("C25:get-wrong"), fmt.Sprintf("Get(%s) on a member returned %v", id, err), 0}
		case member && (it.ID != id || it.Payload != want):
			return &pFail{"C25:get-wrong", fmt.Sprintf("Get(%s) returned (%s,%s), reference payload %s", id, it.ID, it.Payload, want), 0}
		case !member && err == nil:
			return &pFail{"C25:get-wrong", fmt.Sprintf("Get(%s) found (%s,%s) although the id is not a member", id, it.ID, it.Payload), 0}
		case !member && !partitions.ErrItemNotFound(err):
			pr.count("note:get-missing-refused-with-other-error")
		}
	}
	// GetRandomItems
	for k := int64(0); k < 2; k++ {
		var items []pItem
		pr.count("check:random-items")
		err := p.GetRandomItems(c, rand.New(rand.NewSource(seed+k)), &items)
		if len(pr.work) == 0 {
			if err == nil && len(items) > 0 {
				return &pFail{"C25:random-items-not-member", fmt.Sprintf("empty set but GetRandomItems returned %d items", len(items)), 0}
			}
			continue
		}
		if err != nil {
			return &pFail{"C25:random-items-failed", fmt.Sprintf("non-empty set (%d) but GetRandomItems: %v", len(pr.work), err), 0}
		}
		got := map[string]bool{}
		for _, it := range items {
			if got[it.ID] {
				return &pFail{"C25:random-items-duplicate", fmt.Sprintf("GetRandomItems returned %s twice (%d items, set has %d)", it.ID, len(items), len(pr.work)), 0}
			}
			got[it.ID] = true
			if want, ok := pr.work[it.ID]; !ok || want != it.Payload {
				return &pFail{"C25:random-items-not-member", fmt.Sprintf("GetRandomItems returned (%s,%s); member=%v reference payload %q", it.ID, it.Payload, ok, want), 0}
			}
		}
		if len(items) == 0 {
			return &pFail{"C25:random-items-failed", fmt.Sprintf("non-empty set (%d) but GetRandomItems returned nothing", len(pr.work)), 0}
		}
	}
	return nil
}

func bucket(n int) string {
	switch {
	case n <= 1:
		return "1"
	case n == 2:
		return "2"
	case n <= 4:
		return "3-4"
	case n <= 9:
		return "5-9"
	}
	return "10+"
}

func diffSets(ref, got map[string]string) string {
	var d []string
	for id, v := range ref {
		g, ok := got[id]
		if !ok {
			d = append(d, "missing "+id)
		} else if g != v {
			d = append(d, fmt.Sprintf("payload of %s is %q, reference %q", id, g, v))
		}
	}
	for id := range got {
		if _, ok := ref[id]; !ok {
			d = append(d, "extra "+id)
		}
	}
	sort.Strings(d)
	if len(d) > 8 {
		d = append(d[:8], fmt.Sprintf("… %d more", len(d)-8))
	}
	if len(d) == 0 {
		return ""
	}
	return "ForEach vs reference set: " + strings.Join(d, "; ")
}

// shrink removes operations while the same signature still reproduces (ddmin-lite, bounded).
func shrink(w *world.World, h *pHist, ops []pOp, sig string) []pOp {
	budget := 250
	try := func(cand []pOp) bool {
		if budget <= 0 {
			return false
		}
		budget--
		f := safeRun(w, nil, h, cand)
		return f != nil && f.Sig == sig
	}
	chunk := len(ops) / 2
	for chunk >= 1 && budget > 0 {
		removed := false
		for start := 0; start+chunk <= len(ops) && budget > 0; {
			cand := append(append([]pOp{}, ops[:start]...), ops[start+chunk:]...)
			if try(cand) {
				ops = cand
				removed = true
			} else {
				start += chunk
			}
		}
		if !removed || chunk == 1 {
			chunk /= 2
		}
	}
	return ops
}

// safeRun turns a panic inside the partitions code into a failure of the history.
func safeRun(w *world.World, run *mon.Run, h *pHist, ops []pOp) (f *pFail) {
	defer func() {
		if e := recover(); e != nil {
			f = &pFail{"C25:panic", trunc(fmt.Sprint(e), 300), -1}
		}
	}()
	return runHist(w, run, h, ops)
}

func c25Child(run *mon.Run, w *world.World, seed uint64, child, from, count int) {
	nops := 200
	if run.Tier == "thorough" {
		nops = 300
	}
	shrunk := map[string]bool{}
	vcap := newCapper(run)
	for i := from; i < count; i++ {
		h := genHist(seed, child, i, nops)
		fmt.Printf("CASE %d child=%d size=%d universe=%d ops=%d\n", i, child, h.Size, h.Universe, len(h.Ops))
		f := safeRun(w, run, h, h.Ops)
		run.Eval(1)
		run.Count("histories", 1)
		run.Count(fmt.Sprintf("histories:size=%d", h.Size), 1)
		run.Distinct(fmt.Sprintf("%d|%d|%s", h.Size, h.Universe, mustJSON(h.Ops)))
		if i == 0 && child == 0 {
			run.Sample(map[string]interface{}{"partition_size": h.Size, "id_universe": h.Universe, "first_ops": h.Ops[:6], "length": len(h.Ops)})
		}
		if f != nil {
			ops := h.Ops
			if f.At >= 0 && f.At < len(ops) {
				ops = ops[:f.At+1]
			}
			orig := len(ops)
			if !shrunk[f.Sig] {
				shrunk[f.Sig] = true
				ops = shrink(w, h, ops, f.Sig)
				if f2 := safeRun(w, nil, h, ops); f2 != nil && f2.Sig == f.Sig {
					f.Detail = f2.Detail
				}
			}
			vcap.Violate(f.Sig, fmt.Sprintf("%s | partition size %d, %d-op witness (shrunk from %d): %s", f.Detail, h.Size, len(ops), orig, opsString(ops)),
				map[string]interface{}{"partition_size": h.Size, "id_universe": h.Universe, "ops": ops, "child": child, "history": i})
		}
		run.Checkpoint()
	}
}

func opsString(ops []pOp) string {
	var s []string
	for _, o := range ops {
		switch o.Kind {
		case "add", "addx", "update", "update_item", "remove", "removex":
			s = append(s, fmt.Sprintf("%s(%d)", o.Kind, o.ID))
		default:
			s = append(s, o.Kind)
		}
	}
	out := strings.Join(s, " ")
	return trunc(out, 1500)
}
