// Package unitsc calls real contract-library code (stake-pool reward distribution, partitions, hard-fork activator)
// directly on a real state context and judges every call with a small reference model written from the property statement.
//
//	verifh unitsc -prop C10|C25|C43 -tier quick|thorough
package unitsc

import (
	"flag"
	"fmt"
	"os"
	"runtime/debug"
	"strings"
	"time"

	"verifh/mon"
	"verifh/world"

	"0chain.net/chaincore/chain"
	cstate "0chain.net/chaincore/chain/state"
	"0chain.net/chaincore/transaction"
	"github.com/0chain/common/core/statecache"
	"github.com/0chain/common/core/util"
)

// Props served by this engine.
var Props = []string{"C10", "C25", "C43"}

var rules = map[string]string{
	"C10": "generated (value, service-charge ratio, delegate pools with balances, MinStake, killed flag, prior rewards, method DistributeRewards|DistributeRewardsRandN, seed, N, demeter fork on/off) cases; real method called on a real state context; increments of sp.Reward and every dp.Reward judged: sum == value (exact, big-int), killed/under-staked/zero => all 0, RandN credits <= N delegates, |delta_i - floor((value-charge)*bal_i/stake)| <= len(pools) (RandN with N < len(pools): stake of the credited subset, tolerance 2*len(pools)), 0 <= charge <= value; distinct = (method, pool-count bucket, balance pattern, value class, ratio class, N class, MinStake class, killed, fork, outcome) tuples",
	"C25": "generated operation histories (Add, AddX, UpdateItem, Update, Remove, RemoveX, Save, Save+reload in the same context, commit+reload on a fresh state context, discard+reload, block seal+reload) on real partitions.Partitions over a real state trie with partition sizes 1,2,3,5,10 and small id universes (forces id reuse and removals from first/middle/last/tail-emptying partitions); reference map[id]payload; after every op Exist/Get for every id of the universe, ForEach (set equality, duplicates, fullness of all but the last partition), Size and GetRandomItems are compared with the reference; distinct = histories hashed by (partition size, op log)",
	"C43": "hard forks recorded through the real miner-contract txn add_hardfork (owner: success; non-owner, unparsable round, multi-key with one bad value, malformed input: must not take effect), re-recorded with other rounds; WithActivation probed for every recorded/failed/unknown name at block rounds {r-1, r, r+1, 0, 1, MaxInt64-1, MaxInt64, current} on state contexts over the real state, before and after the recording txn, and on real successor blocks crossing the fork round; distinct = (name class, recorded?, relation of block round to fork round, branch) tuples",
}

// Main is the engine entry point.
func Main(args []string) int {
	fs := flag.NewFlagSet("unitsc", flag.ExitOnError)
	prop := fs.String("prop", "C10", "property id")
	tier := fs.String("tier", "quick", "quick|thorough")
	child := fs.Int("child", -1, "child index (internal)")
	from := fs.Int("from", 0, "first case/history index (internal)")
	count := fs.Int("count", 0, "cases/histories per child (internal / override)")
	children := fs.Int("children", 0, "number of child processes (override)")
	_ = fs.Parse(args)
	if _, ok := rules[*prop]; !ok {
		fmt.Printf("unitsc: unknown property %q\n", *prop)
		return 2
	}
	if *child >= 0 {
		return childMain(*prop, *tier, *child, *from, *count)
	}
	defer mon.CleanScratch()
	run := mon.NewRun(*prop, *tier, "exploration", rules[*prop])
	var nc, per int
	switch *prop {
	case "C10":
		nc, per = 14, 2000 // 28k cases
		if *tier == "thorough" {
			nc, per = 16, 125000 // 2M cases
		}
	case "C25":
		nc, per = 14, 24 // 336 histories x 200 ops
		if *tier == "thorough" {
			nc, per = 16, 400
		}
	case "C43":
		nc, per = 8, 6 // scenarios
		if *tier == "thorough" {
			nc, per = 16, 40
		}
	}
	if *children > 0 {
		nc = *children
	}
	if *count > 0 {
		per = *count
	}
	to := 150 * time.Second
	if *tier == "thorough" {
		to = 28 * time.Minute
	}
	// Every child works through its slice [0,per); a child that dies is restarted after the case it printed last.
	type slot struct {
		idx, from int
	}
	pending := make([]slot, nc)
	for i := range pending {
		pending[i] = slot{i, 0}
	}
	restarts := 0
	for len(pending) > 0 {
		var specs []mon.ChildSpec
		for _, s := range pending {
			specs = append(specs, mon.ChildSpec{Name: fmt.Sprintf("c%d@%d", s.idx, s.from), Timeout: to,
				Args: []string{"unitsc", "-prop", *prop, "-tier", *tier, "-child", fmt.Sprint(s.idx), "-from", fmt.Sprint(s.from), "-count", fmt.Sprint(per)}})
		}
		res := mon.RunChildren(run, specs, 15)
		var next []slot
		for k, cr := range res {
			if !cr.Crashed || cr.TimedOut {
				continue
			}
			s := pending[k]
			last, line := lastCase(cr.LogTail)
			p := mon.KeepLog(cr, fmt.Sprintf("%s-crash-c%d-at%d-seed%d.log", *prop, s.idx, last, run.SeedV))
			sig, detail := classifyCrash(*prop, cr.LogTail)
			if *prop == "C10" && last >= 0 {
				line = c10CaseJSON(run.SeedV, s.idx, last) // the full input, regenerated from (VERIF_SEED, child, idx)
			}
			if sig != "" {
				run.Violate(sig, detail+" | input: "+line, map[string]interface{}{"log": p, "child": s.idx, "case": last, "input": line})
			} else {
				run.Inconclusive(fmt.Sprintf("child c%d crashed at case %d (log %s): %s", s.idx, last, p, firstPanicLine(cr.LogTail)))
			}
			restarts++
			if last >= s.from && last+1 < per && restarts <= 40 {
				next = append(next, slot{s.idx, last + 1})
			}
		}
		pending = next
	}
	switch *prop {
	case "C10":
		run.RequireMin("oracle:sum-exact", 5000)
		run.RequireMin("oracle:not-paid-all-zero", 500)
		run.RequireMin("oracle:randn-at-most-n", 2000)
		run.RequireMin("oracle:proportional", 3000)
		run.Assume("proportionality tolerance: |delta_i - floor((value-charge)*bal_i/stake)| <= len(pools) ('a few units' in the statement is read as one unit per pool because the remainder is spread one unit at a time); for RandN with N < len(pools) the credited subset is taken from the observed increments and the tolerance is 2*len(pools)")
		run.Assume("a call that returns an error is counted by error class but not judged as a payment: every caller aborts its transaction on error, so nothing is saved")
		run.Assume("the service charge is not recomputed; only 0 <= charge <= value is required")
	case "C25":
		run.RequireMin("check:full", 10000)
		run.RequireMin("check:after-reload", 1000)
		run.RequireMin("op:remove-ok", 2000)
		run.Assume("a partitions handle is only reloaded after Save in the same context, or after the context was dropped (discard) - reloading over unsaved in-memory changes has no defined meaning in the statement")
	case "C43":
		run.RequireMin("probe:withactivation", 2000)
		run.RequireMin("record:owner-success", 8)
		run.RequireMin("record:failed-attempt", 8)
	}
	run.Assume("contract-library code is called directly on a state context built the way Chain.updateState builds it (transaction MPT + transaction cache over the block state); consensus, networking and the event database are not running")
	run.Assume("github.com/0chain/common (MPT, statecache, currency) is exercised but lives outside the repository")
	return run.Finish()
}

// lastCase finds the last "CASE <idx> ..." line of a child log.
func lastCase(log string) (int, string) {
	idx, line := -1, ""
	for _, l := range strings.Split(log, "\n") {
		if strings.HasPrefix(l, "CASE ") {
			var i int
			if _, err := fmt.Sscanf(l, "CASE %d", &i); err == nil {
				idx, line = i, l
			}
		}
	}
	return idx, trunc(line, 3000)
}

func firstPanicLine(log string) string {
	for _, l := range strings.Split(log, "\n") {
		if strings.HasPrefix(l, "panic:") || strings.HasPrefix(l, "fatal error:") || strings.HasPrefix(l, "HARNESS-PANIC") {
			return trunc(l, 300)
		}
	}
	return "no panic line"
}

// classifyCrash maps a crash that escaped the in-process recover onto the property (DESIGN 2.8).
func classifyCrash(prop, log string) (sig, detail string) {
	l := firstPanicLine(log)
	if strings.HasPrefix(l, "HARNESS-PANIC") {
		return "", ""
	}
	switch prop {
	case "C10":
		if strings.Contains(log, "distribute rewards error") {
			return "C10:own-exactness-assertion", l
		}
		if strings.HasPrefix(l, "panic:") || strings.HasPrefix(l, "fatal error:") {
			return "C10:crash", l
		}
	case "C25":
		if strings.HasPrefix(l, "panic:") || strings.HasPrefix(l, "fatal error:") {
			return "C25:crash", l
		}
	}
	return "", ""
}

func childMain(prop, tier string, idx, from, count int) (code int) {
	run := mon.NewRun(prop, tier, "exploration", "")
	defer func() {
		if e := recover(); e != nil {
			fmt.Printf("HARNESS-PANIC %v\n%s\n", e, debug.Stack())
			run.Checkpoint()
			os.Exit(3)
		}
	}()
	seed := mon.Seed()
	w := world.New(world.Options{Seed: seed*1000 + uint64(idx)})
	defer w.Close()
	switch prop {
	case "C10":
		c10Child(run, w, seed, idx, from, count)
	case "C25":
		c25Child(run, w, seed, idx, from, count)
	case "C43":
		c43Child(run, w, seed, idx, from, count)
	}
	run.Checkpoint()
	return 0
}

// txnCtx is a state context built exactly like Chain.updateState builds one: a transaction MPT with a transaction
// cache on top of the block state. Commit merges it into the block (as a successful txn does), Drop forgets it
// (as a failed txn does).
type txnCtx struct {
	bc    *world.BlockCtx
	cache *statecache.TransactionCache
	mpt   util.MerklePatriciaTrieI
	Ctx   *cstate.StateContext
}

func newTxnCtx(w *world.World, bc *world.BlockCtx, txn *transaction.Transaction) *txnCtx {
	tc := statecache.NewTransactionCache(bc.Cache)
	m := chain.CreateTxnMPT(bc.State, tc)
	return &txnCtx{bc: bc, cache: tc, mpt: m, Ctx: w.Chain.NewStateContext(bc.B, m, txn, nil)}
}

func (t *txnCtx) Commit() error {
	if err := t.bc.State.MergeMPTChanges(t.mpt); err != nil {
		return err
	}
	t.cache.Commit()
	return nil
}

// dummyTxn is the transaction a direct call pretends to run in.
func dummyTxn(w *world.World, label string) *transaction.Transaction {
	return w.MakeTxn(world.TxnSpec{From: w.Clients[0], To: world.SCAddresses["miner"], Type: transaction.TxnTypeSmartContract, Func: "verif_probe", Input: map[string]string{"l": label}, Nonce: 1})
}

// capper keeps a flood of one violation class (e.g. a known finding) from exhausting mon's per-run violation buffer and
// thereby hiding a different class: per child and signature the first few go to run.Violate, all are counted.
type capper struct {
	run *mon.Run
	n   map[string]int
}

func newCapper(run *mon.Run) *capper { return &capper{run: run, n: map[string]int{}} }

func (c *capper) Violate(sig, detail string, replay interface{}) {
	c.n[sig]++
	c.run.Count("violations:"+sig, 1)
	if c.n[sig] <= 4 {
		c.run.Violate(sig, detail, replay)
		c.run.Checkpoint()
	}
}

// nextNonce reads the sender's nonce from the block state (harness plumbing, no oracle uses it).
func nextNonce(bc *world.BlockCtx, id string) int64 {
	s, err := chain.GetStateById(bc.State, id)
	if err != nil || s == nil {
		return 1
	}
	return s.Nonce + 1
}

func trunc(s string, n int) string {
	if len(s) > n {
		return s[:n] + "…"
	}
	return s
}
