package crypto

import (
	"context"
	"crypto/ed25519"
	"encoding/hex"
	"fmt"
	"strings"

	"0chain.net/chaincore/client"
	"0chain.net/chaincore/transaction"
	"0chain.net/core/common"
	"0chain.net/core/datastore"
	"0chain.net/core/encryption"
	"github.com/0chain/common/core/currency"

	"verifh/mon"
	"verifh/world"
)

// schemeWallet derives a deterministic key pair for either client signature scheme.
func schemeWallet(scheme, label string) *world.Wallet {
	if scheme == encryption.SignatureSchemeBls0chain {
		return world.NewWallet(label)
	}
	seed := encryption.RawHash("verif-ed25519:" + label)
	priv := ed25519.NewKeyFromSeed(seed)
	pub := priv.Public().(ed25519.PublicKey)
	sch := encryption.NewED25519Scheme()
	if err := sch.ReadKeys(strings.NewReader(hex.EncodeToString(pub) + "\n" + hex.EncodeToString(priv) + "\n")); err != nil {
		panic(err)
	}
	return &world.Wallet{Name: label, ID: encryption.Hash([]byte(pub)), PubKey: hex.EncodeToString(pub), Scheme: sch, SecHex: hex.EncodeToString(priv)}
}

func txnJSON(t *transaction.Transaction) []byte {
	return append([]byte{}, datastore.ToJSON(t).Bytes()...)
}

// acceptTxn is the transaction receive pipeline: decode + ComputeProperties, then ValidateWrtTime.
func acceptTxn(js []byte, ts common.Timestamp) (bool, string) {
	t := transaction.Provider().(*transaction.Transaction)
	if err := datastore.FromJSON(js, t); err != nil {
		return false, "decode"
	}
	if err := t.ValidateWrtTime(context.Background(), ts); err != nil {
		return false, "validate:" + errCode(err)
	}
	return true, "ACCEPTED"
}

func cloneTxnJSON(js []byte) *transaction.Transaction {
	t := transaction.Provider().(*transaction.Transaction)
	if err := common.FromJSON(js, t); err != nil { // raw decode only: the tamperer edits bytes, nothing is normalised
		panic(err)
	}
	return t
}

type txnMut struct {
	field string
	class string
	f     func(t *transaction.Transaction) bool
	noRe  bool // no "rehash" variant (the field is the hash or the signature itself)
}

func c30Child(run *mon.Run, tier, scheme string) {
	w := world.New(world.Options{Seed: mon.Seed()*100 + 30, ViperSet: map[string]interface{}{"server_chain.client.signature_scheme": scheme}})
	defer w.Close()
	client.SetClientSignatureScheme(scheme)
	if got := w.Chain.ClientSignatureScheme(); got != scheme {
		run.Inconclusive("chain client signature scheme is " + got + ", wanted " + scheme)
		return
	}
	w.Now = world.Epoch + 5000
	r := rnd("c30/" + scheme)
	nBase := 48
	if tier == "thorough" {
		nBase = 400
	}
	peers := []*world.Wallet{}
	for i := 0; i < 4; i++ {
		peers = append(peers, schemeWallet(scheme, fmt.Sprintf("%d:c30-peer-%s-%d", mon.Seed(), scheme, i)))
	}
	scNames := []string{"faucet", "storage", "miner", "zcn"}
	for bi := 0; bi < nBase; bi++ {
		from := schemeWallet(scheme, fmt.Sprintf("%d:c30-%s-%d", mon.Seed(), scheme, bi))
		to := peers[r.Intn(len(peers))]
		spec := world.TxnSpec{From: from, Nonce: 1 + int64(r.Intn(50)), Time: w.Now + common.Timestamp(r.Intn(7)-3)}
		vals := []uint64{0, 1, 2, 1e10, 1 << 40, uint64(r.Intn(1e9)) + 3}
		spec.Value = currency.Coin(vals[r.Intn(len(vals))])
		fees := []uint64{0, 1, 1e9, uint64(r.Intn(1e7)) + 2}
		spec.Fee = currency.Coin(fees[r.Intn(len(fees))])
		kind := bi % 4
		switch kind {
		case 0:
			spec.Type, spec.To = transaction.TxnTypeSend, to.ID
		case 1:
			spec.Type, spec.To, spec.Data = transaction.TxnTypeData, "", fmt.Sprintf("note:%d:päyload", r.Intn(1e6))
		case 2:
			spec.Type, spec.To, spec.Func = transaction.TxnTypeSmartContract, world.SCAddresses[scNames[r.Intn(len(scNames))]], "pour"
			spec.Input = map[string]interface{}{"n": r.Intn(1000), "s": "a:b"}
		case 3:
			// a send whose data happens to be a well-formed contract call (type flips stay decodable both ways)
			spec.Type, spec.To, spec.Data = transaction.TxnTypeSend, world.SCAddresses["faucet"], `{"name":"pour","input":{}}`
		}
		base := w.MakeTxn(spec)
		js := txnJSON(base)
		muts := c30Mutations(base, from, to, peers, r)
		evalAll := func(cache string) {
			for _, m := range muts {
				variants := []string{"stale", "rehash"}
				if m.noRe {
					variants = []string{"stale"}
				}
				for _, v := range variants {
					t := cloneTxnJSON(js)
					if !m.f(t) {
						run.Count("c30.mutation_not_applicable", 1)
						continue
					}
					if v == "rehash" {
						t.Hash = t.ComputeHash() // anyone can recompute the hash; nobody but the owner can re-sign
					}
					ok, how := acceptTxn(txnJSON(t), w.Now)
					run.Eval(1)
					run.Count("c30.tamper_evaluated", 1)
					run.Count("c30.field."+m.field, 1)
					run.Distinct(fmt.Sprintf("%s|%s|%s|%s|%s|kind=%d|%s", scheme, m.field, m.class, v, cache, kind, how))
					run.Count("c30.outcome."+strings.SplitN(how, ":", 2)[0], 1)
					if ok {
						violate(run, "C30:field="+m.field,
							fmt.Sprintf("scheme %s: transaction %s (type %d) signed by its owner, then %s changed (%s, hash %s): decode+ComputeProperties and ValidateWrtTime accept it", scheme, base.Hash[:12], base.TransactionType, m.field, m.class, v),
							map[string]interface{}{"seed": mon.Seed(), "scheme": scheme, "field": m.field, "class": m.class, "variant": v, "signed": string(js), "tampered": string(txnJSON(t)), "validated_at": int64(w.Now)})
					}
					if bi == 0 {
						run.Sample(map[string]interface{}{"scheme": scheme, "field": m.field, "class": m.class, "variant": v, "outcome": how})
					}
				}
			}
		}
		evalAll("cold") // the client cache has never seen this sender
		ok, how := acceptTxn(js, w.Now)
		if !ok {
			run.Inconclusive(fmt.Sprintf("scheme %s: validly signed base transaction kind %d rejected (%s)", scheme, kind, how))
			continue
		}
		run.Count("c30.base_accepted", 1)
		evalAll("warm") // the sender's key is now cached by client id
		run.Checkpoint()
	}
}

func c30Mutations(base *transaction.Transaction, from, to *world.Wallet, peers []*world.Wallet, r *mon.Rand) []txnMut {
	other := peers[0]
	if other.ID == to.ID {
		other = peers[1]
	}
	isSC := base.TransactionType == transaction.TxnTypeSmartContract
	dataIsCall := strings.HasPrefix(base.TransactionData, `{"name"`)
	ms := []txnMut{
		{"CreationDate", "+1", func(t *transaction.Transaction) bool { t.CreationDate++; return true }, false},
		{"CreationDate", "-1", func(t *transaction.Transaction) bool { t.CreationDate--; return true }, false},
		{"Nonce", "+1", func(t *transaction.Transaction) bool { t.Nonce++; return true }, false},
		{"Nonce", "other", func(t *transaction.Transaction) bool { t.Nonce += 1000 + int64(r.Intn(1000)); return true }, false},
		{"ClientID", "other-client", func(t *transaction.Transaction) bool { t.ClientID = other.ID; return true }, false},
		{"ClientID", "random", func(t *transaction.Transaction) bool { t.ClientID = encryption.Hash("rnd" + t.ClientID); return true }, false},
		{"ClientID", "with-matching-PublicKey", func(t *transaction.Transaction) bool { t.ClientID, t.PublicKey = other.ID, other.PubKey; return true }, false},
		{"PublicKey", "other-client", func(t *transaction.Transaction) bool { t.PublicKey = other.PubKey; return true }, false},
		{"PublicKey", "flip", func(t *transaction.Transaction) bool { t.PublicKey = flipHex(t.PublicKey, 9); return true }, false},
		{"ToClientID", "other-client", func(t *transaction.Transaction) bool {
			if t.ToClientID == other.ID {
				return false
			}
			t.ToClientID = other.ID
			return true
		}, false},
		{"ToClientID", "contract", func(t *transaction.Transaction) bool {
			if t.ToClientID == world.SCAddresses["vesting"] {
				return false
			}
			t.ToClientID = world.SCAddresses["vesting"]
			return true
		}, false},
		{"ToClientID", "empty", func(t *transaction.Transaction) bool {
			if t.ToClientID == "" {
				return false
			}
			t.ToClientID = ""
			return true
		}, false},
		{"Value", "+1", func(t *transaction.Transaction) bool { t.Value++; return true }, false},
		{"Value", "zero", func(t *transaction.Transaction) bool {
			if t.Value == 0 {
				return false
			}
			t.Value = 0
			return true
		}, false},
		{"Value", "max", func(t *transaction.Transaction) bool { t.Value = currency.Coin(^uint64(0)); return true }, false},
		{"TransactionData", "append", func(t *transaction.Transaction) bool {
			if t.TransactionType == transaction.TxnTypeSmartContract {
				t.TransactionData += " "
			} else {
				t.TransactionData += "x"
			}
			return true
		}, false},
		{"TransactionData", "other-function", func(t *transaction.Transaction) bool {
			if !strings.Contains(t.TransactionData, `"pour"`) {
				return false
			}
			t.TransactionData = strings.Replace(t.TransactionData, `"pour"`, `"refill"`, 1)
			return true
		}, false},
		{"TransactionData", "empty", func(t *transaction.Transaction) bool {
			if t.TransactionData == "" || t.TransactionType == transaction.TxnTypeSmartContract {
				return false
			}
			t.TransactionData = ""
			return true
		}, false},
		{"Fee", "+1", func(t *transaction.Transaction) bool { t.Fee++; return true }, false},
		{"Fee", "zero", func(t *transaction.Transaction) bool {
			if t.Fee == 0 {
				return false
			}
			t.Fee = 0
			return true
		}, false},
		{"Fee", "huge", func(t *transaction.Transaction) bool { t.Fee = currency.Coin(1 << 62); return true }, false},
		{"TransactionType", "to-send", func(t *transaction.Transaction) bool {
			if t.TransactionType == transaction.TxnTypeSend {
				return false
			}
			t.TransactionType = transaction.TxnTypeSend
			return true
		}, false},
		{"TransactionType", "to-data", func(t *transaction.Transaction) bool {
			if t.TransactionType == transaction.TxnTypeData {
				return false
			}
			t.TransactionType = transaction.TxnTypeData
			return true
		}, false},
		{"TransactionType", "to-contract-call", func(t *transaction.Transaction) bool {
			if isSC || !dataIsCall {
				return false // the data would not decode as a call: rejected for an unrelated reason, not a fair witness
			}
			t.TransactionType = transaction.TxnTypeSmartContract
			return true
		}, false},
		{"Signature", "flip", func(t *transaction.Transaction) bool { t.Signature = flipHex(t.Signature, 13); return true }, true},
		{"Signature", "other-signer", func(t *transaction.Transaction) bool { t.Signature = other.Sign(t.Hash); return true }, true},
		{"Signature", "other-message", func(t *transaction.Transaction) bool {
			t.Signature = from.Sign(encryption.Hash("some other message"))
			return true
		}, true},
		{"Signature", "empty", func(t *transaction.Transaction) bool { t.Signature = ""; return true }, true},
		{"Hash", "flip", func(t *transaction.Transaction) bool { t.Hash = flipHex(t.Hash, 21); return true }, true},
		{"Hash", "other-signed-hash", func(t *transaction.Transaction) bool {
			// hash and signature of another message really signed by the owner
			t.Hash = encryption.Hash("another message of the same owner")
			t.Signature = from.Sign(t.Hash)
			return true
		}, true},
	}
	return ms
}
