package crypto

import (
	"context"
	"crypto/ed25519"
	"encoding/hex"
	"fmt"
	"strings"

	"0chain.net/chaincore/block"
	"0chain.net/chaincore/client"
	"0chain.net/chaincore/transaction"
	"0chain.net/core/common"
	"0chain.net/core/datastore"
	"0chain.net/core/encryption"
	"0chain.net/core/viper"
	"0chain.net/miner"
	"github.com/0chain/common/core/currency"

	"verifh/mon"
	"verifh/world"
)

// schemeWallet derives a deterministic key pair for either client signature scheme.
func schemeWallet(scheme, label string) *world.Wallet {
	if scheme == encryption.SignatureSchemeBls0chain {
		return world.NewWallet(label)
	}
	seed := encryption.RawHash("verif-ed25519:" + label)
	priv := ed25519.NewKeyFromSeed(seed)
	pub := priv.Public().(ed25519.PublicKey)
	sch := encryption.NewED25519Scheme()
	if err := sch.ReadKeys(strings.NewReader(hex.EncodeToString(pub) + "\n" + hex.EncodeToString(priv) + "\n")); err != nil {
		panic(err)
	}
	return &world.Wallet{Name: label, ID: encryption.Hash([]byte(pub)), PubKey: hex.EncodeToString(pub), Scheme: sch, SecHex: hex.EncodeToString(priv)}
}

func txnJSON(t *transaction.Transaction) []byte {
	return append([]byte{}, datastore.ToJSON(t).Bytes()...)
}

// acceptTxn is the transaction receive pipeline: decode + ComputeProperties, then ValidateWrtTime.
func acceptTxn(js []byte, ts common.Timestamp) (bool, string) {
	t := transaction.Provider().(*transaction.Transaction)
	if err := datastore.FromJSON(js, t); err != nil {
		return false, "decode"
	}
	if err := t.ValidateWrtTime(context.Background(), ts); err != nil {
		return false, "validate:" + errCode(err)
	}
	return true, "ACCEPTED"
}

func cloneTxnJSON(js []byte) *transaction.Transaction {
	t := transaction.Provider().(*transaction.Transaction)
	if err := common.FromJSON(js, t); err != nil { // raw decode only: the tamperer edits bytes, nothing is normalised
		panic(err)
	}
	return t
}

// ---------------------------------------------------------------------------------------------------
// block path: the same transaction as it appears inside a generated block (output, output hash, status set by the
// generator) and as the verifying miners treat it: block JSON -> ComputeProperties -> miner.Chain.ValidateTransactions
// -> Transaction.ValidateWrtTimeForBlock(ctx, block creation date, !aggregate) [-> aggregate signature check].

var c30Outputs = []string{"", `{"from":"a","to":"b","amount":1}`, "output:done"}

// c30BlockForm gives a copy of t the way a generator leaves it in a block: an output and the hash of that output
// (computed here with the hash primitive, not with the transaction's own method).
func c30BlockForm(t *transaction.Transaction, out string) *transaction.Transaction {
	bt := cloneTxnJSON(txnJSON(t))
	bt.TransactionOutput = out
	bt.OutputHash = encryption.Hash(out)
	bt.Status = transaction.TxnSuccess
	return bt
}

// c30AcceptBlockTxn: a transaction of a received block (decode + ComputeProperties, as Block.ComputeProperties does for
// each of its transactions), then the real ValidateWrtTimeForBlock with the block's creation date.
func c30AcceptBlockTxn(js []byte, blockTime common.Timestamp, validateSignature bool) (bool, string) {
	t := transaction.Provider().(*transaction.Transaction)
	if err := datastore.FromJSON(js, t); err != nil {
		return false, "decode"
	}
	var err error
	if p := guard(func() { err = t.ValidateWrtTimeForBlock(context.Background(), blockTime, validateSignature) }); p != "" {
		return false, "PANIC"
	}
	if err != nil {
		return false, "validate:" + errCode(err)
	}
	return true, "ACCEPTED"
}

// c30BlockEnv holds what is needed to put one transaction into a block next to honest ones.
type c30BlockEnv struct {
	w          *world.World
	mc         *miner.Chain
	companions [][]byte // JSON of validly signed block-form transactions of other senders
	round      int64
}

func newC30BlockEnv(w *world.World, scheme string) *c30BlockEnv {
	miner.SetupMinerChain(w.Chain)
	e := &c30BlockEnv{w: w, mc: miner.GetMinerChain(), round: 100}
	for i := 0; i < 3; i++ {
		from := schemeWallet(scheme, fmt.Sprintf("%d:c30-companion-%s-%d", mon.Seed(), scheme, i))
		to := schemeWallet(scheme, fmt.Sprintf("%d:c30-companion-to-%s", mon.Seed(), scheme))
		t := w.MakeTxn(world.TxnSpec{From: from, To: to.ID, Value: currency.Coin(10 + i), Fee: 1e9, Nonce: int64(1 + i), Type: transaction.TxnTypeSend})
		e.companions = append(e.companions, txnJSON(c30BlockForm(t, c30Outputs[i%len(c30Outputs)])))
	}
	return e
}

// acceptInBlock builds a block of k honest transactions with the given one at position pos, sends it through the
// block receive path (JSON -> Block.ComputeProperties) and asks the real miner.Chain.ValidateTransactions.
func (e *c30BlockEnv) acceptInBlock(tj []byte, k, pos int) (bool, string) {
	e.round++
	b := block.NewBlock(e.w.Chain.GetKey(), e.round)
	b.CreationDate = e.w.Now
	for i := 0; i < k; i++ {
		if i == pos {
			b.Txns = append(b.Txns, cloneTxnJSON(tj))
		}
		b.Txns = append(b.Txns, cloneTxnJSON(e.companions[i]))
	}
	if pos >= k {
		b.Txns = append(b.Txns, cloneTxnJSON(tj))
	}
	rb, err := recvBlock(blockJSON(b))
	if err != nil {
		return false, "decode"
	}
	if len(rb.Txns) != k+1 {
		return false, "decode:txns-lost"
	}
	var verr error
	if p := guard(func() { verr = e.mc.ValidateTransactions(context.Background(), rb) }); p != "" {
		return false, "PANIC"
	}
	if verr != nil {
		return false, "validate:" + errCode(verr)
	}
	return true, "ACCEPTED"
}

type txnMut struct {
	field string
	class string
	f     func(t *transaction.Transaction) bool
	noRe  bool // no "rehash" variant (the field is the hash or the signature itself)
}

func c30Child(run *mon.Run, tier, scheme string) {
	w := world.New(world.Options{Seed: mon.Seed()*100 + 30, ViperSet: map[string]interface{}{"server_chain.client.signature_scheme": scheme}})
	defer w.Close()
	client.SetClientSignatureScheme(scheme)
	if got := w.Chain.ClientSignatureScheme(); got != scheme {
		run.Inconclusive("chain client signature scheme is " + got + ", wanted " + scheme)
		return
	}
	w.Now = world.Epoch + 5000
	r := rnd("c30/" + scheme)
	nBase := 48
	if tier == "thorough" {
		nBase = 400
	}
	peers := []*world.Wallet{}
	for i := 0; i < 4; i++ {
		peers = append(peers, schemeWallet(scheme, fmt.Sprintf("%d:c30-peer-%s-%d", mon.Seed(), scheme, i)))
	}
	scNames := []string{"faucet", "storage", "miner", "zcn"}
	benv := newC30BlockEnv(w, scheme)
	evalNo := 0
	for bi := 0; bi < nBase; bi++ {
		from := schemeWallet(scheme, fmt.Sprintf("%d:c30-%s-%d", mon.Seed(), scheme, bi))
		to := peers[r.Intn(len(peers))]
		spec := world.TxnSpec{From: from, Nonce: 1 + int64(r.Intn(50)), Time: w.Now + common.Timestamp(r.Intn(7)-3)}
		vals := []uint64{0, 1, 2, 1e10, 1 << 40, uint64(r.Intn(1e9)) + 3}
		spec.Value = currency.Coin(vals[r.Intn(len(vals))])
		fees := []uint64{0, 1, 1e9, uint64(r.Intn(1e7)) + 2}
		spec.Fee = currency.Coin(fees[r.Intn(len(fees))])
		kind := bi % 4
		switch kind {
		case 0:
			spec.Type, spec.To = transaction.TxnTypeSend, to.ID
		case 1:
			spec.Type, spec.To, spec.Data = transaction.TxnTypeData, "", fmt.Sprintf("note:%d:päyload", r.Intn(1e6))
		case 2:
			spec.Type, spec.To, spec.Func = transaction.TxnTypeSmartContract, world.SCAddresses[scNames[r.Intn(len(scNames))]], "pour"
			spec.Input = map[string]interface{}{"n": r.Intn(1000), "s": "a:b"}
		case 3:
			// a send whose data happens to be a well-formed contract call (type flips stay decodable both ways)
			spec.Type, spec.To, spec.Data = transaction.TxnTypeSend, world.SCAddresses["faucet"], `{"name":"pour","input":{}}`
		}
		base := w.MakeTxn(spec)
		js := txnJSON(base)
		bs := []int{1, 2, 1000}[bi%3]
		viper.Set("server_chain.block.validation.batch_size", bs)
		if err := w.Chain.ChainConfig.FromViper(); err != nil {
			panic(err)
		}
		if benv.mc.ValidationBatchSize() != bs {
			run.Inconclusive("cannot set validation batch size")
			return
		}
		muts := c30Mutations(base, from, to, peers, r)
		evalAll := func(cache string) {
			for _, m := range muts {
				variants := []string{"stale", "rehash"}
				if m.noRe {
					variants = []string{"stale"}
				}
				for _, v := range variants {
					t := cloneTxnJSON(js)
					if !m.f(t) {
						run.Count("c30.mutation_not_applicable", 1)
						continue
					}
					if v == "rehash" {
						t.Hash = t.ComputeHash() // anyone can recompute the hash; nobody but the owner can re-sign
					}
					ok, how := acceptTxn(txnJSON(t), w.Now)
					run.Eval(1)
					run.Count("c30.tamper_evaluated", 1)
					run.Count("c30.field."+m.field, 1)
					run.Distinct(fmt.Sprintf("%s|%s|%s|%s|%s|kind=%d|%s", scheme, m.field, m.class, v, cache, kind, how))
					run.Count("c30.outcome."+strings.SplitN(how, ":", 2)[0], 1)
					if ok {
						violate(run, "C30:field="+m.field,
							fmt.Sprintf("scheme %s: transaction %s (type %d) signed by its owner, then %s changed (%s, hash %s): decode+ComputeProperties and ValidateWrtTime accept it", scheme, base.Hash[:12], base.TransactionType, m.field, m.class, v),
							map[string]interface{}{"seed": mon.Seed(), "scheme": scheme, "field": m.field, "class": m.class, "variant": v, "signed": string(js), "tampered": string(txnJSON(t)), "validated_at": int64(w.Now)})
					}
					if bi == 0 {
						run.Sample(map[string]interface{}{"scheme": scheme, "field": m.field, "class": m.class, "variant": v, "outcome": how})
					}
					// ---- the same tampered transaction delivered inside a block (output + correct output hash)
					evalNo++
					out := c30Outputs[evalNo%len(c30Outputs)]
					bj := txnJSON(c30BlockForm(t, out))
					k := evalNo % (len(benv.companions) + 1)
					pos := (evalNo / 4) % (k + 1)
					hashStale := v == "stale" && m.field != "Signature" // the carried hash is not the hash of the contents
					type res struct {
						path  string
						ok    bool
						how   string
						judge bool
					}
					var rs []res
					ok1, how1 := c30AcceptBlockTxn(bj, w.Now, true)
					rs = append(rs, res{"ValidateWrtTimeForBlock(sig=true)", ok1, how1, true})
					// without the signature check the function still owes the hash check; the signature is then the
					// business of the aggregate check, judged through ValidateTransactions below
					ok2, how2 := c30AcceptBlockTxn(bj, w.Now, false)
					rs = append(rs, res{"ValidateWrtTimeForBlock(sig=false)", ok2, how2, hashStale})
					ok3, how3 := benv.acceptInBlock(bj, k, pos)
					rs = append(rs, res{"miner.ValidateTransactions", ok3, how3, true})
					for _, x := range rs {
						run.Eval(1)
						run.Count("c30.block_tamper_evaluated", 1)
						run.Count("c30.block_path."+x.path, 1)
						run.Distinct(fmt.Sprintf("block|%s|%s|%s|%s|%s|%s|kind=%d|bs=%d|%s", scheme, x.path, m.field, m.class, v, cache, kind, bs, x.how))
						if !x.judge {
							continue
						}
						run.Count("c30.block_outcome."+strings.SplitN(x.how, ":", 2)[0], 1)
						if x.how == "PANIC" {
							violate(run, "C30:block-txn-validation-panics", fmt.Sprintf("scheme %s: %s panicked on a block transaction with %s changed (%s, hash %s)", scheme, x.path, m.field, m.class, v),
								map[string]interface{}{"seed": mon.Seed(), "scheme": scheme, "field": m.field, "class": m.class, "variant": v, "path": x.path, "tampered_block_txn": string(bj)})
						}
						if x.ok {
							run.Count("c30.block_accepts_tampered."+x.path, 1)
							violate(run, "C30:field="+m.field,
								fmt.Sprintf("scheme %s: transaction %s (type %d) signed by its owner, then %s changed (%s, hash %s) and delivered as a block transaction (output %q with its correct output hash, block of %d txns, validation batch size %d): %s accepts it", scheme, base.Hash[:12], base.TransactionType, m.field, m.class, v, out, k+1, bs, x.path),
								map[string]interface{}{"seed": mon.Seed(), "scheme": scheme, "field": m.field, "class": m.class, "variant": v, "path": x.path, "signed": string(js), "tampered_block_txn": string(bj), "block_time": int64(w.Now), "block_txns": k + 1, "position": pos, "batch_size": bs})
						}
					}
				}
			}
		}
		evalAll("cold") // the client cache has never seen this sender
		ok, how := acceptTxn(js, w.Now)
		if !ok {
			run.Inconclusive(fmt.Sprintf("scheme %s: validly signed base transaction kind %d rejected (%s)", scheme, kind, how))
			continue
		}
		run.Count("c30.base_accepted", 1)
		// the untampered transaction in block form is accepted on every block path (otherwise rejections above prove nothing)
		for oi, out := range c30Outputs {
			bj := txnJSON(c30BlockForm(base, out))
			a1, h1 := c30AcceptBlockTxn(bj, w.Now, true)
			a2, h2 := c30AcceptBlockTxn(bj, w.Now, false)
			a3, h3 := benv.acceptInBlock(bj, (bi+oi)%(len(benv.companions)+1), oi%2)
			if !a1 || !a2 || !a3 {
				run.Inconclusive(fmt.Sprintf("scheme %s: validly signed base transaction kind %d rejected as a block transaction (%s / %s / %s)", scheme, kind, h1, h2, h3))
				continue
			}
			run.Count("c30.block_base_accepted", 1)
		}
		evalAll("warm") // the sender's key is now cached by client id
		run.Checkpoint()
	}
}

func c30Mutations(base *transaction.Transaction, from, to *world.Wallet, peers []*world.Wallet, r *mon.Rand) []txnMut {
	other := peers[0]
	if other.ID == to.ID {
		other = peers[1]
	}
	isSC := base.TransactionType == transaction.TxnTypeSmartContract
	dataIsCall := strings.HasPrefix(base.TransactionData, `{"name"`)
	ms := []txnMut{
		{"CreationDate", "+1", func(t *transaction.Transaction) bool { t.CreationDate++; return true }, false},
		{"CreationDate", "-1", func(t *transaction.Transaction) bool { t.CreationDate--; return true }, false},
		{"Nonce", "+1", func(t *transaction.Transaction) bool { t.Nonce++; return true }, false},
		{"Nonce", "other", func(t *transaction.Transaction) bool { t.Nonce += 1000 + int64(r.Intn(1000)); return true }, false},
		{"ClientID", "other-client", func(t *transaction.Transaction) bool { t.ClientID = other.ID; return true }, false},
		{"ClientID", "random", func(t *transaction.Transaction) bool { t.ClientID = encryption.Hash("rnd" + t.ClientID); return true }, false},
		{"ClientID", "with-matching-PublicKey", func(t *transaction.Transaction) bool { t.ClientID, t.PublicKey = other.ID, other.PubKey; return true }, false},
		{"PublicKey", "other-client", func(t *transaction.Transaction) bool { t.PublicKey = other.PubKey; return true }, false},
		{"PublicKey", "flip", func(t *transaction.Transaction) bool { t.PublicKey = flipHex(t.PublicKey, 9); return true }, false},
		{"ToClientID", "other-client", func(t *transaction.Transaction) bool {
			if t.ToClientID == other.ID {
				return false
			}
			t.ToClientID = other.ID
			return true
		}, false},
		{"ToClientID", "contract", func(t *transaction.Transaction) bool {
			if t.ToClientID == world.SCAddresses["vesting"] {
				return false
			}
			t.ToClientID = world.SCAddresses["vesting"]
			return true
		}, false},
		{"ToClientID", "empty", func(t *transaction.Transaction) bool {
			if t.ToClientID == "" {
				return false
			}
			t.ToClientID = ""
			return true
		}, false},
		{"Value", "+1", func(t *transaction.Transaction) bool { t.Value++; return true }, false},
		{"Value", "zero", func(t *transaction.Transaction) bool {
			if t.Value == 0 {
				return false
			}
			t.Value = 0
			return true
		}, false},
		{"Value", "max", func(t *transaction.Transaction) bool { t.Value = currency.Coin(^uint64(0)); return true }, false},
		{"TransactionData", "append", func(t *transaction.Transaction) bool {
			if t.TransactionType == transaction.TxnTypeSmartContract {
				t.TransactionData += " "
			} else {
				t.TransactionData += "x"
			}
			return true
		}, false},
		{"TransactionData", "other-function", func(t *transaction.Transaction) bool {
			if !strings.Contains(t.TransactionData, `"pour"`) {
				return false
			}
			t.TransactionData = strings.Replace(t.TransactionData, `"pour"`, `"refill"`, 1)
			return true
		}, false},
		{"TransactionData", "empty", func(t *transaction.Transaction) bool {
			if t.TransactionData == "" || t.TransactionType == transaction.TxnTypeSmartContract {
				return false
			}
			t.TransactionData = ""
			return true
		}, false},
		{"Fee", "+1", func(t *transaction.Transaction) bool { t.Fee++; return true }, false},
		{"Fee", "zero", func(t *transaction.Transaction) bool {
			if t.Fee == 0 {
				return false
			}
			t.Fee = 0
			return true
		}, false},
		{"Fee", "huge", func(t *transaction.Transaction) bool { t.Fee = currency.Coin(1 << 62); return true }, false},
		{"TransactionType", "to-send", func(t *transaction.Transaction) bool {
			if t.TransactionType == transaction.TxnTypeSend {
				return false
			}
			t.TransactionType = transaction.TxnTypeSend
			return true
		}, false},
		{"TransactionType", "to-data", func(t *transaction.Transaction) bool {
			if t.TransactionType == transaction.TxnTypeData {
				return false
			}
			t.TransactionType = transaction.TxnTypeData
			return true
		}, false},
		{"TransactionType", "to-contract-call", func(t *transaction.Transaction) bool {
			if isSC || !dataIsCall {
				return false // the data would not decode as a call: rejected for an unrelated reason, not a fair witness
			}
			t.TransactionType = transaction.TxnTypeSmartContract
			return true
		}, false},
		{"Signature", "flip", func(t *transaction.Transaction) bool { t.Signature = flipHex(t.Signature, 13); return true }, true},
		{"Signature", "other-signer", func(t *transaction.Transaction) bool { t.Signature = other.Sign(t.Hash); return true }, true},
		{"Signature", "other-message", func(t *transaction.Transaction) bool {
			t.Signature = from.Sign(encryption.Hash("some other message"))
			return true
		}, true},
		{"Signature", "empty", func(t *transaction.Transaction) bool { t.Signature = ""; return true }, true},
		{"Hash", "flip", func(t *transaction.Transaction) bool { t.Hash = flipHex(t.Hash, 21); return true }, true},
		{"Hash", "other-signed-hash", func(t *transaction.Transaction) bool {
			// hash and signature of another message really signed by the owner
			t.Hash = encryption.Hash("another message of the same owner")
			t.Signature = from.Sign(t.Hash)
			return true
		}, true},
	}
	return ms
}
