package crypto

import (
	"context"
	"fmt"
	"sort"
	"strings"

	"0chain.net/chaincore/block"
	"0chain.net/chaincore/chain"
	"0chain.net/chaincore/node"
	"0chain.net/chaincore/threshold/bls"
	"0chain.net/chaincore/transaction"
	"0chain.net/core/common"
	"0chain.net/core/datastore"
	"0chain.net/core/encryption"
	"github.com/0chain/common/core/currency"

	"verifh/mon"
	"verifh/world"
)

// recvBlock is the network receive path: bytes -> entity -> ComputeProperties.
func recvBlock(js []byte) (*block.Block, error) {
	nb := block.Provider().(*block.Block)
	if err := datastore.FromJSON(js, nb); err != nil {
		return nil, err
	}
	return nb, nil
}

func blockJSON(b *block.Block) []byte { return append([]byte{}, datastore.ToJSON(b).Bytes()...) }

// c29World builds blocks with really executed transactions.
type c29World struct {
	w    *world.World
	r    *mon.Rand
	head *block.Block
	rnd  int64
	gen  func(bc *world.BlockCtx, k int) *transaction.Transaction // nil = genTxn (senders: the world's clients)
}

func (cw *c29World) nextNonce(bc *world.BlockCtx, id string) int64 {
	st, err := chain.GetStateById(bc.State, id)
	if err != nil || st == nil {
		return 1
	}
	return st.Nonce + 1
}

func (cw *c29World) genTxn(bc *world.BlockCtx, k int) *transaction.Transaction {
	w, r := cw.w, cw.r
	from := w.Clients[r.Intn(len(w.Clients))]
	to := w.Clients[r.Intn(len(w.Clients))]
	for to.ID == from.ID {
		to = w.Clients[r.Intn(len(w.Clients))]
	}
	spec := world.TxnSpec{From: from, Nonce: cw.nextNonce(bc, from.ID), Fee: currencyOf(1e9 + r.Intn(1000))}
	switch k % 4 {
	case 0:
		spec.To, spec.Value, spec.Type = to.ID, currencyOf(1+r.Intn(1e6)), transaction.TxnTypeSend
	case 1:
		spec.To, spec.Type, spec.Func, spec.Input = world.SCAddresses["faucet"], transaction.TxnTypeSmartContract, "pour", map[string]string{}
		spec.Value = 0
	case 2:
		// chargeable failure: unknown function of a real contract (Status = failed, error output)
		spec.To, spec.Type, spec.Func, spec.Input = world.SCAddresses["storage"], transaction.TxnTypeSmartContract, "no_such_function", map[string]string{"x": fmt.Sprint(r.Intn(100))}
	default:
		spec.To, spec.Value, spec.Type = to.ID, currencyOf(1+r.Intn(1e6)), transaction.TxnTypeSend
	}
	return w.MakeTxn(spec)
}

// build produces the next signed block with m executed transactions.
func (cw *c29World) build(m int, withMB bool) *block.Block {
	w := cw.w
	cw.rnd++
	w.Advance(0)
	w.Now += 5
	bc := w.NewBlock(cw.head, cw.rnd, int(cw.rnd))
	tries := 0
	for len(bc.B.Txns) < m && tries < 6*m+6 {
		tries++
		var t *transaction.Transaction
		if cw.gen != nil {
			t = cw.gen(bc, tries)
		} else {
			t = cw.genTxn(bc, tries)
		}
		if _, err := bc.Exec(t); err != nil {
			continue
		}
		bc.B.AddTransaction(t) // what the real generator does after UpdateState: sets OutputHash
	}
	b := bc.Seal()
	if withMB {
		b.MagicBlock = cw.magicBlock()
	}
	b.HashBlock()
	miner := w.Wallets[b.MinerID]
	b.Signature = miner.Sign(b.Hash)
	cw.head = b
	return b
}

func (cw *c29World) magicBlock() *block.MagicBlock {
	w := cw.w
	mb := block.NewMagicBlock()
	mb.Miners = node.NewPool(node.NodeTypeMiner)
	mb.Sharders = node.NewPool(node.NodeTypeSharder)
	for _, n := range w.MB.Miners.CopyNodes() {
		_ = mb.Miners.AddNode(n)
	}
	for _, n := range w.MB.Sharders.CopyNodes() {
		_ = mb.Sharders.AddNode(n)
	}
	mb.MagicBlockNumber = w.MB.MagicBlockNumber + 1
	mb.PreviousMagicBlockHash = w.MB.Hash
	mb.StartingRound = cw.rnd + 10
	mb.T, mb.K, mb.N = w.MB.T, w.MB.K, w.MB.N
	// real DKG material for the miners
	ids := []string{}
	for _, m := range w.Miners {
		ids = append(ids, m.ID)
	}
	dkgs := map[string]*bls.DKG{}
	for _, id := range ids {
		d := bls.MakeDKG(mb.T, mb.N, id)
		dkgs[id] = d
		mpk := &block.MPK{ID: id}
		for _, pk := range d.GetMPKs() {
			mpk.Mpk = append(mpk.Mpk, pk.GetHexString())
		}
		mb.Mpks.Mpks[id] = mpk
	}
	for _, from := range ids {
		sos := block.NewShareOrSigns()
		sos.ID = from
		for _, to := range ids {
			if to == from {
				continue
			}
			sh, err := dkgs[from].ComputeDKGKeyShare(bls.ComputeIDdkg(to))
			if err != nil {
				panic(err)
			}
			msg := encryption.Hash(sh.GetHexString())
			ks := &bls.DKGKeyShare{Message: msg, Sign: w.Wallets[to].Sign(msg)}
			ks.ID = to
			sos.ShareOrSigns[to] = ks
		}
		mb.ShareOrSigns.Shares[from] = sos
	}
	mb.Hash = mb.GetHash()
	return mb
}

// tamper is one single-field mutation of a received block.
type tamper struct {
	class   string // header | txns | txn | output | magic
	field   string // stable field name used in the violation signature
	variant string
	apply   func(b *block.Block) bool // false = not applicable to this block
}

func flipHex(s string, pos int) string {
	if len(s) == 0 {
		return "ab"
	}
	pos = pos % len(s)
	c := s[pos]
	n := byte('0')
	if c == '0' {
		n = '1'
	}
	return s[:pos] + string(n) + s[pos+1:]
}

func currencyOf(v int) currency.Coin { return currency.Coin(v) }

func headerTampers(w *world.World, r *mon.Rand, other *block.Block) []tamper {
	var ts []tamper
	add := func(field, variant string, f func(b *block.Block) bool) {
		ts = append(ts, tamper{"header", field, variant, f})
	}
	add("MinerID", "other-miner", func(b *block.Block) bool {
		for _, m := range w.Miners {
			if m.ID != b.MinerID {
				b.MinerID = m.ID
				return true
			}
		}
		return false
	})
	add("MinerID", "flip", func(b *block.Block) bool { b.MinerID = flipHex(b.MinerID, 7); return true })
	add("PrevHash", "flip", func(b *block.Block) bool { b.PrevHash = flipHex(b.PrevHash, 3); return true })
	add("PrevHash", "other-block", func(b *block.Block) bool {
		if other.Hash == b.PrevHash {
			return false
		}
		b.PrevHash = other.Hash
		return true
	})
	add("CreationDate", "+1", func(b *block.Block) bool { b.CreationDate++; return true })
	add("CreationDate", "-1", func(b *block.Block) bool { b.CreationDate--; return true })
	add("Round", "+1", func(b *block.Block) bool { b.Round++; return true })
	add("Round", "-1", func(b *block.Block) bool { b.Round--; return true })
	add("RoundRandomSeed", "+1", func(b *block.Block) bool { b.SetRoundRandomSeed(b.GetRoundRandomSeed() + 1); return true })
	add("RoundRandomSeed", "negate", func(b *block.Block) bool {
		if b.GetRoundRandomSeed() == 0 {
			return false
		}
		b.SetRoundRandomSeed(-b.GetRoundRandomSeed())
		return true
	})
	add("StateChangesCount", "+1", func(b *block.Block) bool { b.StateChangesCount++; return true })
	add("StateChangesCount", "zero", func(b *block.Block) bool {
		if b.StateChangesCount == 0 {
			return false
		}
		b.StateChangesCount = 0
		return true
	})
	add("ClientStateHash", "flip-byte", func(b *block.Block) bool {
		if len(b.ClientStateHash) == 0 {
			return false
		}
		h := append([]byte{}, b.ClientStateHash...)
		h[r.Intn(len(h))] ^= 0x40
		b.ClientStateHash = h
		return true
	})
	add("ClientStateHash", "other-block-state", func(b *block.Block) bool {
		if string(other.ClientStateHash) == string(b.ClientStateHash) || len(other.ClientStateHash) == 0 {
			return false
		}
		b.ClientStateHash = append([]byte{}, other.ClientStateHash...)
		return true
	})
	add("ClientStateHash", "empty", func(b *block.Block) bool {
		if len(b.ClientStateHash) == 0 {
			return false
		}
		b.ClientStateHash = nil
		return true
	})
	return ts
}

func txnListTampers(cw *c29World, base *block.Block) []tamper {
	var ts []tamper
	n := len(base.Txns)
	add := func(field, variant string, f func(b *block.Block) bool) {
		ts = append(ts, tamper{"txns", field, variant, f})
	}
	w := cw.w
	fresh := func() *transaction.Transaction {
		t := w.MakeTxn(world.TxnSpec{From: w.Clients[0], To: w.Clients[1].ID, Value: 77, Fee: 1e9, Nonce: 900 + int64(cw.r.Intn(1000)), Type: transaction.TxnTypeSend})
		t.OutputHash = t.ComputeOutputHash()
		t.Status = transaction.TxnSuccess
		return t
	}
	add("Txns.add", "append", func(b *block.Block) bool { b.Txns = append(b.Txns, fresh()); return true })
	add("Txns.add", "prepend", func(b *block.Block) bool {
		b.Txns = append([]*transaction.Transaction{fresh()}, b.Txns...)
		return true
	})
	for i := 0; i < n; i++ {
		i := i
		add("Txns.drop", posClass(i, n), func(b *block.Block) bool {
			b.Txns = append(append([]*transaction.Transaction{}, b.Txns[:i]...), b.Txns[i+1:]...)
			return true
		})
		add("Txns.replace", posClass(i, n), func(b *block.Block) bool { b.Txns[i] = fresh(); return true })
	}
	for i := 0; i+1 < n; i++ {
		i := i
		add("Txns.reorder", "swap-adjacent-"+posClass(i, n), func(b *block.Block) bool {
			b.Txns[i], b.Txns[i+1] = b.Txns[i+1], b.Txns[i]
			return true
		})
	}
	if n >= 3 {
		add("Txns.reorder", "swap-first-last", func(b *block.Block) bool { b.Txns[0], b.Txns[n-1] = b.Txns[n-1], b.Txns[0]; return true })
		add("Txns.reorder", "rotate", func(b *block.Block) bool { b.Txns = append(b.Txns[1:], b.Txns[0]); return true })
	}
	// repeated transactions, including the Merkle-padding shapes (odd leaf / trailing subtree duplicated)
	for _, k := range []int{1, 2, 4} {
		k := k
		if n >= k {
			add("Txns.duplicate", fmt.Sprintf("tail-%d", k), func(b *block.Block) bool {
				for _, t := range b.Txns[n-k:] {
					b.Txns = append(b.Txns, t.Clone())
				}
				return true
			})
		}
	}
	if n >= 2 {
		add("Txns.duplicate", "first-appended", func(b *block.Block) bool { b.Txns = append(b.Txns, b.Txns[0].Clone()); return true })
	}
	return ts
}

func posClass(i, n int) string {
	switch {
	case i == 0:
		return "first"
	case i == n-1:
		return "last"
	default:
		return "middle"
	}
}

// txnFieldTampers alters one field of one transaction; variant "stale" leaves the derived hash fields as
// received, "rehash" recomputes them the way any sender can (no private key needed).
func txnFieldTampers(w *world.World, base *block.Block, r *mon.Rand) []tamper {
	var ts []tamper
	n := len(base.Txns)
	type fm struct {
		field string
		f     func(t *transaction.Transaction) bool
	}
	other := w.Clients[len(w.Clients)-1]
	fields := []fm{
		{"Txn.CreationDate", func(t *transaction.Transaction) bool { t.CreationDate++; return true }},
		{"Txn.Nonce", func(t *transaction.Transaction) bool { t.Nonce++; return true }},
		{"Txn.ClientID", func(t *transaction.Transaction) bool {
			if t.ClientID == other.ID {
				return false
			}
			t.ClientID, t.PublicKey = other.ID, other.PubKey // keeps ComputeProperties consistent: sender substitution
			return true
		}},
		{"Txn.ToClientID", func(t *transaction.Transaction) bool {
			if t.ToClientID == other.ID {
				t.ToClientID = w.Owner.ID
			} else {
				t.ToClientID = other.ID
			}
			return true
		}},
		{"Txn.Value", func(t *transaction.Transaction) bool { t.Value += 1000; return true }},
		{"Txn.TransactionData", func(t *transaction.Transaction) bool {
			if t.TransactionType == transaction.TxnTypeSmartContract {
				t.TransactionData = strings.Replace(t.TransactionData, "{", "{ ", 1) + " "
			} else {
				t.TransactionData += "x"
			}
			return true
		}},
		{"Txn.Fee", func(t *transaction.Transaction) bool { t.Fee += 12345; return true }},
		{"Txn.TransactionType", func(t *transaction.Transaction) bool {
			if t.TransactionType == transaction.TxnTypeSmartContract {
				t.TransactionType = transaction.TxnTypeSend
			} else {
				t.TransactionType = transaction.TxnTypeData
			}
			return true
		}},
	}
	for i := 0; i < n; i++ {
		i := i
		for _, fd := range fields {
			fd := fd
			for _, variant := range []string{"stale", "rehash"} {
				variant := variant
				ts = append(ts, tamper{"txn", fd.field, variant, func(b *block.Block) bool {
					t := b.Txns[i]
					if !fd.f(t) {
						return false
					}
					if variant == "rehash" {
						t.Hash = t.ComputeHash()
					}
					return true
				}})
			}
		}
		for _, variant := range []string{"stale", "rehash"} {
			variant := variant
			ts = append(ts, tamper{"output", "Txn.TransactionOutput", variant, func(b *block.Block) bool {
				t := b.Txns[i]
				t.TransactionOutput += "tampered"
				if variant == "rehash" {
					t.OutputHash = t.ComputeOutputHash()
				}
				return true
			}})
		}
		ts = append(ts, tamper{"output", "Txn.OutputHash", "other-hash", func(b *block.Block) bool {
			b.Txns[i].OutputHash = encryption.Hash("other-output")
			return true
		}})
		ts = append(ts, tamper{"output", "Txn.Status", "flip", func(b *block.Block) bool {
			t := b.Txns[i]
			if t.Status == transaction.TxnSuccess {
				t.Status = transaction.TxnFail
			} else {
				t.Status = transaction.TxnSuccess
			}
			return true
		}})
	}
	return ts
}

func magicTampers(cw *c29World, base *block.Block) []tamper {
	var ts []tamper
	if base.MagicBlock == nil {
		ts = append(ts, tamper{"magic", "MagicBlock", "nil-to-present", func(b *block.Block) bool {
			b.MagicBlock = cw.magicBlock()
			return true
		}})
		return ts
	}
	ts = append(ts, tamper{"magic", "MagicBlock", "present-to-nil", func(b *block.Block) bool { b.MagicBlock = nil; return true }})
	type fm struct {
		field string
		f     func(mb *block.MagicBlock) bool
	}
	w := cw.w
	firstKey := func(m map[string]*block.MPK) string {
		best := ""
		for k := range m {
			if best == "" || k < best {
				best = k
			}
		}
		return best
	}
	fields := []fm{
		{"MagicBlock.MagicBlockNumber", func(mb *block.MagicBlock) bool { mb.MagicBlockNumber++; return true }},
		{"MagicBlock.PreviousMagicBlockHash", func(mb *block.MagicBlock) bool {
			mb.PreviousMagicBlockHash = flipHex(mb.PreviousMagicBlockHash, 5)
			return true
		}},
		{"MagicBlock.StartingRound", func(mb *block.MagicBlock) bool { mb.StartingRound++; return true }},
		{"MagicBlock.Miners.drop", func(mb *block.MagicBlock) bool {
			keys := mb.Miners.Keys()
			if len(keys) == 0 {
				return false
			}
			np := node.NewPool(node.NodeTypeMiner)
			for _, n := range mb.Miners.CopyNodes() {
				if n.GetKey() != keys[0] {
					_ = np.AddNode(n)
				}
			}
			mb.Miners = np
			return true
		}},
		{"MagicBlock.Sharders.drop", func(mb *block.MagicBlock) bool {
			keys := mb.Sharders.Keys()
			if len(keys) == 0 {
				return false
			}
			np := node.NewPool(node.NodeTypeSharder)
			for _, n := range mb.Sharders.CopyNodes() {
				if n.GetKey() != keys[0] {
					_ = np.AddNode(n)
				}
			}
			mb.Sharders = np
			return true
		}},
		{"MagicBlock.Miners.node-public-key", func(mb *block.MagicBlock) bool {
			// the node object stored under a miner's id is replaced by one carrying another public key
			keys := mb.Miners.Keys()
			if len(keys) == 0 {
				return false
			}
			sort.Strings(keys)
			old := mb.Miners.NodesMap[keys[0]]
			if old == nil {
				return false
			}
			nn := old.Clone()
			if err := nn.SetPublicKey(w.Clients[0].PubKey); err != nil {
				return false
			}
			mb.Miners.NodesMap[keys[0]] = nn
			return true
		}},
		{"MagicBlock.Miners.node-host", func(mb *block.MagicBlock) bool {
			keys := mb.Miners.Keys()
			if len(keys) == 0 {
				return false
			}
			sort.Strings(keys)
			old := mb.Miners.NodesMap[keys[0]]
			if old == nil {
				return false
			}
			nn := old.Clone()
			nn.Host, nn.N2NHost = "203.0.113.7", "203.0.113.7"
			mb.Miners.NodesMap[keys[0]] = nn
			return true
		}},
		{"MagicBlock.T", func(mb *block.MagicBlock) bool { mb.T--; return true }},
		{"MagicBlock.N", func(mb *block.MagicBlock) bool { mb.N++; return true }},
		{"MagicBlock.K", func(mb *block.MagicBlock) bool { mb.K--; return true }},
		{"MagicBlock.Mpks.drop", func(mb *block.MagicBlock) bool {
			k := firstKey(mb.Mpks.Mpks)
			if k == "" {
				return false
			}
			delete(mb.Mpks.Mpks, k)
			return true
		}},
		{"MagicBlock.Mpks.value", func(mb *block.MagicBlock) bool {
			k := firstKey(mb.Mpks.Mpks)
			if k == "" || len(mb.Mpks.Mpks[k].Mpk) == 0 {
				return false
			}
			// the published polynomial of a miner replaced by another real polynomial
			d := bls.MakeDKG(mb.T, mb.N, w.Miners[0].ID)
			var nv []string
			for _, pk := range d.GetMPKs() {
				nv = append(nv, pk.GetHexString())
			}
			mb.Mpks.Mpks[k] = &block.MPK{ID: k, Mpk: nv}
			return true
		}},
		{"MagicBlock.ShareOrSigns.value", func(mb *block.MagicBlock) bool {
			for _, sos := range mb.ShareOrSigns.Shares {
				for _, ks := range sos.ShareOrSigns {
					ks.Message = encryption.Hash("tampered" + ks.Message)
					return true
				}
			}
			return false
		}},
		{"MagicBlock.ShareOrSigns.drop", func(mb *block.MagicBlock) bool {
			for k := range mb.ShareOrSigns.Shares {
				delete(mb.ShareOrSigns.Shares, k)
				return true
			}
			return false
		}},
	}
	for _, fd := range fields {
		fd := fd
		for _, variant := range []string{"rehash", "stale"} {
			variant := variant
			field := fd.field
			if variant == "stale" {
				// one class: the embedded magic block hash is trusted as received
				field = "MagicBlock.stale-embedded-hash"
			}
			ts = append(ts, tamper{"magic", field, variant + ":" + fd.field, func(b *block.Block) bool {
				if !fd.f(b.MagicBlock) {
					return false
				}
				if variant == "rehash" {
					b.MagicBlock.Hash = b.MagicBlock.GetHash()
				}
				return true
			}})
		}
	}
	return ts
}

// recvClaiming serialises a tampered block that keeps claiming the genuine block's hash and signature and decodes it the way a
// receiving node does (nil when it does not decode or the claim cannot be kept).
func recvClaiming(tampered, genuine *block.Block) *block.Block {
	c := tampered.Clone()
	c.Txns = tampered.Txns
	c.Hash = genuine.Hash
	c.Signature = genuine.Signature
	rc, err := recvBlock(blockJSON(c))
	if err != nil || rc.Hash != genuine.Hash || rc.Signature != genuine.Signature {
		return nil
	}
	return rc
}

// judgeTamper applies one tamper to a fresh received copy and reports how (if at all) the real code notices.
func judgeTamper(run *mon.Run, base *block.Block, js []byte, t tamper, bi int) {
	ctx := context.Background()
	clone, err := recvBlock(js)
	if err != nil {
		panic(fmt.Sprintf("base block does not decode: %v", err))
	}
	if !t.apply(clone) {
		run.Count("c29.tamper_not_applicable", 1)
		return
	}
	run.Eval(1)
	run.Count("c29.hash_tamper_evaluated", 1)
	run.Count("c29.tamper."+t.class, 1)
	hashChanged := clone.ComputeHash() != base.Hash
	route := ""
	if hashChanged {
		route = "block-hash"
		// "A received block whose hash ... does not match ... is rejected": the tampered block arrives over the wire still claiming
		// the genuine hash and signature (the genuine block has been validated by this node just before); the real receive path
		// (decode, ComputeProperties, Block.Validate) has to refuse it
		claimed := recvClaiming(clone, base)
		if claimed != nil {
			run.Count("c29.receive_path_checked", 1)
			if verr := claimed.Validate(ctx); verr == nil {
				violate(run, "C29:receive-path-accepts-hash-mismatch",
					fmt.Sprintf("block %s (round %d, %d txns): tamper %s/%s variant %s changes the recomputed hash, but a received copy that still claims hash %s and the genuine signature passes Block.Validate", base.Hash[:12], base.Round, len(base.Txns), t.class, t.field, t.variant, base.Hash[:16]),
					map[string]interface{}{"seed": mon.Seed(), "block_index": bi, "tamper": t.class + "/" + t.field + "/" + t.variant, "block_json": string(js)})
			} else {
				run.Count("c29.receive_path_rejected."+errCode(verr), 1)
			}
		}
	} else {
		// the tampered bytes arrive over the wire: decode + ComputeProperties, then the receive-path checks
		rc, derr := recvBlock(blockJSON(clone))
		switch {
		case derr != nil:
			route = "decode"
		default:
			if rc.ComputeHash() != base.Hash {
				route = "block-hash-after-decode"
			} else if verr := rc.Validate(ctx); verr != nil {
				route = "validate:" + errCode(verr)
			} else {
				for _, tx := range rc.Txns {
					if tx.VerifyHash(ctx) != nil {
						route = "txn-hash"
						break
					}
					if tx.VerifyOutputHash(ctx) != nil {
						route = "txn-output-hash"
						break
					}
				}
			}
		}
	}
	outcome := route
	if route == "" {
		outcome = "UNDETECTED"
	}
	run.Distinct(fmt.Sprintf("%s|%s|%s|%s|txns=%s", t.class, t.field, t.variant, outcome, sizeClass(len(base.Txns))))
	run.Count("c29.route."+strings.SplitN(outcome, ":", 2)[0], 1)
	if route == "" {
		violate(run, "C29:field="+t.field,
			fmt.Sprintf("block %s (round %d, %d txns): tamper %s/%s variant %s leaves Block.ComputeHash unchanged (%s) and Block.Validate, Transaction.VerifyHash and VerifyOutputHash all accept the tampered block", base.Hash[:12], base.Round, len(base.Txns), t.class, t.field, t.variant, base.Hash[:16]),
			map[string]interface{}{"seed": mon.Seed(), "block_index": bi, "tamper": t.class + "/" + t.field + "/" + t.variant, "block_json": string(js)})
	}
	run.Sample(map[string]interface{}{"block": base.Hash[:12], "tamper": t.class + "/" + t.field + "/" + t.variant, "hash_changed": hashChanged, "detected_by": outcome})
}

func errCode(err error) string {
	if ce, ok := err.(*common.Error); ok {
		return ce.Code
	}
	s := err.Error()
	if len(s) > 40 {
		s = s[:40]
	}
	return s
}

func sizeClass(n int) string {
	switch {
	case n == 0:
		return "0"
	case n == 1:
		return "1"
	case n%2 == 1:
		return "odd"
	default:
		return "even"
	}
}

// validateChecks: the second sentence of the property — a received block whose hash or generator signature does
// not match, or that repeats a transaction, is rejected by Block.Validate.
func validateChecks(run *mon.Run, cw *c29World, base *block.Block, js []byte, bi int) {
	ctx := context.Background()
	w := cw.w
	type vc struct {
		what  string
		apply func(b *block.Block) bool
	}
	otherMiner := func(b *block.Block) *world.Wallet {
		for _, m := range w.Miners {
			if m.ID != b.MinerID {
				return m
			}
		}
		return nil
	}
	resign := func(b *block.Block) {
		b.HashBlock()
		b.Signature = w.Wallets[b.MinerID].Sign(b.Hash)
	}
	cases := []vc{
		{"tampered-hash", func(b *block.Block) bool { b.Hash = flipHex(b.Hash, 9); return true }},
		{"tampered-hash", func(b *block.Block) bool { b.Hash = encryption.Hash("other" + b.Hash); return true }},
		{"tampered-hash", func(b *block.Block) bool {
			// hash of another real block, with that block's valid signature by the same key set
			o := cw.head
			if o.Hash == b.Hash {
				return false
			}
			b.Hash, b.Signature = o.Hash, o.Signature
			return true
		}},
		{"tampered-signature", func(b *block.Block) bool { b.Signature = flipHex(b.Signature, 11); return true }},
		{"tampered-signature", func(b *block.Block) bool {
			m := otherMiner(b)
			if m == nil {
				return false
			}
			b.Signature = m.Sign(b.Hash) // a valid signature, by a different registered miner
			return true
		}},
		{"tampered-signature", func(b *block.Block) bool {
			b.Signature = w.Wallets[b.MinerID].Sign(encryption.Hash("another message")) // right key, wrong message
			return true
		}},
		{"tampered-signature", func(b *block.Block) bool { b.Signature = w.Clients[0].Sign(b.Hash); return true }},
		{"tampered-signature", func(b *block.Block) bool {
			// generator swapped, hash recomputed, original generator's signature kept
			m := otherMiner(b)
			if m == nil {
				return false
			}
			b.MinerID = m.ID
			b.HashBlock()
			return true
		}},
		{"tampered-signature", func(b *block.Block) bool { b.Signature = ""; return true }},
	}
	// repeated transaction in a block that is otherwise perfectly signed by a registered (byzantine) generator
	n := len(base.Txns)
	for _, k := range []int{1, 2, 4} {
		k := k
		if n >= k {
			cases = append(cases, vc{"duplicate-txn", func(b *block.Block) bool {
				for _, t := range b.Txns[n-k:] {
					b.Txns = append(b.Txns, t.Clone())
				}
				resign(b)
				return true
			}})
		}
	}
	if n >= 2 {
		cases = append(cases, vc{"duplicate-txn", func(b *block.Block) bool {
			b.Txns = append([]*transaction.Transaction{b.Txns[n-1].Clone()}, b.Txns...)
			resign(b)
			return true
		}})
		cases = append(cases, vc{"duplicate-txn", func(b *block.Block) bool {
			// same transaction, different fee: the copy differs only in a field outside its hash
			c := b.Txns[0].Clone()
			c.Fee++
			b.Txns = append(b.Txns, c)
			resign(b)
			return true
		}})
	}
	for ci, c := range cases {
		for _, codec := range []string{"json", "msgpack"} {
			clone, err := recvBlock(js)
			if err != nil {
				panic(err)
			}
			if !c.apply(clone) {
				continue
			}
			var rc *block.Block
			var derr error
			if codec == "json" {
				rc, derr = recvBlock(blockJSON(clone))
			} else {
				rc = block.Provider().(*block.Block)
				derr = datastore.FromMsgpack(datastore.ToMsgpack(clone).Bytes(), rc)
			}
			run.Eval(1)
			run.Count("c29.validate_tamper_evaluated", 1)
			run.Count("c29.validate."+c.what, 1)
			outcome := ""
			if derr != nil {
				outcome = "decode-rejects"
			} else if verr := rc.Validate(ctx); verr != nil {
				outcome = "rejects:" + errCode(verr)
			} else {
				outcome = "ACCEPTS"
				violate(run, "C29:validate-accepts-"+c.what,
					fmt.Sprintf("Block.Validate accepted block %s (round %d, %d txns) after %s case #%d via %s", base.Hash[:12], base.Round, len(rc.Txns), c.what, ci, codec),
					map[string]interface{}{"seed": mon.Seed(), "block_index": bi, "case": ci, "what": c.what, "codec": codec, "block_json": string(blockJSON(clone))})
			}
			run.Distinct(fmt.Sprintf("validate|%s|%d|%s|%s|txns=%s", c.what, ci, codec, outcome, sizeClass(n)))
		}
	}
}

func c29Child(run *mon.Run, tier, name string) {
	ci := idx(name)
	w := world.New(world.Options{Seed: mon.Seed()*100 + uint64(ci)})
	defer w.Close()
	w.Now = world.Epoch + 1000
	r := rnd("c29/" + name)
	cw := &c29World{w: w, r: r, head: w.GB}
	sizes := []int{3, 0, 1, 2, 5, 4}
	if ci%2 == 1 {
		sizes = []int{4, 1, 7, 3, 2, 6}
	}
	if tier == "thorough" {
		sizes = append(sizes, 8, 9, 16, 17, 5, 3, 2, 1, 12, 15)
	}
	var blocks []*block.Block
	for i, m := range sizes {
		blocks = append(blocks, cw.build(m, i%3 == 0))
	}
	ctx := context.Background()
	for bi, b := range blocks {
		js := blockJSON(b)
		// effectiveness: the untouched block is accepted through the receive path and its hash is reproduced
		rb, err := recvBlock(js)
		if err != nil {
			run.Inconclusive(fmt.Sprintf("base block %d does not decode: %v", bi, err))
			continue
		}
		if verr := rb.Validate(ctx); verr != nil || rb.ComputeHash() != b.Hash {
			run.Inconclusive(fmt.Sprintf("base block %d not accepted by Validate: %v", bi, verr))
			continue
		}
		okTxns := true
		for _, tx := range rb.Txns {
			if tx.VerifyHash(ctx) != nil || tx.VerifyOutputHash(ctx) != nil {
				okTxns = false
			}
		}
		if !okTxns {
			run.Inconclusive(fmt.Sprintf("base block %d carries a transaction that fails its own hash checks", bi))
			continue
		}
		run.Count("c29.base_block_accepted", 1)
		run.Count("c29.base_txns", int64(len(b.Txns)))
		for _, tx := range b.Txns {
			run.Count(fmt.Sprintf("c29.base_txn_status_%d", tx.Status), 1)
		}
		other := blocks[(bi+1)%len(blocks)]
		var ts []tamper
		ts = append(ts, headerTampers(w, r, other)...)
		ts = append(ts, txnListTampers(cw, b)...)
		ts = append(ts, txnFieldTampers(w, b, r)...)
		ts = append(ts, magicTampers(cw, b)...)
		for _, t := range ts {
			judgeTamper(run, b, js, t, bi)
		}
		validateChecks(run, cw, b, js, bi)
		run.Checkpoint()
	}
	// received blocks carried through the whole path a verifying miner runs (c29recv.go); last, because it installs the
	// miner chain and switches the chain's client signature scheme
	c29ReceivePath(run, cw, tier, name)
}
