package crypto

import (
	"encoding/hex"
	"fmt"
	"sort"
	"strings"

	"0chain.net/chaincore/block"
	tbls "0chain.net/chaincore/threshold/bls"
	"0chain.net/core/encryption"
	"github.com/herumi/bls-go-binary/bls"

	"verifh/mon"
)

// ---------------------------------------------------------------------------------------------------
// reference arithmetic (herumi group operations only; nothing from chaincore/threshold/bls)

func idToFr(id *bls.ID) *bls.Fr {
	var x bls.Fr
	if err := x.SetLittleEndian(id.GetLittleEndian()); err != nil {
		panic(err)
	}
	return &x
}

// refEvalPub evaluates a published public polynomial (coefficients in G2) at a party id: sum_k mpk[k] * id^k (Horner).
func refEvalPub(mpk []bls.PublicKey, id *bls.ID) *bls.PublicKey {
	x := idToFr(id)
	var acc bls.G2
	acc.Clear()
	for k := len(mpk) - 1; k >= 0; k-- {
		var t bls.G2
		bls.G2Mul(&t, &acc, x)
		bls.G2Add(&acc, &t, bls.CastFromPublicKey(&mpk[k]))
	}
	return bls.CastToPublicKey(&acc)
}

func refSum(pks []*bls.PublicKey) *bls.PublicKey {
	var acc bls.G2
	acc.Clear()
	for _, p := range pks {
		var t bls.G2
		bls.G2Add(&t, &acc, bls.CastFromPublicKey(p))
		acc = t
	}
	return bls.CastToPublicKey(&acc)
}

// dkgSet is one complete DKG among n parties, run through the real API.
type dkgSet struct {
	t, n   int
	ids    []string // miner-like ids (64 hex)
	dkgs   []*tbls.DKG
	shares [][]tbls.Key // shares[i][j]: from i to j
	mpks   map[tbls.PartyID][]tbls.PublicKey
	// reference values
	refPK  []*bls.PublicKey // public key share of party j = sum_i eval(mpk_i, id_j)
	refGPK *bls.PublicKey   // group public key = sum_i mpk_i[0]
}

// newDKGSet runs the real key generation: MakeDKG, ComputeDKGKeyShare, AddSecretShare, AggregateSecretKeyShares,
// AggregatePublicKeyShares. check (may be nil) is called for every share with the real ValidateShare verdict.
func newDKGSet(t, n int, ids []string, check func(i, j int, ok bool)) *dkgSet {
	s := &dkgSet{t: t, n: n, ids: ids, mpks: map[tbls.PartyID][]tbls.PublicKey{}}
	for _, id := range ids {
		s.dkgs = append(s.dkgs, tbls.MakeDKG(t, n, id))
	}
	for _, d := range s.dkgs {
		s.mpks[d.ID] = d.GetMPKs()
	}
	s.shares = make([][]tbls.Key, n)
	for i, di := range s.dkgs {
		s.shares[i] = make([]tbls.Key, n)
		for j, dj := range s.dkgs {
			sh, err := di.ComputeDKGKeyShare(dj.ID)
			if err != nil {
				panic(err)
			}
			s.shares[i][j] = sh
			ok := dj.ValidateShare(di.GetMPKs(), sh)
			if check != nil {
				check(i, j, ok)
			}
		}
	}
	for j, dj := range s.dkgs {
		for i, di := range s.dkgs {
			if err := dj.AddSecretShare(di.ID, s.shares[i][j].GetHexString(), false); err != nil {
				panic(err)
			}
		}
		dj.AggregateSecretKeyShares()
		if err := dj.AggregatePublicKeyShares(s.mpks); err != nil {
			panic(err)
		}
	}
	var consts []*bls.PublicKey
	for _, d := range s.dkgs {
		m := d.GetMPKs()
		consts = append(consts, &m[0])
	}
	s.refGPK = refSum(consts)
	for j := range s.dkgs {
		var parts []*bls.PublicKey
		for _, di := range s.dkgs {
			parts = append(parts, refEvalPub(di.GetMPKs(), &s.dkgs[j].ID))
		}
		s.refPK = append(s.refPK, refSum(parts))
	}
	return s
}

func partyIDs(r *mon.Rand, n int, label string) []string {
	var ids []string
	for i := 0; i < n; i++ {
		ids = append(ids, encryption.Hash(fmt.Sprintf("%s:%d:%d", label, i, r.U64())))
	}
	return ids
}

// subsets enumerates all k-subsets of [0,n).
func subsets(n, k int) [][]int {
	var out [][]int
	var rec func(start int, cur []int)
	rec = func(start int, cur []int) {
		if len(cur) == k {
			out = append(out, append([]int{}, cur...))
			return
		}
		for i := start; i < n; i++ {
			rec(i+1, append(cur, i))
		}
	}
	rec(0, nil)
	return out
}

func orders(r *mon.Rand, s []int) [][]int {
	out := [][]int{append([]int{}, s...)}
	rev := append([]int{}, s...)
	for i, j := 0, len(rev)-1; i < j; i, j = i+1, j-1 {
		rev[i], rev[j] = rev[j], rev[i]
	}
	out = append(out, rev)
	sh := append([]int{}, s...)
	r.Shuffle(len(sh), func(i, j int) { sh[i], sh[j] = sh[j], sh[i] })
	out = append(out, sh)
	return out
}

func c34Child(run *mon.Run, tier, name string) {
	if name == "keys" {
		c34Keys(run, tier)
		return
	}
	ci := idx(name)
	maxN := 8
	if tier == "thorough" {
		maxN = 9
	}
	r := rnd("c34/" + name)
	pair := 0
	exhaustive := true
	for n := 1; n <= maxN; n++ {
		for t := 1; t <= n; t++ {
			pair++
			if pair%4 != ci%4 {
				continue
			}
			c34OneDKG(run, r.Fork(fmt.Sprintf("t%d-n%d", t, n)), t, n)
			run.Checkpoint()
		}
	}
	run.Set("c34_subsets_exhaustive_up_to_n", maxN)
	_ = exhaustive
}

func c34OneDKG(run *mon.Run, r *mon.Rand, t, n int) {
	tn := fmt.Sprintf("t=%d|n=%d", t, n)
	rep := func(extra map[string]interface{}) map[string]interface{} {
		m := map[string]interface{}{"seed": mon.Seed(), "t": t, "n": n}
		for k, v := range extra {
			m[k] = v
		}
		return m
	}
	ids := partyIDs(r, n, "c34")
	s := newDKGSet(t, n, ids, func(i, j int, ok bool) {
		run.Eval(1)
		run.Count("c34.share_validated", 1)
		if !ok {
			violate(run, "C34:validate-share-rejects-valid", fmt.Sprintf("t=%d n=%d: the share party %d derived for party %d does not validate against party %d's published polynomial", t, n, i, j, i), rep(map[string]interface{}{"from": i, "to": j}))
		}
	})
	run.Distinct("dkg|" + tn + "|all-shares-valid")
	// reference cross-check of every share: g2^sij == eval(mpk_i, id_j)
	for i := range s.dkgs {
		for j := range s.dkgs {
			if !s.shares[i][j].GetPublicKey().IsEqual(refEvalPub(s.dkgs[i].GetMPKs(), &s.dkgs[j].ID)) {
				violate(run, "C34:share-not-on-published-polynomial", fmt.Sprintf("t=%d n=%d: share %d->%d is not the published polynomial of %d evaluated at the id of %d", t, n, i, j, i, j), rep(nil))
			}
		}
	}
	// tampered shares must be rejected
	type bad struct {
		class string
		mk    func(i, j int) (mpk []tbls.PublicKey, sh tbls.Key, verifier *tbls.DKG, ok bool)
	}
	one := func() *bls.SecretKey {
		var k bls.SecretKey
		if err := k.SetDecString("1"); err != nil {
			panic(err)
		}
		return &k
	}
	bads := []bad{
		{"shifted-share", func(i, j int) ([]tbls.PublicKey, tbls.Key, *tbls.DKG, bool) {
			sh := s.shares[i][j]
			sh.Add(one())
			return s.dkgs[i].GetMPKs(), sh, s.dkgs[j], true
		}},
		{"share-for-another-party", func(i, j int) ([]tbls.PublicKey, tbls.Key, *tbls.DKG, bool) {
			if n < 2 || t < 2 {
				return nil, tbls.Key{}, nil, false // with t=1 the polynomial is constant: every party gets the same share
			}
			return s.dkgs[i].GetMPKs(), s.shares[i][(j+1)%n], s.dkgs[j], true
		}},
		{"share-of-another-sender", func(i, j int) ([]tbls.PublicKey, tbls.Key, *tbls.DKG, bool) {
			if n < 2 {
				return nil, tbls.Key{}, nil, false
			}
			return s.dkgs[i].GetMPKs(), s.shares[(i+1)%n][j], s.dkgs[j], true
		}},
		{"polynomial-of-another-sender", func(i, j int) ([]tbls.PublicKey, tbls.Key, *tbls.DKG, bool) {
			if n < 2 {
				return nil, tbls.Key{}, nil, false
			}
			return s.dkgs[(i+1)%n].GetMPKs(), s.shares[i][j], s.dkgs[j], true
		}},
		{"zero-share", func(i, j int) ([]tbls.PublicKey, tbls.Key, *tbls.DKG, bool) {
			return s.dkgs[i].GetMPKs(), tbls.Key{}, s.dkgs[j], true
		}},
		{"truncated-polynomial", func(i, j int) ([]tbls.PublicKey, tbls.Key, *tbls.DKG, bool) {
			if t < 2 {
				return nil, tbls.Key{}, nil, false
			}
			m := s.dkgs[i].GetMPKs()
			return m[:len(m)-1], s.shares[i][j], s.dkgs[j], true
		}},
	}
	for _, b := range bads {
		for i := 0; i < n; i++ {
			j := (i + 1 + r.Intn(n)) % n
			mpk, sh, ver, ok := b.mk(i, j)
			if !ok {
				continue
			}
			// oracle: the share is good iff its public image lies on the given polynomial at the verifier's id
			want := len(mpk) > 0 && sh.GetPublicKey().IsEqual(refEvalPub(mpk, &ver.ID))
			var got bool
			p := guard(func() { got = ver.ValidateShare(mpk, sh) })
			run.Eval(1)
			run.Count("c34.bad_share_evaluated", 1)
			run.Distinct(fmt.Sprintf("validate-share|%s|%s|want=%v|got=%v|%s", tn, b.class, want, got, p))
			switch {
			case p != "":
				violate(run, "C34:validate-share-panics-"+b.class, fmt.Sprintf("t=%d n=%d: ValidateShare panicked on %s: %s", t, n, b.class, p), rep(map[string]interface{}{"from": i, "to": j}))
			case got && !want:
				violate(run, "C34:validate-share-accepts-"+b.class, fmt.Sprintf("t=%d n=%d: ValidateShare accepted a %s (from %d, to %d)", t, n, b.class, i, j), rep(map[string]interface{}{"from": i, "to": j}))
			case !got && want:
				violate(run, "C34:validate-share-rejects-valid", fmt.Sprintf("t=%d n=%d: ValidateShare rejected a share that lies on the polynomial (%s)", t, n, b.class), rep(map[string]interface{}{"from": i, "to": j}))
			}
		}
	}
	// aggregated keys: every party's public key share as seen by itself and by every other party equals the reference
	for j, dj := range s.dkgs {
		run.Eval(1)
		run.Count("c34.key_share_checked", 1)
		if dj.Pi == nil || !dj.Pi.IsEqual(s.refPK[j]) {
			violate(run, "C34:aggregated-secret-key-mismatch", fmt.Sprintf("t=%d n=%d: party %d's aggregated secret key does not match the public polynomials", t, n, j), rep(map[string]interface{}{"party": j}))
		}
		for k, dk := range s.dkgs {
			pk := dk.GetPublicKeyByID(dj.ID)
			if !pk.IsEqual(s.refPK[j]) {
				violate(run, "C34:group-derived-public-key-mismatch", fmt.Sprintf("t=%d n=%d: party %d derives a wrong public key for party %d", t, n, k, j), rep(map[string]interface{}{"party": j, "viewer": k}))
			}
		}
	}
	// signing: shares verify under the group-derived keys, for the right message and party only
	msg := fmt.Sprintf("%d%d%x", 1+r.Intn(1e6), r.Intn(3), r.U64()>>1)
	sigs := make([]tbls.Sign, n)
	sigHex := make([]string, n)
	idHex := make([]string, n)
	for j, dj := range s.dkgs {
		sg := dj.Sign(msg)
		sigs[j] = *sg
		sigHex[j] = sg.GetHexString()
		idHex[j] = dj.ID.GetHexString()
		ref := sg.Verify(s.refPK[j], msg)
		viewer := s.dkgs[(j+1)%n]
		got := viewer.VerifySignature(sg, msg, dj.ID)
		run.Eval(1)
		run.Count("c34.share_signature_verified", 1)
		if !ref {
			violate(run, "C34:share-signature-invalid-under-reference-key", fmt.Sprintf("t=%d n=%d: party %d's signature share does not verify under its reference public key", t, n, j), rep(nil))
		}
		if !got {
			violate(run, "C34:share-signature-rejected", fmt.Sprintf("t=%d n=%d: VerifySignature rejects party %d's valid signature share", t, n, j), rep(nil))
		}
		// negatives
		if viewer.VerifySignature(sg, msg+"x", dj.ID) {
			violate(run, "C34:share-signature-accepted-for-other-message", fmt.Sprintf("t=%d n=%d party %d", t, n, j), rep(nil))
		}
		if n > 1 && t > 1 && viewer.VerifySignature(sg, msg, s.dkgs[(j+1)%n].ID) {
			violate(run, "C34:share-signature-accepted-for-other-party", fmt.Sprintf("t=%d n=%d party %d", t, n, j), rep(nil))
		}
		var stranger tbls.PartyID
		_ = stranger.SetHexString("1" + encryption.Hash("stranger")[:31])
		var zero tbls.Sign
		if viewer.VerifySignature(sg, msg, stranger) || viewer.VerifySignature(&zero, msg, stranger) {
			violate(run, "C34:share-signature-accepted-for-unknown-party", fmt.Sprintf("t=%d n=%d", t, n), rep(nil))
		}
		run.Count("c34.share_signature_negative", 3)
	}
	// every t-subset, several orders: one group signature, valid under the group public key
	var groupSig string
	recover := func(sub []int) (string, bool, string) {
		var ss, is []string
		for _, j := range sub {
			ss = append(ss, sigHex[j])
			is = append(is, idHex[j])
		}
		var g tbls.Sign
		var err error
		p := guard(func() { g, err = s.dkgs[sub[0]].CalBlsGpSign(ss, is) })
		if p != "" {
			return "", false, "panic:" + p
		}
		if err != nil {
			return "", false, "error:" + err.Error()
		}
		return g.GetHexString(), g.Verify(s.refGPK, msg), ""
	}
	for _, sub := range subsets(n, t) {
		for oi, ord := range orders(r, sub) {
			hexSig, valid, problem := recover(ord)
			run.Eval(1)
			run.Count("c34.subset_recovered", 1)
			if oi == 0 {
				run.Distinct(fmt.Sprintf("recover|%s|subset=%v|valid=%v|%s", tn, sub, valid, problem))
			}
			if problem != "" {
				violate(run, "C34:threshold-subset-does-not-recover", fmt.Sprintf("t=%d n=%d subset %v: CalBlsGpSign fails: %s", t, n, ord, problem), rep(map[string]interface{}{"subset": ord}))
				continue
			}
			if !valid {
				violate(run, "C34:recovered-signature-invalid", fmt.Sprintf("t=%d n=%d subset %v (order %d): the recovered group signature does not verify under the group public key", t, n, ord, oi), rep(map[string]interface{}{"subset": ord}))
			}
			if groupSig == "" {
				groupSig = hexSig
			} else if groupSig != hexSig {
				violate(run, "C34:subsets-recover-different-signatures", fmt.Sprintf("t=%d n=%d subset %v (order %d) recovers %s, an earlier subset recovered %s", t, n, ord, oi, hexSig[:16], groupSig[:16]), rep(map[string]interface{}{"subset": ord}))
			}
		}
	}
	// RecoverGroupSig directly (typed API) on one subset, larger-than-threshold subsets, and sub-threshold subsets
	if t <= n {
		sub := subsets(n, t)[r.Intn(len(subsets(n, t)))]
		var from []tbls.PartyID
		var shs []tbls.Sign
		for _, j := range sub {
			from = append(from, s.dkgs[j].ID)
			shs = append(shs, sigs[j])
		}
		g, err := s.dkgs[0].RecoverGroupSig(from, shs)
		run.Count("c34.recover_group_sig", 1)
		if err != nil || g.GetHexString() != groupSig {
			violate(run, "C34:RecoverGroupSig-disagrees-with-CalBlsGpSign", fmt.Sprintf("t=%d n=%d subset %v err=%v", t, n, sub, err), rep(nil))
		}
	}
	for k := t + 1; k <= n; k++ {
		all := subsets(n, k)
		sub := all[r.Intn(len(all))]
		hexSig, valid, problem := recover(sub)
		run.Eval(1)
		run.Count("c34.superset_recovered", 1)
		run.Distinct(fmt.Sprintf("recover-more|%s|k=%d|valid=%v", tn, k, valid))
		if problem != "" || !valid || hexSig != groupSig {
			violate(run, "C34:more-than-threshold-shares-recover-different-signature", fmt.Sprintf("t=%d n=%d: %d shares %v: %s valid=%v", t, n, k, sub, problem, valid), rep(map[string]interface{}{"subset": sub}))
		}
	}
	if t >= 2 {
		all := subsets(n, t-1)
		for c := 0; c < 3 && c < len(all); c++ {
			sub := all[r.Intn(len(all))]
			_, valid, _ := recover(sub)
			run.Eval(1)
			run.Count("c34.below_threshold_checked", 1)
			run.Distinct(fmt.Sprintf("recover-less|%s|valid=%v", tn, valid))
			if valid {
				violate(run, "C34:below-threshold-subset-recovers-valid-signature", fmt.Sprintf("t=%d n=%d: %d shares %v recover a signature valid under the group key", t, n, t-1, sub), rep(map[string]interface{}{"subset": sub}))
			}
		}
	}
	// one corrupted share in the subset => the recovered signature must not verify (sanity of the oracle side)
	if t >= 1 {
		sub := subsets(n, t)[0]
		keep := sigHex[sub[0]]
		sigHex[sub[0]] = addSignHex(keep, randG1(r))
		_, valid, _ := recover(sub)
		sigHex[sub[0]] = keep
		run.Count("c34.corrupted_share_recover_checked", 1)
		if valid {
			violate(run, "C34:corrupted-share-recovers-valid-signature", fmt.Sprintf("t=%d n=%d", t, n), rep(nil))
		}
	}
	run.Sample(map[string]interface{}{"t": t, "n": n, "message": msg, "group_signature": groupSig, "subsets": len(subsets(n, t))})
	c34Reaggregate(run, r.Fork("reaggregate"), s, msg, sigHex)
}

// ---------------------------------------------------------------------------------------------------
// re-aggregation on the SAME DKG objects. The miner's view-change wait step drops the dealers that did not make it
// into the magic block with DeleteFromSet, force-adds revealed shares, and then runs AggregatePublicKeyShares(qualified
// mpks) + AggregateSecretKeyShares on the object that has aggregated before. The statement must hold for the keys
// every such aggregation leaves behind.

// c34Ref: reference values of a qualified set (indices into s.dkgs), herumi group arithmetic only.
type c34Ref struct {
	q    []int
	pk   map[int]*bls.PublicKey // public key share of member j = sum_{i in Q} eval(mpk_i, id_j)
	gpk  *bls.PublicKey         // group public key = sum_{i in Q} mpk_i[0]
	mpks map[tbls.PartyID][]tbls.PublicKey
}

func c34RefOf(s *dkgSet, q []int) *c34Ref {
	ref := &c34Ref{q: append([]int{}, q...), pk: map[int]*bls.PublicKey{}, mpks: map[tbls.PartyID][]tbls.PublicKey{}}
	var consts []*bls.PublicKey
	for _, i := range q {
		m := s.dkgs[i].GetMPKs()
		ref.mpks[s.dkgs[i].ID] = m
		consts = append(consts, &m[0])
	}
	ref.gpk = refSum(consts)
	for _, j := range q {
		var parts []*bls.PublicKey
		for _, i := range q {
			parts = append(parts, refEvalPub(s.dkgs[i].GetMPKs(), &s.dkgs[j].ID))
		}
		ref.pk[j] = refSum(parts)
	}
	return ref
}

func c34Without(all []int, drop []int) []int {
	d := map[int]bool{}
	for _, x := range drop {
		d[x] = true
	}
	var out []int
	for _, x := range all {
		if !d[x] {
			out = append(out, x)
		}
	}
	return out
}

// c34CheckStage judges the whole DKG statement on the qualified set after an aggregation step: shares validate against
// the senders' polynomials, aggregated keys match the group-derived public keys, signature shares verify under them,
// every t-subset of the qualified parties (canonical and one seeded order) recovers one group signature that verifies
// under the group public key the harness computed from the qualified dealers' polynomials.
func c34CheckStage(run *mon.Run, r *mon.Rand, s *dkgSet, ref *c34Ref, stage, class, msg string) {
	t, n := s.t, s.n
	q := ref.q
	tn := fmt.Sprintf("t=%d|n=%d", t, n)
	rep := func(extra map[string]interface{}) map[string]interface{} {
		m := map[string]interface{}{"seed": mon.Seed(), "t": t, "n": n, "stage": stage, "qualified": q}
		for k, v := range extra {
			m[k] = v
		}
		return m
	}
	where := fmt.Sprintf("t=%d n=%d after %s (qualified %v)", t, n, stage, q)
	run.Count("c34.reaggregation_stage_checked", 1)
	run.Count("c34.reaggregation."+class, 1)
	bad := false
	for _, i := range q {
		for _, j := range q {
			run.Eval(1)
			run.Count("c34.reaggregation_share_validated", 1)
			okRef := s.shares[i][j].GetPublicKey().IsEqual(refEvalPub(ref.mpks[s.dkgs[i].ID], &s.dkgs[j].ID))
			if !s.dkgs[j].ValidateShare(ref.mpks[s.dkgs[i].ID], s.shares[i][j]) || !okRef {
				bad = true
				violate(run, "C34:validate-share-rejects-valid-after-reaggregation", fmt.Sprintf("%s: share %d->%d does not validate against the sender's polynomial", where, i, j), rep(map[string]interface{}{"from": i, "to": j}))
			}
		}
	}
	for _, j := range q {
		dj := s.dkgs[j]
		run.Eval(1)
		run.Count("c34.reaggregation_key_share_checked", 1)
		if dj.Pi == nil || !dj.Pi.IsEqual(ref.pk[j]) || !dj.Si.GetPublicKey().IsEqual(ref.pk[j]) {
			bad = true
			violate(run, "C34:aggregated-secret-key-mismatch-after-reaggregation", fmt.Sprintf("%s: party %d's aggregated secret key does not match the qualified dealers' public polynomials", where, j), rep(map[string]interface{}{"party": j}))
		}
		for _, k := range q {
			pk := s.dkgs[k].GetPublicKeyByID(dj.ID)
			if !pk.IsEqual(ref.pk[j]) {
				bad = true
				violate(run, "C34:group-derived-public-key-mismatch-after-reaggregation", fmt.Sprintf("%s: party %d derives a wrong public key for party %d", where, k, j), rep(map[string]interface{}{"party": j, "viewer": k}))
			}
		}
	}
	sigHex := map[int]string{}
	idHex := map[int]string{}
	for qi, j := range q {
		dj := s.dkgs[j]
		sg := dj.Sign(msg)
		sigHex[j] = sg.GetHexString()
		idHex[j] = dj.ID.GetHexString()
		viewer := s.dkgs[q[(qi+1)%len(q)]]
		run.Eval(1)
		run.Count("c34.reaggregation_share_signature_verified", 1)
		if !sg.Verify(ref.pk[j], msg) {
			bad = true
			violate(run, "C34:share-signature-invalid-under-reference-key-after-reaggregation", fmt.Sprintf("%s: party %d's signature share does not verify under its reference public key", where, j), rep(map[string]interface{}{"party": j}))
		}
		if !viewer.VerifySignature(sg, msg, dj.ID) {
			bad = true
			violate(run, "C34:share-signature-rejected-after-reaggregation", fmt.Sprintf("%s: VerifySignature rejects party %d's signature share under its group-derived public key", where, j), rep(map[string]interface{}{"party": j}))
		}
		if viewer.VerifySignature(sg, msg+"x", dj.ID) {
			bad = true
			violate(run, "C34:share-signature-accepted-for-other-message", fmt.Sprintf("%s party %d", where, j), rep(nil))
		}
	}
	var groupSig string
	for _, sub := range subsets(len(q), t) {
		canon := make([]int, len(sub))
		for x, qi := range sub {
			canon[x] = q[qi]
		}
		ords := orders(r, canon)
		for oi, ord := range [][]int{ords[0], ords[2]} {
			var ss, is []string
			for _, j := range ord {
				ss = append(ss, sigHex[j])
				is = append(is, idHex[j])
			}
			var g tbls.Sign
			var err error
			p := guard(func() { g, err = s.dkgs[ord[0]].CalBlsGpSign(ss, is) })
			run.Eval(1)
			run.Count("c34.reaggregation_subset_recovered", 1)
			if p != "" || err != nil {
				bad = true
				violate(run, "C34:threshold-subset-does-not-recover-after-reaggregation", fmt.Sprintf("%s subset %v: CalBlsGpSign fails: %s %v", where, ord, p, err), rep(map[string]interface{}{"subset": ord}))
				continue
			}
			if !g.Verify(ref.gpk, msg) {
				bad = true
				violate(run, "C34:recovered-signature-invalid-after-reaggregation", fmt.Sprintf("%s subset %v (order %d): the recovered group signature does not verify under the group public key of the qualified dealers", where, ord, oi), rep(map[string]interface{}{"subset": ord}))
			}
			if h := g.GetHexString(); groupSig == "" {
				groupSig = h
			} else if groupSig != h {
				bad = true
				violate(run, "C34:subsets-recover-different-signatures-after-reaggregation", fmt.Sprintf("%s subset %v (order %d) recovers %s, an earlier subset recovered %s", where, ord, oi, h[:16], groupSig[:16]), rep(map[string]interface{}{"subset": ord}))
			}
		}
	}
	run.Distinct(fmt.Sprintf("reaggregate|%s|%s|qualified=%d|holds=%v", tn, class, len(q), !bad))
}

func c34Reaggregate(run *mon.Run, r *mon.Rand, s *dkgSet, msg string, firstSigHex []string) {
	t, n := s.t, s.n
	all := make([]int, n)
	for i := range all {
		all[i] = i
	}
	rep := func(stage string, extra map[string]interface{}) map[string]interface{} {
		m := map[string]interface{}{"seed": mon.Seed(), "t": t, "n": n, "stage": stage}
		for k, v := range extra {
			m[k] = v
		}
		return m
	}
	idsOf := func(idx []int) []string {
		var out []string
		for _, i := range idx {
			out = append(out, s.ids[i])
		}
		return out
	}
	steps := 1 // aggregations every object has seen so far
	// aggregate runs the two aggregation calls on party j; the miner's order is public keys first
	aggregate := func(j int, ref *c34Ref, pubFirst bool) {
		dj := s.dkgs[j]
		if pubFirst {
			if err := dj.AggregatePublicKeyShares(ref.mpks); err != nil {
				panic(err)
			}
			dj.AggregateSecretKeyShares()
		} else {
			dj.AggregateSecretKeyShares()
			if err := dj.AggregatePublicKeyShares(ref.mpks); err != nil {
				panic(err)
			}
		}
		run.Count("c34.reaggregation_calls", 1)
	}
	// settle makes q the qualified set of every member of q: the shares of everybody else are deleted (dropped lists in
	// different orders and groupings per party), the shares of members are (re-)added, both aggregations run again.
	settle := func(q []int, variant int) *c34Ref {
		ref := c34RefOf(s, q)
		out := c34Without(all, q)
		for qi, j := range q {
			dj := s.dkgs[j]
			if len(out) > 0 {
				ords := orders(r, out)
				switch (qi + variant) % 4 {
				case 0:
					dj.DeleteFromSet(idsOf(ords[0]))
				case 1:
					dj.DeleteFromSet(idsOf(ords[1]))
				case 2:
					dj.DeleteFromSet(idsOf(ords[2]))
				default:
					for _, o := range ords[2] { // one call per dropped dealer
						dj.DeleteFromSet(idsOf([]int{o}))
					}
				}
			}
			for _, i := range q {
				if err := dj.AddSecretShare(s.dkgs[i].ID, s.shares[i][j].GetHexString(), (qi+i+variant)%2 == 0); err != nil {
					violate(run, "C34:genuine-share-refused-on-re-add", fmt.Sprintf("t=%d n=%d: AddSecretShare refuses the genuine share %d->%d: %v", t, n, i, j, err), rep("re-add", nil))
				}
			}
			if dj.GetSecretSharesSize() != len(q) {
				violate(run, "C34:held-share-set-differs-from-qualified-set", fmt.Sprintf("t=%d n=%d: party %d holds %d shares, the qualified set has %d dealers", t, n, j, dj.GetSecretSharesSize(), len(q)), rep("settle", map[string]interface{}{"qualified": q}))
			}
			aggregate(j, ref, (qi+variant)%3 != 2)
		}
		steps++
		return ref
	}

	// (a) the same aggregation again, twice: nothing may change
	full := c34RefOf(s, all)
	first := make([]string, n)
	for j, dj := range s.dkgs {
		first[j] = dj.Si.GetHexString()
	}
	for round := 2; round <= 3; round++ {
		for j, dj := range s.dkgs {
			switch (j + round) % 3 {
			case 0:
				dj.AggregateSecretKeyShares()
				run.Count("c34.reaggregation_calls", 1)
			case 1:
				aggregate(j, full, true)
			default:
				aggregate(j, full, false)
			}
			run.Eval(1)
			if dj.Si.GetHexString() != first[j] || dj.Sign(msg).GetHexString() != firstSigHex[j] {
				violate(run, "C34:repeated-aggregation-changes-key", fmt.Sprintf("t=%d n=%d: party %d's aggregated key after aggregation call %d over unchanged shares differs from the key after the first call", t, n, j, round), rep("repeat", map[string]interface{}{"party": j, "call": round}))
			}
		}
		steps++
		c34CheckStage(run, r, s, full, fmt.Sprintf("aggregation call %d over unchanged shares", round), "repeat", msg)
	}

	// (b) dealers are disqualified one after the other down to t qualified parties; every step re-aggregates on the same objects
	perm := append([]int{}, all...)
	r.Shuffle(n, func(i, j int) { perm[i], perm[j] = perm[j], perm[i] })
	for d := 1; d <= n-t; d++ {
		q := c34Without(all, perm[:d])
		ref := settle(q, d)
		c34CheckStage(run, r, s, ref, fmt.Sprintf("disqualifying dealers %v one after the other (aggregation %d on these objects)", perm[:d], steps), fmt.Sprintf("disqualified-%d-cumulative", d), msg+fmt.Sprint(d))
	}
	// (c) disqualified dealers come back (their shares are added again), in two steps up to the full set
	if n-t >= 1 {
		if n-t >= 2 {
			half := (n - t) / 2
			q := c34Without(all, perm[:half])
			ref := settle(q, 1)
			c34CheckStage(run, r, s, ref, fmt.Sprintf("re-adding dealers %v (aggregation %d)", perm[half:n-t], steps), "re-added-part", msg+"r")
		}
		ref := settle(all, 2)
		c34CheckStage(run, r, s, ref, fmt.Sprintf("re-adding all disqualified dealers (aggregation %d)", steps), "re-added-all", msg)
		for j, dj := range s.dkgs {
			if dj.Si.GetHexString() != first[j] {
				violate(run, "C34:repeated-aggregation-changes-key", fmt.Sprintf("t=%d n=%d: party %d's key over the full share set after disqualification and re-adding differs from the first aggregation", t, n, j), rep("re-add", map[string]interface{}{"party": j}))
			}
		}
		// several dealers disqualified at once from the full set
		k := 1 + r.Intn(n-t)
		drop := pickDistinct(r, n, k)
		q := c34Without(all, drop)
		ref = settle(q, 3)
		c34CheckStage(run, r, s, ref, fmt.Sprintf("disqualifying dealers %v at once (aggregation %d)", drop, steps), fmt.Sprintf("disqualified-%d-at-once", k), msg+"o")
		// cur stays q
		all = q
	}

	// (d) a held share is replaced (force) by one that is not on the dealer's polynomial, then by the genuine one again
	cur := all
	ref := c34RefOf(s, cur)
	j := cur[r.Intn(len(cur))]
	i := cur[r.Intn(len(cur))]
	dj := s.dkgs[j]
	wrong := s.shares[i][j]
	var one bls.SecretKey
	if err := one.SetDecString(fmt.Sprint(1 + r.Intn(1000))); err != nil {
		panic(err)
	}
	wrong.Add(&one)
	if err := dj.AddSecretShare(s.dkgs[i].ID, wrong.GetHexString(), false); err == nil {
		run.Count("c34.unforced_replacement_taken", 1) // not part of the statement; evidence only
		_ = dj.AddSecretShare(s.dkgs[i].ID, s.shares[i][j].GetHexString(), true)
	}
	aggregate(j, ref, true) // unforced replacement refused (or undone): same shares, same key
	run.Eval(1)
	if dj.Pi == nil || !dj.Pi.IsEqual(ref.pk[j]) {
		violate(run, "C34:aggregated-secret-key-mismatch-after-reaggregation", fmt.Sprintf("t=%d n=%d: party %d's key after a refused share replacement and another aggregation does not match the public polynomials", t, n, j), rep("refused-replacement", map[string]interface{}{"party": j}))
	}
	if err := dj.AddSecretShare(s.dkgs[i].ID, wrong.GetHexString(), true); err != nil {
		panic(err)
	}
	aggregate(j, ref, true)
	// reference: the key is the sum of the shares the party holds now = reference key + image(wrong) - image(genuine)
	var heldImg bls.G2
	bls.G2Add(&heldImg, bls.CastFromPublicKey(ref.pk[j]), bls.CastFromPublicKey(wrong.GetPublicKey()))
	var heldImg2 bls.G2
	bls.G2Sub(&heldImg2, &heldImg, bls.CastFromPublicKey(s.shares[i][j].GetPublicKey()))
	run.Eval(1)
	run.Count("c34.reaggregation.replaced-by-bad-share", 1)
	if dj.Pi == nil || !dj.Pi.IsEqual(bls.CastToPublicKey(&heldImg2)) {
		violate(run, "C34:aggregated-key-is-not-sum-of-held-shares", fmt.Sprintf("t=%d n=%d: after the share of dealer %d was replaced, party %d's aggregated key is not the sum of the shares it holds", t, n, i, j), rep("replace", map[string]interface{}{"party": j, "dealer": i}))
	}
	viewer := s.dkgs[cur[(r.Intn(len(cur)))]]
	if viewer.VerifySignature(dj.Sign(msg), msg, dj.ID) {
		violate(run, "C34:share-signature-of-bad-key-accepted", fmt.Sprintf("t=%d n=%d: party %d aggregated a share that is not on dealer %d's polynomial, its signature share still verifies under the group-derived public key", t, n, j, i), rep("replace", map[string]interface{}{"party": j, "dealer": i}))
	}
	if err := dj.AddSecretShare(s.dkgs[i].ID, s.shares[i][j].GetHexString(), true); err != nil {
		panic(err)
	}
	aggregate(j, ref, false)
	steps++
	c34CheckStage(run, r, s, ref, fmt.Sprintf("replacing the share %d->%d by a bad one and by the genuine one again (aggregation %d)", i, j, steps), "replaced-and-restored", msg+"d")
}

// addSignHex shifts a signature given in herumi's GetHexString form.
func addSignHex(h string, d *bls.G1) string {
	var s bls.Sign
	if err := s.SetHexString(h); err != nil {
		panic(err)
	}
	var out bls.G1
	bls.G1Add(&out, bls.CastFromSign(&s), d)
	return bls.CastToSign(&out).GetHexString()
}

// ---------------------------------------------------------------------------------------------------
// client threshold keys, split keys, ShareOrSigns.Validate

func refVerifyHex(pubHex, sigHex, hashHex string) bool {
	return refValid(aggItem{pubHex: pubHex, sig: sigHex, hash: hashHex})
}

func c34Keys(run *mon.Run, tier string) {
	r := rnd("c34/keys")
	maxN := 6
	if tier == "thorough" {
		maxN = 8
	}
	// --- BLS0GenerateThresholdKeyShares + BLS0ChainReconstruction
	for n := 1; n <= maxN; n++ {
		for t := 1; t <= n; t++ {
			orig := encryption.NewBLS0ChainScheme()
			if err := orig.GenerateKeys(); err != nil {
				panic(err)
			}
			h := encryption.Hash(randBytes(r, 32))
			shares, err := encryption.BLS0GenerateThresholdKeyShares(t, n, orig)
			if err != nil || len(shares) != n {
				violate(run, "C34:threshold-key-shares-not-generated", fmt.Sprintf("t=%d n=%d err=%v len=%d", t, n, err, len(shares)), nil)
				continue
			}
			ssig := make([]string, n)
			for i, sh := range shares {
				sg, err := sh.Sign(h)
				if err != nil {
					panic(err)
				}
				ssig[i] = sg
				run.Eval(1)
				run.Count("c34.threshold_share_signature", 1)
				if !refVerifyHex(sh.GetPublicKey(), sg, h) {
					violate(run, "C34:threshold-share-signature-invalid", fmt.Sprintf("t=%d n=%d share %d", t, n, i), nil)
				}
			}
			for _, sub := range subsets(n, t) {
				for oi, ord := range orders(r, sub) {
					rec := encryption.NewBLS0ChainReconstruction(t, n)
					for _, i := range ord {
						if err := rec.Add(shares[i], ssig[i]); err != nil {
							panic(err)
						}
					}
					sg, err := rec.Reconstruct()
					run.Eval(1)
					run.Count("c34.threshold_reconstructed", 1)
					ok := err == nil && refVerifyHex(orig.GetPublicKey(), sg, h)
					if oi == 0 {
						run.Distinct(fmt.Sprintf("reconstruct|t=%d|n=%d|%v|ok=%v", t, n, sub, ok))
					}
					if !ok {
						violate(run, "C34:threshold-reconstruction-invalid", fmt.Sprintf("t=%d n=%d subset %v: reconstructed signature does not verify under the original key (err=%v)", t, n, ord, err), map[string]interface{}{"seed": mon.Seed(), "t": t, "n": n, "subset": ord})
					}
				}
			}
			if t >= 2 {
				sub := subsets(n, t-1)[0]
				rec := encryption.NewBLS0ChainReconstruction(t, n)
				for _, i := range sub {
					_ = rec.Add(shares[i], ssig[i])
				}
				sg, err := rec.Reconstruct()
				run.Count("c34.threshold_below_checked", 1)
				if err == nil && refVerifyHex(orig.GetPublicKey(), sg, h) {
					violate(run, "C34:below-threshold-reconstruction-valid", fmt.Sprintf("t=%d n=%d: %d shares reconstruct a valid signature", t, n, t-1), nil)
				}
			}
		}
		run.Checkpoint()
	}
	// --- GenerateSplitKeys + AggregateSignatures
	for k := 1; k <= 8; k++ {
		for rep := 0; rep < 4; rep++ {
			orig := encryption.NewBLS0ChainScheme()
			if err := orig.GenerateKeys(); err != nil {
				panic(err)
			}
			h := encryption.Hash(randBytes(r, 32))
			var parts []encryption.SignatureScheme
			var err error
			p := guard(func() { parts, err = orig.GenerateSplitKeys(k) })
			run.Eval(1)
			run.Count("c34.split_keys", 1)
			if p != "" || err != nil || len(parts) != k {
				violate(run, "C34:split-keys-not-generated", fmt.Sprintf("splits=%d panic=%q err=%v", k, p, err), nil)
				continue
			}
			var sgs []string
			var pks []*bls.PublicKey
			for i, part := range parts {
				sg, err := part.Sign(h)
				if err != nil {
					panic(err)
				}
				sgs = append(sgs, sg)
				if !refVerifyHex(part.GetPublicKey(), sg, h) {
					violate(run, "C34:split-key-signature-invalid", fmt.Sprintf("splits=%d part %d", k, i), nil)
				}
				pkb, _ := hex.DecodeString(part.GetPublicKey())
				var pk bls.PublicKey
				if err := pk.Deserialize(pkb); err != nil {
					panic(err)
				}
				pks = append(pks, &pk)
			}
			agg, err := orig.AggregateSignatures(sgs)
			ok := err == nil && refVerifyHex(orig.GetPublicKey(), agg, h)
			sumOK := hex.EncodeToString(refSum(pks).Serialize()) == orig.GetPublicKey()
			run.Distinct(fmt.Sprintf("split|k=%d|sig=%v|keys=%v", k, ok, sumOK))
			if !ok {
				violate(run, "C34:split-keys-aggregate-signature-invalid", fmt.Sprintf("splits=%d: the aggregated split signatures do not verify under the original key (err=%v)", k, err), map[string]interface{}{"seed": mon.Seed(), "splits": k})
			}
			if !sumOK {
				violate(run, "C34:split-public-keys-do-not-sum-to-original", fmt.Sprintf("splits=%d", k), nil)
			}
		}
	}
	run.Checkpoint()
	// --- ShareOrSigns.Validate
	for n := 2; n <= 5; n++ {
		for t := 1; t <= n; t++ {
			c34SOS(run, r.Fork(fmt.Sprintf("sos-%d-%d", t, n)), t, n)
		}
		run.Checkpoint()
	}
}

func c34SOS(run *mon.Run, r *mon.Rand, t, n int) {
	ids := partyIDs(r, n, "sos")
	s := newDKGSet(t, n, ids, nil)
	// node keys of the parties (signatures of receipt are made with these)
	keys := map[string]*encryption.BLS0ChainScheme{}
	pubs := map[string]string{}
	for _, id := range ids {
		k := encryption.NewBLS0ChainScheme()
		if err := k.GenerateKeys(); err != nil {
			panic(err)
		}
		keys[id] = k
		pubs[id] = k.GetPublicKey()
	}
	mpks := block.NewMpks()
	for i, id := range ids {
		m := &block.MPK{ID: id}
		for _, pk := range s.dkgs[i].GetMPKs() {
			m.Mpk = append(m.Mpk, pk.GetHexString())
		}
		mpks.Mpks[id] = m
	}
	type entry struct {
		class string
		valid bool
		share bool // a revealed share (true) or a signature of receipt
		mk    func(from, to int) *tbls.DKGKeyShare
	}
	signed := func(to int, msg string, signer *encryption.BLS0ChainScheme) *tbls.DKGKeyShare {
		sg, err := signer.Sign(msg)
		if err != nil {
			panic(err)
		}
		ks := &tbls.DKGKeyShare{Message: msg, Sign: sg}
		ks.ID = ids[to]
		return ks
	}
	entries := []entry{
		{"valid-sign", true, false, func(from, to int) *tbls.DKGKeyShare {
			return signed(to, encryption.Hash(s.shares[from][to].GetHexString()), keys[ids[to]])
		}},
		{"valid-share", true, true, func(from, to int) *tbls.DKGKeyShare {
			ks := &tbls.DKGKeyShare{Share: s.shares[from][to].GetHexString()}
			ks.ID = ids[to]
			return ks
		}},
		{"sign-by-other-key", false, false, func(from, to int) *tbls.DKGKeyShare {
			return signed(to, encryption.Hash("m"), keys[ids[(to+1)%n]])
		}},
		{"sign-of-other-message", false, false, func(from, to int) *tbls.DKGKeyShare {
			ks := signed(to, encryption.Hash("m1"), keys[ids[to]])
			ks.Message = encryption.Hash("m2")
			return ks
		}},
		{"sign-tampered", false, false, func(from, to int) *tbls.DKGKeyShare {
			ks := signed(to, encryption.Hash("m3"), keys[ids[to]])
			ks.Sign = addToSig(ks.Sign, randG1(r), false)
			return ks
		}},
		{"share-shifted", false, true, func(from, to int) *tbls.DKGKeyShare {
			sh := s.shares[from][to]
			var one bls.SecretKey
			_ = one.SetDecString("1")
			sh.Add(&one)
			ks := &tbls.DKGKeyShare{Share: sh.GetHexString()}
			ks.ID = ids[to]
			return ks
		}},
		{"share-of-other-sender", false, true, func(from, to int) *tbls.DKGKeyShare {
			ks := &tbls.DKGKeyShare{Share: s.shares[(from+1)%n][to].GetHexString()}
			ks.ID = ids[to]
			return ks
		}},
		{"share-garbage", false, true, func(from, to int) *tbls.DKGKeyShare {
			ks := &tbls.DKGKeyShare{Share: "zz-not-hex"}
			ks.ID = ids[to]
			return ks
		}},
	}
	// each case: a ShareOrSigns of sender `from` where every receiver has a valid entry, except (for invalid
	// classes) one receiver that carries the bad one
	for from := 0; from < n; from++ {
		for ei, e := range entries {
			sos := block.NewShareOrSigns()
			sos.ID = ids[from]
			var wantKeys []string
			wantOK := true
			badAt := -1
			if !e.valid {
				badAt = (from + 1 + r.Intn(n-1)) % n
			}
			for to := 0; to < n; to++ {
				if to == from {
					continue
				}
				var ks *tbls.DKGKeyShare
				var isShare bool
				switch {
				case to == badAt:
					ks, isShare = e.mk(from, to), e.share
					wantOK = false
				case e.valid:
					ks, isShare = e.mk(from, to), e.share
				default:
					// alternate valid signs and valid shares around the bad entry
					pick := entries[(to+ei)%2]
					ks, isShare = pick.mk(from, to), pick.share
				}
				sos.ShareOrSigns[ids[to]] = ks
				if isShare {
					wantKeys = append(wantKeys, ids[to])
				}
			}
			hasNil := false
			if r.Chance(0.3) {
				// an entry without content (JSON null): the statement says nothing about it (refused since repository commit
				// a12b633, skipped before); such a set must neither panic nor be accepted with an invalid entry, its rejection
				// is not judged
				sos.ShareOrSigns[encryption.Hash("nil-entry")] = nil
				hasNil = true
			}
			// independent re-judgement of every entry (the classes above say what we meant; this says what is true)
			for to, ks := range sos.ShareOrSigns {
				if ks == nil {
					continue
				}
				if ks.Sign != "" {
					if !refVerifyHex(pubs[to], ks.Sign, ks.Message) {
						wantOK = false
					}
				} else {
					var sij tbls.Key
					if sij.SetHexString(ks.Share) != nil {
						wantOK = false
						continue
					}
					pid := tbls.ComputeIDdkg(to)
					if !sij.GetPublicKey().IsEqual(refEvalPub(s.dkgs[from].GetMPKs(), &pid)) {
						wantOK = false
					}
				}
			}
			var gotKeys []string
			var gotOK bool
			p := guard(func() { gotKeys, gotOK = sos.Validate(mpks, pubs, encryption.NewBLS0ChainScheme()) })
			run.Eval(1)
			run.Count("c34.sos_validate", 1)
			run.Distinct(fmt.Sprintf("sos|t=%d|n=%d|%s|want=%v|got=%v|%s", t, n, e.class, wantOK, gotOK, p))
			rep := map[string]interface{}{"seed": mon.Seed(), "t": t, "n": n, "from": from, "class": e.class, "sos": string(sos.Encode())}
			switch {
			case p != "":
				violate(run, "C34:sos-validate-panics-"+e.class, fmt.Sprintf("ShareOrSigns.Validate panicked (%s): %s", e.class, p), rep)
			case gotOK && !wantOK:
				violate(run, "C34:sos-validate-accepts-"+e.class, fmt.Sprintf("t=%d n=%d: ShareOrSigns.Validate accepted a set containing a %s entry", t, n, e.class), rep)
			case !gotOK && wantOK && hasNil:
				run.Count("c34.sos_valid_set_with_null_entry_refused", 1)
			case !gotOK && wantOK:
				violate(run, "C34:sos-validate-rejects-valid", fmt.Sprintf("t=%d n=%d: ShareOrSigns.Validate rejected an all-valid set (%s)", t, n, e.class), rep)
			case gotOK:
				sort.Strings(gotKeys)
				sort.Strings(wantKeys)
				if strings.Join(gotKeys, ",") != strings.Join(wantKeys, ",") {
					violate(run, "C34:sos-validate-wrong-revealed-set", fmt.Sprintf("t=%d n=%d class %s: revealed-share parties reported %d, expected %d", t, n, e.class, len(gotKeys), len(wantKeys)), rep)
				}
			}
		}
	}
}
