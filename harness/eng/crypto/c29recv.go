package crypto

// C29, receive-path family: "a received block whose hash ... does not match ... is rejected", taken to the end of the path a
// verifying miner runs on a proposed block. The block hash reaches a transaction only through the transaction's Hash field (and
// its output only through OutputHash); the commitment therefore holds only if a block whose transactions CARRY other contents
// than the ones that were hashed is refused somewhere between the wire and the end of the transaction checks:
//
//	bytes -> datastore.FromJSON (Block.ComputeProperties) -> Block.Validate -> miner.Chain.ValidateTransactions
//
// Workload: really executed, generator-signed blocks whose transactions are signed by clients of the chain's client signature
// scheme (bls0chain: aggregate signature check, per-transaction signature check switched off; ed25519: per-transaction check);
// the block JSON is edited as bytes on the wire would be (generic JSON tree, numbers kept literally): ONE content field of ONE
// transaction, every hash and signature left as received.
//
// Oracle (from the statement, never from the judged path): the expectation is computed on a raw decode of the edited
// transaction: an honest recomputation of the transaction hash / output hash over the carried contents differs from the carried
// hash  =>  the block must be rejected. Fields whose change leaves the honest recomputation unchanged (fee, type, status: the
// known findings of the hash family) get no verdict here. The unedited block, sent through the same JSON tree round trip, must
// be accepted (control).

import (
	"bytes"
	"context"
	"encoding/json"
	"fmt"
	"strconv"
	"strings"

	"0chain.net/chaincore/block"
	"0chain.net/chaincore/client"
	"0chain.net/chaincore/transaction"
	"0chain.net/core/encryption"
	"0chain.net/core/viper"
	"0chain.net/miner"

	"verifh/mon"
	"verifh/world"
)

// c29RecvSchemes: both client signature schemes (the chain's scheme is switched between them, as c30 switches the batch size).
var c29RecvSchemes = []string{encryption.SignatureSchemeBls0chain, encryption.SignatureSchemeEd25519}

type c29RecvEnv struct {
	cw     *c29World
	mc     *miner.Chain
	scheme string
	pool   []*world.Wallet
}

// ---- JSON tree helpers (numbers stay literal: amounts beyond 2^53 survive the round trip)

func c29Tree(js []byte) map[string]interface{} {
	d := json.NewDecoder(bytes.NewReader(js))
	d.UseNumber()
	var m map[string]interface{}
	if err := d.Decode(&m); err != nil {
		panic(fmt.Sprintf("block JSON does not parse: %v", err))
	}
	return m
}

func c29Bytes(v interface{}) []byte {
	var buf bytes.Buffer
	e := json.NewEncoder(&buf)
	e.SetEscapeHTML(false)
	if err := e.Encode(v); err != nil {
		panic(err)
	}
	return bytes.TrimRight(buf.Bytes(), "\n")
}

func c29TreeTxns(m map[string]interface{}) []interface{} {
	l, _ := m["transactions"].([]interface{})
	return l
}

func jU(tx map[string]interface{}, k string) (uint64, bool) {
	n, ok := tx[k].(json.Number)
	if !ok {
		return 0, false
	}
	v, err := strconv.ParseUint(n.String(), 10, 64)
	return v, err == nil
}

func jI(tx map[string]interface{}, k string) (int64, bool) {
	n, ok := tx[k].(json.Number)
	if !ok {
		return 0, false
	}
	v, err := strconv.ParseInt(n.String(), 10, 64)
	return v, err == nil
}

func jS(tx map[string]interface{}, k string) string { s, _ := tx[k].(string); return s }

func setU(tx map[string]interface{}, k string, v uint64) {
	tx[k] = json.Number(strconv.FormatUint(v, 10))
}
func setI(tx map[string]interface{}, k string, v int64) {
	tx[k] = json.Number(strconv.FormatInt(v, 10))
}

// ---- mutations: one content field of one transaction, on the wire form

type recvMut struct {
	field   string // stable name used in the violation signature and in the counters
	variant string
	apply   func(tx map[string]interface{}) bool // false = not applicable to this transaction
}

func (e *c29RecvEnv) otherWallet(not ...string) *world.Wallet {
	for _, w := range e.pool {
		skip := false
		for _, n := range not {
			if w.ID == n {
				skip = true
			}
		}
		if !skip {
			return w
		}
	}
	return nil
}

func (e *c29RecvEnv) mutations(r *mon.Rand) []recvMut {
	const smartContract = transaction.TxnTypeSmartContract
	isSC := func(tx map[string]interface{}) bool {
		v, _ := jI(tx, "transaction_type")
		return int(v) == smartContract
	}
	ms := []recvMut{
		{"value", "+1", func(tx map[string]interface{}) bool {
			v, ok := jU(tx, "transaction_value")
			if !ok {
				return false
			}
			setU(tx, "transaction_value", v+1)
			return true
		}},
		{"value", "x1000", func(tx map[string]interface{}) bool {
			v, ok := jU(tx, "transaction_value")
			if !ok {
				return false
			}
			if v == 0 {
				v = 1 + uint64(r.Intn(1000))
			}
			setU(tx, "transaction_value", v*1000)
			return true
		}},
		{"value", "zero", func(tx map[string]interface{}) bool {
			v, ok := jU(tx, "transaction_value")
			if !ok || v == 0 {
				return false
			}
			setU(tx, "transaction_value", 0)
			return true
		}},
		{"value", "max", func(tx map[string]interface{}) bool {
			if _, ok := jU(tx, "transaction_value"); !ok {
				return false
			}
			setU(tx, "transaction_value", ^uint64(0))
			return true
		}},
		{"to_client_id", "other-client", func(tx map[string]interface{}) bool {
			o := e.otherWallet(jS(tx, "client_id"), jS(tx, "to_client_id"))
			if o == nil {
				return false
			}
			tx["to_client_id"] = o.ID
			return true
		}},
		{"to_client_id", "contract", func(tx map[string]interface{}) bool {
			a := world.SCAddresses["vesting"]
			if isSC(tx) {
				a = world.SCAddresses["zcn"] // the call is redirected to another contract
			}
			if jS(tx, "to_client_id") == a {
				return false
			}
			tx["to_client_id"] = a
			return true
		}},
		{"to_client_id", "random-id", func(tx map[string]interface{}) bool {
			tx["to_client_id"] = encryption.Hash(fmt.Sprintf("c29-recv-to:%d", r.U64()))
			return true
		}},
		{"transaction_data", "append", func(tx map[string]interface{}) bool {
			if isSC(tx) {
				tx["transaction_data"] = jS(tx, "transaction_data") + " " // still a well-formed call
			} else {
				tx["transaction_data"] = jS(tx, "transaction_data") + "x"
			}
			return true
		}},
		{"transaction_data", "other-function", func(tx map[string]interface{}) bool {
			d := jS(tx, "transaction_data")
			if !isSC(tx) || !strings.Contains(d, `"name":"`) {
				return false
			}
			i := strings.Index(d, `"name":"`) + len(`"name":"`)
			tx["transaction_data"] = d[:i] + "x_" + d[i:]
			return true
		}},
		{"transaction_data", "other-input", func(tx map[string]interface{}) bool {
			d := jS(tx, "transaction_data")
			if !isSC(tx) || !strings.Contains(d, `"input":{`) {
				return false
			}
			tx["transaction_data"] = strings.Replace(d, `"input":{`, `"input":{"c29":1,`, 1)
			if strings.Contains(tx["transaction_data"].(string), `,}`) {
				tx["transaction_data"] = strings.Replace(tx["transaction_data"].(string), `,}`, `}`, 1)
			}
			return true
		}},
		{"transaction_data", "replaced", func(tx map[string]interface{}) bool {
			if isSC(tx) {
				return false
			}
			tx["transaction_data"] = fmt.Sprintf("another payment %d", r.Intn(1000))
			return true
		}},
		{"nonce", "+1", func(tx map[string]interface{}) bool {
			v, ok := jI(tx, "transaction_nonce")
			if !ok {
				return false
			}
			setI(tx, "transaction_nonce", v+1)
			return true
		}},
		{"nonce", "+many", func(tx map[string]interface{}) bool {
			v, ok := jI(tx, "transaction_nonce")
			if !ok {
				return false
			}
			setI(tx, "transaction_nonce", v+7+int64(r.Intn(1000)))
			return true
		}},
		{"nonce", "-1", func(tx map[string]interface{}) bool {
			v, ok := jI(tx, "transaction_nonce")
			if !ok || v <= 1 {
				return false
			}
			setI(tx, "transaction_nonce", v-1)
			return true
		}},
	}
	for _, d := range []int64{1, -1, 60, -45} { // all well inside the creation-date tolerance of the chain
		d := d
		ms = append(ms, recvMut{"creation_date", fmt.Sprintf("%+d", d), func(tx map[string]interface{}) bool {
			v, ok := jI(tx, "creation_date")
			if !ok || int64(transaction.TXN_TIME_TOLERANCE) <= 60 {
				return false
			}
			setI(tx, "creation_date", v+d)
			return true
		}})
	}
	ms = append(ms,
		recvMut{"client_id", "other-sender-with-key", func(tx map[string]interface{}) bool {
			o := e.otherWallet(jS(tx, "client_id"), jS(tx, "to_client_id"))
			if o == nil {
				return false
			}
			tx["client_id"], tx["public_key"] = o.ID, o.PubKey
			return true
		}},
		recvMut{"client_id", "other-sender-id-only", func(tx map[string]interface{}) bool {
			o := e.otherWallet(jS(tx, "client_id"), jS(tx, "to_client_id"))
			if o == nil {
				return false
			}
			tx["client_id"] = o.ID
			return true
		}},
		recvMut{"transaction_output", "append", func(tx map[string]interface{}) bool {
			tx["transaction_output"] = jS(tx, "transaction_output") + "tampered"
			return true
		}},
		recvMut{"transaction_output", "emptied", func(tx map[string]interface{}) bool {
			if jS(tx, "transaction_output") == "" {
				return false
			}
			delete(tx, "transaction_output")
			return true
		}},
		// covered by the transaction hash or not? decided by the honest recomputation below, not here
		recvMut{"transaction_fee", "+1", func(tx map[string]interface{}) bool {
			v, ok := jU(tx, "transaction_fee")
			if !ok {
				return false
			}
			setU(tx, "transaction_fee", v+1)
			return true
		}},
		recvMut{"transaction_fee", "zero", func(tx map[string]interface{}) bool {
			v, ok := jU(tx, "transaction_fee")
			if !ok || v == 0 {
				return false
			}
			setU(tx, "transaction_fee", 0)
			return true
		}},
		recvMut{"transaction_type", "other", func(tx map[string]interface{}) bool {
			if isSC(tx) {
				setI(tx, "transaction_type", transaction.TxnTypeSend)
			} else {
				setI(tx, "transaction_type", transaction.TxnTypeData)
			}
			return true
		}},
		recvMut{"transaction_status", "flip", func(tx map[string]interface{}) bool {
			v, ok := jI(tx, "transaction_status")
			if !ok {
				return false
			}
			if int(v) == transaction.TxnSuccess {
				setI(tx, "transaction_status", transaction.TxnFail)
			} else {
				setI(tx, "transaction_status", transaction.TxnSuccess)
			}
			return true
		}},
	)
	return ms
}

// ---- the judged path

// receive runs what a verifying miner runs on a proposed block before executing it.
func (e *c29RecvEnv) receive(js []byte) (accepted bool, how string, rb *block.Block) {
	ctx := context.Background()
	rb, err := recvBlock(js) // decode + Block.ComputeProperties (+ Transaction.ComputeProperties of every transaction)
	if err != nil {
		return false, "decode", nil
	}
	var verr error
	if p := guard(func() { verr = rb.Validate(ctx) }); p != "" {
		return false, "PANIC:Block.Validate", rb
	}
	if verr != nil {
		return false, "block-validate:" + errCode(verr), rb
	}
	if p := guard(func() { verr = e.mc.ValidateTransactions(ctx, rb) }); p != "" {
		return false, "PANIC:ValidateTransactions", rb
	}
	if verr != nil {
		return false, "validate-transactions:" + errCode(verr), rb
	}
	return true, "ACCEPTED", rb
}

func (e *c29RecvEnv) setScheme(scheme string) bool {
	viper.Set("server_chain.client.signature_scheme", scheme)
	if err := e.cw.w.Chain.ChainConfig.FromViper(); err != nil {
		panic(err)
	}
	client.SetClientSignatureScheme(scheme)
	e.scheme = scheme
	return e.cw.w.Chain.ClientSignatureScheme() == scheme && e.mc.ClientSignatureScheme() == scheme
}

func (e *c29RecvEnv) setBatch(bs int) bool {
	viper.Set("server_chain.block.validation.batch_size", bs)
	if err := e.cw.w.Chain.ChainConfig.FromViper(); err != nil {
		panic(err)
	}
	return e.mc.ValidationBatchSize() == bs
}

// genPool: transactions signed by the pool's wallets (keys of the scheme under test), same kinds as c29World.genTxn.
func (e *c29RecvEnv) genPool(bc *world.BlockCtx, k int) *transaction.Transaction {
	cw := e.cw
	w, r := cw.w, cw.r
	from := e.pool[r.Intn(len(e.pool))]
	to := e.pool[r.Intn(len(e.pool))]
	for to.ID == from.ID {
		to = e.pool[r.Intn(len(e.pool))]
	}
	spec := world.TxnSpec{From: from, Nonce: cw.nextNonce(bc, from.ID), Fee: currencyOf(1e9 + r.Intn(1000))}
	switch k % 4 {
	case 1:
		spec.To, spec.Type, spec.Func, spec.Input = world.SCAddresses["faucet"], transaction.TxnTypeSmartContract, "pour", map[string]string{}
	case 2:
		spec.To, spec.Type, spec.Func, spec.Input = world.SCAddresses["storage"], transaction.TxnTypeSmartContract, "no_such_function", map[string]string{"x": fmt.Sprint(r.Intn(100))}
	case 3:
		spec.To, spec.Value, spec.Type, spec.Data = to.ID, currencyOf(1+r.Intn(1e6)), transaction.TxnTypeSend, fmt.Sprintf("payment %d", r.Intn(1e6))
	default:
		spec.To, spec.Value, spec.Type = to.ID, currencyOf(1+r.Intn(1e6)), transaction.TxnTypeSend
	}
	return w.MakeTxn(spec)
}

// fund opens the pool's accounts: one executed block of transfers from the world's (genesis-funded) clients.
func (e *c29RecvEnv) fund() bool {
	cw := e.cw
	w := cw.w
	rich := w.Clients[0]
	cw.gen = func(bc *world.BlockCtx, k int) *transaction.Transaction {
		to := e.pool[(k-1)%len(e.pool)]
		return w.MakeTxn(world.TxnSpec{From: rich, To: to.ID, Value: 1e13, Fee: 1e9, Nonce: cw.nextNonce(bc, rich.ID), Type: transaction.TxnTypeSend})
	}
	b := cw.build(len(e.pool), false)
	cw.gen = nil
	return len(b.Txns) == len(e.pool)
}

func c29ReceivePath(run *mon.Run, cw *c29World, tier, name string) {
	w := cw.w
	miner.SetupMinerChain(w.Chain)
	e := &c29RecvEnv{cw: cw, mc: miner.GetMinerChain()}
	r := rnd("c29recv/" + name)
	sizes := []int{3, 2, 5, 4}
	if idx(name)%2 == 1 {
		sizes = []int{4, 6, 2, 3}
	}
	if tier == "thorough" {
		sizes = append(sizes, 1, 8, 9, 16, 17, 7)
	}
	batches := []int{2, 1000, 1, 3}
	for _, scheme := range c29RecvSchemes {
		if !e.setScheme(scheme) {
			run.Inconclusive("receive path: cannot switch the chain's client signature scheme to " + scheme)
			return
		}
		e.pool = nil
		for i := 0; i < 5; i++ {
			e.pool = append(e.pool, schemeWallet(scheme, fmt.Sprintf("%d:c29recv-%s-%s-%d", mon.Seed(), name, scheme, i)))
		}
		if !e.fund() {
			run.Inconclusive("receive path: funding block for scheme " + scheme + " incomplete")
			return
		}
		cw.gen = e.genPool
		for bi, m := range sizes {
			b := cw.build(m, false)
			if len(b.Txns) == 0 {
				run.Inconclusive(fmt.Sprintf("receive path: scheme %s block %d has no executed transaction", scheme, bi))
				continue
			}
			bs := batches[bi%len(batches)]
			if !e.setBatch(bs) {
				run.Inconclusive("receive path: cannot set validation batch size")
				return
			}
			e.judgeBlock(run, r, b, bi, bs)
			run.Checkpoint()
		}
		cw.gen = nil
	}
}

// judgeBlock: control, then every mutation at every transaction position.
func (e *c29RecvEnv) judgeBlock(run *mon.Run, r *mon.Rand, b *block.Block, bi, bs int) {
	scheme := e.scheme
	wire := blockJSON(b)
	// control: the unedited block, through the same JSON tree round trip the edits go through
	ctl := c29Bytes(c29Tree(wire))
	ok, how, rb := e.receive(ctl)
	if !ok || rb.Hash != b.Hash || len(rb.Txns) != len(b.Txns) {
		run.Inconclusive(fmt.Sprintf("receive path: scheme %s: untampered block %d (%d txns, batch size %d) not accepted: %s", scheme, bi, len(b.Txns), bs, how))
		return
	}
	run.Eval(1)
	run.Count("c29.recv.control_accepted", 1)
	run.Count("c29.recv.control_accepted."+scheme, 1)
	// half of the blocks: genuine transactions are known to this miner as already validated (hash + signature on record), the
	// situation of a miner that had them in its own pool. The head of every validation batch stays unrecorded: a batch that is
	// recorded as a whole crashes the aggregate check (DESIGN 9.8, not this property, unreachable without a caller of
	// AddValidatedTxns)
	cache := "cold"
	if bi%2 == 1 {
		cache = "prevalidated"
		for i, t := range b.Txns {
			if i%bs != 0 {
				e.mc.AddValidatedTxns(t.Hash, t.Signature)
				run.Count("c29.recv.txn_recorded_as_validated", 1)
			}
		}
	}
	n := len(b.Txns)
	for pos := 0; pos < n; pos++ {
		for _, m := range e.mutations(r) {
			tree := c29Tree(wire)
			txns := c29TreeTxns(tree)
			if len(txns) != n {
				run.Inconclusive("receive path: block JSON does not list its transactions under \"transactions\"")
				return
			}
			tx, _ := txns[pos].(map[string]interface{})
			if tx == nil || !m.apply(tx) {
				run.Count("c29.recv.mutation_not_applicable", 1)
				continue
			}
			// the oracle's view: what the edited transaction carries, and what an honest hashing of that gives
			raw := cloneTxnJSON(c29Bytes(tx))
			g := b.Txns[pos]
			if raw.Hash != g.Hash || raw.Signature != g.Signature || raw.OutputHash != g.OutputHash {
				panic("receive path: the edit touched a hash or signature field")
			}
			contentsDiffer := raw.ComputeHash() != raw.Hash
			outputDiffers := raw.ComputeOutputHash() != raw.OutputHash
			js := c29Bytes(tree)
			acc, how, _ := e.receive(js)
			run.Eval(1)
			run.Count("c29.recv.evaluated", 1)
			run.Count("c29.recv.outcome."+strings.SplitN(how, ":", 2)[0], 1)
			run.Distinct(fmt.Sprintf("recv|%s|%s|%s|%s|bs=%d|%s|type=%d|%s", scheme, m.field, m.variant, posClass(pos, n), bs, cache, g.TransactionType, how))
			if strings.HasPrefix(how, "PANIC") {
				violate(run, "C29:receive-path-panics", fmt.Sprintf("scheme %s: %s on a received block with %s of transaction %d/%d changed (%s)", scheme, how, m.field, pos, n, m.variant),
					map[string]interface{}{"seed": mon.Seed(), "scheme": scheme, "field": m.field, "variant": m.variant, "position": pos, "block_json": string(js)})
				continue
			}
			if !contentsDiffer && !outputDiffers {
				// the honest recomputation does not move: the hash never covered this field (fee, type, status: reported by the
				// hash family as C29:field=...), nothing the receive path could compare
				run.Count("c29.recv.not_covered_by_txn_hash."+m.field, 1)
				continue
			}
			run.Count("c29.recv.judged", 1)
			run.Count(fmt.Sprintf("c29.recv.judged.%s.%s", m.field, scheme), 1)
			if acc {
				what := "the transaction hash it carries is not the hash of the contents it carries"
				if !contentsDiffer {
					what = "the output hash it carries is not the hash of the output it carries"
				}
				violate(run, fmt.Sprintf("C29:receive-path-accepts-altered-transaction:%s:%s", m.field, scheme),
					fmt.Sprintf("client scheme %s, block %s (round %d, %d txns, validation batch size %d, genuine txns %s): %s of transaction %d (type %d) changed on the wire (%s), all hashes and signatures left as received; %s, yet decode + Block.Validate + miner.Chain.ValidateTransactions accept the block: the block hash does not commit to the transactions the block carries",
						scheme, b.Hash[:12], b.Round, n, bs, cache, m.field, pos, g.TransactionType, m.variant, what),
					map[string]interface{}{"seed": mon.Seed(), "scheme": scheme, "field": m.field, "variant": m.variant, "position": pos, "batch_size": bs, "cache": cache, "genuine_block_json": string(wire), "tampered_block_json": string(js)})
			} else {
				run.Count("c29.recv.rejected", 1)
			}
			if bi == 0 && pos == 0 {
				run.Sample(map[string]interface{}{"family": "receive-path", "scheme": scheme, "field": m.field, "variant": m.variant, "covered_by_hash": contentsDiffer || outputDiffers, "outcome": how})
			}
		}
	}
}

// c29RecvJudgedFields: content fields every run must have judged for both client signature schemes.
var c29RecvJudgedFields = []string{"value", "to_client_id", "transaction_data", "nonce", "creation_date", "client_id", "transaction_output"}

// c29RecvRequire states the minimum evaluations of the receive-path family (called by finishParent).
func c29RecvRequire(run *mon.Run) {
	for _, s := range c29RecvSchemes {
		run.RequireMin("c29.recv.control_accepted."+s, 6)
		for _, f := range c29RecvJudgedFields {
			run.RequireMin(fmt.Sprintf("c29.recv.judged.%s.%s", f, s), 20)
		}
	}
	run.RequireMin("c29.recv.judged", 800)
	run.RequireMin("c29.recv.rejected", 400) // the path really refuses blocks (a path that refused nothing would be all violations anyway)
	run.Assume("receive-path family: the path judged is the one miner.Chain.VerifyBlock runs before executing a proposed block (Block.Validate, then ValidateTransactions) after the wire decode (datastore.FromJSON = ComputeProperties); magic-block reference, previous-block lookup, cost estimation and re-execution are not credited: a generator that tampers a transaction also declares the state that follows from the tampered contents")
	run.Assume("receive-path family: whether a transaction field is covered by the transaction hash is decided by recomputing the hash over the edited contents with the hashing the signing client and the generator use (Transaction.ComputeHash / ComputeOutputHash on a raw decode), never by the judged path; fields the hash does not cover (fee, type, status) get no verdict in this family (they are the open findings C29:field=Txn.*)")
}
