package crypto

import (
	"context"
	"fmt"
	"sort"
	"strconv"
	"strings"

	"0chain.net/chaincore/node"
	"0chain.net/chaincore/round"
	tbls "0chain.net/chaincore/threshold/bls"
	"0chain.net/core/encryption"
	"0chain.net/miner"
	"github.com/herumi/bls-go-binary/bls"

	"verifh/mon"
	"verifh/world"
)

// vrfItem is one VRF share message as it would arrive from a miner.
type vrfItem struct {
	class string // valid | wrong-message | ... (what the generator meant)
	party int    // index of the claimed sender
	share string
	tc    int // timeout count carried by the message
}

func c33Child(run *mon.Run, tier, name string) {
	ci := idx(name)
	nMiners := 9
	w := world.New(world.Options{Seed: mon.Seed()*100 + 33 + uint64(ci), NumMiners: nMiners})
	defer w.Close()
	miner.SetupMinerChain(w.Chain)
	mc := miner.GetMinerChain()
	// block proposal at threshold is not part of this property: TryProposeBlock returns at once when the chain is ahead
	mc.SetCurrentRound(1 << 40)
	ctx := context.Background()
	r := rnd("c33/" + name)
	maxN := 8
	if tier == "thorough" {
		maxN = 9
	}
	nChildren := 4
	if tier == "thorough" {
		nChildren = 8
	}
	scen := 0
	for n := 1; n <= maxN; n++ {
		for t := 1; t <= n; t++ {
			scen++
			if scen%nChildren != ci%nChildren {
				continue
			}
			c33Scenario(run, ctx, w, mc, r.Fork(fmt.Sprintf("t%d-n%d", t, n)), t, n, int64(scen)*1000, tier)
			run.Checkpoint()
		}
	}
	// the restart episodes of this child must have happened: rounds restarted with a partial set of verified shares, shares counted
	// and seeds compared afterwards
	for name, min := range map[string]int64{"c33.restart_with_partial_shares": 20, "c33.restart_share_counted_after_restart": 40, "c33.restart_seed_agreement_evaluated": 20} {
		if got := run.Counter(name); got < min {
			run.Inconclusive(fmt.Sprintf("child %s: counter %s is %d, at least %d expected", name2(ci), name, got, min))
		}
	}
	run.Assume("a round restart is miner.Round.Restart followed by IncrementTimeoutCount(previous round's seed, miners of the round), the two calls miner.Chain.restartRound makes (the fetch of a notarized block in front of them and RedoVrfShare behind them are network steps and not driven); where the configured timeout_cap keeps the count, or for a block of a higher count, SetTimeoutCount raises it right after the restart")
}

func name2(ci int) string { return fmt.Sprintf("vrf%d", ci) }

func c33Scenario(run *mon.Run, ctx context.Context, w *world.World, mc *miner.Chain, r *mon.Rand, t, n int, base int64, tier string) {
	tn := fmt.Sprintf("t=%d|n=%d", t, n)
	ids := make([]string, n)
	nodes := make([]*node.Node, n)
	for i := 0; i < n; i++ {
		ids[i] = w.Miners[i].ID
		nodes[i] = w.MB.Miners.GetNode(ids[i])
	}
	s := newDKGSet(t, n, ids, nil)
	other := newDKGSet(t, n, ids, nil) // same parties, another key generation: its shares must never count
	self := s.dkgs[0]
	self.StartingRound = base
	if err := mc.SetDKG(self, base); err != nil {
		panic(err)
	}
	prn, rn := base+10, base+11
	prevSeed := int64(r.U64()>>1) | 1
	pr := mc.AddRound(mc.CreateRound(round.NewRound(prn))).(*miner.Round)
	if !mc.SetRandomSeed(pr.Round, prevSeed) {
		run.Inconclusive("cannot set the previous round's seed")
		return
	}
	if got := mc.GetDKG(rn); got != self {
		run.Inconclusive("GetDKG does not return the installed DKG")
		return
	}
	roundTC := r.Intn(3)
	newRound := func() *miner.Round {
		mr := mc.CreateRound(round.NewRound(rn)) // deliberately not registered: every delivery gets a fresh round object for the same number
		for mr.GetTimeoutCount() < roundTC {
			mr.SetTimeoutCount(mr.GetTimeoutCount() + 1)
		}
		return mr
	}
	probe := newRound()
	msg, err := mc.GetBlsMessageForRound(probe.Round)
	if err != nil {
		run.Inconclusive("GetBlsMessageForRound: " + err.Error())
		return
	}
	run.Count("c33.message_computed", 1)
	// the message must separate rounds, timeout counts and previous seeds that differ
	{
		o := mc.CreateRound(round.NewRound(rn))
		for o.GetTimeoutCount() < roundTC+1 {
			o.SetTimeoutCount(o.GetTimeoutCount() + 1)
		}
		m2, _ := mc.GetBlsMessageForRound(o.Round)
		if m2 == msg {
			violate(run, "C33:message-ignores-timeout-count", fmt.Sprintf("round %d: VRF message %q is the same for timeout counts %d and %d", rn, msg, roundTC, roundTC+1), nil)
		}
	}
	mkValid := func(j int, m string) string { return s.dkgs[j].Sign(m).GetHexString() }
	// reference verdict for one share message: herumi verification under the reference public key share of the claimed party
	refOK := func(it vrfItem) bool {
		var sg bls.Sign
		if sg.SetHexString(it.share) != nil {
			return false
		}
		if it.party < 0 || it.party >= n {
			return false
		}
		return sg.Verify(s.refPK[it.party], msg)
	}
	invalidClasses := []string{"wrong-message", "other-round-message", "other-timeout-message", "wrong-signer", "other-dkg", "shifted", "garbage", "empty", "zero"}
	mkInvalid := func(class string, j int) vrfItem {
		it := vrfItem{class: class, party: j, tc: roundTC}
		switch class {
		case "wrong-message":
			it.share = mkValid(j, msg+"x")
		case "other-round-message":
			it.share = mkValid(j, fmt.Sprintf("%v%v%v", rn+1, roundTC, strconv.FormatInt(prevSeed, 16)))
		case "other-timeout-message":
			it.share = mkValid(j, fmt.Sprintf("%v%v%v", rn, roundTC+1, strconv.FormatInt(prevSeed, 16)))
		case "wrong-signer":
			it.share = mkValid((j+1)%n, msg) // a valid share of another party under j's name
		case "other-dkg":
			it.share = other.dkgs[j].Sign(msg).GetHexString()
		case "shifted":
			it.share = addSignHex(mkValid(j, msg), randG1(r))
		case "garbage":
			it.share = "zz" + encryption.Hash("garbage")
		case "empty":
			it.share = ""
		case "zero":
			it.share = "0"
		}
		return it
	}
	toVRFS := func(it vrfItem) *round.VRFShare {
		v := &round.VRFShare{Round: rn, Share: it.share, RoundTimeoutCount: it.tc}
		v.SetParty(nodes[it.party])
		return v
	}

	// ---- (a) verifyVRFShare alone, every party x every class
	for j := 0; j < n; j++ {
		items := []vrfItem{{class: "valid", party: j, share: mkValid(j, msg), tc: roundTC}}
		for _, c := range invalidClasses {
			items = append(items, mkInvalid(c, j))
		}
		for _, it := range items {
			want := refOK(it)
			if it.class == "wrong-signer" && (n == 1 || t == 1) {
				// with t=1 every party holds the same key share; with n=1 the "other" party is the same one
				run.Count("c33.class_degenerate", 1)
			}
			var got bool
			p := guard(func() { got = miner.VerifCryptoVerifyVRFShare(probe, toVRFS(it), msg, self) })
			run.Eval(1)
			if want {
				run.Count("c33.valid_share_evaluated", 1)
			} else {
				run.Count("c33.invalid_share_evaluated", 1)
			}
			run.Distinct(fmt.Sprintf("verify|%s|%s|want=%v|got=%v|%s", tn, it.class, want, got, p))
			rep := map[string]interface{}{"seed": mon.Seed(), "t": t, "n": n, "class": it.class, "party": j, "share": it.share, "message": msg}
			switch {
			case p != "":
				violate(run, "C33:verify-share-panics-"+it.class, fmt.Sprintf("t=%d n=%d: verifyVRFShare panicked on a %s share: %s", t, n, it.class, p), rep)
			case got && !want:
				violate(run, "C33:verify-accepts-invalid-share-"+it.class, fmt.Sprintf("t=%d n=%d: verifyVRFShare accepted a %s share of party %d for message %q", t, n, it.class, j, msg), rep)
			case !got && want:
				violate(run, "C33:verify-rejects-valid-share", fmt.Sprintf("t=%d n=%d: verifyVRFShare rejected the valid share of party %d (class %s)", t, n, j, it.class), rep)
			}
		}
	}

	// ---- (b) deliveries: sequences of share messages into a fresh round object; all must end with the same seed
	type outcome struct {
		seed   int64
		vrfOut string
		label  string
	}
	var seeds []outcome
	nDeliveries := 10
	if tier == "thorough" {
		nDeliveries = 80
	}
	allSubs := subsets(n, t)
	for d := 0; d < nDeliveries; d++ {
		rr := r.Fork(fmt.Sprintf("delivery%d", d))
		full := d%2 == 0 // real miner.Chain.AddVRFShare, or its parts one by one
		// the valid senders of this delivery: a t-subset (walks through all of them first), sometimes more than t
		sub := append([]int{}, allSubs[d%len(allSubs)]...)
		if d >= len(allSubs) && rr.Chance(0.5) {
			for j := 0; j < n; j++ {
				if !contains(sub, j) && rr.Chance(0.5) {
					sub = append(sub, j)
				}
			}
		}
		rr.Shuffle(len(sub), func(i, j int) { sub[i], sub[j] = sub[j], sub[i] })
		var seq []vrfItem
		for _, j := range sub {
			// hostile traffic in front of / between the valid shares
			for k := rr.Intn(3); k > 0; k-- {
				seq = append(seq, mkInvalid(invalidClasses[rr.Intn(len(invalidClasses))], rr.Intn(n)))
			}
			if rr.Chance(0.2) {
				it := vrfItem{class: "valid-but-other-timeout-count", party: j, share: mkValid(j, msg), tc: roundTC + 1 + rr.Intn(2)}
				seq = append(seq, it)
			}
			seq = append(seq, vrfItem{class: "valid", party: j, share: mkValid(j, msg), tc: roundTC})
			if rr.Chance(0.3) {
				seq = append(seq, vrfItem{class: "valid", party: j, share: mkValid(j, msg), tc: roundTC}) // duplicate
			}
		}
		mr := newRound()
		counted := map[int]bool{} // reference: parties whose valid, matching-timeout share arrived while below threshold
		seedSet := false
		var labels []string
		for si, it := range seq {
			labels = append(labels, fmt.Sprintf("%s@%d", it.class, it.party))
			v := toVRFS(it)
			valid := refOK(it) && it.tc == roundTC
			before := len(mr.GetVRFShares())
			hadSeed := mr.HasRandomSeed()
			var p string
			if full {
				p = guard(func() { mc.AddVRFShare(ctx, mr, v) })
			} else {
				p = guard(func() {
					if v.GetRoundTimeoutCount() != mr.GetTimeoutCount() {
						return
					}
					if !miner.VerifCryptoVerifyVRFShare(mr, v, msg, self) {
						return
					}
					mr.AddVRFShare(v, t)
					mc.ThresholdNumBLSSigReceived(ctx, mr, t)
				})
			}
			run.Eval(1)
			run.Count("c33.delivery_step", 1)
			rep := map[string]interface{}{"seed": mon.Seed(), "t": t, "n": n, "delivery": d, "step": si, "path": pathName(full), "sequence": labels, "message": msg}
			if p != "" {
				violate(run, "C33:share-processing-panics-"+it.class, fmt.Sprintf("t=%d n=%d: processing a %s share panicked: %s", t, n, it.class, p), rep)
				break
			}
			shares := mr.GetVRFShares()
			after := len(shares)
			// invalid shares are never counted
			if !valid {
				run.Count("c33.invalid_share_evaluated", 1)
				if after != before {
					violate(run, "C33:invalid-share-counted-"+it.class, fmt.Sprintf("t=%d n=%d (%s): a %s share from party %d was added to the round's VRF shares", t, n, pathName(full), it.class, it.party), rep)
				}
			} else if before < t && !counted[it.party] && !hadSeed {
				counted[it.party] = true
				if after != before+1 {
					violate(run, "C33:valid-share-not-counted", fmt.Sprintf("t=%d n=%d (%s): the valid share of party %d was not counted (%d -> %d shares)", t, n, pathName(full), it.party, before, after), rep)
				}
			}
			// threshold cap and one share per party
			if after > t {
				violate(run, "C33:more-than-threshold-shares-held", fmt.Sprintf("t=%d n=%d: the round holds %d VRF shares", t, n, after), rep)
			}
			for key, sh := range shares {
				if sh.GetParty().GetKey() != key {
					violate(run, "C33:share-stored-under-wrong-party", fmt.Sprintf("t=%d n=%d", t, n), rep)
				}
			}
			// below threshold there is never a seed
			if len(counted) < t {
				run.Count("c33.below_threshold_evaluated", 1)
				if mr.HasRandomSeed() {
					violate(run, "C33:seed-below-threshold", fmt.Sprintf("t=%d n=%d (%s): the round has random seed %d after %d counted shares", t, n, pathName(full), mr.GetRandomSeed(), len(counted)), rep)
				}
			} else if !seedSet {
				seedSet = true
				if !mr.HasRandomSeed() {
					violate(run, "C33:no-seed-at-threshold", fmt.Sprintf("t=%d n=%d (%s): %d verified shares are in, no random seed was derived", t, n, pathName(full), len(counted)), rep)
				}
			}
		}
		if mr.HasRandomSeed() {
			var who []string
			for j := range counted {
				who = append(who, fmt.Sprint(j))
			}
			sort.Strings(who)
			seeds = append(seeds, outcome{mr.GetRandomSeed(), mr.GetVRFOutput(), pathName(full) + ":parties=" + strings.Join(who, ",")})
			run.Distinct(fmt.Sprintf("delivery|%s|%s|parties=%s|len=%d", tn, pathName(full), strings.Join(who, ","), len(seq)))
			// the counted shares recombine to a signature that is valid under the group key, and the output is its hash
			recSig, recFrom := miner.VerifCryptoGetVRFShareInfo(mr)
			g, err := self.CalBlsGpSign(recSig, recFrom)
			if err != nil || !g.Verify(s.refGPK, msg) {
				violate(run, "C33:seed-not-from-valid-group-signature", fmt.Sprintf("t=%d n=%d: the shares held by the round do not recombine to a valid group signature (err=%v)", t, n, err), nil)
			}
		}
	}
	for i := 1; i < len(seeds); i++ {
		run.Eval(1)
		run.Count("c33.seed_agreement_evaluated", 1)
		if seeds[i].seed != seeds[0].seed || seeds[i].vrfOut != seeds[0].vrfOut {
			violate(run, "C33:seeds-differ-between-subsets", fmt.Sprintf("t=%d n=%d round %d timeout %d: %s gives seed %d, %s gives seed %d", t, n, rn, roundTC, seeds[0].label, seeds[0].seed, seeds[i].label, seeds[i].seed),
				map[string]interface{}{"seed": mon.Seed(), "t": t, "n": n, "a": seeds[0].label, "b": seeds[i].label})
		}
	}
	if len(seeds) > 0 {
		run.Sample(map[string]interface{}{"t": t, "n": n, "round": rn, "timeout_count": roundTC, "message": msg, "deliveries_with_seed": len(seeds), "seed": seeds[0].seed})
	}

	// ---- (c) Round.AddVRFShare cap on its own: n valid shares offered, threshold t
	{
		mr := newRound()
		added := 0
		for j := 0; j < n; j++ {
			v := toVRFS(vrfItem{party: j, share: mkValid(j, msg), tc: roundTC})
			ok := mr.AddVRFShare(v, t)
			again := mr.AddVRFShare(v, t)
			run.Eval(1)
			run.Count("c33.round_add_evaluated", 1)
			want := added < t
			if ok != want || again {
				violate(run, "C33:round-AddVRFShare-wrong-verdict", fmt.Sprintf("t=%d n=%d: share #%d returned %v (want %v), repeated add returned %v", t, n, j, ok, want, again), nil)
			}
			if ok {
				added++
			}
			if len(mr.GetVRFShares()) > t {
				violate(run, "C33:more-than-threshold-shares-held", fmt.Sprintf("t=%d n=%d: Round.AddVRFShare let %d shares in", t, n, len(mr.GetVRFShares())), nil)
			}
		}
	}
	_ = tbls.ComputeIDdkg

	// ---- (d) shares that arrive before they can be checked
	c33Parked(run, ctx, w, mc, r.Fork("parked"), s, other, t, n, base, tier)

	// ---- (e) rounds that time out and are restarted while shares are being collected
	c33Restart(run, ctx, w, mc, r.Fork("restart"), s, other, t, n, base, tier)
}

// ---------------------------------------------------------------------------------------------------
// (d) parked shares. A share that cannot be checked when it arrives is kept in the round's share cache by the real
// Chain.AddVRFShare: the previous round is unknown / has no random seed yet ("prev-round-unknown", "prev-seed-unknown"),
// or the share carries a higher timeout count than the round has at that moment ("timeout-count-ahead"; the round's
// count is raised later, as it happens when a block of that timeout count arrives). Several observers ("nodes") get the
// same pool of valid and invalid share messages in different orders and with different early/late splits.
//
// Oracle, from the share messages and the round object only:
//   - every share the round holds verifies (herumi, reference public key share of its sender, the message of this
//     round / timeout count / previous seed) and carries the round's timeout count; never more than t are held;
//   - nothing is held and there is no seed while no share can be checked;
//   - a seed exists only if valid shares of >= t parties have been delivered; it equals the seed defined by the group
//     signature recovered (herumi Recover) from reference shares, and all observers of an episode have the same seed.

type c33PMsg struct {
	class string
	party int // index into the world's miners; >= n means "not a party of this DKG"
	share string
	tc    int
}

type c33PNode struct {
	name        string
	early, late []c33PMsg
	mr          *miner.Round
	earlyKeys   map[string]bool // party|share of what was delivered early
	validSeen   map[int]bool    // parties whose valid share has been delivered (either phase)
	failed      bool
}

func c33Parked(run *mon.Run, ctx context.Context, w *world.World, mc *miner.Chain, r *mon.Rand, s, other *dkgSet, t, n int, base int64, tier string) {
	tn := fmt.Sprintf("t=%d|n=%d", t, n)
	self := s.dkgs[0]
	all := len(w.Miners)
	allNodes := make([]*node.Node, all)
	idIndex := map[string]int{}
	for i := 0; i < all; i++ {
		allNodes[i] = w.MB.Miners.GetNode(w.Miners[i].ID)
		idIndex[w.Miners[i].ID] = i
	}
	mechs := []string{"prev-seed-unknown", "prev-round-unknown", "timeout-count-ahead"}
	nEp := 3
	if tier == "thorough" {
		nEp = 12
	}
	for ep := 0; ep < nEp; ep++ {
		mech := mechs[ep%len(mechs)]
		rr := r.Fork(fmt.Sprintf("parked%d", ep))
		prn := base + 100 + int64(ep)*2
		rn := prn + 1
		prevSeed := int64(rr.U64()>>1) | 1
		roundTC := rr.Intn(3)
		if mech == "timeout-count-ahead" {
			roundTC = 1 + rr.Intn(2)
		}
		msgOf := func(round int64, tc int) string {
			return fmt.Sprintf("%v%v%v", round, tc, strconv.FormatInt(prevSeed, 16))
		}
		msg := msgOf(rn, roundTC)

		// reference verdict of one share message
		refOK := func(party int, share string, tc int) bool {
			if party < 0 || party >= n || tc != roundTC {
				return false
			}
			var sg bls.Sign
			if sg.SetHexString(share) != nil {
				return false
			}
			return sg.Verify(s.refPK[party], msg)
		}
		// reference seed: group signature recovered with the library from two t-subsets of reference shares
		var wantSeed int64
		var wantRBO string
		{
			var first string
			okRef := true
			for k, sub := range [][]int{subsets(n, t)[0], subsets(n, t)[len(subsets(n, t))-1]} {
				var ids []bls.ID
				var sigs []bls.Sign
				for _, j := range sub {
					ids = append(ids, s.dkgs[j].ID)
					sigs = append(sigs, *s.dkgs[j].Sign(msg))
				}
				var g bls.Sign
				if err := g.Recover(sigs, ids); err != nil || !g.Verify(s.refGPK, msg) {
					okRef = false
					break
				}
				if k == 0 {
					first = g.GetHexString()
				} else if g.GetHexString() != first {
					okRef = false
				}
			}
			if !okRef {
				run.Inconclusive(fmt.Sprintf("%s: the reference group signature cannot be recovered / does not verify", tn))
				return
			}
			wantRBO = encryption.Hash(first)
			u, err := strconv.ParseUint(wantRBO[:16], 16, 64)
			if err != nil {
				panic(err)
			}
			wantSeed = int64(u)
		}

		// ---- the pool of share messages of this episode
		var valid []c33PMsg
		for j := 0; j < n; j++ {
			valid = append(valid, c33PMsg{"valid", j, s.dkgs[j].Sign(msg).GetHexString(), roundTC})
		}
		wellFormed := []string{"wrong-message", "other-round-message", "other-timeout-message", "wrong-signer", "other-dkg", "shifted", "non-member", "later-timeout-honest", "valid-but-other-timeout-count"}
		malformed := []string{"garbage", "empty", "zero"}
		mkBad := func(class string, j int) (c33PMsg, bool) {
			m := c33PMsg{class: class, party: j, tc: roundTC}
			switch class {
			case "wrong-message":
				m.share = s.dkgs[j].Sign(msg + "x").GetHexString()
			case "other-round-message":
				m.share = s.dkgs[j].Sign(msgOf(rn+1, roundTC)).GetHexString()
			case "other-timeout-message":
				m.share = s.dkgs[j].Sign(msgOf(rn, roundTC+1)).GetHexString()
			case "later-timeout-honest": // what an honest miner sends for the next timeout of this round
				m.share, m.tc = s.dkgs[j].Sign(msgOf(rn, roundTC+1)).GetHexString(), roundTC+1
			case "valid-but-other-timeout-count":
				m.share, m.tc = s.dkgs[j].Sign(msg).GetHexString(), roundTC+1+rr.Intn(2)
			case "wrong-signer":
				m.share = s.dkgs[(j+1)%n].Sign(msg).GetHexString()
			case "other-dkg":
				m.share = other.dkgs[j].Sign(msg).GetHexString()
			case "shifted":
				m.share = addSignHex(s.dkgs[j].Sign(msg).GetHexString(), randG1(rr))
			case "non-member":
				if n >= all {
					return m, false
				}
				m.party = n + rr.Intn(all-n)
				m.share = other.dkgs[j].Sign(msg).GetHexString()
			case "garbage":
				m.share = "zz" + encryption.Hash("garbage")
			case "empty":
				m.share = ""
			case "zero":
				m.share = "0"
			}
			return m, true
		}
		var bad []c33PMsg
		nBad := 2 + rr.Intn(4)
		for k := 0; k < nBad; k++ {
			cl := wellFormed[rr.Intn(len(wellFormed))]
			if rr.Chance(0.2) {
				cl = malformed[rr.Intn(len(malformed))]
			}
			if m, ok := mkBad(cl, rr.Intn(n)); ok && !refOK(m.party, m.share, m.tc) {
				bad = append(bad, m) // (with t=1 every party holds the same key share: a "wrong signer" share is valid there)
			}
		}
		if len(bad) == 0 {
			m, _ := mkBad("wrong-message", rr.Intn(n))
			bad = append(bad, m)
		}
		classOf := map[string]string{}
		key := func(party int, share string, tc int) string { return fmt.Sprintf("%d|%d|%s", party, tc, share) }
		for _, m := range append(append([]c33PMsg{}, valid...), bad...) {
			if _, ok := classOf[key(m.party, m.share, m.tc)]; !ok {
				classOf[key(m.party, m.share, m.tc)] = m.class
			}
		}
		shuffled := func(in []c33PMsg) []c33PMsg {
			out := append([]c33PMsg{}, in...)
			rr.Shuffle(len(out), func(i, j int) { out[i], out[j] = out[j], out[i] })
			return out
		}

		// ---- the observers
		var nodesP []*c33PNode
		{
			// bad shares (of distinct parties) parked, then the valid shares of a t-subset that avoids those parties if possible
			nd := &c33PNode{name: "bad-parked"}
			badParties := map[int]bool{}
			for _, m := range shuffled(bad) {
				if !badParties[m.party] && len(nd.early) < 1+rr.Intn(3) {
					badParties[m.party] = true
					nd.early = append(nd.early, m)
				}
			}
			var pref, rest []c33PMsg
			for _, m := range shuffled(valid) {
				if badParties[m.party] {
					rest = append(rest, m)
				} else {
					pref = append(pref, m)
				}
			}
			nd.late = append(pref, rest...)
			nodesP = append(nodesP, nd)
		}
		{
			// one permutation of everything, cut at a seeded point
			nd := &c33PNode{name: "mixed-parked"}
			allM := shuffled(append(append([]c33PMsg{}, valid...), bad...))
			cut := 1 + rr.Intn(len(allM))
			nd.early, nd.late = allM[:cut], allM[cut:]
			nodesP = append(nodesP, nd)
		}
		{
			// threshold-many (or more) valid shares parked next to a bad one; a valid share arrives first afterwards
			nd := &c33PNode{name: "valid-parked"}
			v := shuffled(valid)
			k := t + rr.Intn(n-t+1)
			nd.early = shuffled(append(append([]c33PMsg{}, v[:k]...), bad[rr.Intn(len(bad))]))
			nd.late = append(nd.late, v[rr.Intn(len(v))])
			nd.late = append(nd.late, shuffled(append(append([]c33PMsg{}, v[k:]...), bad...))...)
			nodesP = append(nodesP, nd)
		}
		{
			// same, but the first message after the release is a bad one
			nd := &c33PNode{name: "valid-parked-bad-first"}
			v := shuffled(valid)
			nd.early = append([]c33PMsg{}, v[:t]...)
			nd.late = append(nd.late, bad[rr.Intn(len(bad))])
			nd.late = append(nd.late, shuffled(append(append([]c33PMsg{}, v[t:]...), bad...))...)
			nodesP = append(nodesP, nd)
		}
		{
			nd := &c33PNode{name: "direct"}
			nd.late = shuffled(append(append([]c33PMsg{}, valid...), bad...))
			nodesP = append(nodesP, nd)
		}
		// every observer finally sees every valid share once more (shares are re-sent on soft timeouts)
		for _, nd := range nodesP {
			nd.late = append(nd.late, shuffled(valid)...)
			nd.earlyKeys, nd.validSeen = map[string]bool{}, map[int]bool{}
		}

		// ---- rounds
		var pr *miner.Round
		if mech != "prev-round-unknown" {
			pr = mc.AddRound(mc.CreateRound(round.NewRound(prn))).(*miner.Round)
		}
		if mech == "timeout-count-ahead" {
			if !mc.SetRandomSeed(pr.Round, prevSeed) {
				run.Inconclusive("cannot set the previous round's seed")
				return
			}
		}
		for _, nd := range nodesP {
			nd.mr = mc.CreateRound(round.NewRound(rn))
			startTC := roundTC
			if mech == "timeout-count-ahead" && len(nd.early) > 0 {
				startTC = rr.Intn(roundTC) // behind the shares' timeout count
			}
			for nd.mr.GetTimeoutCount() < startTC {
				nd.mr.SetTimeoutCount(nd.mr.GetTimeoutCount() + 1)
			}
		}
		run.Count("c33.parked_episode", 1)
		run.Count("c33.parked_mechanism."+mech, 1)

		toVRFS := func(m c33PMsg) *round.VRFShare {
			v := &round.VRFShare{Round: rn, Share: m.share, RoundTimeoutCount: m.tc}
			v.SetParty(allNodes[m.party])
			return v
		}
		// deliver one message to one observer through the real Chain.AddVRFShare and look at the round
		step := func(nd *c33PNode, m c33PMsg, phase string, si int) {
			if nd.failed {
				return
			}
			isValid := refOK(m.party, m.share, m.tc)
			if isValid {
				nd.validSeen[m.party] = true
			}
			if phase == "early" {
				nd.earlyKeys[key(m.party, m.share, m.tc)] = true
				run.Count("c33.parked_delivered_early."+m.class, 1)
			}
			heldBefore := map[string]bool{}
			for k := range nd.mr.GetVRFShares() {
				heldBefore[k] = true
			}
			p := guard(func() { mc.AddVRFShare(ctx, nd.mr, toVRFS(m)) })
			run.Eval(1)
			run.Count("c33.parked_delivery_step", 1)
			if !isValid {
				run.Count("c33.invalid_share_evaluated", 1)
			}
			rep := map[string]interface{}{"seed": mon.Seed(), "t": t, "n": n, "mechanism": mech, "observer": nd.name, "phase": phase, "step": si,
				"round": rn, "timeout_count": roundTC, "message": msg, "early": c33Labels(nd.early), "late": c33Labels(nd.late)}
			bad := func(sig, detail string) {
				violate(run, sig, fmt.Sprintf("t=%d n=%d, %s, observer %s, %s step %d (%s from party %d): %s", t, n, mech, nd.name, phase, si, m.class, m.party, detail), rep)
				nd.failed = true
				run.Checkpoint()
			}
			if p != "" {
				bad("C33:share-processing-panics-"+m.class, "Chain.AddVRFShare panicked: "+p)
				return
			}
			held := nd.mr.GetVRFShares()
			if len(held) > t {
				bad("C33:more-than-threshold-shares-held", fmt.Sprintf("the round holds %d VRF shares", len(held)))
				return
			}
			for k, sh := range held {
				pi, known := idIndex[sh.GetParty().GetKey()]
				if sh.GetParty().GetKey() != k || !known {
					bad("C33:share-stored-under-wrong-party", "key "+k)
					return
				}
				cl := classOf[key(pi, sh.Share, sh.GetRoundTimeoutCount())]
				if cl == "" {
					cl = "unknown"
				}
				wasParked := nd.earlyKeys[key(pi, sh.Share, sh.GetRoundTimeoutCount())]
				if !heldBefore[k] {
					if wasParked {
						run.Count("c33.parked_share_counted_from_cache", 1)
					} else {
						run.Count("c33.parked_scenario_share_counted_directly", 1)
					}
				}
				if phase == "early" {
					bad("C33:share-counted-before-it-can-be-verified", fmt.Sprintf("a %s share of party %d is among the round's VRF shares although no share of this round and timeout count can be checked yet", cl, pi))
					return
				}
				if !refOK(pi, sh.Share, sh.GetRoundTimeoutCount()) {
					sig := "C33:invalid-share-counted-" + cl
					how := "arrived after the message was known"
					if wasParked {
						sig = "C33:parked-invalid-share-counted-" + cl
						how = "was parked in the round's share cache and released from it"
					}
					bad(sig, fmt.Sprintf("the round's VRF shares contain a %s share of party %d (timeout count %d, round's %d) that fails verification; it %s", cl, pi, sh.GetRoundTimeoutCount(), roundTC, how))
					return
				}
			}
			if nd.mr.HasRandomSeed() {
				if phase == "early" {
					bad("C33:seed-below-threshold", fmt.Sprintf("the round has random seed %d before any share could be checked", nd.mr.GetRandomSeed()))
					return
				}
				if len(nd.validSeen) < t || len(held) < t {
					bad("C33:seed-below-threshold", fmt.Sprintf("the round has random seed %d; valid shares of %d parties were delivered, %d are held", nd.mr.GetRandomSeed(), len(nd.validSeen), len(held)))
					return
				}
				if nd.mr.GetRandomSeed() != wantSeed || nd.mr.GetVRFOutput() != wantRBO {
					bad("C33:seed-not-from-valid-group-signature", fmt.Sprintf("seed %d (vrf output %.16s), the group signature recovered from valid shares defines %d (%.16s)", nd.mr.GetRandomSeed(), nd.mr.GetVRFOutput(), wantSeed, wantRBO))
					return
				}
			} else if len(nd.validSeen) < t {
				run.Count("c33.below_threshold_evaluated", 1)
			}
		}

		// ---- phase 1: nothing can be checked yet
		for _, nd := range nodesP {
			for si, m := range nd.early {
				step(nd, m, "early", si)
			}
		}
		// ---- release
		switch mech {
		case "prev-round-unknown":
			pr = mc.AddRound(mc.CreateRound(round.NewRound(prn))).(*miner.Round)
			fallthrough
		case "prev-seed-unknown":
			if !mc.SetRandomSeed(pr.Round, prevSeed) {
				run.Inconclusive("cannot set the previous round's seed")
				return
			}
		case "timeout-count-ahead":
			for _, nd := range nodesP {
				for nd.mr.GetTimeoutCount() < roundTC {
					nd.mr.SetTimeoutCount(nd.mr.GetTimeoutCount() + 1)
				}
			}
		}
		if got, err := mc.GetBlsMessageForRound(nodesP[0].mr.Round); err != nil || got != msg {
			run.Inconclusive(fmt.Sprintf("%s %s: VRF message after the release is %q (err %v), the workload assumed %q", tn, mech, got, err, msg))
			return
		}
		// ---- phase 2
		for _, nd := range nodesP {
			for si, m := range nd.late {
				step(nd, m, "late", si)
			}
		}
		// ---- end of the episode: agreement between the observers
		var withSeed []*c33PNode
		for _, nd := range nodesP {
			hasSeed := nd.mr.HasRandomSeed()
			run.Distinct(fmt.Sprintf("parked|%s|%s|%s|early=%d|tc=%d|seed=%v|failed=%v", tn, mech, nd.name, len(nd.early), roundTC, hasSeed, nd.failed))
			if nd.failed {
				continue
			}
			held := len(nd.mr.GetVRFShares())
			switch {
			case hasSeed:
				withSeed = append(withSeed, nd)
			case held >= t:
				// threshold-many verified shares came out of the cache while the message that released them did not
				// verify; later shares are ignored ("already at threshold") and nobody derives the seed. No wrong seed
				// and no unverified share: not a C33 verdict, recorded as an observation.
				run.Count("c33.observed_threshold_shares_released_from_cache_without_seed", 1)
			default:
				violate(run, "C33:valid-share-not-counted", fmt.Sprintf("t=%d n=%d, %s, observer %s: every party's valid share was delivered after the release, the round holds %d shares and has no seed", t, n, mech, nd.name, held),
					map[string]interface{}{"seed": mon.Seed(), "t": t, "n": n, "mechanism": mech, "observer": nd.name, "early": c33Labels(nd.early), "late": c33Labels(nd.late)})
			}
		}
		for i := 1; i < len(withSeed); i++ {
			run.Eval(1)
			run.Count("c33.seed_agreement_evaluated", 1)
			run.Count("c33.parked_seed_agreement_evaluated", 1)
			a, b := withSeed[0], withSeed[i]
			if a.mr.GetRandomSeed() != b.mr.GetRandomSeed() || a.mr.GetVRFOutput() != b.mr.GetVRFOutput() {
				violate(run, "C33:seeds-differ-between-arrival-orders", fmt.Sprintf("t=%d n=%d round %d timeout %d, %s: observer %s derived seed %d, observer %s derived %d from the same share messages", t, n, rn, roundTC, mech, a.name, a.mr.GetRandomSeed(), b.name, b.mr.GetRandomSeed()),
					map[string]interface{}{"seed": mon.Seed(), "t": t, "n": n, "mechanism": mech, "a": a.name, "b": b.name, "a_early": c33Labels(a.early), "a_late": c33Labels(a.late), "b_early": c33Labels(b.early), "b_late": c33Labels(b.late)})
			}
		}
		_ = self
	}
}

// ---------------------------------------------------------------------------------------------------
// (e) round restarts. A miner that cannot make progress restarts the round: miner.Round.Restart (round.Round.Restart underneath)
// and then IncrementTimeoutCount, as miner.Chain.restartRound does; a block of a higher timeout count raises the count with
// SetTimeoutCount. The VRF message contains the timeout count, so what was collected before counts for another message.
// Observers of an episode collect fewer than t verified shares at a timeout count, restart (once or twice), and then get the
// shares of the final timeout count in various orders - with the parties they had already heard from first, or last, with
// re-sent shares of the earlier count, with bad shares between; next to them observers that never restarted.
//
// Oracle (the one of (b) and (d)), after every delivery and after every restart: every share the round holds verifies
// (herumi, reference public key share of its sender) against the message of the round's CURRENT timeout count and carries
// that count; never more than t are held; a seed exists only when valid shares of >= t parties for the current count have been
// delivered, it equals the seed defined by the group signature recovered from reference shares, and all observers of an
// episode end with the same seed.

type c33RNode struct {
	name     string
	startTC  int
	stages   [][]c33PMsg // stage i is delivered at timeout count startTC+i (or the capped count) and followed by a restart
	raise    []string    // per stage: how the timeout count moves on after Restart: "increment" | "set" | "increment-then-set"
	late     []c33PMsg
	mr       *miner.Round
	preKeys  map[string]bool // party|tc|share of what was delivered before a restart
	seenAt   map[int]bool    // parties whose valid share for the current count has been delivered since the last restart
	restarts int
	failed   bool
	stale    bool // a share of an earlier timeout count was found among the round's shares after a restart (reported once; the observer goes on)
}

func c33Restart(run *mon.Run, ctx context.Context, w *world.World, mc *miner.Chain, r *mon.Rand, s, other *dkgSet, t, n int, base int64, tier string) {
	tn := fmt.Sprintf("t=%d|n=%d", t, n)
	all := len(w.Miners)
	allNodes := make([]*node.Node, all)
	idIndex := map[string]int{}
	for i := 0; i < all; i++ {
		allNodes[i] = w.MB.Miners.GetNode(w.Miners[i].ID)
		idIndex[w.Miners[i].ID] = i
	}
	nEp := 3
	if tier == "thorough" {
		nEp = 10
	}
	for ep := 0; ep < nEp; ep++ {
		rr := r.Fork(fmt.Sprintf("restart%d", ep))
		prn := base + 200 + int64(ep)*2
		rn := prn + 1
		prevSeed := int64(rr.U64()>>1) | 1
		finalTC := 1 + ep%2 // the timeout count at which the seed is finally derived
		msgAt := func(tc int) string { return fmt.Sprintf("%v%v%v", rn, tc, strconv.FormatInt(prevSeed, 16)) }
		msg := msgAt(finalTC)
		// reference verdict of one share message for a round at timeout count cur
		refOKAt := func(party int, share string, tc, cur int) bool {
			if party < 0 || party >= n || tc != cur {
				return false
			}
			var sg bls.Sign
			if sg.SetHexString(share) != nil {
				return false
			}
			return sg.Verify(s.refPK[party], msgAt(cur))
		}
		// reference seed of the final timeout count: group signature recovered with the library from two t-subsets
		var wantSeed int64
		var wantRBO string
		{
			var first string
			okRef := true
			subs := subsets(n, t)
			for k, sub := range [][]int{subs[0], subs[len(subs)-1]} {
				var ids []bls.ID
				var sigs []bls.Sign
				for _, j := range sub {
					ids = append(ids, s.dkgs[j].ID)
					sigs = append(sigs, *s.dkgs[j].Sign(msg))
				}
				var g bls.Sign
				if err := g.Recover(sigs, ids); err != nil || !g.Verify(s.refGPK, msg) {
					okRef = false
					break
				}
				if k == 0 {
					first = g.GetHexString()
				} else if g.GetHexString() != first {
					okRef = false
				}
			}
			if !okRef {
				run.Inconclusive(fmt.Sprintf("%s: the reference group signature cannot be recovered / does not verify", tn))
				return
			}
			wantRBO = encryption.Hash(first)
			u, err := strconv.ParseUint(wantRBO[:16], 16, 64)
			if err != nil {
				panic(err)
			}
			wantSeed = int64(u)
		}

		// ---- the share messages of this episode
		validAt := func(tc int) []c33PMsg {
			cl := "valid"
			if tc != finalTC {
				cl = "valid-at-earlier-timeout-count"
			}
			var out []c33PMsg
			for j := 0; j < n; j++ {
				out = append(out, c33PMsg{cl, j, s.dkgs[j].Sign(msgAt(tc)).GetHexString(), tc})
			}
			return out
		}
		valid := validAt(finalTC)
		classes := []string{"wrong-message", "other-timeout-message", "later-timeout-honest", "earlier-timeout-resent", "earlier-timeout-message-current-count", "wrong-signer", "other-dkg", "shifted", "garbage"}
		mkBad := func(class string, j int) c33PMsg {
			m := c33PMsg{class: class, party: j, tc: finalTC}
			switch class {
			case "wrong-message":
				m.share = s.dkgs[j].Sign(msg + "x").GetHexString()
			case "other-timeout-message":
				m.share = s.dkgs[j].Sign(msgAt(finalTC + 1)).GetHexString()
			case "later-timeout-honest":
				m.share, m.tc = s.dkgs[j].Sign(msgAt(finalTC+1)).GetHexString(), finalTC+1
			case "earlier-timeout-resent": // the share the party sent before everybody restarted, once more
				m.share, m.tc = s.dkgs[j].Sign(msgAt(finalTC-1)).GetHexString(), finalTC-1
			case "earlier-timeout-message-current-count": // the old share under the new count
				m.share = s.dkgs[j].Sign(msgAt(finalTC - 1)).GetHexString()
			case "wrong-signer":
				m.share = s.dkgs[(j+1)%n].Sign(msg).GetHexString()
			case "other-dkg":
				m.share = other.dkgs[j].Sign(msg).GetHexString()
			case "shifted":
				m.share = addSignHex(s.dkgs[j].Sign(msg).GetHexString(), randG1(rr))
			case "garbage":
				m.share = "zz" + encryption.Hash("garbage")
			}
			return m
		}
		var bad []c33PMsg
		for k := 2 + rr.Intn(4); k > 0; k-- {
			if m := mkBad(classes[rr.Intn(len(classes))], rr.Intn(n)); !refOKAt(m.party, m.share, m.tc, finalTC) {
				bad = append(bad, m) // (with t=1 every party holds the same key share: a "wrong signer" share is valid there)
			}
		}
		if len(bad) == 0 {
			bad = append(bad, mkBad("wrong-message", rr.Intn(n)))
		}
		key := func(party int, share string, tc int) string { return fmt.Sprintf("%d|%d|%s", party, tc, share) }
		classOf := map[string]string{}
		note := func(ms []c33PMsg) {
			for _, m := range ms {
				if _, ok := classOf[key(m.party, m.share, m.tc)]; !ok {
					classOf[key(m.party, m.share, m.tc)] = m.class
				}
			}
		}
		note(valid)
		note(bad)
		for tc := 0; tc < finalTC; tc++ {
			note(validAt(tc))
		}
		shuffled := func(in []c33PMsg) []c33PMsg {
			out := append([]c33PMsg{}, in...)
			rr.Shuffle(len(out), func(i, j int) { out[i], out[j] = out[j], out[i] })
			return out
		}
		// a partial set: valid shares of 1..t-1 parties for timeout count tc
		partial := func(tc int) []c33PMsg {
			v := shuffled(validAt(tc))
			return v[:1+rr.Intn(t-1)]
		}
		partiesOf := func(ms []c33PMsg) map[int]bool {
			out := map[int]bool{}
			for _, m := range ms {
				out[m.party] = true
			}
			return out
		}
		// the final shares with the given parties first (or last)
		ordered := func(first map[int]bool, front bool) []c33PMsg {
			var a, b []c33PMsg
			for _, m := range shuffled(valid) {
				if first[m.party] == front {
					a = append(a, m)
				} else {
					b = append(b, m)
				}
			}
			return append(a, b...)
		}

		// ---- the observers
		var obs []*c33RNode
		if t >= 2 {
			{
				// a partial set, restart, then the final shares with the same parties first: their new shares must count
				st := partial(finalTC - 1)
				obs = append(obs, &c33RNode{name: "partial-then-same-parties-first", startTC: finalTC - 1, stages: [][]c33PMsg{st}, raise: []string{"increment"}, late: ordered(partiesOf(st), true)})
			}
			{
				// a partial set, restart, then the other parties first
				st := partial(finalTC - 1)
				obs = append(obs, &c33RNode{name: "partial-then-other-parties-first", startTC: finalTC - 1, stages: [][]c33PMsg{st}, raise: []string{"increment"}, late: ordered(partiesOf(st), false)})
			}
			{
				// a partial set next to bad shares and shares of the next count that arrive early; after the restart everything mixed
				st := append(partial(finalTC-1), valid[rr.Intn(n)])
				if b := bad[rr.Intn(len(bad))]; !refOKAt(b.party, b.share, b.tc, finalTC-1) {
					st = append(st, b) // (a re-sent share of the earlier count is a valid one before the restart: fewer than t stay)
				}
				st = shuffled(st)
				obs = append(obs, &c33RNode{name: "partial-mixed", startTC: finalTC - 1, stages: [][]c33PMsg{st}, raise: []string{"increment"}, late: shuffled(append(append([]c33PMsg{}, valid...), bad...))})
			}
			{
				// after the restart the shares of the earlier count come once more before the new ones
				st := partial(finalTC - 1)
				late := append(shuffled(validAt(finalTC-1)), shuffled(append(append([]c33PMsg{}, valid...), bad...))...)
				obs = append(obs, &c33RNode{name: "partial-then-earlier-shares-resent", startTC: finalTC - 1, stages: [][]c33PMsg{st}, raise: []string{"set"}, late: late})
			}
			if finalTC >= 2 {
				// two restarts, a partial set before each
				st0, st1 := partial(finalTC-2), partial(finalTC-1)
				obs = append(obs, &c33RNode{name: "partial-twice", startTC: finalTC - 2, stages: [][]c33PMsg{st0, st1}, raise: []string{"increment", "increment"}, late: ordered(partiesOf(st1), rr.Chance(0.5))})
			}
			{
				// a restart that leaves the timeout count where it was (the configured cap), then a block raises it
				st := partial(finalTC - 1)
				obs = append(obs, &c33RNode{name: "partial-restart-then-raised-by-block", startTC: finalTC - 1, stages: [][]c33PMsg{st}, raise: []string{"increment-then-set"}, late: ordered(partiesOf(st), rr.Chance(0.5))})
			}
		}
		// a restart with nothing collected
		obs = append(obs, &c33RNode{name: "empty-restart", startTC: finalTC - 1, stages: [][]c33PMsg{nil}, raise: []string{"increment"}, late: shuffled(append(append([]c33PMsg{}, valid...), bad...))})
		// never restarted: at the final count from the start (a miner that joined late / got the count from a block)
		obs = append(obs, &c33RNode{name: "never-restarted", startTC: finalTC, late: shuffled(append(append([]c33PMsg{}, valid...), bad...))})
		obs = append(obs, &c33RNode{name: "never-restarted-shares-only", startTC: finalTC, late: shuffled(valid)})
		for _, nd := range obs {
			nd.late = append(nd.late, shuffled(valid)...) // shares are re-sent on soft timeouts
			nd.preKeys, nd.seenAt = map[string]bool{}, map[int]bool{}
		}

		pr := mc.AddRound(mc.CreateRound(round.NewRound(prn))).(*miner.Round)
		if !mc.SetRandomSeed(pr.Round, prevSeed) {
			run.Inconclusive("cannot set the previous round's seed")
			return
		}
		for _, nd := range obs {
			nd.mr = mc.CreateRound(round.NewRound(rn))
			for nd.mr.GetTimeoutCount() < nd.startTC {
				nd.mr.SetTimeoutCount(nd.mr.GetTimeoutCount() + 1)
			}
		}
		run.Count("c33.restart_episode", 1)

		toVRFS := func(m c33PMsg) *round.VRFShare {
			v := &round.VRFShare{Round: rn, Share: m.share, RoundTimeoutCount: m.tc}
			v.SetParty(allNodes[m.party])
			return v
		}
		rep := func(nd *c33RNode, phase string, si int) map[string]interface{} {
			st := [][]string{}
			for _, x := range nd.stages {
				st = append(st, c33Labels(x))
			}
			return map[string]interface{}{"seed": mon.Seed(), "t": t, "n": n, "observer": nd.name, "phase": phase, "step": si, "round": rn, "start_timeout_count": nd.startTC,
				"final_timeout_count": finalTC, "timeout_count_now": nd.mr.GetTimeoutCount(), "restarts": nd.restarts, "before_restarts": st, "how_raised": nd.raise, "late": c33Labels(nd.late)}
		}
		// the rules, applied to the round as it is now
		judge := func(nd *c33RNode, phase string, si int, what string) {
			cur := nd.mr.GetTimeoutCount()
			fail := func(sig, detail string) {
				violate(run, sig, fmt.Sprintf("t=%d n=%d, observer %s (%d restart(s), timeout count %d of %d), %s step %d (%s): %s", t, n, nd.name, nd.restarts, cur, finalTC, phase, si, what, detail), rep(nd, phase, si))
				nd.failed = true
				run.Checkpoint()
			}
			held := nd.mr.GetVRFShares()
			if len(held) > t {
				fail("C33:more-than-threshold-shares-held", fmt.Sprintf("the round holds %d VRF shares", len(held)))
				return
			}
			for k, sh := range held {
				pi, known := idIndex[sh.GetParty().GetKey()]
				if sh.GetParty().GetKey() != k || !known {
					fail("C33:share-stored-under-wrong-party", "key "+k)
					return
				}
				if refOKAt(pi, sh.Share, sh.GetRoundTimeoutCount(), cur) {
					continue
				}
				cl := classOf[key(pi, sh.Share, sh.GetRoundTimeoutCount())]
				if cl == "" {
					cl = "unknown"
				}
				if nd.restarts > 0 && sh.GetRoundTimeoutCount() < cur && nd.preKeys[key(pi, sh.Share, sh.GetRoundTimeoutCount())] {
					if nd.stale {
						continue
					}
					nd.stale = true
					defer func() { nd.failed = false }() // what the round derives from such a set is judged as well
					fail("C33:share-of-earlier-timeout-count-counted-after-restart", fmt.Sprintf("the round's VRF shares contain the share party %d sent for timeout count %d, counted before the round restarted; it does not verify against the message of timeout count %d", pi, sh.GetRoundTimeoutCount(), cur))
					return
				}
				fail("C33:invalid-share-counted-"+cl, fmt.Sprintf("the round's VRF shares contain a %s share of party %d (timeout count %d, round's %d) that fails verification against the round's message", cl, pi, sh.GetRoundTimeoutCount(), cur))
				return
			}
			if nd.mr.HasRandomSeed() {
				if len(nd.seenAt) < t || len(held) < t {
					fail("C33:seed-below-threshold", fmt.Sprintf("the round has random seed %d; valid shares of %d parties for this timeout count were delivered, %d are held", nd.mr.GetRandomSeed(), len(nd.seenAt), len(held)))
					return
				}
				if cur == finalTC && (nd.mr.GetRandomSeed() != wantSeed || nd.mr.GetVRFOutput() != wantRBO) {
					fail("C33:seed-not-from-valid-group-signature", fmt.Sprintf("seed %d (vrf output %.16s), the group signature recovered from valid shares defines %d (%.16s)", nd.mr.GetRandomSeed(), nd.mr.GetVRFOutput(), wantSeed, wantRBO))
					return
				}
			} else if len(nd.seenAt) < t {
				run.Count("c33.below_threshold_evaluated", 1)
			}
		}
		deliver := func(nd *c33RNode, m c33PMsg, phase string, si int) {
			if nd.failed {
				return
			}
			cur := nd.mr.GetTimeoutCount()
			isValid := refOKAt(m.party, m.share, m.tc, cur)
			if isValid {
				nd.seenAt[m.party] = true
			} else {
				run.Count("c33.invalid_share_evaluated", 1)
			}
			if phase != "late" {
				nd.preKeys[key(m.party, m.share, m.tc)] = true
			}
			before := len(nd.mr.GetVRFShares())
			p := guard(func() { mc.AddVRFShare(ctx, nd.mr, toVRFS(m)) })
			run.Eval(1)
			run.Count("c33.restart_delivery_step", 1)
			if p != "" {
				violate(run, "C33:share-processing-panics-"+m.class, fmt.Sprintf("t=%d n=%d, observer %s, %s step %d: Chain.AddVRFShare panicked on a %s share: %s", t, n, nd.name, phase, si, m.class, p), rep(nd, phase, si))
				nd.failed = true
				return
			}
			if after := len(nd.mr.GetVRFShares()); after > before && nd.restarts > 0 {
				run.Count("c33.restart_share_counted_after_restart", 1)
			}
			judge(nd, phase, si, fmt.Sprintf("%s from party %d, timeout count %d", m.class, m.party, m.tc))
		}
		restart := func(nd *c33RNode, how string, si int) {
			if nd.failed {
				return
			}
			heldBefore := len(nd.mr.GetVRFShares())
			tcBefore := nd.mr.GetTimeoutCount()
			var err error
			p := guard(func() { err = nd.mr.Restart() })
			if p != "" || err != nil {
				run.Inconclusive(fmt.Sprintf("%s observer %s: the round cannot be restarted (%v %s)", tn, nd.name, err, p))
				nd.failed = true
				return
			}
			switch how {
			case "increment": // miner.Chain.restartRound
				nd.mr.IncrementTimeoutCount(prevSeed, mc.GetMiners(rn))
			case "set": // a block of the next timeout count arrived
				nd.mr.SetTimeoutCount(tcBefore + 1)
			case "increment-then-set":
				nd.mr.IncrementTimeoutCount(prevSeed, mc.GetMiners(rn))
			}
			if nd.mr.GetTimeoutCount() == tcBefore {
				// server_chain.round_timeouts.timeout_cap: the restarted round keeps its timeout count (and its message)
				run.Count("c33.restart_timeout_count_capped", 1)
			}
			nd.restarts++
			nd.seenAt = map[int]bool{}
			for k, sh := range nd.mr.GetVRFShares() {
				// (a share that is still held and verifies for the count the round has now stays a delivered valid share)
				if pi, ok := idIndex[k]; ok && refOKAt(pi, sh.Share, sh.GetRoundTimeoutCount(), nd.mr.GetTimeoutCount()) {
					nd.seenAt[pi] = true
				}
			}
			run.Eval(1)
			run.Count("c33.restart_performed", 1)
			run.Count("c33.restart_performed."+how, 1)
			if heldBefore > 0 {
				run.Count("c33.restart_with_partial_shares", 1)
			}
			judge(nd, "restart", si, fmt.Sprintf("Round.Restart with %d share(s) held, timeout count %d -> %d (%s)", heldBefore, tcBefore, nd.mr.GetTimeoutCount(), how))
			if nd.failed {
				return
			}
			if nd.mr.GetTimeoutCount() < nd.startTC+nd.restarts {
				nd.mr.SetTimeoutCount(nd.startTC + nd.restarts)
				// the count moved without a restart in between: what is held was checked against the message of the old count
				nd.seenAt = map[int]bool{}
				judge(nd, "raised", si, fmt.Sprintf("SetTimeoutCount(%d) after the restart", nd.startTC+nd.restarts))
			}
		}
		for _, nd := range obs {
			for i, st := range nd.stages {
				for si, m := range st {
					deliver(nd, m, fmt.Sprintf("before-restart-%d", i+1), si)
				}
				restart(nd, nd.raise[i], i)
			}
			if !nd.failed && nd.mr.GetTimeoutCount() != finalTC {
				run.Inconclusive(fmt.Sprintf("%s observer %s: timeout count %d after the restarts, the workload assumed %d", tn, nd.name, nd.mr.GetTimeoutCount(), finalTC))
				nd.failed = true
			}
		}
		if got, err := mc.GetBlsMessageForRound(obs[len(obs)-1].mr.Round); err != nil || got != msg {
			run.Inconclusive(fmt.Sprintf("%s: VRF message of the final timeout count is %q (err %v), the workload assumed %q", tn, got, err, msg))
			return
		}
		for _, nd := range obs {
			for si, m := range nd.late {
				deliver(nd, m, "late", si)
			}
		}
		// ---- end of the episode: agreement between the observers
		var withSeed []*c33RNode
		for _, nd := range obs {
			hasSeed := nd.mr.HasRandomSeed()
			run.Distinct(fmt.Sprintf("restart|%s|%s|final-tc=%d|restarts=%d|seed=%v|failed=%v", tn, nd.name, finalTC, nd.restarts, hasSeed, nd.failed))
			if nd.failed {
				continue
			}
			if hasSeed {
				withSeed = append(withSeed, nd)
				continue
			}
			if len(nd.mr.GetVRFShares()) >= t {
				// as in (d): threshold-many verified shares without a seed is a liveness matter, recorded only
				run.Count("c33.observed_threshold_shares_held_without_seed_after_restart", 1)
				continue
			}
			violate(run, "C33:valid-share-not-counted", fmt.Sprintf("t=%d n=%d, observer %s (%d restart(s)): every party's valid share for timeout count %d was delivered after the last restart, the round holds %d shares and has no seed", t, n, nd.name, nd.restarts, finalTC, len(nd.mr.GetVRFShares())), rep(nd, "end", 0))
		}
		for i := 1; i < len(withSeed); i++ {
			run.Eval(1)
			run.Count("c33.seed_agreement_evaluated", 1)
			run.Count("c33.restart_seed_agreement_evaluated", 1)
			a, b := withSeed[0], withSeed[i]
			if a.mr.GetRandomSeed() != b.mr.GetRandomSeed() || a.mr.GetVRFOutput() != b.mr.GetVRFOutput() {
				violate(run, "C33:seeds-differ-between-restarted-and-other-miners", fmt.Sprintf("t=%d n=%d round %d timeout count %d: observer %s (%d restart(s)) derived seed %d, observer %s (%d restart(s)) derived %d from the same share messages", t, n, rn, finalTC, a.name, a.restarts, a.mr.GetRandomSeed(), b.name, b.restarts, b.mr.GetRandomSeed()),
					map[string]interface{}{"seed": mon.Seed(), "t": t, "n": n, "a": rep(a, "end", 0), "b": rep(b, "end", 0)})
			}
		}
	}
}

func c33Labels(ms []c33PMsg) []string {
	out := make([]string, 0, len(ms))
	for _, m := range ms {
		out = append(out, fmt.Sprintf("%s@%d/tc%d", m.class, m.party, m.tc))
	}
	return out
}

func pathName(full bool) string {
	if full {
		return "Chain.AddVRFShare"
	}
	return "parts"
}

func contains(s []int, x int) bool {
	for _, v := range s {
		if v == x {
			return true
		}
	}
	return false
}
