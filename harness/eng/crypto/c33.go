package crypto

import (
	"context"
	"fmt"
	"sort"
	"strconv"
	"strings"

	"0chain.net/chaincore/node"
	"0chain.net/chaincore/round"
	tbls "0chain.net/chaincore/threshold/bls"
	"0chain.net/core/encryption"
	"0chain.net/miner"
	"github.com/herumi/bls-go-binary/bls"

	"verifh/mon"
	"verifh/world"
)

// vrfItem is one VRF share message as it would arrive from a miner.
type vrfItem struct {
	class string // valid | wrong-message | ... (what the generator meant)
	party int    // index of the claimed sender
	share string
	tc    int // timeout count carried by the message
}

func c33Child(run *mon.Run, tier, name string) {
	ci := idx(name)
	nMiners := 9
	w := world.New(world.Options{Seed: mon.Seed()*100 + 33 + uint64(ci), NumMiners: nMiners})
	defer w.Close()
	miner.SetupMinerChain(w.Chain)
	mc := miner.GetMinerChain()
	// block proposal at threshold is not part of this property: TryProposeBlock returns at once when the chain is ahead
	mc.SetCurrentRound(1 << 40)
	ctx := context.Background()
	r := rnd("c33/" + name)
	maxN := 8
	if tier == "thorough" {
		maxN = 9
	}
	nChildren := 4
	if tier == "thorough" {
		nChildren = 8
	}
	scen := 0
	for n := 1; n <= maxN; n++ {
		for t := 1; t <= n; t++ {
			scen++
			if scen%nChildren != ci%nChildren {
				continue
			}
			c33Scenario(run, ctx, w, mc, r.Fork(fmt.Sprintf("t%d-n%d", t, n)), t, n, int64(scen)*1000, tier)
			run.Checkpoint()
		}
	}
}

func c33Scenario(run *mon.Run, ctx context.Context, w *world.World, mc *miner.Chain, r *mon.Rand, t, n int, base int64, tier string) {
	tn := fmt.Sprintf("t=%d|n=%d", t, n)
	ids := make([]string, n)
	nodes := make([]*node.Node, n)
	for i := 0; i < n; i++ {
		ids[i] = w.Miners[i].ID
		nodes[i] = w.MB.Miners.GetNode(ids[i])
	}
	s := newDKGSet(t, n, ids, nil)
	other := newDKGSet(t, n, ids, nil) // same parties, another key generation: its shares must never count
	self := s.dkgs[0]
	self.StartingRound = base
	if err := mc.SetDKG(self, base); err != nil {
		panic(err)
	}
	prn, rn := base+10, base+11
	prevSeed := int64(r.U64()>>1) | 1
	pr := mc.AddRound(mc.CreateRound(round.NewRound(prn))).(*miner.Round)
	if !mc.SetRandomSeed(pr.Round, prevSeed) {
		run.Inconclusive("cannot set the previous round's seed")
		return
	}
	if got := mc.GetDKG(rn); got != self {
		run.Inconclusive("GetDKG does not return the installed DKG")
		return
	}
	roundTC := r.Intn(3)
	newRound := func() *miner.Round {
		mr := mc.CreateRound(round.NewRound(rn)) // deliberately not registered: every delivery gets a fresh round object for the same number
		for mr.GetTimeoutCount() < roundTC {
			mr.SetTimeoutCount(mr.GetTimeoutCount() + 1)
		}
		return mr
	}
	probe := newRound()
	msg, err := mc.GetBlsMessageForRound(probe.Round)
	if err != nil {
		run.Inconclusive("GetBlsMessageForRound: " + err.Error())
		return
	}
	run.Count("c33.message_computed", 1)
	// the message must separate rounds, timeout counts and previous seeds that differ
	{
		o := mc.CreateRound(round.NewRound(rn))
		for o.GetTimeoutCount() < roundTC+1 {
			o.SetTimeoutCount(o.GetTimeoutCount() + 1)
		}
		m2, _ := mc.GetBlsMessageForRound(o.Round)
		if m2 == msg {
			violate(run, "C33:message-ignores-timeout-count", fmt.Sprintf("round %d: VRF message %q is the same for timeout counts %d and %d", rn, msg, roundTC, roundTC+1), nil)
		}
	}
	mkValid := func(j int, m string) string { return s.dkgs[j].Sign(m).GetHexString() }
	// reference verdict for one share message: herumi verification under the reference public key share of the claimed party
	refOK := func(it vrfItem) bool {
		var sg bls.Sign
		if sg.SetHexString(it.share) != nil {
			return false
		}
		if it.party < 0 || it.party >= n {
			return false
		}
		return sg.Verify(s.refPK[it.party], msg)
	}
	invalidClasses := []string{"wrong-message", "other-round-message", "other-timeout-message", "wrong-signer", "other-dkg", "shifted", "garbage", "empty", "zero"}
	mkInvalid := func(class string, j int) vrfItem {
		it := vrfItem{class: class, party: j, tc: roundTC}
		switch class {
		case "wrong-message":
			it.share = mkValid(j, msg+"x")
		case "other-round-message":
			it.share = mkValid(j, fmt.Sprintf("%v%v%v", rn+1, roundTC, strconv.FormatInt(prevSeed, 16)))
		case "other-timeout-message":
			it.share = mkValid(j, fmt.Sprintf("%v%v%v", rn, roundTC+1, strconv.FormatInt(prevSeed, 16)))
		case "wrong-signer":
			it.share = mkValid((j+1)%n, msg) // a valid share of another party under j's name
		case "other-dkg":
			it.share = other.dkgs[j].Sign(msg).GetHexString()
		case "shifted":
			it.share = addSignHex(mkValid(j, msg), randG1(r))
		case "garbage":
			it.share = "zz" + encryption.Hash("garbage")
		case "empty":
			it.share = ""
		case "zero":
			it.share = "0"
		}
		return it
	}
	toVRFS := func(it vrfItem) *round.VRFShare {
		v := &round.VRFShare{Round: rn, Share: it.share, RoundTimeoutCount: it.tc}
		v.SetParty(nodes[it.party])
		return v
	}

	// ---- (a) verifyVRFShare alone, every party x every class
	for j := 0; j < n; j++ {
		items := []vrfItem{{class: "valid", party: j, share: mkValid(j, msg), tc: roundTC}}
		for _, c := range invalidClasses {
			items = append(items, mkInvalid(c, j))
		}
		for _, it := range items {
			want := refOK(it)
			if it.class == "wrong-signer" && (n == 1 || t == 1) {
				// with t=1 every party holds the same key share; with n=1 the "other" party is the same one
				run.Count("c33.class_degenerate", 1)
			}
			var got bool
			p := guard(func() { got = miner.VerifCryptoVerifyVRFShare(probe, toVRFS(it), msg, self) })
			run.Eval(1)
			if want {
				run.Count("c33.valid_share_evaluated", 1)
			} else {
				run.Count("c33.invalid_share_evaluated", 1)
			}
			run.Distinct(fmt.Sprintf("verify|%s|%s|want=%v|got=%v|%s", tn, it.class, want, got, p))
			rep := map[string]interface{}{"seed": mon.Seed(), "t": t, "n": n, "class": it.class, "party": j, "share": it.share, "message": msg}
			switch {
			case p != "":
				violate(run, "C33:verify-share-panics-"+it.class, fmt.Sprintf("t=%d n=%d: verifyVRFShare panicked on a %s share: %s", t, n, it.class, p), rep)
			case got && !want:
				violate(run, "C33:verify-accepts-invalid-share-"+it.class, fmt.Sprintf("t=%d n=%d: verifyVRFShare accepted a %s share of party %d for message %q", t, n, it.class, j, msg), rep)
			case !got && want:
				violate(run, "C33:verify-rejects-valid-share", fmt.Sprintf("t=%d n=%d: verifyVRFShare rejected the valid share of party %d (class %s)", t, n, j, it.class), rep)
			}
		}
	}

	// ---- (b) deliveries: sequences of share messages into a fresh round object; all must end with the same seed
	type outcome struct {
		seed   int64
		vrfOut string
		label  string
	}
	var seeds []outcome
	nDeliveries := 10
	if tier == "thorough" {
		nDeliveries = 80
	}
	allSubs := subsets(n, t)
	for d := 0; d < nDeliveries; d++ {
		rr := r.Fork(fmt.Sprintf("delivery%d", d))
		full := d%2 == 0 // real miner.Chain.AddVRFShare, or its parts one by one
		// the valid senders of this delivery: a t-subset (walks through all of them first), sometimes more than t
		sub := append([]int{}, allSubs[d%len(allSubs)]...)
		if d >= len(allSubs) && rr.Chance(0.5) {
			for j := 0; j < n; j++ {
				if !contains(sub, j) && rr.Chance(0.5) {
					sub = append(sub, j)
				}
			}
		}
		rr.Shuffle(len(sub), func(i, j int) { sub[i], sub[j] = sub[j], sub[i] })
		var seq []vrfItem
		for _, j := range sub {
			// hostile traffic in front of / between the valid shares
			for k := rr.Intn(3); k > 0; k-- {
				seq = append(seq, mkInvalid(invalidClasses[rr.Intn(len(invalidClasses))], rr.Intn(n)))
			}
			if rr.Chance(0.2) {
				it := vrfItem{class: "valid-but-other-timeout-count", party: j, share: mkValid(j, msg), tc: roundTC + 1 + rr.Intn(2)}
				seq = append(seq, it)
			}
			seq = append(seq, vrfItem{class: "valid", party: j, share: mkValid(j, msg), tc: roundTC})
			if rr.Chance(0.3) {
				seq = append(seq, vrfItem{class: "valid", party: j, share: mkValid(j, msg), tc: roundTC}) // duplicate
			}
		}
		mr := newRound()
		counted := map[int]bool{} // reference: parties whose valid, matching-timeout share arrived while below threshold
		seedSet := false
		var labels []string
		for si, it := range seq {
			labels = append(labels, fmt.Sprintf("%s@%d", it.class, it.party))
			v := toVRFS(it)
			valid := refOK(it) && it.tc == roundTC
			before := len(mr.GetVRFShares())
			hadSeed := mr.HasRandomSeed()
			var p string
			if full {
				p = guard(func() { mc.AddVRFShare(ctx, mr, v) })
			} else {
				p = guard(func() {
					if v.GetRoundTimeoutCount() != mr.GetTimeoutCount() {
						return
					}
					if !miner.VerifCryptoVerifyVRFShare(mr, v, msg, self) {
						return
					}
					mr.AddVRFShare(v, t)
					mc.ThresholdNumBLSSigReceived(ctx, mr, t)
				})
			}
			run.Eval(1)
			run.Count("c33.delivery_step", 1)
			rep := map[string]interface{}{"seed": mon.Seed(), "t": t, "n": n, "delivery": d, "step": si, "path": pathName(full), "sequence": labels, "message": msg}
			if p != "" {
				violate(run, "C33:share-processing-panics-"+it.class, fmt.Sprintf("t=%d n=%d: processing a %s share panicked: %s", t, n, it.class, p), rep)
				break
			}
			shares := mr.GetVRFShares()
			after := len(shares)
			// invalid shares are never counted
			if !valid {
				run.Count("c33.invalid_share_evaluated", 1)
				if after != before {
					violate(run, "C33:invalid-share-counted-"+it.class, fmt.Sprintf("t=%d n=%d (%s): a %s share from party %d was added to the round's VRF shares", t, n, pathName(full), it.class, it.party), rep)
				}
			} else if before < t && !counted[it.party] && !hadSeed {
				counted[it.party] = true
				if after != before+1 {
					violate(run, "C33:valid-share-not-counted", fmt.Sprintf("t=%d n=%d (%s): the valid share of party %d was not counted (%d -> %d shares)", t, n, pathName(full), it.party, before, after), rep)
				}
			}
			// threshold cap and one share per party
			if after > t {
				violate(run, "C33:more-than-threshold-shares-held", fmt.Sprintf("t=%d n=%d: the round holds %d VRF shares", t, n, after), rep)
			}
			for key, sh := range shares {
				if sh.GetParty().GetKey() != key {
					violate(run, "C33:share-stored-under-wrong-party", fmt.Sprintf("t=%d n=%d", t, n), rep)
				}
			}
			// below threshold there is never a seed
			if len(counted) < t {
				run.Count("c33.below_threshold_evaluated", 1)
				if mr.HasRandomSeed() {
					violate(run, "C33:seed-below-threshold", fmt.Sprintf("t=%d n=%d (%s): the round has random seed %d after %d counted shares", t, n, pathName(full), mr.GetRandomSeed(), len(counted)), rep)
				}
			} else if !seedSet {
				seedSet = true
				if !mr.HasRandomSeed() {
					violate(run, "C33:no-seed-at-threshold", fmt.Sprintf("t=%d n=%d (%s): %d verified shares are in, no random seed was derived", t, n, pathName(full), len(counted)), rep)
				}
			}
		}
		if mr.HasRandomSeed() {
			var who []string
			for j := range counted {
				who = append(who, fmt.Sprint(j))
			}
			sort.Strings(who)
			seeds = append(seeds, outcome{mr.GetRandomSeed(), mr.GetVRFOutput(), pathName(full) + ":parties=" + strings.Join(who, ",")})
			run.Distinct(fmt.Sprintf("delivery|%s|%s|parties=%s|len=%d", tn, pathName(full), strings.Join(who, ","), len(seq)))
			// the counted shares recombine to a signature that is valid under the group key, and the output is its hash
			recSig, recFrom := miner.VerifCryptoGetVRFShareInfo(mr)
			g, err := self.CalBlsGpSign(recSig, recFrom)
			if err != nil || !g.Verify(s.refGPK, msg) {
				violate(run, "C33:seed-not-from-valid-group-signature", fmt.Sprintf("t=%d n=%d: the shares held by the round do not recombine to a valid group signature (err=%v)", t, n, err), nil)
			}
		}
	}
	for i := 1; i < len(seeds); i++ {
		run.Eval(1)
		run.Count("c33.seed_agreement_evaluated", 1)
		if seeds[i].seed != seeds[0].seed || seeds[i].vrfOut != seeds[0].vrfOut {
			violate(run, "C33:seeds-differ-between-subsets", fmt.Sprintf("t=%d n=%d round %d timeout %d: %s gives seed %d, %s gives seed %d", t, n, rn, roundTC, seeds[0].label, seeds[0].seed, seeds[i].label, seeds[i].seed),
				map[string]interface{}{"seed": mon.Seed(), "t": t, "n": n, "a": seeds[0].label, "b": seeds[i].label})
		}
	}
	if len(seeds) > 0 {
		run.Sample(map[string]interface{}{"t": t, "n": n, "round": rn, "timeout_count": roundTC, "message": msg, "deliveries_with_seed": len(seeds), "seed": seeds[0].seed})
	}

	// ---- (c) Round.AddVRFShare cap on its own: n valid shares offered, threshold t
	{
		mr := newRound()
		added := 0
		for j := 0; j < n; j++ {
			v := toVRFS(vrfItem{party: j, share: mkValid(j, msg), tc: roundTC})
			ok := mr.AddVRFShare(v, t)
			again := mr.AddVRFShare(v, t)
			run.Eval(1)
			run.Count("c33.round_add_evaluated", 1)
			want := added < t
			if ok != want || again {
				violate(run, "C33:round-AddVRFShare-wrong-verdict", fmt.Sprintf("t=%d n=%d: share #%d returned %v (want %v), repeated add returned %v", t, n, j, ok, want, again), nil)
			}
			if ok {
				added++
			}
			if len(mr.GetVRFShares()) > t {
				violate(run, "C33:more-than-threshold-shares-held", fmt.Sprintf("t=%d n=%d: Round.AddVRFShare let %d shares in", t, n, len(mr.GetVRFShares())), nil)
			}
		}
	}
	_ = tbls.ComputeIDdkg
}

func pathName(full bool) string {
	if full {
		return "Chain.AddVRFShare"
	}
	return "parts"
}

func contains(s []int, x int) bool {
	for _, v := range s {
		if v == x {
			return true
		}
	}
	return false
}
