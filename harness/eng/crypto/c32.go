package crypto

import (
	"context"
	"encoding/hex"
	"fmt"

	"0chain.net/chaincore/block"
	"0chain.net/chaincore/transaction"
	"0chain.net/core/encryption"
	"0chain.net/core/viper"
	"0chain.net/miner"
	"github.com/0chain/common/core/currency"
	"github.com/herumi/bls-go-binary/bls"

	"verifh/mon"
	"verifh/world"
)

// aggItem is one (key, message, signature) triple as the aggregate scheme sees it.
type aggItem struct {
	pubHex string // hex of the serialized public key
	hash   string // hex message hash
	sig    string // hex signature
}

// refValid is the oracle: the plain herumi verification of one item, nothing from 0chain's encryption package.
func refValid(it aggItem) bool {
	pkb, err := hex.DecodeString(it.pubHex)
	if err != nil {
		return false
	}
	var pk bls.PublicKey
	if pk.Deserialize(pkb) != nil {
		return false
	}
	var s bls.Sign
	if s.DeserializeHexStr(it.sig) != nil {
		return false
	}
	raw, err := hex.DecodeString(it.hash)
	if err != nil {
		return false
	}
	return s.Verify(&pk, string(raw))
}

func addToSig(sigHex string, delta *bls.G1, neg bool) string {
	var s bls.Sign
	if err := s.DeserializeHexStr(sigHex); err != nil {
		panic(err)
	}
	g := bls.CastFromSign(&s)
	var out bls.G1
	if neg {
		bls.G1Sub(&out, g, delta)
	} else {
		bls.G1Add(&out, g, delta)
	}
	return bls.CastToSign(&out).SerializeToHexStr()
}

func randG1(r *mon.Rand) *bls.G1 {
	var g bls.G1
	if err := g.HashAndMapTo(randBytes(r, 32)); err != nil {
		panic(err)
	}
	return &g
}

// corruption patterns. Each returns the positions it touched (for the evidence) or nil if not applicable.
type aggPattern struct {
	name  string
	apply func(items []aggItem, bs int, r *mon.Rand, signers []*encryption.BLS0ChainScheme) []int
}

func pickDistinct(r *mon.Rand, n, k int) []int {
	if k > n {
		return nil
	}
	p := make([]int, n)
	for i := range p {
		p[i] = i
	}
	r.Shuffle(n, func(i, j int) { p[i], p[j] = p[j], p[i] })
	return p[:k]
}

// pickPair returns two positions in the same batch (same=true) or in different batches.
func pickPair(r *mon.Rand, n, bs int, same bool) []int {
	var cands [][2]int
	for i := 0; i < n; i++ {
		for j := i + 1; j < n; j++ {
			if (i/bs == j/bs) == same {
				cands = append(cands, [2]int{i, j})
			}
		}
	}
	if len(cands) == 0 {
		return nil
	}
	c := cands[r.Intn(len(cands))]
	return []int{c[0], c[1]}
}

func aggPatterns() []aggPattern {
	cancelling := func(same bool) func(items []aggItem, bs int, r *mon.Rand, _ []*encryption.BLS0ChainScheme) []int {
		return func(items []aggItem, bs int, r *mon.Rand, _ []*encryption.BLS0ChainScheme) []int {
			p := pickPair(r, len(items), bs, same)
			if p == nil {
				return nil
			}
			d := randG1(r)
			items[p[0]].sig = addToSig(items[p[0]].sig, d, false)
			items[p[1]].sig = addToSig(items[p[1]].sig, d, true)
			return p
		}
	}
	base := []aggPattern{
		{"none", func(items []aggItem, bs int, r *mon.Rand, _ []*encryption.BLS0ChainScheme) []int { return []int{} }},
		{"single-random-point", func(items []aggItem, bs int, r *mon.Rand, _ []*encryption.BLS0ChainScheme) []int {
			i := r.Intn(len(items))
			items[i].sig = bls.CastToSign(randG1(r)).SerializeToHexStr()
			return []int{i}
		}},
		{"single-shifted", func(items []aggItem, bs int, r *mon.Rand, _ []*encryption.BLS0ChainScheme) []int {
			i := r.Intn(len(items))
			items[i].sig = addToSig(items[i].sig, randG1(r), false)
			return []int{i}
		}},
		{"single-other-signer", func(items []aggItem, bs int, r *mon.Rand, signers []*encryption.BLS0ChainScheme) []int {
			if len(items) < 2 {
				return nil
			}
			p := pickDistinct(r, len(items), 2)
			s, err := signers[p[1]].Sign(items[p[0]].hash)
			if err != nil {
				panic(err)
			}
			items[p[0]].sig = s
			return p[:1]
		}},
		{"several-independent", func(items []aggItem, bs int, r *mon.Rand, _ []*encryption.BLS0ChainScheme) []int {
			k := 2 + r.Intn(3)
			p := pickDistinct(r, len(items), k)
			for _, i := range p {
				items[i].sig = addToSig(items[i].sig, randG1(r), false)
			}
			return p
		}},
		{"wrong-message", func(items []aggItem, bs int, r *mon.Rand, _ []*encryption.BLS0ChainScheme) []int {
			i := r.Intn(len(items))
			items[i].hash = encryption.Hash("other:" + items[i].hash)
			return []int{i}
		}},
		{"wrong-key", func(items []aggItem, bs int, r *mon.Rand, _ []*encryption.BLS0ChainScheme) []int {
			if len(items) < 2 {
				return nil
			}
			p := pickDistinct(r, len(items), 2)
			items[p[0]].pubHex = items[p[1]].pubHex
			return p[:1]
		}},
		{"swapped-messages", func(items []aggItem, bs int, r *mon.Rand, _ []*encryption.BLS0ChainScheme) []int {
			p := pickPair(r, len(items), bs, true)
			if p == nil {
				p = pickPair(r, len(items), bs, false)
			}
			if p == nil {
				return nil
			}
			items[p[0]].hash, items[p[1]].hash = items[p[1]].hash, items[p[0]].hash
			return p
		}},
		{"swapped-signatures", func(items []aggItem, bs int, r *mon.Rand, _ []*encryption.BLS0ChainScheme) []int {
			p := pickPair(r, len(items), bs, true)
			if p == nil {
				p = pickPair(r, len(items), bs, false)
			}
			if p == nil {
				return nil
			}
			items[p[0]].sig, items[p[1]].sig = items[p[1]].sig, items[p[0]].sig
			return p
		}},
		{"cancelling-pair", cancelling(true)},
		{"cancelling-pair-cross-batch", cancelling(false)},
		{"cancelling-triple", func(items []aggItem, bs int, r *mon.Rand, _ []*encryption.BLS0ChainScheme) []int {
			p := pickDistinct(r, len(items), 3)
			if p == nil {
				return nil
			}
			d1, d2 := randG1(r), randG1(r)
			items[p[0]].sig = addToSig(items[p[0]].sig, d1, false)
			items[p[1]].sig = addToSig(items[p[1]].sig, d2, false)
			items[p[2]].sig = addToSig(addToSig(items[p[2]].sig, d1, true), d2, true)
			return p
		}},
	}
	return append(base, c32ZeroSumPatterns()...)
}

// ---- coordinated forgeries whose sum is the neutral element of G1 (no honest signature involved in the forged part)

// c32NeutralSig is the serialized neutral point ("all-zero signature").
func c32NeutralSig() string {
	var g bls.G1
	g.Clear()
	return bls.CastToSign(&g).SerializeToHexStr()
}

// c32ZeroSum returns k forged "signatures" (points nobody signed) whose sum is the neutral point:
// k-1 seeded points and the negated sum of them; k=1 gives the neutral point itself.
func c32ZeroSum(r *mon.Rand, k int) []string {
	var acc bls.G1
	acc.Clear()
	out := make([]string, 0, k)
	for i := 0; i < k-1; i++ {
		g := randG1(r)
		var t bls.G1
		bls.G1Add(&t, &acc, g)
		acc = t
		out = append(out, bls.CastToSign(g).SerializeToHexStr())
	}
	var last bls.G1
	bls.G1Neg(&last, &acc)
	out = append(out, bls.CastToSign(&last).SerializeToHexStr())
	// the closing element is not always the last one in the list
	j := r.Intn(k)
	out[j], out[k-1] = out[k-1], out[j]
	return out
}

// c32SumIsNeutral re-checks the generator: the listed signatures really add up to the neutral point.
func c32SumIsNeutral(sigs []string) bool {
	var acc bls.G1
	acc.Clear()
	for _, h := range sigs {
		var sg bls.Sign
		if sg.DeserializeHexStr(h) != nil {
			return false
		}
		var t bls.G1
		bls.G1Add(&t, &acc, bls.CastFromSign(&sg))
		acc = t
	}
	return acc.IsZero()
}

func c32ZeroSumPatterns() []aggPattern {
	type apply = func(items []aggItem, bs int, r *mon.Rand, _ []*encryption.BLS0ChainScheme) []int
	forge := func(items []aggItem, pos []int, r *mon.Rand) {
		f := c32ZeroSum(r, len(pos))
		if !c32SumIsNeutral(f) {
			panic("c32: zero-sum generator broken")
		}
		for i, p := range pos {
			items[p].sig = f[i]
		}
	}
	oppositePair := func(same bool) apply {
		return func(items []aggItem, bs int, r *mon.Rand, _ []*encryption.BLS0ChainScheme) []int {
			p := pickPair(r, len(items), bs, same)
			if p == nil {
				return nil
			}
			forge(items, p, r) // X and -X
			return p
		}
	}
	all := func(n int) []int {
		p := make([]int, n)
		for i := range p {
			p[i] = i
		}
		return p
	}
	// first and last touched position first (they decide the position class of the evidence)
	ends := func(p []int) []int {
		if len(p) > 2 {
			q := append([]int{p[0], p[len(p)-1]}, p[1:len(p)-1]...)
			return q
		}
		return p
	}
	return []aggPattern{
		// every signature of the set is forged; the whole set sums to the neutral point (spans all batches)
		{"zero-sum-all-forged", func(items []aggItem, bs int, r *mon.Rand, _ []*encryption.BLS0ChainScheme) []int {
			if len(items) < 2 {
				return nil
			}
			p := all(len(items))
			forge(items, p, r)
			return ends(p)
		}},
		// every signature forged, and every batch sums to the neutral point on its own
		{"zero-sum-every-batch-forged", func(items []aggItem, bs int, r *mon.Rand, _ []*encryption.BLS0ChainScheme) []int {
			if len(items) < 2 || bs >= len(items) {
				return nil // one batch: same as zero-sum-all-forged
			}
			for st := 0; st < len(items); st += bs {
				en := st + bs
				if en > len(items) {
					en = len(items)
				}
				forge(items, all(en)[st:], r)
			}
			return ends(all(len(items)))
		}},
		// all signatures of one batch forged to sum to the neutral point, the other batches honest
		{"zero-sum-one-batch-forged", func(items []aggItem, bs int, r *mon.Rand, _ []*encryption.BLS0ChainScheme) []int {
			if bs >= len(items) {
				return nil
			}
			nb := (len(items) + bs - 1) / bs
			b := r.Intn(nb)
			en := (b + 1) * bs
			if en > len(items) {
				en = len(items)
			}
			p := all(en)[b*bs:]
			forge(items, p, r)
			return ends(p)
		}},
		// a seeded subset (2..n entries, any batches) forged to sum to the neutral point, the rest honest
		{"zero-sum-subset-forged", func(items []aggItem, bs int, r *mon.Rand, _ []*encryption.BLS0ChainScheme) []int {
			if len(items) < 3 {
				return nil
			}
			k := 2 + r.Intn(len(items)-2)
			p := pickDistinct(r, len(items), k)
			forge(items, p, r)
			return p
		}},
		{"opposite-forged-pair", oppositePair(true)},
		{"opposite-forged-pair-cross-batch", oppositePair(false)},
		// the neutral point as a signature
		{"neutral-single", func(items []aggItem, bs int, r *mon.Rand, _ []*encryption.BLS0ChainScheme) []int {
			i := r.Intn(len(items))
			items[i].sig = c32NeutralSig()
			return []int{i}
		}},
		{"neutral-all", func(items []aggItem, bs int, r *mon.Rand, _ []*encryption.BLS0ChainScheme) []int {
			if len(items) < 2 {
				return nil // n=1 is neutral-single
			}
			for i := range items {
				items[i].sig = c32NeutralSig()
			}
			return ends(all(len(items)))
		}},
		// neutral signatures fill whole batches (those batches aggregate to the neutral point), the rest honest
		{"neutral-one-batch", func(items []aggItem, bs int, r *mon.Rand, _ []*encryption.BLS0ChainScheme) []int {
			if bs >= len(items) {
				return nil
			}
			nb := (len(items) + bs - 1) / bs
			b := r.Intn(nb)
			en := (b + 1) * bs
			if en > len(items) {
				en = len(items)
			}
			p := all(en)[b*bs:]
			for _, i := range p {
				items[i].sig = c32NeutralSig()
			}
			return ends(p)
		}},
	}
}

func c32Signature(pattern string) string {
	switch pattern {
	case "cancelling-pair", "cancelling-pair-cross-batch":
		return "C32:cancelling-pair"
	case "swapped-signatures", "swapped-messages":
		// two valid signatures attached to each other's item (for one signer, swapping the messages is the same thing)
		return "C32:accepts-invalid-permuted-pair"
	}
	return "C32:accepts-invalid-" + pattern
}

// runAggregate feeds the items to the real scheme exactly as ValidateTransactions / VerifyTickets do.
func runAggregate(items []aggItem, bs int) (accept bool, how string, inconsistent bool) {
	p := guard(func() {
		agg := encryption.GetAggregateSignatureScheme(encryption.SignatureSchemeBls0chain, len(items), bs)
		for i, it := range items {
			ss := encryption.NewBLS0ChainScheme()
			if err := ss.SetPublicKey(it.pubHex); err != nil {
				how = "rejects:set-public-key"
				return
			}
			if err := agg.Aggregate(ss, i, it.sig, it.hash); err != nil {
				how = "rejects:aggregate-error"
				return
			}
		}
		ok, err := agg.Verify()
		if ok != (err == nil) {
			inconsistent = true
		}
		// the callers look at err only
		if err == nil {
			accept, how = true, "ACCEPTS"
		} else {
			how = "rejects:verify"
		}
	})
	if p != "" {
		return false, "PANIC:" + p, false
	}
	return
}

func c32Child(run *mon.Run, tier, name string) {
	switch {
	case name == "vt":
		c32RealPaths(run, tier)
		return
	case name == "vtpanic":
		c32MalformedInBlock(run)
		return
	}
	ci := idx(name)
	r := rnd("c32/" + name)
	ns := []int{1, 2, 3, 4, 5, 8, 13, 21, 34, 64}
	reps := 1
	if tier == "thorough" {
		ns = []int{1, 2, 3, 4, 5, 6, 7, 8, 9, 12, 13, 16, 21, 32, 34, 48, 55, 63, 64}
		reps = 8
	}
	nChildren := 4
	if tier == "thorough" {
		nChildren = 8
	}
	pats := aggPatterns()
	caseNo := 0
	for _, n := range ns {
		// keys, messages, signatures of this size class
		signers := make([]*encryption.BLS0ChainScheme, n)
		base := make([]aggItem, n)
		for i := 0; i < n; i++ {
			ss := encryption.NewBLS0ChainScheme()
			if err := ss.GenerateKeys(); err != nil {
				panic(err)
			}
			signers[i] = ss
			h := encryption.Hash(randBytes(r, 40))
			sg, err := ss.Sign(h)
			if err != nil {
				panic(err)
			}
			base[i] = aggItem{pubHex: ss.GetPublicKey(), hash: h, sig: sg}
		}
		if n >= 4 {
			// two items of one signer, and two signers on one message (tickets look like that)
			s2, _ := signers[0].Sign(base[1].hash)
			base[1] = aggItem{pubHex: signers[0].GetPublicKey(), hash: base[1].hash, sig: s2}
			signers[1] = signers[0]
			s3, _ := signers[3].Sign(base[2].hash)
			base[3] = aggItem{pubHex: signers[3].GetPublicKey(), hash: base[2].hash, sig: s3}
		}
		bss := map[int]bool{1: true, 2: true, 3: true, n / 2: true, n - 1: true, n: true, n + 1: true, 64: true}
		for bs := 1; bs <= 65; bs++ {
			if !bss[bs] {
				continue
			}
			for _, pat := range pats {
				for rep := 0; rep < reps; rep++ {
					caseNo++
					if caseNo%nChildren != ci%nChildren {
						continue
					}
					rr := r.Fork(fmt.Sprintf("n%d-bs%d-%s-%d", n, bs, pat.name, rep))
					items := append([]aggItem{}, base...)
					touched := pat.apply(items, bs, rr, signers)
					if touched == nil {
						run.Count("c32.pattern_not_applicable", 1)
						continue
					}
					allValid := true
					nInvalid := 0
					for _, it := range items {
						if !refValid(it) {
							allValid = false
							nInvalid++
						}
					}
					if pat.name != "none" && allValid {
						// the corruption happened to be harmless (e.g. swapped identical items): not a case of this class
						run.Count("c32.corruption_harmless", 1)
						continue
					}
					accept, how, inconsistent := runAggregate(items, bs)
					run.Eval(1)
					run.Count("c32.aggregate_evaluated", 1)
					run.Count("c32.pattern."+pat.name, 1)
					posClass := "same-batch"
					if len(touched) >= 2 && touched[0]/bs != touched[1]/bs {
						posClass = "cross-batch"
					}
					nb := (n + bs - 1) / bs
					run.Distinct(fmt.Sprintf("n=%d|bs=%d|batches=%d|%s|%s|%s", n, bs, nb, pat.name, posClass, how))
					rep := map[string]interface{}{"seed": mon.Seed(), "n": n, "batch_size": bs, "pattern": pat.name, "positions": touched, "items": items}
					if inconsistent {
						violate(run, "C32:verify-bool-and-error-disagree", fmt.Sprintf("Verify returned a bool that disagrees with its error (n=%d bs=%d pattern %s); callers only look at the error", n, bs, pat.name), rep)
					}
					switch {
					case len(how) > 5 && how[:5] == "PANIC":
						violate(run, "C32:panic-"+pat.name, fmt.Sprintf("aggregate scheme panicked: n=%d batch size %d pattern %s: %s", n, bs, pat.name, how), rep)
					case allValid && accept:
						run.Count("c32.all_valid_accepted", 1)
					case allValid && !accept:
						violate(run, "C32:rejects-all-valid", fmt.Sprintf("n=%d batch size %d: every signature verifies individually but the aggregate says %s", n, bs, how), rep)
					case !allValid && accept:
						violate(run, c32Signature(pat.name), fmt.Sprintf("n=%d batch size %d (%d batches), pattern %s at positions %v (%s): %d signatures fail individual verification but Aggregate+Verify accept", n, bs, nb, pat.name, touched, posClass, nInvalid), rep)
					default:
						run.Count("c32.invalid_rejected", 1)
					}
					if n == 5 {
						run.Sample(map[string]interface{}{"n": n, "batch_size": bs, "pattern": pat.name, "positions": touched, "individually_invalid": nInvalid, "aggregate": how})
					}
				}
			}
		}
		run.Checkpoint()
	}
}

// c32RealPaths drives miner.Chain.ValidateTransactions and chain.Chain.VerifyTickets with the same pattern classes.
func c32RealPaths(run *mon.Run, tier string) {
	w := world.New(world.Options{Seed: mon.Seed()*100 + 32, NumMiners: 7})
	defer w.Close()
	w.Now = world.Epoch + 9000
	miner.SetupMinerChain(w.Chain)
	mc := miner.GetMinerChain()
	ctx := context.Background()
	r := rnd("c32/vt")
	pats := aggPatterns()

	// ---- ValidateTransactions
	ns := []int{2, 3, 5, 9, 16}
	if tier == "thorough" {
		ns = []int{1, 2, 3, 4, 5, 8, 9, 16, 33, 64}
	}
	round := int64(10)
	for _, n := range ns {
		wallets := make([]*world.Wallet, n)
		for i := range wallets {
			wallets[i] = world.NewWallet(fmt.Sprintf("%d:c32-vt-%d-%d", mon.Seed(), n, i))
		}
		for _, bs := range []int{1, 2, 4, n, 1000} {
			viper.Set("server_chain.block.validation.batch_size", bs)
			if err := w.Chain.ChainConfig.FromViper(); err != nil {
				panic(err)
			}
			if mc.ValidationBatchSize() != bs {
				run.Inconclusive("cannot set validation batch size")
				return
			}
			for _, pat := range pats {
				if pat.name == "wrong-key" || pat.name == "single-other-signer" {
					continue // a txn's key is bound to its client id by decoding; covered by the scheme-level cases
				}
				rr := r.Fork(fmt.Sprintf("vt-n%d-bs%d-%s", n, bs, pat.name))
				txns := make([]*transaction.Transaction, n)
				items := make([]aggItem, n)
				for i := range txns {
					t := w.MakeTxn(world.TxnSpec{From: wallets[i], To: w.Clients[0].ID, Value: currency.Coin(1 + i), Fee: 1e9, Nonce: int64(1 + rr.Intn(100)), Type: transaction.TxnTypeSend})
					t.OutputHash = t.ComputeOutputHash()
					txns[i] = t
					items[i] = aggItem{pubHex: t.PublicKey, hash: t.Hash, sig: t.Signature}
				}
				touched := pat.apply(items, bs, rr, nil)
				if touched == nil {
					continue
				}
				hashTouched := false
				for i := range txns {
					if items[i].hash != txns[i].Hash {
						hashTouched = true
					}
					txns[i].Signature = items[i].sig
				}
				if hashTouched {
					continue // message corruption is a txn-hash matter (C30), not a signature batch matter
				}
				allValid := true
				for _, it := range items {
					if !refValid(it) {
						allValid = false
					}
				}
				if pat.name != "none" && allValid {
					continue
				}
				round++
				b := block.NewBlock(w.Chain.GetKey(), round)
				b.CreationDate = w.Now
				b.Txns = txns
				var verr error
				p := guard(func() { verr = mc.ValidateTransactions(ctx, b) })
				accept := p == "" && verr == nil
				how := "ACCEPTS"
				if p != "" {
					how = "PANIC"
				} else if verr != nil {
					how = "rejects:" + errCode(verr)
				}
				run.Eval(1)
				run.Count("c32.validate_transactions_evaluated", 1)
				run.Count("c32.aggregate_evaluated", 1)
				run.Distinct(fmt.Sprintf("ValidateTransactions|n=%d|bs=%d|%s|%s", n, bs, pat.name, how))
				rep := map[string]interface{}{"seed": mon.Seed(), "path": "miner.Chain.ValidateTransactions", "n": n, "batch_size": bs, "pattern": pat.name, "positions": touched, "items": items}
				switch {
				case p != "":
					violate(run, "C32:panic-"+pat.name, fmt.Sprintf("ValidateTransactions panicked (n=%d bs=%d %s): %s", n, bs, pat.name, p), rep)
				case allValid && accept:
					run.Count("c32.all_valid_accepted", 1)
				case allValid && !accept:
					violate(run, "C32:rejects-all-valid", fmt.Sprintf("ValidateTransactions rejects a block of %d individually valid txns (batch size %d): %v", n, bs, verr), rep)
				case !allValid && accept:
					run.Count("c32.ValidateTransactions_accepts_invalid."+pat.name, 1)
					violate(run, c32Signature(pat.name), fmt.Sprintf("miner.Chain.ValidateTransactions accepts a block of %d txns (validation batch size %d) whose signatures at positions %v fail individual verification (pattern %s)", n, bs, touched, pat.name), rep)
				default:
					run.Count("c32.invalid_rejected", 1)
				}
			}
		}
		run.Checkpoint()
	}

	// ---- ValidateTransactions on blocks with transactions that were validated before (validated-transactions cache)
	c32Prevalidated(run, w, mc, r.Fork("prevalidated"), tier)

	// ---- VerifyTickets: one message (the block hash), one ticket per miner
	miners := w.Miners
	for k := 1; k <= len(miners); k++ {
		for _, pat := range pats {
			if pat.name == "wrong-message" || pat.name == "swapped-messages" || pat.name == "wrong-key" || pat.name == "cancelling-pair-cross-batch" {
				continue // all tickets share one message and one batch; keys are looked up by verifier id
			}
			rr := r.Fork(fmt.Sprintf("tickets-k%d-%s", k, pat.name))
			bh := encryption.Hash(randBytes(rr, 32))
			items := make([]aggItem, k)
			signers := make([]*encryption.BLS0ChainScheme, k)
			for i := 0; i < k; i++ {
				items[i] = aggItem{pubHex: miners[i].PubKey, hash: bh, sig: miners[i].Sign(bh)}
				signers[i] = miners[i].Scheme.(*encryption.BLS0ChainScheme)
			}
			touched := pat.apply(items, k, rr, signers)
			if touched == nil {
				continue
			}
			allValid := true
			for _, it := range items {
				if !refValid(it) {
					allValid = false
				}
			}
			if pat.name != "none" && allValid {
				continue
			}
			var bvts []*block.VerificationTicket
			for i := 0; i < k; i++ {
				bvts = append(bvts, &block.VerificationTicket{VerifierID: miners[i].ID, Signature: items[i].sig})
			}
			var verr error
			p := guard(func() { verr = w.Chain.VerifyTickets(ctx, bh, bvts, 1) })
			accept := p == "" && verr == nil
			how := "ACCEPTS"
			if p != "" {
				how = "PANIC"
			} else if verr != nil {
				how = "rejects:" + errCode(verr)
			}
			run.Eval(1)
			run.Count("c32.verify_tickets_evaluated", 1)
			run.Count("c32.aggregate_evaluated", 1)
			run.Distinct(fmt.Sprintf("VerifyTickets|k=%d|%s|%s", k, pat.name, how))
			rep := map[string]interface{}{"seed": mon.Seed(), "path": "chain.Chain.VerifyTickets", "tickets": k, "pattern": pat.name, "positions": touched, "items": items}
			switch {
			case p != "":
				violate(run, "C32:panic-"+pat.name, fmt.Sprintf("VerifyTickets panicked (k=%d %s): %s", k, pat.name, p), rep)
			case allValid && accept:
				run.Count("c32.all_valid_accepted", 1)
			case allValid && !accept:
				violate(run, "C32:rejects-all-valid", fmt.Sprintf("VerifyTickets rejects %d individually valid tickets: %v", k, verr), rep)
			case !allValid && accept:
				run.Count("c32.VerifyTickets_accepts_invalid."+pat.name, 1)
				violate(run, c32Signature(pat.name), fmt.Sprintf("chain.Chain.VerifyTickets accepts %d tickets on one block hash although the tickets at positions %v fail individual verification (pattern %s)", k, touched, pat.name), rep)
			default:
				run.Count("c32.invalid_rejected", 1)
			}
		}
	}
}

// c32MalformedInBlock: a block whose last transaction carries a malformed (MIRACL-looking) signature string goes
// through the real ValidateTransactions. Rejection is the expected behaviour; the code may instead abort the
// process (panic in a goroutine), which the parent records as an observation.
func c32MalformedInBlock(run *mon.Run) {
	w := world.New(world.Options{Seed: mon.Seed()*100 + 34})
	defer w.Close()
	w.Now = world.Epoch + 9000
	miner.SetupMinerChain(w.Chain)
	mc := miner.GetMinerChain()
	var txns []*transaction.Transaction
	for i := 0; i < 3; i++ {
		t := w.MakeTxn(world.TxnSpec{From: w.Clients[i], To: w.Clients[5].ID, Value: 1, Fee: 1e9, Nonce: 1, Type: transaction.TxnTypeSend})
		t.OutputHash = t.ComputeOutputHash()
		txns = append(txns, t)
	}
	txns[2].Signature = "(zz,zz)"
	b := block.NewBlock(w.Chain.GetKey(), 20)
	b.CreationDate = w.Now
	b.Txns = txns
	run.Checkpoint()
	fmt.Println("calling ValidateTransactions with a malformed signature string")
	err := mc.ValidateTransactions(context.Background(), b)
	run.Eval(1)
	run.Count("c32.aggregate_evaluated", 1)
	run.Distinct(fmt.Sprintf("ValidateTransactions|malformed-signature-string|err=%v", err != nil))
	if err == nil {
		violate(run, "C32:accepts-invalid-malformed-signature-string", "ValidateTransactions accepted a block with a transaction whose signature is the string \"(zz,zz)\"", nil)
	} else {
		run.Count("c32.invalid_rejected", 1)
	}
}

// c32Prevalidated: some of a block's transactions were validated on their own before and recorded in the chain's
// validated-transactions cache (Chain.AddValidatedTxns(hash, signature)), as the transaction pool path does. The block
// then arrives (a) unchanged, (b) with the signature of one recorded transaction replaced (the hash does not cover the
// signature, so the hash still matches the record), (c) with an unrecorded transaction corrupted, (d) with a record that
// holds another signature than the block. Oracle as everywhere in C32: the block is accepted exactly when every signature
// THE BLOCK CARRIES verifies individually (herumi), whatever was validated earlier.
func c32Prevalidated(run *mon.Run, w *world.World, mc *miner.Chain, r *mon.Rand, tier string) {
	ctx := context.Background()
	ns := []int{2, 3, 5, 9, 16}
	if tier == "thorough" {
		ns = []int{2, 3, 4, 5, 8, 9, 16, 33, 64}
	}
	type delivery struct {
		name   string
		tamper func(rr *mon.Rand, genuine string, hash string, other *world.Wallet) string // new signature of the chosen recorded txn
	}
	deliveries := []delivery{
		{"unchanged", nil},
		{"recorded-txn-signed-by-other-key", func(rr *mon.Rand, g, h string, other *world.Wallet) string { return other.Sign(h) }},
		{"recorded-txn-signature-shifted", func(rr *mon.Rand, g, h string, _ *world.Wallet) string { return addToSig(g, randG1(rr), false) }},
		{"recorded-txn-signature-random-point", func(rr *mon.Rand, g, h string, _ *world.Wallet) string {
			return bls.CastToSign(randG1(rr)).SerializeToHexStr()
		}},
		{"recorded-txn-signature-neutral", func(rr *mon.Rand, g, h string, _ *world.Wallet) string { return c32NeutralSig() }},
		{"recorded-txn-signature-empty", func(rr *mon.Rand, g, h string, _ *world.Wallet) string { return "" }},
		{"unrecorded-txn-signature-shifted", nil},
		{"record-holds-other-signature", nil},
	}
	subsetKinds := []string{"one", "two", "half", "all-but-one-per-batch", "batch-heads", "batch-tails"}
	round := int64(100000)
	for _, n := range ns {
		wallets := make([]*world.Wallet, n+1)
		for i := range wallets {
			wallets[i] = world.NewWallet(fmt.Sprintf("%d:c32-pv-%d-%d", mon.Seed(), n, i))
		}
		seenBS := map[int]bool{}
		for _, bs := range []int{2, 3, 4, n / 2, n, 1000} {
			if bs < 2 || seenBS[bs] {
				continue
			}
			seenBS[bs] = true
			viper.Set("server_chain.block.validation.batch_size", bs)
			if err := w.Chain.ChainConfig.FromViper(); err != nil {
				panic(err)
			}
			if mc.ValidationBatchSize() != bs {
				run.Inconclusive("cannot set validation batch size")
				return
			}
			for _, kind := range subsetKinds {
				for _, dl := range deliveries {
					rr := r.Fork(fmt.Sprintf("pv-n%d-bs%d-%s-%s", n, bs, kind, dl.name))
					txns := make([]*transaction.Transaction, n)
					genuine := make([]string, n)
					for i := range txns {
						t := w.MakeTxn(world.TxnSpec{From: wallets[i], To: w.Clients[0].ID, Value: currency.Coin(1 + i), Fee: 1e9, Nonce: int64(1 + rr.Intn(1000)), Type: transaction.TxnTypeSend})
						t.OutputHash = t.ComputeOutputHash()
						txns[i] = t
						genuine[i] = t.Signature
					}
					// which transactions were validated before. Every validation batch keeps one transaction (the keeper, seeded
					// position) that was never validated: a batch made of recorded transactions only contributes nothing to the
					// aggregate (see the report; BLS0ChainAggregateSignatureScheme.Verify dereferences the empty slot).
					var rec, cand []int
					for st := 0; st < n; st += bs {
						en := st + bs
						if en > n {
							en = n
						}
						keeper := st + rr.Intn(en-st)
						if kind == "batch-heads" {
							keeper = en - 1
						} else if kind == "batch-tails" {
							keeper = st
						}
						for i := st; i < en; i++ {
							if i != keeper {
								cand = append(cand, i)
							}
						}
						if en-st >= 2 {
							switch kind {
							case "batch-heads":
								rec = append(rec, st)
							case "batch-tails":
								rec = append(rec, en-1)
							}
						}
					}
					pickCand := func(k int) []int {
						if len(cand) == 0 {
							return nil
						}
						if k > len(cand) {
							k = len(cand)
						}
						var out []int
						for _, x := range pickDistinct(rr, len(cand), k) {
							out = append(out, cand[x])
						}
						return out
					}
					switch kind {
					case "one":
						rec = pickCand(1)
					case "two":
						rec = pickCand(2)
					case "half":
						rec = pickCand((n + 1) / 2)
					case "all-but-one-per-batch":
						rec = pickCand(len(cand))
					}
					if rec == nil {
						run.Count("c32.pattern_not_applicable", 1)
						continue
					}
					recorded := map[int]string{}
					for _, i := range rec {
						// validated on its own first (reference verdict), then recorded
						if !refValid(aggItem{pubHex: txns[i].PublicKey, hash: txns[i].Hash, sig: genuine[i]}) {
							panic("c32: generated transaction does not verify")
						}
						recorded[i] = genuine[i]
					}
					touched := []int{}
					switch {
					case dl.tamper != nil:
						i := rec[rr.Intn(len(rec))]
						txns[i].Signature = dl.tamper(rr, genuine[i], txns[i].Hash, wallets[(i+1+rr.Intn(n))%(n+1)])
						touched = []int{i}
					case dl.name == "unrecorded-txn-signature-shifted":
						var free []int
						for i := range txns {
							if _, ok := recorded[i]; !ok {
								free = append(free, i)
							}
						}
						if len(free) == 0 {
							continue
						}
						i := free[rr.Intn(len(free))]
						txns[i].Signature = addToSig(genuine[i], randG1(rr), false)
						touched = []int{i}
					case dl.name == "record-holds-other-signature":
						i := rec[rr.Intn(len(rec))]
						recorded[i] = addToSig(genuine[i], randG1(rr), false)
						touched = []int{i}
					}
					items := make([]aggItem, n)
					allValid := true
					for i, t := range txns {
						items[i] = aggItem{pubHex: t.PublicKey, hash: t.Hash, sig: t.Signature}
						if !refValid(items[i]) {
							allValid = false
						}
					}
					if allValid != (dl.name == "unchanged" || dl.name == "record-holds-other-signature") {
						run.Count("c32.corruption_harmless", 1)
						continue
					}
					var hashes []string
					for i, sg := range recorded {
						mc.AddValidatedTxns(txns[i].Hash, sg)
						hashes = append(hashes, txns[i].Hash)
					}
					round++
					b := block.NewBlock(w.Chain.GetKey(), round)
					b.CreationDate = w.Now
					b.Txns = txns
					var verr error
					p := guard(func() { verr = mc.ValidateTransactions(ctx, b) })
					mc.DeleteValidatedTxns(hashes)
					accept := p == "" && verr == nil
					how := "ACCEPTS"
					if p != "" {
						how = "PANIC"
					} else if verr != nil {
						how = "rejects:" + errCode(verr)
					}
					posClass := "-"
					if len(touched) == 1 {
						switch i := touched[0]; {
						case i%bs == 0 && (i%bs == bs-1 || i == n-1):
							posClass = "alone-in-batch"
						case i%bs == 0:
							posClass = "batch-head"
						case i%bs == bs-1 || i == n-1:
							posClass = "batch-tail"
						default:
							posClass = "batch-middle"
						}
					}
					run.Eval(1)
					run.Count("c32.validate_transactions_evaluated", 1)
					run.Count("c32.aggregate_evaluated", 1)
					run.Count("c32.prevalidated_evaluated", 1)
					run.Count("c32.prevalidated."+dl.name, 1)
					run.Distinct(fmt.Sprintf("ValidateTransactions|prevalidated|n=%d|bs=%d|recorded=%s|%s|%s|%s", n, bs, kind, dl.name, posClass, how))
					rep := map[string]interface{}{"seed": mon.Seed(), "path": "miner.Chain.ValidateTransactions after Chain.AddValidatedTxns", "n": n, "batch_size": bs, "recorded_positions": rec, "recorded_signatures": recorded, "delivery": dl.name, "positions": touched, "items": items}
					switch {
					case p != "":
						violate(run, "C32:panic-prevalidated-"+dl.name, fmt.Sprintf("ValidateTransactions panicked (n=%d bs=%d, transactions %v validated before, %s): %s", n, bs, rec, dl.name, p), rep)
					case allValid && accept:
						run.Count("c32.all_valid_accepted", 1)
						run.Count("c32.prevalidated_all_valid_accepted", 1)
					case allValid && !accept:
						violate(run, "C32:rejects-all-valid", fmt.Sprintf("ValidateTransactions rejects a block of %d individually valid txns (batch size %d) of which %v were validated before (%s): %v", n, bs, rec, dl.name, verr), rep)
					case !allValid && accept:
						run.Count("c32.ValidateTransactions_accepts_invalid.prevalidated-"+dl.name, 1)
						violate(run, "C32:accepts-invalid-prevalidated-"+dl.name, fmt.Sprintf("miner.Chain.ValidateTransactions accepts a block of %d txns (validation batch size %d, txns %v validated before and recorded with their genuine signatures) although the signature the block carries at position %v fails individual verification (%s, %s)", n, bs, rec, touched, dl.name, posClass), rep)
					default:
						run.Count("c32.invalid_rejected", 1)
						run.Count("c32.prevalidated_invalid_rejected", 1)
					}
				}
			}
		}
		run.Checkpoint()
	}
}
