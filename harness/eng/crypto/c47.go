package crypto

import (
	"context"
	"crypto/ed25519"
	"encoding/hex"
	"fmt"
	"strings"

	"0chain.net/chaincore/client"
	"0chain.net/chaincore/transaction"
	"0chain.net/core/datastore"
	"0chain.net/core/encryption"
	"github.com/herumi/bls-go-binary/bls"
	"golang.org/x/crypto/sha3"

	"verifh/mon"
	"verifh/world"
)

// refVerify is the trusted primitive applied to raw bytes: no 0chain code.
func refVerify(scheme string, pub, sig, msg []byte) bool {
	if scheme == encryption.SignatureSchemeEd25519 {
		if len(pub) != ed25519.PublicKeySize {
			return false
		}
		return ed25519.Verify(ed25519.PublicKey(pub), msg, sig)
	}
	var pk bls.PublicKey
	if pk.Deserialize(pub) != nil {
		return false
	}
	var s bls.Sign
	if s.Deserialize(sig) != nil {
		return false
	}
	return s.Verify(&pk, string(msg))
}

func refClientID(pub []byte) string {
	h := sha3.Sum256(pub)
	return hex.EncodeToString(h[:])
}

// verifyWith builds a verify-only scheme object the way client.SetPublicKey does and calls Verify.
func verifyWith(scheme, pubHex, sigHex, hashHex string) (outcome string) {
	p := guard(func() {
		v := encryption.GetSignatureScheme(scheme)
		if err := v.SetPublicKey(pubHex); err != nil {
			outcome = "error:set-public-key"
			return
		}
		ok, err := v.Verify(sigHex, hashHex)
		switch {
		case ok && err == nil:
			outcome = "TRUE"
		case ok:
			outcome = "TRUE-with-error"
		case err != nil:
			outcome = "error:verify"
		default:
			outcome = "false"
		}
	})
	if p != "" {
		return "PANIC:" + p
	}
	return outcome
}

func flipBit(b []byte, i int) []byte {
	o := append([]byte{}, b...)
	o[i/8] ^= 1 << uint(i%8)
	return o
}

func c47Child(run *mon.Run, tier, name string) {
	if name == "client" {
		c47Client(run, tier)
		return
	}
	scheme := name
	w := world.New(world.Options{Seed: mon.Seed()*100 + 48}) // entity metadata for client.NewClient
	defer w.Close()
	client.SetClientSignatureScheme(scheme)
	r := rnd("c47/" + scheme)
	nKeys, nHashes, sampleFlips := 6, 3, 24
	if tier == "thorough" {
		nKeys, nHashes, sampleFlips = 24, 6, 128
	}
	wallets := make([]*world.Wallet, nKeys)
	for i := range wallets {
		wallets[i] = schemeWallet(scheme, fmt.Sprintf("%d:c47-%s-%d", mon.Seed(), scheme, i))
	}
	judge := func(class, pubHex, sigHex, hashHex string, want string, detail string) {
		// want: "TRUE", "not-true" or "ref" (= whatever the trusted primitive says on the same bytes)
		got := verifyWith(scheme, pubHex, sigHex, hashHex)
		run.Eval(1)
		run.Sample(map[string]interface{}{"scheme": scheme, "class": class, "expected": want, "verify": got, "detail": detail})
		if want == "TRUE" {
			run.Count("c47.positive", 1)
		} else {
			run.Count("c47.negative", 1)
		}
		g := strings.SplitN(got, ":", 2)[0]
		run.Distinct(fmt.Sprintf("%s|%s|%s", scheme, class, got))
		run.Count("c47.outcome."+g, 1)
		rep := map[string]interface{}{"seed": mon.Seed(), "scheme": scheme, "class": class, "public_key": trunc(pubHex), "signature": trunc(sigHex), "hash": trunc(hashHex), "outcome": got}
		if g == "PANIC" {
			violate(run, panicSignature(scheme, class, got), fmt.Sprintf("%s Verify panicked on %s (%s): %s", scheme, class, detail, got), rep)
			return
		}
		if want == "ref" {
			pub, e1 := hex.DecodeString(pubHex)
			sig, e2 := hex.DecodeString(sigHex)
			msg, e3 := hex.DecodeString(hashHex)
			want = "not-true"
			if e1 == nil && e2 == nil && e3 == nil && refVerify(scheme, pub, sig, msg) {
				want = "TRUE"
				run.Count("c47.tampered_but_valid_by_primitive", 1)
			}
		}
		isTrue := g == "TRUE" || g == "TRUE-with-error"
		switch {
		case want == "TRUE" && !isTrue:
			violate(run, "C47:rejects-valid-"+scheme+"-"+class, fmt.Sprintf("%s: a signature made with the matching private key does not verify (%s): %s", scheme, detail, got), rep)
		case want == "not-true" && isTrue:
			violate(run, "C47:accepts-"+scheme+"-"+class, fmt.Sprintf("%s: Verify returns true for %s (%s)", scheme, class, detail), rep)
		}
	}
	for ki, wl := range wallets {
		pubBytes, _ := hex.DecodeString(wl.PubKey)
		for hi := 0; hi < nHashes; hi++ {
			h := encryption.Hash(randBytes(r, 16+r.Intn(64)))
			hb, _ := hex.DecodeString(h)
			sig := wl.Sign(h)
			sb, err := hex.DecodeString(sig)
			if err != nil {
				panic(err)
			}
			// the signature is valid by the primitive itself (Sign side) and by Verify (wrapper side)
			if !refVerify(scheme, pubBytes, sb, hb) {
				violate(run, "C47:sign-produces-invalid-signature-"+scheme, fmt.Sprintf("%s: Sign output does not verify with the primitive", scheme), nil)
			}
			judge("matching-key-and-hash", wl.PubKey, sig, h, "TRUE", fmt.Sprintf("key %d hash %d", ki, hi))
			// through the client entity as well (scheme chosen by the option / the package default)
			{
				var ok bool
				var cerr error
				p := guard(func() {
					c := client.NewClient(client.SignatureScheme(scheme))
					if cerr = c.SetPublicKey(wl.PubKey); cerr == nil {
						ok, cerr = c.Verify(sig, h)
					}
				})
				run.Eval(1)
				run.Count("c47.positive", 1)
				run.Distinct(fmt.Sprintf("%s|client-verify|%v|%v|%s", scheme, ok, cerr != nil, p))
				if p != "" || !ok || cerr != nil {
					violate(run, "C47:rejects-valid-"+scheme+"-client-verify", fmt.Sprintf("%s: Client.Verify of a valid signature: ok=%v err=%v panic=%q", scheme, ok, cerr, p), nil)
				}
			}
			// wrong key: every other key
			for oi, o := range wallets {
				if oi != ki {
					judge("other-key", o.PubKey, sig, h, "not-true", fmt.Sprintf("signed by key %d, verified under key %d", ki, oi))
				}
			}
			// wrong hash
			judge("other-hash", wl.PubKey, sig, encryption.Hash(randBytes(r, 32)), "not-true", "unrelated hash")
			judge("other-hash-prefix", wl.PubKey, sig, h[:len(h)-2], "not-true", "hash without its last byte")
			judge("other-hash-extended", wl.PubKey, sig, h+"00", "not-true", "hash with a zero byte appended")
			nbits := len(hb) * 8
			for b := 0; b < nbits; b++ {
				if !(ki == 0 && hi == 0) && b%(nbits/sampleFlips+1) != (ki+hi)%(nbits/sampleFlips+1) {
					continue
				}
				judge("hash-bit-flip", wl.PubKey, sig, hex.EncodeToString(flipBit(hb, b)), "not-true", fmt.Sprintf("bit %d of the hash flipped", b))
			}
			// tampered signature: every single-bit flip (first case), a sample otherwise; judged by the primitive on the same bytes
			nbits = len(sb) * 8
			for b := 0; b < nbits; b++ {
				if !(ki == 0 && hi == 0) && b%(nbits/sampleFlips+1) != (ki+hi)%(nbits/sampleFlips+1) {
					continue
				}
				judge("signature-bit-flip", wl.PubKey, hex.EncodeToString(flipBit(sb, b)), h, "ref", fmt.Sprintf("bit %d of the signature flipped", b))
			}
			// tampered public key
			nbits = len(pubBytes) * 8
			for b := 0; b < nbits; b++ {
				if !(ki == 0 && hi == 0) && b%(nbits/sampleFlips+1) != (ki+hi)%(nbits/sampleFlips+1) {
					continue
				}
				judge("public-key-bit-flip", hex.EncodeToString(flipBit(pubBytes, b)), sig, h, "ref", fmt.Sprintf("bit %d of the public key flipped", b))
			}
			if hi > 0 {
				continue
			}
			// empty / short / oversized / non-hex inputs
			big := strings.Repeat("ab", 1024)
			for _, m := range []struct{ class, v string }{
				{"signature-empty", ""}, {"signature-non-hex", "zz" + sig[2:]}, {"signature-odd-length", sig[:len(sig)-1]},
				{"signature-one-byte", "00"}, {"signature-truncated", sig[:len(sig)-2]}, {"signature-extended", sig + "00"},
				{"signature-oversized", big}, {"signature-all-zero", strings.Repeat("00", len(sb))}, {"signature-all-ff", strings.Repeat("ff", len(sb))},
				{"signature-miracl-form-garbage", "(zz,zz)"}, {"signature-miracl-form-no-comma", "(abcdef)"},
				{"signature-miracl-form-off-curve", "(" + strings.Repeat("1", 64) + "," + strings.Repeat("2", 64) + ")"},
			} {
				judge(m.class, wl.PubKey, m.v, h, "not-true", m.class)
			}
			for _, m := range []struct{ class, v string }{
				{"hash-empty", ""}, {"hash-non-hex", "zz" + h[2:]}, {"hash-odd-length", h[:len(h)-1]}, {"hash-oversized", big},
			} {
				judge(m.class, wl.PubKey, sig, m.v, "not-true", m.class)
			}
			for _, m := range []struct{ class, v string }{
				{"public-key-empty", ""}, {"public-key-non-hex", "zz" + wl.PubKey[2:]}, {"public-key-odd-length", wl.PubKey[:len(wl.PubKey)-1]},
				{"public-key-two-bytes", "abcd"}, {"public-key-truncated", wl.PubKey[:len(wl.PubKey)-2]}, {"public-key-extended", wl.PubKey + "00"},
				{"public-key-oversized", big}, {"public-key-all-zero", strings.Repeat("00", len(pubBytes))},
				{"public-key-miracl-length-garbage", strings.Repeat("0", 258)}, {"public-key-miracl-length-non-hex", strings.Repeat("z", 258)},
			} {
				judge(m.class, m.v, sig, h, "not-true", m.class)
			}
		}
		run.Checkpoint()
	}
	// signatures over unusual message lengths verify as well (a hash is any byte string to the schemes)
	for _, ln := range []int{0, 1, 31, 33, 64, 1000} {
		wl := wallets[0]
		h := hex.EncodeToString(randBytes(r, ln))
		var sig string
		var err error
		p := guard(func() { sig, err = wl.Scheme.Sign(h) })
		if p != "" {
			violate(run, "C47:panic-"+scheme+"-sign-unusual-length", fmt.Sprintf("%s Sign panicked on a %d byte message: %s", scheme, ln, p), nil)
			continue
		}
		if err != nil {
			run.Distinct(fmt.Sprintf("%s|sign-len-%d|error", scheme, ln))
			continue
		}
		judge(fmt.Sprintf("message-length-%d", ln), wl.PubKey, sig, h, "TRUE", "unusual message length")
	}
}

// panicSignature names a panic by its root cause (the library call that aborts), else by scheme and input class.
func panicSignature(scheme, class, got string) string {
	switch {
	case strings.Contains(got, "ed25519: bad public key length"):
		return "C47:panic-ed25519-public-key-length"
	case strings.Contains(got, "blsSignatureSetHexStr"):
		return "C47:panic-bls0chain-miracl-form-signature"
	case strings.Contains(got, "blsPublicKeySetHexStr"):
		return "C47:panic-bls0chain-miracl-length-public-key"
	}
	return "C47:panic-" + scheme + "-" + class
}

func trunc(s string) string {
	if len(s) > 300 {
		return s[:300] + fmt.Sprintf("...(%d chars)", len(s))
	}
	return s
}

// c47Client: a client id is always the hash of the public key.
func c47Client(run *mon.Run, tier string) {
	w := world.New(world.Options{Seed: mon.Seed()*100 + 47})
	defer w.Close()
	ctx := context.Background()
	nKeys := 12
	if tier == "thorough" {
		nKeys = 100
	}
	for _, scheme := range []string{encryption.SignatureSchemeBls0chain, encryption.SignatureSchemeEd25519} {
		client.SetClientSignatureScheme(scheme)
		for i := 0; i < nKeys; i++ {
			wl := schemeWallet(scheme, fmt.Sprintf("%d:c47-client-%s-%d", mon.Seed(), scheme, i))
			pub, _ := hex.DecodeString(wl.PubKey)
			want := refClientID(pub)
			otherID := refClientID([]byte("someone else"))
			check := func(what string, ok bool, detail string) {
				run.Eval(1)
				run.Count("c47.positive", 1)
				run.Count("c47.client."+what, 1)
				run.Distinct(fmt.Sprintf("%s|client|%s|%v", scheme, what, ok))
				if !ok {
					violate(run, "C47:client-id-"+what, fmt.Sprintf("%s key %d: %s", scheme, i, detail), map[string]interface{}{"seed": mon.Seed(), "scheme": scheme, "public_key": wl.PubKey, "expected_id": want})
				}
			}
			id, err := client.GetIDFromPublicKey(wl.PubKey)
			check("GetIDFromPublicKey", err == nil && id == want, fmt.Sprintf("GetIDFromPublicKey=%s err=%v, sha3-256(public key)=%s", id, err, want))
			c := client.NewClient()
			err = c.SetPublicKey(wl.PubKey)
			check("SetPublicKey", err == nil && c.ID == want, fmt.Sprintf("Client.ID=%s err=%v", c.ID, err))
			check("Validate-accepts-matching", c.Validate(ctx) == nil, fmt.Sprintf("Validate: %v", c.Validate(ctx)))
			c.ID = otherID
			check("Validate-rejects-foreign-id", c.Validate(ctx) != nil, "Validate accepts a client whose id is not the hash of its key")
			c.ID = ""
			check("Validate-rejects-empty-id", c.Validate(ctx) != nil, "Validate accepts a client without id")
			c.ID = flipHex(want, i)
			check("Validate-rejects-flipped-id", c.Validate(ctx) != nil, "Validate accepts a client whose id differs in one digit")
			// a client arriving over the wire with a foreign id: decoding recomputes the id from the key
			dc := client.NewClient()
			js := fmt.Sprintf(`{"id":"%s","public_key":"%s"}`, otherID, wl.PubKey)
			err = datastore.FromJSON([]byte(js), dc)
			check("decode-binds-id-to-key", err == nil && dc.ID == want && dc.Validate(ctx) == nil, fmt.Sprintf("decoded id=%s err=%v", dc.ID, err))
			check("VerifyPublicKeyClientID-accepts", encryption.VerifyPublicKeyClientID(wl.PubKey, want) == nil, "matching pair rejected")
			check("VerifyPublicKeyClientID-rejects-other", encryption.VerifyPublicKeyClientID(wl.PubKey, otherID) != nil, "foreign id accepted")
			check("VerifyPublicKeyClientID-rejects-flipped", encryption.VerifyPublicKeyClientID(wl.PubKey, flipHex(want, i+3)) != nil, "id differing in one digit accepted")
			check("VerifyPublicKeyClientID-rejects-flipped-key", encryption.VerifyPublicKeyClientID(flipHex(wl.PubKey, i+5), want) != nil, "key differing in one digit accepted")
			// transactions: the sender id is derived from / checked against the key
			t := transaction.Provider().(*transaction.Transaction)
			t.PublicKey = wl.PubKey
			err = t.ComputeClientID()
			check("txn-ComputeClientID-derives", err == nil && t.ClientID == want, fmt.Sprintf("ClientID=%s err=%v", t.ClientID, err))
			t2 := transaction.Provider().(*transaction.Transaction)
			t2.PublicKey, t2.ClientID = wl.PubKey, otherID
			check("txn-ComputeClientID-rejects-foreign", t2.ComputeClientID() != nil, "transaction with a foreign client id accepted")
			// and the derived client verifies the key's signatures (scheme picked from the package default)
			h := encryption.Hash(fmt.Sprintf("c47-client-%d", i))
			ok, verr := dc.Verify(wl.Sign(h), h)
			check("derived-client-verifies", ok && verr == nil, fmt.Sprintf("ok=%v err=%v", ok, verr))
		}
		for _, bad := range []string{"", "zz", "abc"} {
			var id string
			var err error
			p := guard(func() { id, err = client.GetIDFromPublicKey(bad) })
			run.Eval(1)
			run.Count("c47.negative", 1)
			run.Distinct(fmt.Sprintf("%s|GetIDFromPublicKey-malformed|%q|%v|%s", scheme, bad, err != nil, p))
			if p != "" {
				violate(run, "C47:panic-GetIDFromPublicKey-malformed", p, nil)
			}
			if bad != "" && err == nil {
				violate(run, "C47:client-id-from-malformed-key", fmt.Sprintf("GetIDFromPublicKey(%q) = %s without error", bad, id), nil)
			}
		}
		run.Checkpoint()
	}
}
