// Package crypto is the engine for the signature / hash-commitment / threshold-key properties
// C29, C30, C32, C33, C34, C47. Every check executes the REAL 0chain code on generated inputs and
// judges the observed result with an oracle that never calls the judged function.
package crypto

import (
	"crypto/sha256"
	"encoding/binary"
	"flag"
	"fmt"
	"os"
	"runtime/debug"
	"strings"
	"sync"
	"time"

	"github.com/0chain/common/core/logging"
	"github.com/herumi/bls-go-binary/bls"

	"verifh/mon"
)

// Props served by this engine.
var Props = []string{"C29", "C30", "C32", "C33", "C34", "C47"}

var levels = map[string]string{
	"C29": "fault_enumeration", "C30": "fault_enumeration", "C32": "fault_enumeration",
	"C33": "exploration", "C34": "exploration", "C47": "exploration",
}

var rules = map[string]string{
	"C29": "real blocks (real signed txns executed through Chain.UpdateState, real miner key) cloned through the JSON receive path; every single tamper of the effect-relevant field list is applied to every block and Block.ComputeHash / Transaction.VerifyHash / VerifyOutputHash / Block.Validate are observed; distinct = (tamper class, field, variant, detected-by) tuples; receive-path family: executed, generator-signed blocks of transactions signed with bls0chain and with ed25519 client keys (chain scheme set accordingly: aggregate / per-transaction signature check; validation batch sizes 1, 2, 3, 1000; genuine transactions unknown or on record as validated), the block JSON edited on the wire (one content field of one transaction, all hashes and signatures kept) and sent through decode + Block.ComputeProperties + Block.Validate + miner.Chain.ValidateTransactions; oracle = honest recomputation of the transaction / output hash over the carried contents differs from the carried hash => rejected, unedited block accepted",
	"C30": "validly signed transactions (ed25519 and bls0chain, send/data/smart-contract) cloned through the JSON receive path (ComputeProperties) and validated with ValidateWrtTime; every listed field is mutated singly in several value classes with stale and recomputed hash; every tampered transaction is also delivered as a block transaction (output + correct output hash) to ValidateWrtTimeForBlock(block time, true/false) and, inside a block of 1..4 transactions received through the block JSON path, to miner.Chain.ValidateTransactions (batch sizes 1, 2, 1000; aggregate signature path for bls0chain); distinct = (path, scheme, field, value class, hash variant, outcome) tuples",
	"C32": "n<=64 (key,message,signature) items fed to BLS0ChainAggregateSignatureScheme with every batch size class, with each corruption pattern (none, single, several, wrong key, wrong message, swapped pair, cancelling pair same/cross batch, cancelling triple; forged sets that sum to the neutral point: whole set, every batch, one batch, seeded subset, opposite pair same/cross batch; neutral-point signatures: single, one batch, all) at seeded positions, also through miner.Chain.ValidateTransactions and chain.Chain.VerifyTickets; ValidateTransactions also on blocks of which a seeded subset (one, two, half, all but one per batch, batch heads, batch tails; batch sizes 2..n and 1000) was validated before and recorded with Chain.AddValidatedTxns(hash, genuine signature), delivered unchanged, with one recorded transaction's signature replaced (other key, shifted, random point, neutral point, empty), with an unrecorded transaction corrupted, or with a record holding another signature; oracle = conjunction of individual herumi verifications of the signatures the block actually carries; distinct = (n, batch size, pattern, position class, outcome) tuples",
	"C33": "real DKG instances (1<=t<=n<=9) installed in a real miner chain; VRF shares (valid, wrong message, wrong signer, other DKG, non-member, garbage, duplicates, wrong timeout count) delivered in seeded orders through miner.Chain.AddVRFShare / verifyVRFShare / Round.AddVRFShare / ThresholdNumBLSSigReceived, directly and EARLY (previous round unknown / without seed, timeout count ahead of the round) so that they are parked in the round's share cache and released later; several observers get the same messages in different orders; oracle = every held share verifies under the reference key share, seed only at threshold, seed = seed of the group signature recovered from reference shares, equal for all observers; distinct = (t, n, delivery pattern, outcome) tuples",
	"C34": "real bls.MakeDKG instances for every 1<=t<=n<=N: all n*n shares validated against the published polynomials, tampered shares rejected, every t-subset of every instance (exhaustive) in several orders recovers one group signature that verifies under the group public key; then the SAME DKG objects aggregate again (unchanged shares twice; 1..n-t dealers disqualified with DeleteFromSet cumulatively and at once, in different list orders; disqualified dealers re-added; a share force-replaced by a bad one and restored) and after every step the whole statement is judged on the qualified set against keys the harness computes from the qualified dealers' polynomials; threshold client keys, split keys, ShareOrSigns.Validate; distinct = (component, t, n, case class, outcome) tuples",
	"C47": "seeded key pairs for ed25519 and bls0chain: sign/verify, every other key, other hashes, every single-bit flip of signature and public key, empty/short/oversized/non-hex inputs; client id vs sha3-256 computed with x/crypto directly; distinct = (scheme, case class, outcome) tuples",
}

// Main is the engine entry point: verifh crypto -prop Cxx -tier quick|thorough
func Main(args []string) int {
	fs := flag.NewFlagSet("crypto", flag.ExitOnError)
	prop := fs.String("prop", "C29", "property id")
	tier := fs.String("tier", "quick", "quick|thorough")
	child := fs.String("child", "", "child name (internal)")
	_ = fs.Parse(args)
	if levels[*prop] == "" {
		fmt.Printf("crypto: unknown property %q\n", *prop)
		return 2
	}
	if *child != "" {
		return childMain(*prop, *tier, *child)
	}
	defer mon.CleanScratch()
	run := mon.NewRun(*prop, *tier, levels[*prop], rules[*prop])
	var names []string
	switch *prop {
	case "C29":
		names = []string{"blocks0", "blocks1"}
		if *tier == "thorough" {
			names = []string{"blocks0", "blocks1", "blocks2", "blocks3", "blocks4", "blocks5"}
		}
	case "C30":
		names = []string{"bls0chain", "ed25519"}
	case "C32":
		names = []string{"agg0", "agg1", "agg2", "agg3", "vt", "vtpanic"}
		if *tier == "thorough" {
			names = []string{"agg0", "agg1", "agg2", "agg3", "agg4", "agg5", "agg6", "agg7", "vt", "vtpanic"}
		}
	case "C33":
		names = []string{"vrf0", "vrf1", "vrf2", "vrf3"}
		if *tier == "thorough" {
			names = []string{"vrf0", "vrf1", "vrf2", "vrf3", "vrf4", "vrf5", "vrf6", "vrf7"}
		}
	case "C34":
		names = []string{"dkg0", "dkg1", "dkg2", "dkg3", "keys"}
	case "C47":
		names = []string{"bls0chain", "ed25519", "client"}
	}
	to := 3 * time.Minute
	if *tier == "thorough" {
		to = 25 * time.Minute
	}
	var specs []mon.ChildSpec
	for _, n := range names {
		specs = append(specs, mon.ChildSpec{Name: n, Timeout: to, Args: []string{"crypto", "-prop", *prop, "-tier", *tier, "-child", n}})
	}
	res := mon.RunChildren(run, specs, 12)
	for _, cr := range res {
		if cr.Crashed && !cr.TimedOut && cr.Spec.Name == "vtpanic" && strings.Contains(cr.LogTail, "blsSignatureSetHexStr") {
			// not a C32 verdict (a crash is not an acceptance) but recorded: the C47 panic is reachable from block validation
			run.Count("c32.observed_process_crash_in_ValidateTransactions_on_malformed_signature", 1)
			run.Set("observations.crashes", []string{"miner.Chain.ValidateTransactions: a block carrying a transaction whose signature string is \"(zz,zz)\" kills the process (panic in encryption.MiraclToHerumiSig inside the validation goroutine, no recover): " + firstPanicLine(cr.LogTail)})
			continue
		}
		if cr.Crashed && !cr.TimedOut {
			p := mon.KeepLog(cr, fmt.Sprintf("%s-crash-%s-seed%d.log", *prop, cr.Spec.Name, run.SeedV))
			run.Inconclusive(fmt.Sprintf("child %s crashed (log %s): %s", cr.Spec.Name, p, firstPanicLine(cr.LogTail)))
		}
	}
	finishParent(run, *prop, *tier)
	return run.Finish()
}

func firstPanicLine(tail string) string {
	for _, l := range strings.Split(tail, "\n") {
		if strings.Contains(l, "panic") || strings.Contains(l, "fatal error") || strings.Contains(l, "HARNESS-PANIC") {
			if len(l) > 300 {
				l = l[:300]
			}
			return l
		}
	}
	return "no panic line"
}

// finishParent states the minimum monitor evaluations and the assumptions of each property.
func finishParent(run *mon.Run, prop, tier string) {
	switch prop {
	case "C29":
		run.RequireMin("c29.base_block_accepted", 4)
		run.RequireMin("c29.hash_tamper_evaluated", 200)
		run.RequireMin("c29.validate_tamper_evaluated", 40)
		c29RecvRequire(run) // receive-path family (c29recv.go)
		run.Assume("a tamper counts as detected when Block.ComputeHash changes, or when the code's own per-transaction checks applied to every received block (Transaction.VerifyHash, VerifyOutputHash) reject the tampered transaction; downstream re-execution (state hash comparison) is NOT credited")
		run.Assume("blocks reach Validate through datastore.FromJSON/FromMsgpack (ComputeProperties), as on every network receive path")
	case "C30":
		run.RequireMin("c30.base_accepted", 20)
		run.RequireMin("c30.tamper_evaluated", 400)
		run.RequireMin("c30.block_base_accepted", 20)
		run.RequireMin("c30.block_tamper_evaluated", 1200)
		run.Assume("block path: the tampered transaction carries an output and the correct hash of that output, as a generator leaves it; acceptance = block JSON decode (Block.ComputeProperties) succeeds and ValidateWrtTimeForBlock / miner.Chain.ValidateTransactions return nil; with the signature check switched off ValidateWrtTimeForBlock is judged on hash mismatches only (the signature is then owed by the aggregate check inside ValidateTransactions, which is judged on everything)")
		run.Assume("acceptance = datastore.FromJSON (ComputeProperties) succeeds and ValidateWrtTime returns nil, the pipeline of the transaction receive handlers; fee/nonce/balance admission checks against state are outside this property")
	case "C32":
		run.RequireMin("c32.aggregate_evaluated", 150)
		run.RequireMin("c32.all_valid_accepted", 20)
		run.RequireMin("c32.pattern.zero-sum-all-forged", 10)
		run.RequireMin("c32.pattern.opposite-forged-pair", 10)
		run.RequireMin("c32.pattern.neutral-all", 10)
		run.RequireMin("c32.prevalidated_all_valid_accepted", 100)
		run.RequireMin("c32.prevalidated_invalid_rejected", 400)
		run.RequireMin("c32.prevalidated.recorded-txn-signed-by-other-key", 50)
		run.Assume("the reference verdict is the conjunction of herumi Sign.Verify per item (trusted library), never the aggregate scheme")
	case "C33":
		run.RequireMin("c33.seed_agreement_evaluated", 20)
		run.RequireMin("c33.invalid_share_evaluated", 40)
		run.RequireMin("c33.below_threshold_evaluated", 10)
		run.RequireMin("c33.parked_episode", 12)
		run.RequireMin("c33.parked_share_counted_from_cache", 20)
		run.RequireMin("c33.parked_seed_agreement_evaluated", 12)
		run.Assume("a share is parked through the real Chain.AddVRFShare (previous round unknown or without seed; share timeout count above the round's, raised later with SetTimeoutCount as a received block does); handleVRFShare's own parking of shares for rounds ahead of the current round ends in the same cache and is not driven; a round that holds threshold-many verified shares released from the cache but derives no seed (the releasing message did not verify) is recorded as an observation, liveness is not part of this property")
		run.Assume("network handlers in front of AddVRFShare (sender must be a miner of the round's magic block) are not driven; block proposal / verification started at threshold is neutralised by moving the chain's current round ahead")
	case "C34":
		run.Exhaustive(true) // bound: every t-subset (x3 orders) of every generated DKG / threshold-key instance, all 1<=t<=n<=8 (quick) or 9 (thorough)
		run.RequireMin("c34.share_validated", 100)
		run.RequireMin("c34.subset_recovered", 100)
		run.RequireMin("c34.reaggregation_stage_checked", 100)
		run.RequireMin("c34.reaggregation.repeat", 40)
		run.RequireMin("c34.reaggregation.disqualified-1-cumulative", 10)
		run.RequireMin("c34.reaggregation.re-added-all", 10)
		run.RequireMin("c34.reaggregation.replaced-and-restored", 20)
		run.RequireMin("c34.reaggregation_subset_recovered", 1000)
		run.Assume("herumi pairing verification (Sign.Verify) is the trusted judge of a signature's validity under a public key")
	case "C47":
		run.RequireMin("c47.positive", 40)
		run.RequireMin("c47.negative", 2000)
		run.Assume("sha3-256 from golang.org/x/crypto and the ed25519 / herumi primitives are trusted; what is judged is 0chain's wrappers (encoding, key handling, scheme selection, client id derivation)")
	}
}

// childMain runs one child process worth of cases.
func childMain(prop, tier, name string) (code int) {
	run := mon.NewRun(prop, tier, levels[prop], "")
	defer func() {
		if e := recover(); e != nil {
			fmt.Printf("HARNESS-PANIC %v\n%s\n", e, debug.Stack())
			run.Checkpoint()
			os.Exit(3)
		}
	}()
	seedRandom(fmt.Sprintf("%s/%s", prop, name))
	logging.InitLogging("testing", "") // children without a world still call code that logs
	switch prop {
	case "C29":
		c29Child(run, tier, name)
	case "C30":
		c30Child(run, tier, name)
	case "C32":
		c32Child(run, tier, name)
	case "C33":
		c33Child(run, tier, name)
	case "C34":
		c34Child(run, tier, name)
	case "C47":
		c47Child(run, tier, name)
	}
	run.Checkpoint()
	return 0
}

// ---------------------------------------------------------------------------------------------------
// deterministic randomness for the herumi library (MakeDKG, GenerateKeys, SetByCSPRNG all draw from it)

type detReader struct {
	mu  sync.Mutex
	key [32]byte
	ctr uint64
	buf []byte
}

func (d *detReader) Read(p []byte) (int, error) {
	d.mu.Lock()
	defer d.mu.Unlock()
	for i := range p {
		if len(d.buf) == 0 {
			var in [40]byte
			copy(in[:], d.key[:])
			binary.LittleEndian.PutUint64(in[32:], d.ctr)
			d.ctr++
			h := sha256.Sum256(in[:])
			d.buf = h[:]
		}
		p[i] = d.buf[0]
		d.buf = d.buf[1:]
	}
	return len(p), nil
}

// seedRandom makes every key the bls library generates in this process a function of VERIF_SEED and label.
func seedRandom(label string) {
	if err := bls.Init(int(bls.CurveFp254BNb)); err != nil {
		panic(err)
	}
	d := &detReader{key: sha256.Sum256([]byte(fmt.Sprintf("verif-crypto:%d:%s", mon.Seed(), label)))}
	bls.SetRandFunc(d)
}

// rnd returns the case-list generator of a child.
func rnd(label string) *mon.Rand { return mon.NewRand(mon.Seed()).Fork("crypto:" + label) }

func randBytes(r *mon.Rand, n int) []byte {
	b := make([]byte, n)
	for i := 0; i < n; i += 8 {
		v := r.U64()
		for j := 0; j < 8 && i+j < n; j++ {
			b[i+j] = byte(v >> (8 * j))
		}
	}
	return b
}

// guard runs f and reports a panic as a string (empty = no panic).
func guard(f func()) (panicked string) {
	defer func() {
		if e := recover(); e != nil {
			panicked = fmt.Sprint(e)
			if len(panicked) > 160 {
				panicked = panicked[:160]
			}
		}
	}()
	f()
	return ""
}

func idx(name string) int {
	n := 0
	for _, c := range name {
		if c >= '0' && c <= '9' {
			n = n*10 + int(c-'0')
		}
	}
	return n
}

// violate reports at most 3 witnesses per signature and process (mon keeps only the first 200 violations of a
// run: a frequent finding must never crowd out a different one); the rest is counted.
var (
	vioMu   sync.Mutex
	vioSeen = map[string]int{}
)

func violate(run *mon.Run, sig, detail string, replay interface{}) {
	vioMu.Lock()
	vioSeen[sig]++
	n := vioSeen[sig]
	vioMu.Unlock()
	run.Count("violations."+sig, 1)
	if n <= 3 {
		run.Violate(sig, detail, replay)
	}
}
