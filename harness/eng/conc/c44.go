package conc

import (
	"context"
	"fmt"
	"os"
	"path/filepath"
	"regexp"
	"sort"
	"strings"
	"sync"
	"sync/atomic"
	"time"

	"0chain.net/chaincore/block"
	"0chain.net/chaincore/node"
	"0chain.net/chaincore/round"
	"0chain.net/chaincore/transaction"
	"0chain.net/core/datastore"
	"0chain.net/miner"
	"github.com/0chain/common/core/logging"
	"go.uber.org/zap"

	"verifh/mon"
	"verifh/world"
)

// ---------------------------------------------------------------------------------------------------------
// race log parsing

type raceFrame struct{ Func, File string }

type raceReport struct {
	Raw     string
	Access  [2]string // "Read", "Previous write", ...
	Stacks  [2][]raceFrame
	Created [2][]raceFrame // creation stack of the accessing goroutine
	Entries [2]string
	Kinds   [2]string // "repo" | "atomic" | "harness"
	Pair    string
}

var (
	reAccess  = regexp.MustCompile(`^(Read|Write|Previous read|Previous write|Atomic read|Atomic write|Previous atomic read|Previous atomic write) at 0x[0-9a-f]+ by (main goroutine|goroutine \d+):`)
	reCreated = regexp.MustCompile(`^Goroutine (\d+) \(.*\) created at:`)
	reClosure = regexp.MustCompile(`(\.(func|gowrap|deferwrap)\d+)+(\.\d+)*$`)
)

func isRepoFrame(f raceFrame) bool { return strings.Contains(f.File, "/0chain.net/") }
func isHarnessFrame(f raceFrame) bool {
	return !isRepoFrame(f) && (strings.HasPrefix(f.Func, "verifh/") || strings.Contains(f.File, "/verif/harness/"))
}

func normFunc(f string) string {
	f = strings.TrimSpace(f)
	if strings.HasSuffix(f, "()") {
		f = f[:len(f)-2]
	}
	if i := strings.LastIndex(f, "/"); i >= 0 {
		f = f[i+1:]
	}
	f = reClosure.ReplaceAllString(f, "")
	return f
}

// repoFuncName names a frame of the code under test. A closure of a repo function that was inlined into a harness
// function carries the harness function's name as a prefix ("conc.c44VtxChild.(*Chain).ValidateTransactions.func3.2"
// in miner/protocol_block.go): it is renamed after the package directory of its file.
func repoFuncName(f raceFrame) string {
	n := normFunc(f.Func)
	if !strings.HasPrefix(strings.TrimSpace(f.Func), "verifh/") {
		return n
	}
	pkg := "repo"
	if i := strings.Index(f.File, "/0chain.net/"); i >= 0 {
		dir := f.File[i+len("/0chain.net/"):]
		if j := strings.LastIndex(dir, "/"); j >= 0 {
			dir = dir[:j]
		}
		if j := strings.LastIndex(dir, "/"); j >= 0 {
			dir = dir[j+1:]
		}
		pkg = dir
	}
	parts := strings.SplitN(n, ".", 3) // conc . harnessFunc . rest
	if len(parts) == 3 {
		return pkg + "." + parts[2]
	}
	return pkg + "." + n
}

// entryPoint is the outermost frame of the accessing goroutine (its own stack, then the stack it was created at)
// that belongs to the code under test.
func entryPoint(st, created []raceFrame) (string, string) {
	chain := append(append([]raceFrame{}, st...), created...)
	for i := len(chain) - 1; i >= 0; i-- {
		if isRepoFrame(chain[i]) {
			return repoFuncName(chain[i]), "repo"
		}
	}
	if len(st) > 0 && strings.HasPrefix(st[0].Func, "sync/atomic.") {
		// an atomic access by a repo accessor that was inlined into the harness closure (the race runtime reports
		// no frame of its own for it); the harness itself uses atomics only on its own variables
		return normFunc(st[0].Func), "atomic"
	}
	for _, f := range st {
		if isHarnessFrame(f) {
			return "verifh:" + normFunc(f.Func), "harness"
		}
	}
	return "verifh:unknown-stack", "harness"
}

func parseRaceBlock(raw string) *raceReport {
	rep := &raceReport{Raw: raw}
	lines := strings.Split(raw, "\n")
	var gor [2]string
	created := map[string][]raceFrame{}
	cur := -1        // index of the access stack being read
	curCreated := "" // goroutine whose creation stack is being read
	n := 0
	for i := 0; i < len(lines); i++ {
		l := lines[i]
		if m := reAccess.FindStringSubmatch(l); m != nil {
			curCreated = ""
			if n < 2 {
				cur = n
				rep.Access[cur] = m[1]
				gor[cur] = strings.TrimPrefix(m[2], "goroutine ")
				n++
			} else {
				cur = -1
			}
			continue
		}
		if m := reCreated.FindStringSubmatch(l); m != nil {
			cur, curCreated = -1, m[1]
			continue
		}
		if strings.TrimSpace(l) == "" {
			continue
		}
		if strings.HasPrefix(l, "  ") && !strings.HasPrefix(l, "      ") {
			fr := raceFrame{Func: strings.TrimSpace(l)}
			if i+1 < len(lines) && strings.HasPrefix(lines[i+1], "      ") {
				fr.File = strings.TrimSpace(lines[i+1])
				if k := strings.Index(fr.File, " +0x"); k > 0 {
					fr.File = fr.File[:k]
				}
				i++
			}
			if cur >= 0 {
				rep.Stacks[cur] = append(rep.Stacks[cur], fr)
			} else if curCreated != "" {
				created[curCreated] = append(created[curCreated], fr)
			}
		}
	}
	for s := 0; s < 2; s++ {
		rep.Created[s] = created[gor[s]]
		rep.Entries[s], rep.Kinds[s] = entryPoint(rep.Stacks[s], rep.Created[s])
	}
	es := []string{rep.Entries[0], rep.Entries[1]}
	sort.Strings(es)
	rep.Pair = es[0] + "|" + es[1]
	return rep
}

// class of a report: "repo" (both stacks in the code under test, or one of them an atomic access by an inlined repo
// accessor), "handover" (the code under test reads, without the lock, data the caller initialised before handing it
// over through a locked setter), "harness" (nothing of the code under test involved: a harness bug).
func (r *raceReport) class() string {
	k := r.Kinds
	switch {
	case k[0] == "harness" && k[1] == "harness", k[0] == "atomic" && k[1] != "repo", k[1] == "atomic" && k[0] != "repo":
		return "harness"
	case k[0] == "harness" || k[1] == "harness":
		return "handover"
	}
	return "repo"
}

// collectRaces parses every race log whose path starts with prefix.
func collectRaces(prefix string) ([]*raceReport, int) {
	files, _ := filepath.Glob(prefix + "*")
	var out []*raceReport
	for _, f := range files {
		b, err := os.ReadFile(f)
		if err != nil {
			continue
		}
		for _, blk := range strings.Split(string(b), "==================") {
			if strings.Contains(blk, "WARNING: DATA RACE") {
				out = append(out, parseRaceBlock(blk))
			}
		}
	}
	return out, len(files)
}

func frameName(f raceFrame) string {
	if isRepoFrame(f) {
		return repoFuncName(f)
	}
	return normFunc(f.Func)
}

func stackStrings(st []raceFrame) []string {
	var out []string
	for _, f := range st {
		out = append(out, frameName(f)+"  "+f.File)
	}
	return out
}

// accessSite is the innermost frame of the stack that lies in the code under test (file:line), else the innermost frame.
func accessSite(st []raceFrame) string {
	for _, f := range st {
		if isRepoFrame(f) {
			if i := strings.Index(f.File, "/0chain.net/"); i >= 0 {
				return f.File[i+len("/0chain.net/"):]
			}
			return f.File
		}
	}
	if len(st) > 0 {
		return normFunc(st[0].Func)
	}
	return "?"
}

// ---------------------------------------------------------------------------------------------------------
// stress scenarios

type scenario struct {
	name string
	ops  []string
	prep func(e *env) func(g int, op string, it int, r *mon.Rand)
	// opsFor (optional) gives goroutine g its own operation list (roles); nil: every goroutine draws from ops
	opsFor func(g int) []string
	// after (optional) hands the scenario's own per-goroutine tallies to the run once all goroutines have finished
	after func(run *mon.Run)
}

// The harness must not synchronise the goroutines of a scenario with one another on the hot path (no shared atomics,
// no shared mutex): every such edge orders the accesses under test and hides a race from the detector. Tallies are
// therefore kept per goroutine and summed after the join.
type perG [64]int64

func (p *perG) sum() (n int64) {
	for _, v := range p {
		n += v
	}
	return
}

// linkPrev* : family "block-link-prev". A prepared chain of previous blocks (one per episode of linkPrevEpisode
// iterations, so that tickets keep arriving instead of saturating) each registered as notarized in its own round.
const (
	linkPrevBlocks  = 256
	linkPrevEpisode = 48
)

var (
	linkPrevFilled, linkPrevEmpty, linkPrevPreset perG // one process runs the scenario once

	linkPrevLinkOps  = []string{"SetPreviousBlock", "SetPreviousBlock", "SetPreviousBlock", "SetPreviousBlockPresetTickets"}
	linkPrevWriteOps = []string{"AddVerificationTicket", "AddVerificationTicket", "MergeVerificationTickets", "AddNotarizedTwin", "SetBlockNotarized"}
	linkPrevReadOps  = []string{"GetVerificationTickets", "VerificationTicketsSize", "UnknownTickets", "IsBlockNotarized", "GetNotarizedBlocks"}
)

func ticket(i int) *block.VerificationTicket {
	return &block.VerificationTicket{VerifierID: fmt.Sprintf("%064x", i+1), Signature: fmt.Sprintf("sig-%d", i)}
}

func c44Block(roundNum int64, i int) *block.Block {
	b := block.NewBlock("", roundNum)
	b.Hash = fmt.Sprintf("%064x", uint64(i+1)*7919)
	b.RoundRank = i % 4
	b.MinerID = fmt.Sprintf("miner-%d", i%4)
	return b
}

func scenarios() []scenario {
	return []scenario{
		{name: "block-tickets",
			ops: []string{"AddVerificationTicket", "MergeVerificationTickets", "GetVerificationTickets", "VerificationTicketsSize", "UnknownTickets", "ToJSON", "ToMsgpack", "Clone",
				"SetBlockNotarized", "IsBlockNotarized", "SetBlockFinalised", "IsBlockFinalised", "SetPrevBlockVerificationTickets", "GetPrevBlockVerificationTickets"},
			prep: func(e *env) func(int, string, int, *mon.Rand) {
				b := c44Block(5, 0)
				for i := 0; i < 2; i++ {
					t := transaction.Provider().(*transaction.Transaction)
					t.Hash = fmt.Sprintf("%064x", i+77)
					t.ClientID = e.Parties[0].W.ID
					b.Txns = append(b.Txns, t)
				}
				return func(g int, op string, it int, r *mon.Rand) {
					switch op {
					case "AddVerificationTicket":
						b.AddVerificationTicket(ticket(r.Intn(14)))
					case "MergeVerificationTickets":
						b.MergeVerificationTickets([]*block.VerificationTicket{ticket(r.Intn(14)), ticket(r.Intn(14))})
					case "GetVerificationTickets":
						_ = b.GetVerificationTickets()
					case "VerificationTicketsSize":
						_ = b.VerificationTicketsSize()
					case "UnknownTickets":
						_ = b.UnknownTickets([]*block.VerificationTicket{ticket(r.Intn(14))})
					case "ToJSON":
						_ = datastore.ToJSON(b)
					case "ToMsgpack":
						_ = datastore.ToMsgpack(b)
					case "Clone":
						_ = b.Clone()
					case "SetBlockNotarized":
						b.SetBlockNotarized()
					case "IsBlockNotarized":
						_ = b.IsBlockNotarized()
					case "SetBlockFinalised":
						b.SetBlockFinalised()
					case "IsBlockFinalised":
						_ = b.IsBlockFinalised()
					case "SetPrevBlockVerificationTickets":
						b.SetPrevBlockVerificationTickets([]*block.VerificationTicket{ticket(r.Intn(14))})
					case "GetPrevBlockVerificationTickets":
						_ = b.GetPrevBlockVerificationTickets()
					}
				}
			}},
		// A miner generating round n+1 links its fresh block (no previous-block tickets yet) to the block of round n
		// while late verification tickets and notarization messages (a second object of the same block, carrying
		// other tickets, added to the round) for that block of round n still arrive. Goroutines 0-1 only link
		// (they never touch the previous block otherwise, so nothing but the code's own locking orders them with the
		// writers), 2-3 only deliver tickets, 4 only reads, 5-7 draw from everything.
		{name: "block-link-prev",
			ops: append(append(append([]string{}, linkPrevLinkOps...), linkPrevWriteOps...), linkPrevReadOps...),
			opsFor: func(g int) []string {
				switch {
				case g < 2:
					return linkPrevLinkOps
				case g < 4:
					return linkPrevWriteOps
				case g == 4:
					return linkPrevReadOps
				}
				return nil
			},
			prep: func(e *env) func(int, string, int, *mon.Rand) {
				type prevSet struct {
					prev  *block.Block
					twins [2]*block.Block
					rd    *round.Round
				}
				sets := make([]*prevSet, linkPrevBlocks)
				for k := range sets {
					ps := &prevSet{prev: c44Block(20, k), rd: round.NewRound(20)}
					for i := 0; i < k%4; i++ { // every fourth previous block starts without any ticket
						ps.prev.AddVerificationTicket(ticket(i))
					}
					for i := range ps.twins {
						ps.twins[i] = c44Block(20, k) // same hash, another object
						ps.twins[i].AddVerificationTicket(ticket(64 + i))
					}
					ps.rd.AddNotarizedBlock(ps.prev)
					sets[k] = ps
				}
				return func(g int, op string, it int, r *mon.Rand) {
					ps := sets[(it/linkPrevEpisode)%len(sets)]
					prev := ps.prev
					switch op {
					case "SetPreviousBlock":
						nb := c44Block(21, it) // the block-generation path: nothing set but round, hash, rank, miner
						nb.SetPreviousBlock(prev)
						if nb.PrevBlockVerificationTicketsSize() > 0 {
							linkPrevFilled[g]++
						} else {
							linkPrevEmpty[g]++
						}
					case "SetPreviousBlockPresetTickets": // a received block carries the tickets already
						nb := c44Block(21, it)
						nb.SetPrevBlockVerificationTickets([]*block.VerificationTicket{ticket(r.Intn(64))})
						nb.SetPreviousBlock(prev)
						if nb.PrevBlockVerificationTicketsSize() == 1 {
							linkPrevPreset[g]++
						}
					case "AddVerificationTicket":
						prev.AddVerificationTicket(ticket(r.Intn(64)))
					case "MergeVerificationTickets":
						prev.MergeVerificationTickets([]*block.VerificationTicket{ticket(r.Intn(64)), ticket(r.Intn(64))})
					case "AddNotarizedTwin": // a notarization message: same block, other object, one more ticket
						tw := ps.twins[r.Intn(len(ps.twins))]
						tw.AddVerificationTicket(ticket(64 + r.Intn(64)))
						ps.rd.AddNotarizedBlock(tw)
					case "SetBlockNotarized":
						prev.SetBlockNotarized()
					case "GetVerificationTickets":
						_ = prev.GetVerificationTickets()
					case "VerificationTicketsSize":
						_ = prev.VerificationTicketsSize()
					case "UnknownTickets":
						_ = prev.UnknownTickets([]*block.VerificationTicket{ticket(r.Intn(128))})
					case "IsBlockNotarized":
						_ = prev.IsBlockNotarized()
					case "GetNotarizedBlocks":
						_ = len(ps.rd.GetNotarizedBlocks())
					}
				}
			},
			after: func(run *mon.Run) {
				run.Count("link-prev:fresh-block-got-tickets", linkPrevFilled.sum())
				run.Count("link-prev:fresh-block-prev-had-none", linkPrevEmpty.sum())
				run.Count("link-prev:preset-tickets-kept", linkPrevPreset.sum())
			}},
		{name: "round-notarized",
			ops: []string{"AddNotarizedBlock", "AddNotarizedBlock", "GetNotarizedBlocks", "GetNotarizedBlocks", "GetHeaviestNotarizedBlock", "GetBestRankedNotarizedBlock", "AddProposedBlock", "GetProposedBlocks",
				"GetBestRankedProposedBlock", "UpdateNotarizedBlock", "Finalize", "GetBlockHash", "IsFinalized"},
			prep: func(e *env) func(int, string, int, *mon.Rand) {
				r := round.NewRound(7)
				var bs []*block.Block
				for i := 0; i < 6; i++ {
					bs = append(bs, c44Block(7, i))
				}
				for i := 0; i < 3; i++ { // same hashes, other objects: exercises the ticket-merge path
					bs = append(bs, c44Block(7, i))
				}
				for i, b := range bs {
					b.AddVerificationTicket(ticket(i))
				}
				return func(g int, op string, it int, rr *mon.Rand) {
					b := bs[rr.Intn(len(bs))]
					switch op {
					case "AddNotarizedBlock":
						r.AddNotarizedBlock(b)
					case "GetNotarizedBlocks":
						_ = len(r.GetNotarizedBlocks())
					case "GetHeaviestNotarizedBlock":
						_ = r.GetHeaviestNotarizedBlock()
					case "GetBestRankedNotarizedBlock":
						_ = r.GetBestRankedNotarizedBlock()
					case "AddProposedBlock":
						r.AddProposedBlock(b)
					case "GetProposedBlocks":
						_ = len(r.GetProposedBlocks())
					case "GetBestRankedProposedBlock":
						_ = r.GetBestRankedProposedBlock()
					case "UpdateNotarizedBlock":
						r.UpdateNotarizedBlock(b)
					case "Finalize":
						r.Finalize(b)
					case "GetBlockHash":
						_ = r.GetBlockHash()
					case "IsFinalized":
						_ = r.IsFinalized()
					}
				}
			}},
		{name: "round-phase",
			ops: []string{"SetPhase", "SetPhase", "GetPhase", "GetPhase", "ResetPhase"},
			prep: func(e *env) func(int, string, int, *mon.Rand) {
				r := round.NewRound(8)
				return func(g int, op string, it int, rr *mon.Rand) {
					switch op {
					case "SetPhase":
						r.SetPhase(round.Phase(rr.Intn(5)))
					case "GetPhase":
						_ = r.GetPhase()
					case "ResetPhase":
						r.ResetPhase(round.Phase(rr.Intn(5)))
					}
				}
			}},
		{name: "round-shares",
			ops: []string{"AddVRFShare", "AddVRFShare", "GetVRFShares", "VRFShareExist", "Restart"},
			prep: func(e *env) func(int, string, int, *mon.Rand) {
				r := round.NewRound(9)
				return func(g int, op string, it int, rr *mon.Rand) {
					p := rr.Intn(len(e.Parties))
					switch op {
					case "AddVRFShare":
						sh := &round.VRFShare{Round: 9, Share: fmt.Sprintf("s-%d-%d", g, it)}
						sh.SetParty(e.Parties[p].N)
						_ = r.AddVRFShare(sh, 3)
					case "GetVRFShares":
						_ = len(r.GetVRFShares())
					case "VRFShareExist":
						sh := &round.VRFShare{Round: 9}
						sh.SetParty(e.Parties[p].N)
						_ = r.VRFShareExist(sh)
					case "Restart":
						_ = r.Restart() // the phase never leaves ShareVRF here: always accepted
					}
				}
			}},
		{name: "round-seed-ranks",
			ops: []string{"SetRandomSeed", "SetRandomSeedForNotarizedBlock", "GetRandomSeed", "HasRandomSeed", "IsRanksComputed", "GetMinerRank", "GetMinersByRank", "SetVRFOutput", "GetVRFOutput", "SetVrfStartTime", "GetVrfStartTime"},
			prep: func(e *env) func(int, string, int, *mon.Rand) {
				r := round.NewRound(10)
				r.SetRandomSeedForNotarizedBlock(4242, len(e.Parties))
				return func(g int, op string, it int, rr *mon.Rand) {
					switch op {
					case "SetRandomSeed":
						r.SetRandomSeed(int64(1+rr.Intn(100)), len(e.Parties))
					case "SetRandomSeedForNotarizedBlock":
						r.SetRandomSeedForNotarizedBlock(int64(1+rr.Intn(100)), len(e.Parties))
					case "GetRandomSeed":
						_ = r.GetRandomSeed()
					case "HasRandomSeed":
						_ = r.HasRandomSeed()
					case "IsRanksComputed":
						_ = r.IsRanksComputed()
					case "GetMinerRank":
						_ = r.GetMinerRank(e.Parties[rr.Intn(len(e.Parties))].N)
					case "GetMinersByRank":
						var ns []*node.Node
						for _, p := range e.Parties {
							ns = append(ns, p.N)
						}
						_ = r.GetMinersByRank(ns)
					case "SetVRFOutput":
						r.SetVRFOutput(fmt.Sprint(it))
					case "GetVRFOutput":
						_ = r.GetVRFOutput()
					case "SetVrfStartTime":
						r.SetVrfStartTime(time.Unix(int64(it), 0))
					case "GetVrfStartTime":
						_ = r.GetVrfStartTime()
					}
				}
			}},
		{name: "block-state",
			ops: []string{"SetStateStatus", "GetStateStatus", "IsStateComputed", "SetBlockState", "GetBlockState", "SetVerificationStatus", "GetVerificationStatus", "SetRoundRandomSeed", "GetRoundRandomSeed",
				"AddUniqueBlockExtension", "GetUniqueBlockExtensions", "Clone"},
			prep: func(e *env) func(int, string, int, *mon.Rand) {
				b := c44Block(11, 0)
				ext := []*block.Block{c44Block(12, 1), c44Block(12, 2), c44Block(12, 3)}
				return func(g int, op string, it int, rr *mon.Rand) {
					switch op {
					case "SetStateStatus":
						b.SetStateStatus(int8(rr.Intn(4)))
					case "GetStateStatus":
						_ = b.GetStateStatus()
					case "IsStateComputed":
						_ = b.IsStateComputed()
					case "SetBlockState":
						b.SetBlockState(int8(rr.Intn(4)))
					case "GetBlockState":
						_ = b.GetBlockState()
					case "SetVerificationStatus":
						b.SetVerificationStatus(rr.Intn(3))
					case "GetVerificationStatus":
						_ = b.GetVerificationStatus()
					case "SetRoundRandomSeed":
						b.SetRoundRandomSeed(int64(rr.Intn(1000)))
					case "GetRoundRandomSeed":
						_ = b.GetRoundRandomSeed()
					case "AddUniqueBlockExtension":
						b.AddUniqueBlockExtension(ext[rr.Intn(len(ext))])
					case "GetUniqueBlockExtensions":
						_ = b.GetUniqueBlockExtensions()
					case "Clone":
						_ = b.Clone()
					}
				}
			}},
		{name: "round-timeouts-finalize",
			ops: []string{"SetTimeoutCount", "GetTimeoutCount", "IncrementTimeoutCount", "AddTimeoutVote", "SetFinalizing", "SetFinalized", "ResetFinalizingStateIfNotFinalized", "ResetFinalizingState",
				"IsFinalizing", "IsFinalized", "FinalizeState", "IncSoftTimeoutCount", "GetSoftTimeoutCount", "Clone"},
			prep: func(e *env) func(int, string, int, *mon.Rand) {
				r := round.NewRound(13)
				r.Block = c44Block(13, 0)
				return func(g int, op string, it int, rr *mon.Rand) {
					switch op {
					case "SetTimeoutCount":
						_ = r.SetTimeoutCount(it*8 + g) // grows with the iteration: most calls really write
					case "GetTimeoutCount":
						_ = r.GetTimeoutCount()
					case "IncrementTimeoutCount":
						r.IncrementTimeoutCount(int64(1+rr.Intn(3)), e.Pool)
					case "AddTimeoutVote":
						r.AddTimeoutVote(rr.Intn(50), e.Parties[rr.Intn(len(e.Parties))].N.GetKey())
					case "SetFinalizing":
						_ = r.SetFinalizing()
					case "SetFinalized":
						r.SetFinalized()
					case "ResetFinalizingStateIfNotFinalized":
						r.ResetFinalizingStateIfNotFinalized()
					case "ResetFinalizingState":
						r.ResetFinalizingState()
					case "IsFinalizing":
						_ = r.IsFinalizing()
					case "IsFinalized":
						_ = r.IsFinalized()
					case "FinalizeState":
						_ = r.FinalizeState()
					case "IncSoftTimeoutCount":
						r.IncSoftTimeoutCount()
					case "GetSoftTimeoutCount":
						_ = r.GetSoftTimeoutCount()
					case "Clone":
						_ = r.Clone()
					}
				}
			}},
	}
}

func c44StressChild(tier string, rep int) int {
	run := mon.NewRun("C44", tier, "exploration", "")
	e := setupEntities(5)
	seed := mon.Seed()
	iters := scale(tier, 1500, 10000)
	const G = 8
	for _, sc := range scenarios() {
		do := sc.prep(e)
		var wg sync.WaitGroup
		var start int32
		counts := make([]map[string]int64, G)
		var panics int64
		for g := 0; g < G; g++ {
			wg.Add(1)
			counts[g] = map[string]int64{}
			go func(g int) {
				defer wg.Done()
				r := mon.NewRand(seed).Fork(fmt.Sprintf("c44:%s:%d:%d", sc.name, rep, g))
				ops := sc.ops
				if sc.opsFor != nil {
					if o := sc.opsFor(g); len(o) > 0 {
						ops = o
					}
				}
				for atomic.LoadInt32(&start) == 0 {
				}
				for it := 0; it < iters; it++ {
					op := ops[r.Intn(len(ops))]
					func() {
						defer func() {
							if p := recover(); p != nil {
								if atomic.AddInt64(&panics, 1) <= 3 {
									fmt.Printf("C44 PANIC scenario=%s op=%s: %v\n", sc.name, op, p)
								}
							}
						}()
						do(g, op, it, r)
					}()
					counts[g][op]++
				}
			}(g)
		}
		atomic.StoreInt32(&start, 1)
		wg.Wait()
		for g := 0; g < G; g++ {
			for op, n := range counts[g] {
				run.Count("ops:"+sc.name+":"+op, n)
				run.Eval(n)
				run.Distinct(sc.name + ":" + op)
			}
		}
		if panics > 0 {
			run.Count("panics:"+sc.name, panics)
		}
		if sc.after != nil {
			sc.after(run)
		}
		run.Count("scenario_runs", 1)
		run.Sample(map[string]interface{}{"scenario": sc.name, "goroutines": G, "ops_per_goroutine": counts[0]})
		run.Checkpoint()
	}
	return 0
}

// ---------------------------------------------------------------------------------------------------------
// miner ValidateTransactions with several batches of which one fails

func c44VtxChild(tier string, rep int) (code int) {
	run := mon.NewRun("C44", tier, "exploration", "")
	defer func() {
		if p := recover(); p != nil {
			fmt.Printf("C44 VTX HARNESS-PANIC: %v\n", p)
			run.Count("vtx_setup_failed", 1)
			run.Checkpoint()
			code = 0
		}
	}()
	w := world.New(world.Options{Seed: mon.Seed(), NumClients: 4})
	defer w.Close()
	logging.Logger = zap.NewNop()
	miner.SetupMinerChain(w.Chain)
	mc := miner.GetMinerChain()
	batch := mc.ValidationBatchSize()
	if batch <= 0 {
		panic("validation batch size not configured")
	}
	nBatches := 6
	mk := func(n int, tag string) []*transaction.Transaction {
		var ts []*transaction.Transaction
		for i := 0; i < n; i++ {
			from := w.Clients[i%len(w.Clients)]
			to := w.Clients[(i+1)%len(w.Clients)]
			t := w.MakeTxn(world.TxnSpec{From: from, To: to.ID, Value: 1, Nonce: int64(i + 1), Type: transaction.TxnTypeSend, Data: fmt.Sprintf("%s-%d-%d", tag, rep, i)})
			t.OutputHash = t.ComputeOutputHash()
			ts = append(ts, t)
		}
		return ts
	}
	rounds := scale(tier, 3, 40)
	master := mk(batch*nBatches, "vtx")
	mk = func(n int, tag string) []*transaction.Transaction { // signing under the race detector is slow: sign once, clone per block
		var ts []*transaction.Transaction
		for _, t := range master[:n] {
			ts = append(ts, t.Clone())
		}
		return ts
	}
	for it := 0; it < rounds; it++ {
		for _, variant := range []string{"all-valid", "one-batch-missing-output-hash", "two-batches-fail", "round-mismatch"} {
			b := block.NewBlock(w.Chain.GetKey(), int64(1000+it))
			b.CreationDate = w.Now
			b.Hash = fmt.Sprintf("%064x", it*31+len(variant))
			b.Txns = mk(batch*nBatches, fmt.Sprintf("%s-%d", variant, it))
			switch variant {
			case "one-batch-missing-output-hash":
				b.Txns[batch*2+1].OutputHash = ""
			case "two-batches-fail":
				b.Txns[0].OutputHash = ""
				b.Txns[batch*3].OutputHash = ""
				b.Txns[batch*5].Hash = "" // fails in ValidateWrtTimeForBlock
			case "round-mismatch":
				b.Round = 1 // the chain's current round is ahead of it
			}
			w.Chain.SetCurrentRound(500)
			ctx, cancel := context.WithTimeout(context.Background(), 60*time.Second)
			err := mc.ValidateTransactions(ctx, b)
			cancel()
			cls := "ok"
			if err != nil {
				cls = "err"
				if err == miner.ErrRoundMismatch {
					cls = "round-mismatch"
				}
			}
			run.Count("vtx:"+variant+":"+cls, 1)
			run.Count("ops:validate-transactions:ValidateTransactions", 1)
			run.Eval(1)
			run.Distinct("validate-transactions:" + variant + ":" + cls)
			if variant == "all-valid" && err != nil && it == 0 {
				fmt.Printf("C44 VTX all-valid block rejected: %v\n", err)
			}
		}
		run.Checkpoint()
	}
	time.Sleep(200 * time.Millisecond) // let the validators that lost the race to the result channel finish
	run.Count("vtx_runs", 1)
	run.Checkpoint()
	return 0
}

// ---------------------------------------------------------------------------------------------------------

func c44Parent(tier string) int {
	run := mon.NewRun("C44", tier, "exploration",
		"8 goroutines per scenario draw exported round/block operations from a VERIF_SEED stream (8 scenarios on shared rounds and blocks, one of them with roles: fresh blocks linked by SetPreviousBlock to a previous block that receives tickets and notarization messages) plus miner ValidateTransactions on 6-batch blocks with failing batches, all under the race detector, 5 repetitions; "+
			"distinct = distinct (scenario, operation) driven concurrently; a violation is a distinct pair of entry points named by the two stacks of a DATA RACE report")
	to := 4 * time.Minute
	if tier == "thorough" {
		to = 25 * time.Minute
	}
	reps := 5
	var specs []mon.ChildSpec
	for i := 0; i < reps; i++ {
		env, _ := raceEnv(fmt.Sprintf("c44s%d", i))
		specs = append(specs, mon.ChildSpec{Name: fmt.Sprintf("stress%d", i), Args: childArgs("C44", tier, "stress", i, reps), Env: env, Timeout: to})
	}
	for i := 0; i < reps; i++ {
		env, _ := raceEnv(fmt.Sprintf("c44v%d", i))
		specs = append(specs, mon.ChildSpec{Name: fmt.Sprintf("vtx%d", i), Args: childArgs("C44", tier, "vtx", i, reps), Env: env, Timeout: to})
	}
	res := mon.RunChildren(run, specs, 5)
	for _, cr := range res {
		if cr.Crashed && !cr.TimedOut {
			p := mon.KeepLog(cr, fmt.Sprintf("C44-crash-%s-seed%d.log", cr.Spec.Name, run.SeedV))
			run.Inconclusive(fmt.Sprintf("child %s crashed (log %s): %s", cr.Spec.Name, p, firstPanicLine(cr.LogTail)))
		}
	}
	reports, files := collectRaces(filepath.Join(mon.ScratchDir(), "race-c44"))
	run.Count("race_log_files", int64(files))
	run.Count("race_reports", int64(len(reports)))
	byPair := map[string][]*raceReport{}
	var order []string
	for _, rp := range reports {
		if _, ok := byPair[rp.Pair]; !ok {
			order = append(order, rp.Pair)
		}
		byPair[rp.Pair] = append(byPair[rp.Pair], rp)
	}
	sort.Strings(order)
	run.Set("distinct_race_pairs", order)
	corroborated := map[string]bool{}
	var handover []string
	handoverInfo := map[string][2]interface{}{}
	for _, pair := range order {
		rps := byPair[pair]
		rp := rps[0]
		// distinct stack pairs (line numbers stripped) below the entry-point pair
		stackPairs := map[string]bool{}
		sites := map[string]int{}
		for _, x := range rps {
			ss := []string{strings.ToLower(x.Access[0]) + " " + accessSite(x.Stacks[0]), strings.ToLower(x.Access[1]) + " " + accessSite(x.Stacks[1])}
			for i := range ss {
				ss[i] = strings.TrimPrefix(ss[i], "previous ")
			}
			sort.Strings(ss)
			sites[ss[0]+" <-> "+ss[1]]++
			var k []string
			for s := 0; s < 2; s++ {
				var fs []string
				for _, f := range x.Stacks[s] {
					fs = append(fs, normFunc(f.Func))
				}
				k = append(k, strings.Join(fs, "<"))
			}
			sort.Strings(k)
			stackPairs[strings.Join(k, " || ")] = true
		}
		replay := map[string]interface{}{"reports": len(rps), "distinct_stack_pairs": len(stackPairs), "access_sites": sites,
			"access_1": rp.Access[0], "stack_1": stackStrings(rp.Stacks[0]), "access_2": rp.Access[1], "stack_2": stackStrings(rp.Stacks[1]), "raw": rp.Raw}
		detail := fmt.Sprintf("%d report(s), %d distinct stack pair(s); %s in %s vs %s in %s", len(rps), len(stackPairs),
			rp.Access[0], strings.Join(topFrames(rp.Stacks[0], 3), " < "), rp.Access[1], strings.Join(topFrames(rp.Stacks[1], 3), " < "))
		switch rp.class() {
		case "harness":
			run.Inconclusive("HARNESS BUG: data race that involves no code under test: " + pair + " :: " + detail)
			run.Count("harness_races", int64(len(rps)))
		case "handover":
			handover = append(handover, pair)
			handoverInfo[pair] = [2]interface{}{detail, replay}
			run.Count("handover_race_reports", int64(len(rps)))
		default:
			run.Count("repo_race_reports", int64(len(rps)))
			parentViolate(run, "C44:race:"+pair, detail, replay)
			for _, e := range rp.Entries {
				corroborated[e] = true
			}
		}
	}
	// a hand-over report (unlocked repo read of caller-initialised data) is the same defect as a two-sided report
	// naming the same reader; it is listed, and becomes a violation of its own only when nothing else names the reader
	var listed []string
	for _, pair := range handover {
		reader := pair
		for _, e := range strings.Split(pair, "|") {
			if !strings.HasPrefix(e, "verifh:") {
				reader = e
			}
		}
		if corroborated[reader] {
			listed = append(listed, reader+" (unlocked read of data the caller initialised before the locked hand-over)")
			continue
		}
		info := handoverInfo[pair]
		parentViolate(run, "C44:race:"+reader+"|caller-initialised-data", info[0].(string), info[1])
	}
	if len(listed) > 0 {
		run.Set("handover_reports_folded_into_two_sided_pairs", listed)
	}
	if run.Counter("vtx_runs") == 0 {
		run.Assume("miner.ValidateTransactions could not be driven in this build (world / miner chain set-up failed): the shared cancel / roundMismatch flags were NOT exercised")
		run.Inconclusive("ValidateTransactions workload did not run")
	} else {
		run.RequireMin("vtx:one-batch-missing-output-hash:err", 5)
		run.RequireMin("vtx:all-valid:ok", 5)
	}
	run.RequireMin("scenario_runs", int64(reps*len(scenarios())))
	// family block-link-prev: fresh blocks linked to a previous block that is receiving tickets
	run.RequireMin("ops:block-link-prev:SetPreviousBlock", int64(reps)*2000)
	run.RequireMin("link-prev:fresh-block-got-tickets", int64(reps)*1500)
	run.RequireMin("ops:block-link-prev:AddVerificationTicket", int64(reps)*1000)
	run.RequireMin("ops:block-link-prev:MergeVerificationTickets", int64(reps)*500)
	run.RequireMin("ops:block-link-prev:AddNotarizedTwin", int64(reps)*500)
	run.Assume("the race detector only reports races on interleavings that the run produced (5 repetitions x 8 goroutines per scenario); absence of a report is not absence of a race")
	run.Assume("zap logging is replaced by a no-op logger so that the logger's own mutex does not order the accesses under test")
	run.Assume("ValidateTransactions is driven on a real miner chain over the world's state; no networking, no block generation")
	return run.Finish()
}

func topFrames(st []raceFrame, n int) []string {
	var out []string
	for i, f := range st {
		if i >= n {
			break
		}
		out = append(out, frameName(f))
	}
	return out
}
