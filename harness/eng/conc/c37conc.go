package conc

import (
	"fmt"
	"runtime"
	"sort"
	"strings"
	"sync"
	"sync/atomic"
	"time"

	"0chain.net/chaincore/block"
	"0chain.net/chaincore/round"
	"0chain.net/core/viper"
	"github.com/anishathalye/porcupine"

	"verifh/mon"
)

// ---------------------------------------------------------------------------------------------------------
// C37, concurrent part: many short histories of 8..16 goroutines on one round, recorded at the call boundary and
// checked for linearizability against four independent little objects:
//
//   phase     max-register with reset  (SetPhase = max, ResetPhase = store, AddNotarizedBlock = max(.., Share),
//             accepted Restart = ShareVRF, GetPhase reads)
//   shares    bounded set, one per party (AddVRFShare -> bool, VRFShareExist, GetVRFShares, Restart empties)
//   timeouts  counter that only grows (SetTimeoutCount -> bool iff greater, IncrementTimeoutCount = +1 without votes)
//   finalize  {not, finalizing, finalized} with the conditional reset
//
// A Restart that could be rejected is never generated here (it would leak the round mutex, see the sequential part,
// and freeze every later history); histories containing Restart only raise the phase below Share.

type cin struct {
	Part int // 0 phase, 1 shares, 2 timeouts, 3 finalize
	Op   string
	A    int
	T    int // threshold (shares)
}

type cout struct {
	I int
	B bool
	S string
}

const (
	partPhase = iota
	partShares
	partTimeouts
	partFinalize
)

var partNames = []string{"phase", "shares", "timeouts", "finalize"}

func c37Model() porcupine.Model {
	return porcupine.Model{
		Partition: func(h []porcupine.Operation) [][]porcupine.Operation {
			out := make([][]porcupine.Operation, 4)
			for _, o := range h {
				p := o.Input.(cin).Part
				out[p] = append(out[p], o)
			}
			return out
		},
		Init: func() interface{} { return "" }, // every partition encodes its state as a string; "" is the zero state
		Step: func(state, input, output interface{}) (bool, interface{}) {
			in, out, st := input.(cin), output.(cout), state.(string)
			switch in.Part {
			case partPhase:
				p := 0
				if st != "" {
					fmt.Sscanf(st, "%d", &p)
				}
				enc := func(v int) string {
					if v == 0 {
						return ""
					}
					return fmt.Sprint(v)
				}
				switch in.Op {
				case "SetPhase":
					if in.A > p {
						p = in.A
					}
					return true, enc(p)
				case "AddNotarizedBlock":
					if int(round.Share) > p {
						p = int(round.Share)
					}
					return true, enc(p)
				case "ResetPhase":
					return true, enc(in.A)
				case "Restart":
					return true, enc(0)
				case "GetPhase":
					return out.I == p, st
				}
			case partShares:
				set := map[string]bool{}
				if st != "" {
					for _, k := range strings.Split(st, ",") {
						set[k] = true
					}
				}
				enc := func() string {
					var ks []string
					for k := range set {
						ks = append(ks, k)
					}
					sort.Strings(ks)
					return strings.Join(ks, ",")
				}
				key := fmt.Sprint(in.A)
				switch in.Op {
				case "AddVRFShare":
					want := !set[key] && len(set) < in.T
					if out.B != want {
						return false, st
					}
					if want {
						set[key] = true
					}
					return true, enc()
				case "VRFShareExist":
					return out.B == set[key], st
				case "GetVRFShares":
					return out.S == st, st
				case "Restart":
					return true, ""
				}
			case partTimeouts:
				c := 0
				if st != "" {
					fmt.Sscanf(st, "%d", &c)
				}
				enc := func(v int) string {
					if v == 0 {
						return ""
					}
					return fmt.Sprint(v)
				}
				switch in.Op {
				case "SetTimeoutCount":
					want := in.A > c
					if out.B != want {
						return false, st
					}
					if want {
						c = in.A
					}
					return true, enc(c)
				case "IncrementTimeoutCount":
					return true, enc(c + 1)
				case "GetTimeoutCount":
					return out.I == c, st
				}
			case partFinalize:
				f := 0
				if st != "" {
					fmt.Sscanf(st, "%d", &f)
				}
				enc := func(v int) string {
					if v == 0 {
						return ""
					}
					return fmt.Sprint(v)
				}
				switch in.Op {
				case "SetFinalizing":
					if f == 0 {
						return out.B, enc(1)
					}
					return !out.B, st
				case "SetFinalized":
					return true, enc(2)
				case "ResetFinalizingStateIfNotFinalized":
					if f == 2 {
						return true, st
					}
					return true, enc(0)
				case "IsFinalized":
					return out.B == (f == 2), st
				case "IsFinalizing":
					return out.B == (f == 1), st
				}
			}
			return false, st
		},
		DescribeOperation: func(input, output interface{}) string {
			in, out := input.(cin), output.(cout)
			return fmt.Sprintf("%s(%d)->{%d %v %q}", in.Op, in.A, out.I, out.B, out.S)
		},
	}
}

type cop struct {
	Op string
	A  int
}

type concCase struct {
	ID        int
	Kind      string // "phase" | "restart-mix" | "mixed"
	Threshold int
	Threads   [][]cop
}

func genConc(seed uint64, id int) concCase {
	r := mon.NewRand(seed).Fork(fmt.Sprintf("c37conc:%d", id))
	c := concCase{ID: id, Threshold: 1 + r.Intn(4)}
	g := []int{8, 8, 12, 16}[r.Intn(4)]
	c.Kind = []string{"phase", "phase", "restart-mix", "mixed", "duel", "duel", "duel"}[r.Intn(7)]
	if c.Kind == "duel" {
		// the smallest shape in which a lost update can show: 2-3 goroutines, one phase write each, all different
		g = 2 + r.Intn(2)
		vals := []int{1, 2, 3, 4}
		r.Shuffle(len(vals), func(i, j int) { vals[i], vals[j] = vals[j], vals[i] })
		for t := 0; t < g; t++ {
			c.Threads = append(c.Threads, []cop{{"SetPhase", vals[t]}})
		}
		return c
	}
	nb := 0 // every AddNotarizedBlock of a history offers a block of its own (a known hash is only merged, the phase is not touched)
	for t := 0; t < g; t++ {
		n := 2 + r.Intn(3)
		var ops []cop
		for len(ops) < n {
			var o cop
			switch c.Kind {
			case "phase":
				switch x := r.Intn(20); {
				case x < 11:
					o = cop{"SetPhase", r.Intn(5)}
				case x < 13:
					o = cop{"AddNotarizedBlock", r.Intn(c37Blocks)}
				case x < 14:
					o = cop{"ResetPhase", r.Intn(5)}
				default:
					o = cop{"GetPhase", 0}
				}
			case "restart-mix":
				switch x := r.Intn(20); {
				case x < 6:
					o = cop{"SetPhase", r.Intn(3)} // stays below Share: Restart is always accepted
				case x < 8:
					o = cop{"Restart", 0}
				case x < 13:
					o = cop{"AddVRFShare", r.Intn(c37Parties)}
				case x < 15:
					o = cop{"GetVRFShares", 0}
				case x < 16:
					o = cop{"VRFShareExist", r.Intn(c37Parties)}
				default:
					o = cop{"GetPhase", 0}
				}
			default:
				switch x := r.Intn(24); {
				case x < 5:
					o = cop{"SetPhase", r.Intn(5)}
				case x < 7:
					o = cop{"GetPhase", 0}
				case x < 11:
					o = cop{"AddVRFShare", r.Intn(c37Parties)}
				case x < 13:
					o = cop{"GetVRFShares", 0}
				case x < 15:
					o = cop{"SetTimeoutCount", r.Intn(8)}
				case x < 16:
					o = cop{"IncrementTimeoutCount", 0}
				case x < 18:
					o = cop{"GetTimeoutCount", 0}
				case x < 19:
					o = cop{"SetFinalizing", 0}
				case x < 20:
					o = cop{"SetFinalized", 0}
				case x < 22:
					o = cop{"ResetFinalizingStateIfNotFinalized", 0}
				case x < 23:
					o = cop{"IsFinalized", 0}
				default:
					o = cop{"AddNotarizedBlock", r.Intn(c37Blocks)}
				}
			}
			if o.Op == "AddNotarizedBlock" {
				o.A = nb
				nb++
			}
			ops = append(ops, o)
		}
		c.Threads = append(c.Threads, ops)
	}
	return c
}

func sharesString(e *env, m map[string]*round.VRFShare) string {
	var ks []string
	for k := range m {
		for i, p := range e.Parties {
			if p.N.GetKey() == k {
				ks = append(ks, fmt.Sprint(i))
			}
		}
	}
	sort.Strings(ks)
	return strings.Join(ks, ",")
}

// doConcOp calls one operation on the real round and returns the recorded operations (Restart spans two objects).
func doConcOp(e *env, r *round.Round, c *concCase, blocks []*block.Block, client int, o cop, seq int) []porcupine.Operation {
	mk := func(part int, out cout, call, ret int64) porcupine.Operation {
		return porcupine.Operation{ClientId: client, Input: cin{Part: part, Op: o.Op, A: o.A, T: c.Threshold}, Call: call, Output: out, Return: ret}
	}
	var out cout
	part := partPhase
	var sh *round.VRFShare
	if o.Op == "AddVRFShare" || o.Op == "VRFShareExist" {
		sh = &round.VRFShare{Round: r.Number, Share: fmt.Sprintf("s-%d-%d-%d", client, seq, o.A)}
		sh.SetParty(e.Parties[o.A].N)
	}
	call := tick()
	switch o.Op {
	case "SetPhase":
		r.SetPhase(round.Phase(o.A))
	case "ResetPhase":
		r.ResetPhase(round.Phase(o.A))
	case "GetPhase":
		out.I = int(r.GetPhase())
	case "AddNotarizedBlock":
		r.AddNotarizedBlock(blocks[o.A])
	case "Restart":
		if err := r.Restart(); err != nil {
			out.B = true // rejected: never expected here
		}
	case "AddVRFShare":
		part = partShares
		out.B = r.AddVRFShare(sh, c.Threshold)
	case "VRFShareExist":
		part = partShares
		out.B = r.VRFShareExist(sh)
	case "GetVRFShares":
		part = partShares
		m := r.GetVRFShares()
		ret := tick()
		out.S = sharesString(e, m)
		return []porcupine.Operation{mk(part, out, call, ret)}
	case "SetTimeoutCount":
		part = partTimeouts
		out.B = r.SetTimeoutCount(o.A)
	case "IncrementTimeoutCount":
		part = partTimeouts
		r.IncrementTimeoutCount(1, e.Pool)
	case "GetTimeoutCount":
		part = partTimeouts
		out.I = r.GetTimeoutCount()
	case "SetFinalizing":
		part = partFinalize
		out.B = r.SetFinalizing()
	case "SetFinalized":
		part = partFinalize
		r.SetFinalized()
	case "ResetFinalizingStateIfNotFinalized":
		part = partFinalize
		r.ResetFinalizingStateIfNotFinalized()
	case "IsFinalized":
		part = partFinalize
		out.B = r.IsFinalized()
	case "IsFinalizing":
		part = partFinalize
		out.B = r.IsFinalizing()
	}
	ret := tick()
	if o.Op == "Restart" {
		return []porcupine.Operation{mk(partPhase, out, call, ret), mk(partShares, out, call, ret)}
	}
	return []porcupine.Operation{mk(part, out, call, ret)}
}

type concOutcome struct {
	Ops             []porcupine.Operation
	Hung            bool
	Dump            string
	RejectedRestart bool
}

func runConcHistory(e *env, c *concCase) concOutcome {
	r := round.NewRound(int64(100 + c.ID%1000))
	blocks := newBlocksN(r.Number, 16*4)
	g := len(c.Threads)
	results := make([][]porcupine.Operation, g)
	gids := make([]int64, g)
	var start int32
	var ready, wg sync.WaitGroup
	ready.Add(g)
	wg.Add(g)
	for t := 0; t < g; t++ {
		go func(t int) {
			defer wg.Done()
			atomic.StoreInt64(&gids[t], goid())
			ready.Done()
			for atomic.LoadInt32(&start) == 0 {
				runtime.Gosched()
			}
			var mine []porcupine.Operation
			for i, o := range c.Threads[t] {
				mine = append(mine, doConcOp(e, r, c, blocks, t, o, i)...)
			}
			results[t] = mine
		}(t)
	}
	ready.Wait()
	atomic.StoreInt32(&start, 1)
	done := make(chan struct{})
	go func() { wg.Wait(); close(done) }()
	select {
	case <-done:
	case <-time.After(20 * time.Second):
		dump := allStacks()
		var blocked []string
		for t := 0; t < g; t++ {
			blk := goroutineBlock(dump, atomic.LoadInt64(&gids[t]))
			if _, ok := blockedInRoundLock(blk); ok {
				blocked = append(blocked, blk)
			}
		}
		return concOutcome{Hung: true, Dump: strings.Join(blocked, "\n\n")}
	}
	var out concOutcome
	for _, ops := range results {
		out.Ops = append(out.Ops, ops...)
	}
	// quiescent reads close the history
	final := []cop{{"GetPhase", 0}, {"GetVRFShares", 0}, {"GetTimeoutCount", 0}, {"IsFinalized", 0}, {"IsFinalizing", 0}}
	for i, o := range final {
		out.Ops = append(out.Ops, doConcOp(e, r, c, blocks, g, o, i)...)
	}
	for _, o := range out.Ops {
		if o.Input.(cin).Op == "Restart" && o.Output.(cout).B {
			out.RejectedRestart = true
		}
	}
	return out
}

// overlapping phase writers: pairs of SetPhase / AddNotarizedBlock from different goroutines whose call/return
// intervals intersect (distinctTarget: asking for different phases); withReset counts a SetPhase-like writer that
// overlaps a ResetPhase / Restart of another goroutine.
func phaseWriterOverlaps(ops []porcupine.Operation) (pairs, distinctTarget, withReset int) {
	var ws, rs []porcupine.Operation
	for _, o := range ops {
		in := o.Input.(cin)
		if in.Part != partPhase {
			continue
		}
		switch in.Op {
		case "SetPhase", "AddNotarizedBlock":
			ws = append(ws, o)
		case "ResetPhase", "Restart":
			rs = append(rs, o)
		}
	}
	target := func(o porcupine.Operation) int {
		in := o.Input.(cin)
		if in.Op == "AddNotarizedBlock" {
			return int(round.Share)
		}
		return in.A
	}
	ov := func(a, b porcupine.Operation) bool {
		return a.ClientId != b.ClientId && a.Call < b.Return && b.Call < a.Return
	}
	for i := 0; i < len(ws); i++ {
		for j := i + 1; j < len(ws); j++ {
			if ov(ws[i], ws[j]) {
				pairs++
				if target(ws[i]) != target(ws[j]) {
					distinctTarget++
				}
			}
		}
		for _, r := range rs {
			if ov(ws[i], r) {
				withReset++
			}
		}
	}
	return
}

func describeOps(ops []porcupine.Operation) []string {
	sort.Slice(ops, func(i, j int) bool { return ops[i].Call < ops[j].Call })
	var out []string
	for _, o := range ops {
		in, ou := o.Input.(cin), o.Output.(cout)
		res := ""
		switch in.Op {
		case "GetPhase", "GetTimeoutCount":
			res = fmt.Sprintf(" -> %d", ou.I)
		case "AddVRFShare", "VRFShareExist", "SetTimeoutCount", "SetFinalizing", "IsFinalized", "IsFinalizing":
			res = fmt.Sprintf(" -> %v", ou.B)
		case "GetVRFShares":
			res = fmt.Sprintf(" -> {%s}", ou.S)
		}
		out = append(out, fmt.Sprintf("g%d [%d,%d] %s(%d)%s", o.ClientId, o.Call, o.Return, in.Op, in.A, res))
	}
	return out
}

// shrinkIllegal drops read operations while the partition stays non-linearizable.
func shrinkIllegal(model porcupine.Model, ops []porcupine.Operation) []porcupine.Operation {
	isRead := func(o porcupine.Operation) bool {
		switch o.Input.(cin).Op {
		case "GetPhase", "GetVRFShares", "VRFShareExist", "GetTimeoutCount", "IsFinalized", "IsFinalizing":
			return true
		}
		return false
	}
	cur := append([]porcupine.Operation{}, ops...)
	// operations invoked after a point in time cannot explain what returned before it: the shortest prefix (in call
	// order) that is already illegal is a witness
	sort.Slice(cur, func(i, j int) bool { return cur[i].Call < cur[j].Call })
	for k := 1; k < len(cur); k++ {
		if res, _ := porcupine.CheckOperationsVerbose(model, cur[:k], 5*time.Second); res == porcupine.Illegal {
			cur = append([]porcupine.Operation{}, cur[:k]...)
			break
		}
	}
	for i := len(cur) - 1; i >= 0; i-- {
		if !isRead(cur[i]) {
			continue
		}
		t := append(append([]porcupine.Operation{}, cur[:i]...), cur[i+1:]...)
		if res, _ := porcupine.CheckOperationsVerbose(model, t, 5*time.Second); res == porcupine.Illegal {
			cur = t
		}
	}
	return cur
}

func c37ConcChild(tier string, idx, of int) int {
	run0 := mon.NewRun("C37", tier, "exploration", "")
	run, lim := run0, newLimiter(run0)
	e := setupEntities(c37Parties)
	viper.Set("server_chain.round_timeouts.timeout_cap", 0)
	per := scale(tier, 3000, 70000)
	seed := mon.Seed()
	model := c37Model()
	single := model
	single.Partition = nil
	reported := map[string]int{}
	type pend struct {
		sig, detail string
		replay      interface{}
		n           int
	}
	var pending []pend // reported smallest history first, so that the replay kept per signature is the shortest witness
	for k := 0; k < per; k++ {
		id := idx*per + k
		c := genConc(seed, id)
		out := runConcHistory(e, &c)
		run.Eval(1)
		run.Count("conc_histories", 1)
		run.Count("conc_histories_"+c.Kind, 1)
		if out.Hung {
			run.Count("conc_hangs", 1)
			if out.Dump != "" {
				lim.Violate("C37:op-never-returns:concurrent", fmt.Sprintf("history %d (%s): goroutines parked on the round mutex after 20 s", c.ID, c.Kind), map[string]interface{}{"case": c, "dump": out.Dump})
			} else {
				run.Inconclusive(fmt.Sprintf("concurrent history %d did not complete within 20 s (no round frame blocked)", c.ID))
			}
			run.Checkpoint()
			continue
		}
		if out.RejectedRestart {
			lim.Violate("C37:restart-rejected-below-share", fmt.Sprintf("history %d: Restart was rejected although no operation raises the phase to Share", c.ID), map[string]interface{}{"case": c})
		}
		run.Count("conc_ops", int64(len(out.Ops)))
		pairs, dpairs, rpairs := phaseWriterOverlaps(out.Ops)
		run.Count("overlapping_phase_writer_pairs", int64(pairs))
		run.Count("overlapping_phase_writer_pairs_distinct_targets", int64(dpairs))
		run.Count("overlapping_phase_writer_reset_pairs", int64(rpairs))
		if pairs > 0 {
			run.Count("histories_with_overlapping_phase_writers", 1)
		}
		res, _ := porcupine.CheckOperationsVerbose(model, out.Ops, 10*time.Second)
		if res == porcupine.Unknown {
			// a loaded machine, not a hard history: these checks take milliseconds. Retry with a generous watchdog.
			run.Count("porcupine_retries_after_timeout", 1)
			res, _ = porcupine.CheckOperationsVerbose(model, out.Ops, 120*time.Second)
		}
		run.Count("porcupine_checks", 1)
		run.Distinct("conc:" + strings.Join(describeOrder(out.Ops), ";"))
		if k < 1 && idx == 0 {
			run.Sample(map[string]interface{}{"kind": "concurrent", "history": c.ID, "class": c.Kind, "goroutines": len(c.Threads), "ops": describeOps(out.Ops), "porcupine": string(res)})
		}
		switch res {
		case porcupine.Ok:
			run.Count("porcupine_ok", 1)
		case porcupine.Unknown:
			run.Count("porcupine_unknown", 1)
			run.Inconclusive(fmt.Sprintf("porcupine timed out on history %d", c.ID))
		case porcupine.Illegal:
			run.Count("porcupine_illegal", 1)
			parts := model.Partition(out.Ops)
			for p, ops := range parts {
				if len(ops) == 0 {
					continue
				}
				r2, _ := porcupine.CheckOperationsVerbose(single, ops, 10*time.Second)
				if r2 != porcupine.Illegal {
					continue
				}
				sig := "C37:" + partNames[p] + "-history-not-linearizable"
				if p == partPhase {
					if pr, _, rp := phaseWriterOverlaps(ops); pr+rp > 0 {
						sig = "C37:phase-lost-update"
					}
				}
				reported[sig]++
				w := ops
				if reported[sig] <= 3 {
					w = shrinkIllegal(single, ops)
				}
				pending = append(pending, pend{sig, fmt.Sprintf("history %d (%s, %d goroutines): the %s operations admit no linearization against the reference object: %s",
					c.ID, c.Kind, len(c.Threads), partNames[p], strings.Join(describeOps(w), " | ")),
					map[string]interface{}{"history": c.ID, "class": c.Kind, "partition": partNames[p], "ops_call_return": describeOps(w), "all_ops": describeOps(ops), "seed": seed}, len(w)})
			}
		}
		if k%200 == 0 {
			run.Checkpoint()
		}
	}
	sort.SliceStable(pending, func(i, j int) bool { return pending[i].n < pending[j].n })
	for _, p := range pending {
		lim.Violate(p.sig, p.detail, p.replay)
	}
	run.Checkpoint()
	rvnFamily(run, lim, e, tier, idx, seed)
	run.Checkpoint()
	return 0
}

// describeOrder is the observed interleaving: operations with outputs in call order, and for each the number of
// operations it overlapped with.
func describeOrder(ops []porcupine.Operation) []string {
	s := append([]porcupine.Operation{}, ops...)
	sort.Slice(s, func(i, j int) bool { return s[i].Call < s[j].Call })
	var out []string
	for i, o := range s {
		in, ou := o.Input.(cin), o.Output.(cout)
		ov := 0
		for j := i + 1; j < len(s) && s[j].Call < o.Return; j++ {
			ov++
		}
		out = append(out, fmt.Sprintf("%d:%s%d>%d%v%s+%d", o.ClientId, in.Op, in.A, ou.I, ou.B, ou.S, ov))
	}
	return out
}

// ---------------------------------------------------------------------------------------------------------
// C37, race family "rvn": Restart against AddNotarizedBlock on many fresh rounds.
//
// The linearizability histories above never contain a Restart that could be refused, so the one place where the
// property speaks about restarts ("the phase only moves forward except through ... a restart before sharing") is not
// raced there. This family does exactly that and nothing else: a short sequential prelude leaves a fresh round below
// Share, then one goroutine calls AddNotarizedBlock(b) while another calls Restart(). Both leave a tight rendezvous
// together and then burn a PRNG-chosen number of spin iterations, which moves the two calls against each other by
// nanoseconds to microseconds. Calls and returns are stamped with the shared logical clock; the round is judged when
// both have returned.
//
// Oracle (reference model below, written from the property text): the two operations are atomic with respect to each
// other, so the outcome (Restart's answer, final phase, notarized blocks, VRF shares) must be the outcome of one of the
// two sequential orders the recorded call / return stamps allow:
//
//	Restart ; Add   Restart accepted (the round is below Share), the block lands in the restarted round
//	Add ; Restart   the block is notarized, the phase is Share, Restart is refused and changes nothing
//
// "Restart returned nil and the round ends below Share without the block although AddNotarizedBlock returned" matches
// neither and is the backward move through a restart that was not before sharing.

type rvnBlk struct {
	Hash string
	Rank int
}

// rvnModel is the sequential reference: phase, notarized blocks (hash -> rank), number of VRF shares.
type rvnModel struct {
	Phase  int
	NB     map[string]int
	Shares int
}

func (m rvnModel) clone() rvnModel {
	c := rvnModel{Phase: m.Phase, Shares: m.Shares, NB: map[string]int{}}
	for k, v := range m.NB {
		c.NB[k] = v
	}
	return c
}

// add returns true when the block is new to the round (then the round reaches Share).
func (m *rvnModel) add(b rvnBlk) bool {
	if _, ok := m.NB[b.Hash]; ok {
		return false // a known block is only merged
	}
	for h, rk := range m.NB {
		if rk == b.Rank {
			delete(m.NB, h) // one notarized block per rank
		}
	}
	m.NB[b.Hash] = b.Rank
	if m.Phase < int(round.Share) {
		m.Phase = int(round.Share)
	}
	return true
}

// restart returns true when the restart is accepted (only before sharing).
func (m *rvnModel) restart() bool {
	if m.Phase >= int(round.Share) {
		return false
	}
	m.Phase = int(round.ShareVRF)
	m.NB = map[string]int{}
	m.Shares = 0
	return true
}

type rvnOutcome struct {
	Refused bool
	Phase   int
	NB      string // sorted short hashes
	Shares  int
}

func (m rvnModel) outcome(refused bool) rvnOutcome {
	var hs []string
	for h := range m.NB {
		hs = append(hs, rvnShort(h))
	}
	sort.Strings(hs)
	return rvnOutcome{Refused: refused, Phase: m.Phase, NB: strings.Join(hs, ","), Shares: m.Shares}
}

func rvnShort(h string) string { return strings.TrimLeft(h, "0") }

type rvnCase struct {
	Kind    string
	Pre     []cop // sequential prelude
	RaceBlk int   // index of the block offered by the racing AddNotarizedBlock
	Spin    [2]int
}

var rvnKinds = []string{"first", "first", "first", "raised", "raised", "replace-same-rank", "replace-same-rank", "other-rank", "known-hash"}

// rvnBlocks: 0 and 3 share rank 0, 1 has rank 1 (same layout as newBlocksN).
func rvnGen(r *mon.Rand) rvnCase {
	c := rvnCase{Kind: rvnKinds[r.Intn(len(rvnKinds))]}
	below := func() int { return r.Intn(int(round.Share)) }
	switch c.Kind {
	case "first":
	case "raised":
		for k, n := 0, r.Intn(3); k < n; k++ {
			c.Pre = append(c.Pre, cop{"AddVRFShare", k})
		}
		c.Pre = append(c.Pre, cop{"SetPhase", below()})
	case "replace-same-rank":
		c.Pre = []cop{{"AddNotarizedBlock", 0}, {"ResetPhase", below()}}
		c.RaceBlk = 3
	case "other-rank":
		c.Pre = []cop{{"AddNotarizedBlock", 0}, {"ResetPhase", below()}}
		c.RaceBlk = 1
	case "known-hash":
		c.Pre = []cop{{"AddNotarizedBlock", 0}, {"ResetPhase", below()}}
		c.RaceBlk = 0
	}
	for i := range c.Spin {
		switch r.Intn(4) {
		case 0:
		case 1:
			c.Spin[i] = r.Intn(64)
		case 2:
			c.Spin[i] = r.Intn(512)
		default:
			c.Spin[i] = r.Intn(4096)
		}
	}
	return c
}

const (
	rvnAdd     = 0
	rvnRestart = 1
)

type rvnSlot struct {
	c       rvnCase
	n       int // race number within the lane
	pre     rvnModel
	armed   int32 // arrivals at this slot's rendezvous
	r       *round.Round
	blk     *block.Block
	call    [2]int64
	ret     [2]int64
	refused bool
	sink    [2]uint32
}

type rvnViolation struct {
	sig, detail string
	replay      interface{}
}

type rvnLane struct {
	id       int
	gen      int32 // batches published by the coordinator
	done     int32 // workers through with a batch
	stop     int32
	cur      []*rvnSlot
	progress int64
	gids     [3]int64
	finished int32

	counters map[string]int64
	distinct map[string]bool
	nviol    map[string]int
	viol     []rvnViolation
	incon    []string
	sample   interface{}
}

func (l *rvnLane) worker(role int) {
	atomic.StoreInt64(&l.gids[role], goid())
	for i := int32(1); ; i++ {
		for n := 0; atomic.LoadInt32(&l.gen) < i; n++ {
			if atomic.LoadInt32(&l.stop) != 0 {
				return
			}
			if n > 200 {
				runtime.Gosched()
			}
		}
		for _, s := range l.cur {
			// the two workers leave every slot's rendezvous together, then drift apart by their spin counts
			atomic.AddInt32(&s.armed, 1)
			for n := 0; atomic.LoadInt32(&s.armed) < 2; n++ {
				if n > 64 {
					// the partner may sit in this P's run queue (just woken from the round mutex): let it run. A pure spin
					// here costs 3-4x the wall time on a loaded machine
					runtime.Gosched()
				}
			}
			x := uint32(i)
			for k := s.c.Spin[role]; k > 0; k-- {
				x = x*1664525 + 1013904223
			}
			s.sink[role] = x
			if role == rvnAdd {
				s.call[role] = tick()
				s.r.AddNotarizedBlock(s.blk)
				s.ret[role] = tick()
			} else {
				s.call[role] = tick()
				err := s.r.Restart()
				s.ret[role] = tick()
				s.refused = err != nil
			}
		}
		atomic.AddInt32(&l.done, 1)
	}
}

func rvnNewBlock(rn int64, i int) *block.Block {
	b := block.NewBlock("", rn)
	b.Hash = fmt.Sprintf("%064x", uint64(i+1)*1000003)
	b.RoundRank = i % 3
	b.MinerID = fmt.Sprintf("miner-%d", i)
	return b
}

func rvnInfo(i int) rvnBlk {
	return rvnBlk{Hash: fmt.Sprintf("%064x", uint64(i+1)*1000003), Rank: i % 3}
}

func rvnObserve(r *round.Round, refused bool) rvnOutcome {
	o := rvnOutcome{Refused: refused, Phase: int(r.GetPhase()), Shares: len(r.GetVRFShares())}
	var hs []string
	for _, b := range r.GetNotarizedBlocks() {
		hs = append(hs, rvnShort(b.Hash))
	}
	sort.Strings(hs)
	o.NB = strings.Join(hs, ",")
	return o
}

// rvnJudge is the oracle: a function of the case, the four stamps and the quiescent observation only.
func rvnJudge(c rvnCase, pre rvnModel, call, ret [2]int64, got rvnOutcome) (sig, detail string, allowed map[string]rvnOutcome) {
	allowed = map[string]rvnOutcome{}
	b := rvnInfo(c.RaceBlk)
	ar := pre.clone()
	effective := ar.add(b)
	sharedAfterAdd := ar.Phase >= int(round.Share)
	arRefused := !ar.restart()
	ra := pre.clone()
	raRefused := !ra.restart()
	ra.add(b)
	addBeforeRestart := ret[rvnAdd] < call[rvnRestart]
	restartBeforeAdd := ret[rvnRestart] < call[rvnAdd]
	if !restartBeforeAdd {
		allowed["Add;Restart"] = ar.outcome(arRefused)
	}
	if !addBeforeRestart {
		allowed["Restart;Add"] = ra.outcome(raRefused)
	}
	for _, a := range allowed {
		if a == got {
			return "", "", allowed
		}
	}
	desc := fmt.Sprintf("%s: prelude %v left phase %d, notarized {%s}, %d shares; AddNotarizedBlock(%s rank %d) [%d,%d] || Restart() [%d,%d] -> refused=%v; at quiescence phase %d, notarized {%s}, %d shares; allowed %v",
		c.Kind, c.Pre, pre.Phase, pre.outcome(false).NB, pre.Shares, rvnShort(b.Hash), b.Rank, call[rvnAdd], ret[rvnAdd], call[rvnRestart], ret[rvnRestart], got.Refused, got.Phase, got.NB, got.Shares, allowed)
	hasBlk := false
	for _, h := range strings.Split(got.NB, ",") {
		if h == rvnShort(b.Hash) {
			hasBlk = true
		}
	}
	switch {
	case addBeforeRestart && sharedAfterAdd && !got.Refused:
		return "C37:restart-accepted-at-share", "AddNotarizedBlock had returned (phase Share) before Restart was called, and Restart was accepted: " + desc, allowed
	case effective && !got.Refused && (got.Phase < int(round.Share) || !hasBlk):
		return "C37:restart-after-notarization-moved-phase-back", "Restart returned nil and the round ends below Share / without the notarized block although AddNotarizedBlock returned: the restart took effect after the round had reached Share: " + desc, allowed
	}
	return "C37:restart-vs-notarized-block-not-atomic", "the outcome is that of neither sequential order: " + desc, allowed
}

const rvnBatch = 256

// prepare builds one fresh round, runs the sequential prelude on it and on the reference, and checks they agree.
func (l *rvnLane) prepare(e *env, rnd *mon.Rand, i int) *rvnSlot {
	c := rvnGen(rnd)
	rn := int64(5000 + i%1000)
	s := &rvnSlot{c: c, n: i, r: round.NewRound(rn), pre: rvnModel{NB: map[string]int{}}}
	for k, o := range c.Pre {
		switch o.Op {
		case "AddVRFShare":
			sh := &round.VRFShare{Round: rn, Share: fmt.Sprintf("rvn-%d-%d", i, k)}
			sh.SetParty(e.Parties[o.A].N)
			if s.r.AddVRFShare(sh, c37Parties) {
				s.pre.Shares++
			}
		case "SetPhase":
			s.r.SetPhase(round.Phase(o.A))
			if o.A > s.pre.Phase {
				s.pre.Phase = o.A
			}
		case "ResetPhase":
			s.r.ResetPhase(round.Phase(o.A))
			s.pre.Phase = o.A
		case "AddNotarizedBlock":
			s.r.AddNotarizedBlock(rvnNewBlock(rn, o.A))
			s.pre.add(rvnInfo(o.A))
		}
	}
	if got := rvnObserve(s.r, false); got != s.pre.outcome(false) {
		l.incon = append(l.incon, fmt.Sprintf("rvn lane %d round %d: after the sequential prelude %v the round shows %+v, the reference %+v", l.id, i, c.Pre, got, s.pre.outcome(false)))
		return nil
	}
	if c.Kind == "known-hash" {
		for _, b := range s.r.GetNotarizedBlocks() {
			s.blk = b // the very block object the round already holds
		}
	} else {
		s.blk = rvnNewBlock(rn, c.RaceBlk)
	}
	return s
}

func (l *rvnLane) judge(s *rvnSlot) {
	c := s.c
	got := rvnObserve(s.r, s.refused)
	l.counters["rvn_races"]++
	l.counters["rvn_races_"+c.Kind]++
	if s.call[0] < s.ret[1] && s.call[1] < s.ret[0] {
		l.counters["rvn_races_overlapping_calls"]++
	}
	if s.refused {
		l.counters["rvn_restart_refused"]++
	} else {
		l.counters["rvn_restart_accepted"]++
	}
	if s.ret[rvnAdd] < s.call[rvnRestart] {
		l.counters["rvn_add_returned_before_restart_called"]++
	}
	if s.ret[rvnRestart] < s.call[rvnAdd] {
		l.counters["rvn_restart_returned_before_add_called"]++
	}
	sig, detail, allowed := rvnJudge(c, s.pre, s.call, s.ret, got)
	ev := []struct {
		n string
		t int64
	}{{"A(", s.call[0]}, {")A", s.ret[0]}, {"R(", s.call[1]}, {")R", s.ret[1]}}
	sort.Slice(ev, func(a, b int) bool { return ev[a].t < ev[b].t })
	order := ev[0].n + ev[1].n + ev[2].n + ev[3].n
	matched := "none"
	for name, a := range allowed {
		if a == got {
			if matched == "none" {
				matched = name
			} else {
				matched = "either"
			}
		}
	}
	l.counters["rvn_linearized_as:"+matched]++
	l.distinct[fmt.Sprintf("rvn:%s:%v:%s:%+v", c.Kind, c.Pre, order, got)] = true
	if l.sample == nil && l.id == 0 {
		l.sample = map[string]interface{}{"kind": "restart-vs-notarized-block", "class": c.Kind, "prelude": fmt.Sprint(c.Pre), "spin": c.Spin, "events": order, "outcome": fmt.Sprintf("%+v", got), "linearized_as": matched}
	}
	if sig != "" {
		if l.nviol[sig]++; l.nviol[sig] > perSigCap {
			l.counters["violations:"+sig]++ // tallied, not kept: the limiter keeps perSigCap witnesses per signature anyway
			return
		}
		l.viol = append(l.viol, rvnViolation{sig, fmt.Sprintf("lane %d race %d: %s", l.id, s.n, detail),
			map[string]interface{}{"class": c.Kind, "prelude": fmt.Sprint(c.Pre), "race_block": c.RaceBlk, "spin": c.Spin, "events_in_clock_order": order,
				"stamps":          map[string]int64{"add_call": s.call[0], "add_return": s.ret[0], "restart_call": s.call[1], "restart_return": s.ret[1]},
				"restart_refused": s.refused, "observed": fmt.Sprintf("%+v", got), "allowed": fmt.Sprintf("%v", allowed)}})
	}
}

func (l *rvnLane) coordinate(e *env, rnd *mon.Rand, n int) {
	atomic.StoreInt64(&l.gids[2], goid())
	defer atomic.StoreInt32(&l.finished, 1)
	defer atomic.StoreInt32(&l.stop, 1)
	for i, batch := 0, int32(1); i < n; batch++ {
		var slots []*rvnSlot
		for k := 0; k < rvnBatch && i < n; k++ {
			i++
			s := l.prepare(e, rnd, i)
			if s == nil {
				return
			}
			slots = append(slots, s)
		}
		l.cur = slots
		atomic.StoreInt32(&l.gen, batch)
		for k := 0; atomic.LoadInt32(&l.done) < 2*batch; k++ {
			if k > 50 {
				runtime.Gosched()
			}
		}
		for _, s := range slots { // both workers are through: the rounds are quiescent
			l.judge(s)
		}
		atomic.AddInt64(&l.progress, 1)
	}
}

// rvnFamily runs the lanes under a watchdog: an operation (or a quiescent read) that does not return within 20 s is
// the "every round operation returns" half of the property.
func rvnFamily(run *mon.Run, lim *limiter, e *env, tier string, idx int, seed uint64) {
	const lanes = 2
	per := scale(tier, 6000, 400000)
	var ls []*rvnLane
	for i := 0; i < lanes; i++ {
		l := &rvnLane{id: idx*lanes + i, counters: map[string]int64{}, distinct: map[string]bool{}, nviol: map[string]int{}}
		ls = append(ls, l)
		rnd := mon.NewRand(seed).Fork(fmt.Sprintf("c37rvn:lane:%d", l.id))
		go l.worker(rvnAdd)
		go l.worker(rvnRestart)
		go l.coordinate(e, rnd, per)
	}
	last := make([]int64, lanes)
	idle := 0
	hung := false
	for {
		time.Sleep(100 * time.Millisecond)
		all, moved := true, false
		for i, l := range ls {
			if atomic.LoadInt32(&l.finished) == 0 {
				all = false
			}
			if p := atomic.LoadInt64(&l.progress); p != last[i] {
				last[i], moved = p, true
			}
		}
		if all {
			break
		}
		if moved {
			idle = 0
			continue
		}
		if idle++; idle >= 200 {
			hung = true
			break
		}
	}
	if hung {
		dump := allStacks()
		var blocked []string
		for _, l := range ls {
			atomic.StoreInt32(&l.stop, 1)
			for k := range l.gids {
				blk := goroutineBlock(dump, atomic.LoadInt64(&l.gids[k]))
				if _, ok := blockedInRoundLock(blk); ok {
					blocked = append(blocked, blk)
				}
			}
		}
		run.Count("conc_hangs", 1)
		if len(blocked) > 0 {
			lim.Violate("C37:op-never-returns:concurrent", "Restart || AddNotarizedBlock race on a fresh round: goroutines parked on the round mutex after 20 s", map[string]interface{}{"family": "restart-vs-notarized-block", "dump": strings.Join(blocked, "\n\n")})
		} else {
			run.Inconclusive("restart-vs-notarized-block race family made no progress for 20 s (no round frame blocked)")
		}
		return // the lanes' own tallies are not read: their goroutines may still be writing them
	}
	for _, l := range ls {
		for k, v := range l.counters {
			run.Count(k, v)
		}
		run.Eval(l.counters["rvn_races"])
		for k := range l.distinct {
			run.Distinct(k)
		}
		if l.sample != nil {
			run.Sample(l.sample)
		}
		for _, s := range l.incon {
			run.Inconclusive(s)
		}
		for _, v := range l.viol {
			lim.Violate(v.sig, v.detail, v.replay)
		}
	}
	// the family only says something when the two calls really met: a schedule that serialises them is not a race
	if n, ov := run.Counter("rvn_races"), run.Counter("rvn_races_overlapping_calls"); ov*50 < n {
		run.Inconclusive(fmt.Sprintf("restart-vs-notarized-block race family: only %d of %d races had overlapping call intervals", ov, n))
	}
}
