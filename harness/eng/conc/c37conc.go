package conc

import (
	"fmt"
	"runtime"
	"sort"
	"strings"
	"sync"
	"sync/atomic"
	"time"

	"0chain.net/chaincore/block"
	"0chain.net/chaincore/round"
	"0chain.net/core/viper"
	"github.com/anishathalye/porcupine"

	"verifh/mon"
)

// ---------------------------------------------------------------------------------------------------------
// C37, concurrent part: many short histories of 8..16 goroutines on one round, recorded at the call boundary and
// checked for linearizability against four independent little objects:
//
//   phase     max-register with reset  (SetPhase = max, ResetPhase = store, AddNotarizedBlock = max(.., Share),
//             accepted Restart = ShareVRF, GetPhase reads)
//   shares    bounded set, one per party (AddVRFShare -> bool, VRFShareExist, GetVRFShares, Restart empties)
//   timeouts  counter that only grows (SetTimeoutCount -> bool iff greater, IncrementTimeoutCount = +1 without votes)
//   finalize  {not, finalizing, finalized} with the conditional reset
//
// A Restart that could be rejected is never generated here (it would leak the round mutex, see the sequential part,
// and freeze every later history); histories containing Restart only raise the phase below Share.

type cin struct {
	Part int // 0 phase, 1 shares, 2 timeouts, 3 finalize
	Op   string
	A    int
	T    int // threshold (shares)
}

type cout struct {
	I int
	B bool
	S string
}

const (
	partPhase = iota
	partShares
	partTimeouts
	partFinalize
)

var partNames = []string{"phase", "shares", "timeouts", "finalize"}

func c37Model() porcupine.Model {
	return porcupine.Model{
		Partition: func(h []porcupine.Operation) [][]porcupine.Operation {
			out := make([][]porcupine.Operation, 4)
			for _, o := range h {
				p := o.Input.(cin).Part
				out[p] = append(out[p], o)
			}
			return out
		},
		Init: func() interface{} { return "" }, // every partition encodes its state as a string; "" is the zero state
		Step: func(state, input, output interface{}) (bool, interface{}) {
			in, out, st := input.(cin), output.(cout), state.(string)
			switch in.Part {
			case partPhase:
				p := 0
				if st != "" {
					fmt.Sscanf(st, "%d", &p)
				}
				enc := func(v int) string {
					if v == 0 {
						return ""
					}
					return fmt.Sprint(v)
				}
				switch in.Op {
				case "SetPhase":
					if in.A > p {
						p = in.A
					}
					return true, enc(p)
				case "AddNotarizedBlock":
					if int(round.Share) > p {
						p = int(round.Share)
					}
					return true, enc(p)
				case "ResetPhase":
					return true, enc(in.A)
				case "Restart":
					return true, enc(0)
				case "GetPhase":
					return out.I == p, st
				}
			case partShares:
				set := map[string]bool{}
				if st != "" {
					for _, k := range strings.Split(st, ",") {
						set[k] = true
					}
				}
				enc := func() string {
					var ks []string
					for k := range set {
						ks = append(ks, k)
					}
					sort.Strings(ks)
					return strings.Join(ks, ",")
				}
				key := fmt.Sprint(in.A)
				switch in.Op {
				case "AddVRFShare":
					want := !set[key] && len(set) < in.T
					if out.B != want {
						return false, st
					}
					if want {
						set[key] = true
					}
					return true, enc()
				case "VRFShareExist":
					return out.B == set[key], st
				case "GetVRFShares":
					return out.S == st, st
				case "Restart":
					return true, ""
				}
			case partTimeouts:
				c := 0
				if st != "" {
					fmt.Sscanf(st, "%d", &c)
				}
				enc := func(v int) string {
					if v == 0 {
						return ""
					}
					return fmt.Sprint(v)
				}
				switch in.Op {
				case "SetTimeoutCount":
					want := in.A > c
					if out.B != want {
						return false, st
					}
					if want {
						c = in.A
					}
					return true, enc(c)
				case "IncrementTimeoutCount":
					return true, enc(c + 1)
				case "GetTimeoutCount":
					return out.I == c, st
				}
			case partFinalize:
				f := 0
				if st != "" {
					fmt.Sscanf(st, "%d", &f)
				}
				enc := func(v int) string {
					if v == 0 {
						return ""
					}
					return fmt.Sprint(v)
				}
				switch in.Op {
				case "SetFinalizing":
					if f == 0 {
						return out.B, enc(1)
					}
					return !out.B, st
				case "SetFinalized":
					return true, enc(2)
				case "ResetFinalizingStateIfNotFinalized":
					if f == 2 {
						return true, st
					}
					return true, enc(0)
				case "IsFinalized":
					return out.B == (f == 2), st
				case "IsFinalizing":
					return out.B == (f == 1), st
				}
			}
			return false, st
		},
		DescribeOperation: func(input, output interface{}) string {
			in, out := input.(cin), output.(cout)
			return fmt.Sprintf("%s(%d)->{%d %v %q}", in.Op, in.A, out.I, out.B, out.S)
		},
	}
}

type cop struct {
	Op string
	A  int
}

type concCase struct {
	ID        int
	Kind      string // "phase" | "restart-mix" | "mixed"
	Threshold int
	Threads   [][]cop
}

func genConc(seed uint64, id int) concCase {
	r := mon.NewRand(seed).Fork(fmt.Sprintf("c37conc:%d", id))
	c := concCase{ID: id, Threshold: 1 + r.Intn(4)}
	g := []int{8, 8, 12, 16}[r.Intn(4)]
	c.Kind = []string{"phase", "phase", "restart-mix", "mixed", "duel", "duel", "duel"}[r.Intn(7)]
	if c.Kind == "duel" {
		// the smallest shape in which a lost update can show: 2-3 goroutines, one phase write each, all different
		g = 2 + r.Intn(2)
		vals := []int{1, 2, 3, 4}
		r.Shuffle(len(vals), func(i, j int) { vals[i], vals[j] = vals[j], vals[i] })
		for t := 0; t < g; t++ {
			c.Threads = append(c.Threads, []cop{{"SetPhase", vals[t]}})
		}
		return c
	}
	nb := 0 // every AddNotarizedBlock of a history offers a block of its own (a known hash is only merged, the phase is not touched)
	for t := 0; t < g; t++ {
		n := 2 + r.Intn(3)
		var ops []cop
		for len(ops) < n {
			var o cop
			switch c.Kind {
			case "phase":
				switch x := r.Intn(20); {
				case x < 11:
					o = cop{"SetPhase", r.Intn(5)}
				case x < 13:
					o = cop{"AddNotarizedBlock", r.Intn(c37Blocks)}
				case x < 14:
					o = cop{"ResetPhase", r.Intn(5)}
				default:
					o = cop{"GetPhase", 0}
				}
			case "restart-mix":
				switch x := r.Intn(20); {
				case x < 6:
					o = cop{"SetPhase", r.Intn(3)} // stays below Share: Restart is always accepted
				case x < 8:
					o = cop{"Restart", 0}
				case x < 13:
					o = cop{"AddVRFShare", r.Intn(c37Parties)}
				case x < 15:
					o = cop{"GetVRFShares", 0}
				case x < 16:
					o = cop{"VRFShareExist", r.Intn(c37Parties)}
				default:
					o = cop{"GetPhase", 0}
				}
			default:
				switch x := r.Intn(24); {
				case x < 5:
					o = cop{"SetPhase", r.Intn(5)}
				case x < 7:
					o = cop{"GetPhase", 0}
				case x < 11:
					o = cop{"AddVRFShare", r.Intn(c37Parties)}
				case x < 13:
					o = cop{"GetVRFShares", 0}
				case x < 15:
					o = cop{"SetTimeoutCount", r.Intn(8)}
				case x < 16:
					o = cop{"IncrementTimeoutCount", 0}
				case x < 18:
					o = cop{"GetTimeoutCount", 0}
				case x < 19:
					o = cop{"SetFinalizing", 0}
				case x < 20:
					o = cop{"SetFinalized", 0}
				case x < 22:
					o = cop{"ResetFinalizingStateIfNotFinalized", 0}
				case x < 23:
					o = cop{"IsFinalized", 0}
				default:
					o = cop{"AddNotarizedBlock", r.Intn(c37Blocks)}
				}
			}
			if o.Op == "AddNotarizedBlock" {
				o.A = nb
				nb++
			}
			ops = append(ops, o)
		}
		c.Threads = append(c.Threads, ops)
	}
	return c
}

func sharesString(e *env, m map[string]*round.VRFShare) string {
	var ks []string
	for k := range m {
		for i, p := range e.Parties {
			if p.N.GetKey() == k {
				ks = append(ks, fmt.Sprint(i))
			}
		}
	}
	sort.Strings(ks)
	return strings.Join(ks, ",")
}

// doConcOp calls one operation on the real round and returns the recorded operations (Restart spans two objects).
func doConcOp(e *env, r *round.Round, c *concCase, blocks []*block.Block, client int, o cop, seq int) []porcupine.Operation {
	mk := func(part int, out cout, call, ret int64) porcupine.Operation {
		return porcupine.Operation{ClientId: client, Input: cin{Part: part, Op: o.Op, A: o.A, T: c.Threshold}, Call: call, Output: out, Return: ret}
	}
	var out cout
	part := partPhase
	var sh *round.VRFShare
	if o.Op == "AddVRFShare" || o.Op == "VRFShareExist" {
		sh = &round.VRFShare{Round: r.Number, Share: fmt.Sprintf("s-%d-%d-%d", client, seq, o.A)}
		sh.SetParty(e.Parties[o.A].N)
	}
	call := tick()
	switch o.Op {
	case "SetPhase":
		r.SetPhase(round.Phase(o.A))
	case "ResetPhase":
		r.ResetPhase(round.Phase(o.A))
	case "GetPhase":
		out.I = int(r.GetPhase())
	case "AddNotarizedBlock":
		r.AddNotarizedBlock(blocks[o.A])
	case "Restart":
		if err := r.Restart(); err != nil {
			out.B = true // rejected: never expected here
		}
	case "AddVRFShare":
		part = partShares
		out.B = r.AddVRFShare(sh, c.Threshold)
	case "VRFShareExist":
		part = partShares
		out.B = r.VRFShareExist(sh)
	case "GetVRFShares":
		part = partShares
		m := r.GetVRFShares()
		ret := tick()
		out.S = sharesString(e, m)
		return []porcupine.Operation{mk(part, out, call, ret)}
	case "SetTimeoutCount":
		part = partTimeouts
		out.B = r.SetTimeoutCount(o.A)
	case "IncrementTimeoutCount":
		part = partTimeouts
		r.IncrementTimeoutCount(1, e.Pool)
	case "GetTimeoutCount":
		part = partTimeouts
		out.I = r.GetTimeoutCount()
	case "SetFinalizing":
		part = partFinalize
		out.B = r.SetFinalizing()
	case "SetFinalized":
		part = partFinalize
		r.SetFinalized()
	case "ResetFinalizingStateIfNotFinalized":
		part = partFinalize
		r.ResetFinalizingStateIfNotFinalized()
	case "IsFinalized":
		part = partFinalize
		out.B = r.IsFinalized()
	case "IsFinalizing":
		part = partFinalize
		out.B = r.IsFinalizing()
	}
	ret := tick()
	if o.Op == "Restart" {
		return []porcupine.Operation{mk(partPhase, out, call, ret), mk(partShares, out, call, ret)}
	}
	return []porcupine.Operation{mk(part, out, call, ret)}
}

type concOutcome struct {
	Ops             []porcupine.Operation
	Hung            bool
	Dump            string
	RejectedRestart bool
}

func runConcHistory(e *env, c *concCase) concOutcome {
	r := round.NewRound(int64(100 + c.ID%1000))
	blocks := newBlocksN(r.Number, 16*4)
	g := len(c.Threads)
	results := make([][]porcupine.Operation, g)
	gids := make([]int64, g)
	var start int32
	var ready, wg sync.WaitGroup
	ready.Add(g)
	wg.Add(g)
	for t := 0; t < g; t++ {
		go func(t int) {
			defer wg.Done()
			atomic.StoreInt64(&gids[t], goid())
			ready.Done()
			for atomic.LoadInt32(&start) == 0 {
				runtime.Gosched()
			}
			var mine []porcupine.Operation
			for i, o := range c.Threads[t] {
				mine = append(mine, doConcOp(e, r, c, blocks, t, o, i)...)
			}
			results[t] = mine
		}(t)
	}
	ready.Wait()
	atomic.StoreInt32(&start, 1)
	done := make(chan struct{})
	go func() { wg.Wait(); close(done) }()
	select {
	case <-done:
	case <-time.After(20 * time.Second):
		dump := allStacks()
		var blocked []string
		for t := 0; t < g; t++ {
			blk := goroutineBlock(dump, atomic.LoadInt64(&gids[t]))
			if _, ok := blockedInRoundLock(blk); ok {
				blocked = append(blocked, blk)
			}
		}
		return concOutcome{Hung: true, Dump: strings.Join(blocked, "\n\n")}
	}
	var out concOutcome
	for _, ops := range results {
		out.Ops = append(out.Ops, ops...)
	}
	// quiescent reads close the history
	final := []cop{{"GetPhase", 0}, {"GetVRFShares", 0}, {"GetTimeoutCount", 0}, {"IsFinalized", 0}, {"IsFinalizing", 0}}
	for i, o := range final {
		out.Ops = append(out.Ops, doConcOp(e, r, c, blocks, g, o, i)...)
	}
	for _, o := range out.Ops {
		if o.Input.(cin).Op == "Restart" && o.Output.(cout).B {
			out.RejectedRestart = true
		}
	}
	return out
}

// overlapping phase writers: pairs of SetPhase / AddNotarizedBlock from different goroutines whose call/return
// intervals intersect (distinctTarget: asking for different phases); withReset counts a SetPhase-like writer that
// overlaps a ResetPhase / Restart of another goroutine.
func phaseWriterOverlaps(ops []porcupine.Operation) (pairs, distinctTarget, withReset int) {
	var ws, rs []porcupine.Operation
	for _, o := range ops {
		in := o.Input.(cin)
		if in.Part != partPhase {
			continue
		}
		switch in.Op {
		case "SetPhase", "AddNotarizedBlock":
			ws = append(ws, o)
		case "ResetPhase", "Restart":
			rs = append(rs, o)
		}
	}
	target := func(o porcupine.Operation) int {
		in := o.Input.(cin)
		if in.Op == "AddNotarizedBlock" {
			return int(round.Share)
		}
		return in.A
	}
	ov := func(a, b porcupine.Operation) bool {
		return a.ClientId != b.ClientId && a.Call < b.Return && b.Call < a.Return
	}
	for i := 0; i < len(ws); i++ {
		for j := i + 1; j < len(ws); j++ {
			if ov(ws[i], ws[j]) {
				pairs++
				if target(ws[i]) != target(ws[j]) {
					distinctTarget++
				}
			}
		}
		for _, r := range rs {
			if ov(ws[i], r) {
				withReset++
			}
		}
	}
	return
}

func describeOps(ops []porcupine.Operation) []string {
	sort.Slice(ops, func(i, j int) bool { return ops[i].Call < ops[j].Call })
	var out []string
	for _, o := range ops {
		in, ou := o.Input.(cin), o.Output.(cout)
		res := ""
		switch in.Op {
		case "GetPhase", "GetTimeoutCount":
			res = fmt.Sprintf(" -> %d", ou.I)
		case "AddVRFShare", "VRFShareExist", "SetTimeoutCount", "SetFinalizing", "IsFinalized", "IsFinalizing":
			res = fmt.Sprintf(" -> %v", ou.B)
		case "GetVRFShares":
			res = fmt.Sprintf(" -> {%s}", ou.S)
		}
		out = append(out, fmt.Sprintf("g%d [%d,%d] %s(%d)%s", o.ClientId, o.Call, o.Return, in.Op, in.A, res))
	}
	return out
}

// shrinkIllegal drops read operations while the partition stays non-linearizable.
func shrinkIllegal(model porcupine.Model, ops []porcupine.Operation) []porcupine.Operation {
	isRead := func(o porcupine.Operation) bool {
		switch o.Input.(cin).Op {
		case "GetPhase", "GetVRFShares", "VRFShareExist", "GetTimeoutCount", "IsFinalized", "IsFinalizing":
			return true
		}
		return false
	}
	cur := append([]porcupine.Operation{}, ops...)
	// operations invoked after a point in time cannot explain what returned before it: the shortest prefix (in call
	// order) that is already illegal is a witness
	sort.Slice(cur, func(i, j int) bool { return cur[i].Call < cur[j].Call })
	for k := 1; k < len(cur); k++ {
		if res, _ := porcupine.CheckOperationsVerbose(model, cur[:k], 5*time.Second); res == porcupine.Illegal {
			cur = append([]porcupine.Operation{}, cur[:k]...)
			break
		}
	}
	for i := len(cur) - 1; i >= 0; i-- {
		if !isRead(cur[i]) {
			continue
		}
		t := append(append([]porcupine.Operation{}, cur[:i]...), cur[i+1:]...)
		if res, _ := porcupine.CheckOperationsVerbose(model, t, 5*time.Second); res == porcupine.Illegal {
			cur = t
		}
	}
	return cur
}

func c37ConcChild(tier string, idx, of int) int {
	run0 := mon.NewRun("C37", tier, "exploration", "")
	run, lim := run0, newLimiter(run0)
	e := setupEntities(c37Parties)
	viper.Set("server_chain.round_timeouts.timeout_cap", 0)
	per := scale(tier, 3000, 70000)
	seed := mon.Seed()
	model := c37Model()
	single := model
	single.Partition = nil
	reported := map[string]int{}
	type pend struct {
		sig, detail string
		replay      interface{}
		n           int
	}
	var pending []pend // reported smallest history first, so that the replay kept per signature is the shortest witness
	for k := 0; k < per; k++ {
		id := idx*per + k
		c := genConc(seed, id)
		out := runConcHistory(e, &c)
		run.Eval(1)
		run.Count("conc_histories", 1)
		run.Count("conc_histories_"+c.Kind, 1)
		if out.Hung {
			run.Count("conc_hangs", 1)
			if out.Dump != "" {
				lim.Violate("C37:op-never-returns:concurrent", fmt.Sprintf("history %d (%s): goroutines parked on the round mutex after 20 s", c.ID, c.Kind), map[string]interface{}{"case": c, "dump": out.Dump})
			} else {
				run.Inconclusive(fmt.Sprintf("concurrent history %d did not complete within 20 s (no round frame blocked)", c.ID))
			}
			run.Checkpoint()
			continue
		}
		if out.RejectedRestart {
			lim.Violate("C37:restart-rejected-below-share", fmt.Sprintf("history %d: Restart was rejected although no operation raises the phase to Share", c.ID), map[string]interface{}{"case": c})
		}
		run.Count("conc_ops", int64(len(out.Ops)))
		pairs, dpairs, rpairs := phaseWriterOverlaps(out.Ops)
		run.Count("overlapping_phase_writer_pairs", int64(pairs))
		run.Count("overlapping_phase_writer_pairs_distinct_targets", int64(dpairs))
		run.Count("overlapping_phase_writer_reset_pairs", int64(rpairs))
		if pairs > 0 {
			run.Count("histories_with_overlapping_phase_writers", 1)
		}
		res, _ := porcupine.CheckOperationsVerbose(model, out.Ops, 10*time.Second)
		if res == porcupine.Unknown {
			// a loaded machine, not a hard history: these checks take milliseconds. Retry with a generous watchdog.
			run.Count("porcupine_retries_after_timeout", 1)
			res, _ = porcupine.CheckOperationsVerbose(model, out.Ops, 120*time.Second)
		}
		run.Count("porcupine_checks", 1)
		run.Distinct("conc:" + strings.Join(describeOrder(out.Ops), ";"))
		if k < 1 && idx == 0 {
			run.Sample(map[string]interface{}{"kind": "concurrent", "history": c.ID, "class": c.Kind, "goroutines": len(c.Threads), "ops": describeOps(out.Ops), "porcupine": string(res)})
		}
		switch res {
		case porcupine.Ok:
			run.Count("porcupine_ok", 1)
		case porcupine.Unknown:
			run.Count("porcupine_unknown", 1)
			run.Inconclusive(fmt.Sprintf("porcupine timed out on history %d", c.ID))
		case porcupine.Illegal:
			run.Count("porcupine_illegal", 1)
			parts := model.Partition(out.Ops)
			for p, ops := range parts {
				if len(ops) == 0 {
					continue
				}
				r2, _ := porcupine.CheckOperationsVerbose(single, ops, 10*time.Second)
				if r2 != porcupine.Illegal {
					continue
				}
				sig := "C37:" + partNames[p] + "-history-not-linearizable"
				if p == partPhase {
					if pr, _, rp := phaseWriterOverlaps(ops); pr+rp > 0 {
						sig = "C37:phase-lost-update"
					}
				}
				reported[sig]++
				w := ops
				if reported[sig] <= 3 {
					w = shrinkIllegal(single, ops)
				}
				pending = append(pending, pend{sig, fmt.Sprintf("history %d (%s, %d goroutines): the %s operations admit no linearization against the reference object: %s",
					c.ID, c.Kind, len(c.Threads), partNames[p], strings.Join(describeOps(w), " | ")),
					map[string]interface{}{"history": c.ID, "class": c.Kind, "partition": partNames[p], "ops_call_return": describeOps(w), "all_ops": describeOps(ops), "seed": seed}, len(w)})
			}
		}
		if k%200 == 0 {
			run.Checkpoint()
		}
	}
	sort.SliceStable(pending, func(i, j int) bool { return pending[i].n < pending[j].n })
	for _, p := range pending {
		lim.Violate(p.sig, p.detail, p.replay)
	}
	run.Checkpoint()
	return 0
}

// describeOrder is the observed interleaving: operations with outputs in call order, and for each the number of
// operations it overlapped with.
func describeOrder(ops []porcupine.Operation) []string {
	s := append([]porcupine.Operation{}, ops...)
	sort.Slice(s, func(i, j int) bool { return s[i].Call < s[j].Call })
	var out []string
	for i, o := range s {
		in, ou := o.Input.(cin), o.Output.(cout)
		ov := 0
		for j := i + 1; j < len(s) && s[j].Call < o.Return; j++ {
			ov++
		}
		out = append(out, fmt.Sprintf("%d:%s%d>%d%v%s+%d", o.ClientId, in.Op, in.A, ou.I, ou.B, ou.S, ov))
	}
	return out
}
