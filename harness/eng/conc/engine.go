// Package conc is the concurrency engine: round state machine (C37), data races under the race detector (C44)
// and the ordered block buffer (C46). Its binary is built with -race.
//
//	verifh conc -prop C37|C44|C46 -tier quick|thorough
//
// Every property runs its workloads in child processes (a deadlocked round, a panic or the race detector's
// own exit must never take the judging process down). All case lists are functions of VERIF_SEED only; goroutine
// schedules vary, so the evidence reports what was actually observed (histories, operations, overlapping pairs,
// race reports).
package conc

import (
	"flag"
	"fmt"
	"os"
	"path/filepath"
	"runtime"
	"strconv"
	"strings"
	"sync/atomic"

	"0chain.net/chaincore/block"
	"0chain.net/chaincore/node"
	"0chain.net/chaincore/round"
	"0chain.net/core/datastore"
	"0chain.net/core/memorystore"
	"github.com/0chain/common/core/logging"
	"go.uber.org/zap"

	"verifh/mon"
	"verifh/world"
)

// Main is the engine entry point.
func Main(args []string) int {
	fs := flag.NewFlagSet("conc", flag.ExitOnError)
	prop := fs.String("prop", "C37", "property id")
	tier := fs.String("tier", "quick", "quick|thorough")
	child := fs.String("child", "", "child kind (internal)")
	idx := fs.Int("idx", 0, "child index (internal)")
	of := fs.Int("of", 1, "number of sibling children (internal)")
	_ = fs.Parse(args)
	if *child != "" {
		switch *prop + ":" + *child {
		case "C37:seq":
			return c37SeqChild(*tier, *idx, *of)
		case "C37:conc":
			return c37ConcChild(*tier, *idx, *of)
		case "C44:stress":
			return c44StressChild(*tier, *idx)
		case "C44:vtx":
			return c44VtxChild(*tier, *idx)
		case "C46:seq":
			return c46SeqChild(*tier, *idx, *of)
		case "C46:conc":
			return c46ConcChild(*tier, *idx, *of)
		}
		fmt.Printf("unknown child %s:%s\n", *prop, *child)
		return 2
	}
	defer mon.CleanScratch()
	switch *prop {
	case "C37":
		return c37Parent(*tier)
	case "C44":
		return c44Parent(*tier)
	case "C46":
		return c46Parent(*tier)
	}
	fmt.Printf("conc: unknown property %q\n", *prop)
	return 2
}

func childArgs(prop, tier, kind string, idx, of int) []string {
	return []string{"conc", "-prop", prop, "-tier", tier, "-child", kind, "-idx", strconv.Itoa(idx), "-of", strconv.Itoa(of)}
}

// ---------------------------------------------------------------------------------------------------------
// minimal process setup for round / block objects (no chain, no database)

type party struct {
	W *world.Wallet
	N *node.Node
}

type env struct {
	Parties []*party
	Pool    *node.Pool
}

// setupEntities registers the entity metadata round.NewRound / block.NewBlock need, silences the logger (a real
// zap core serialises every call through its own mutex, which would hide races from the detector) and builds a
// miner pool of n nodes with node.Self = party 0.
func setupEntities(n int) *env {
	dir := mon.ScratchDir()
	_ = os.MkdirAll(filepath.Join(dir, "log"), 0o755)
	logging.InitLogging("testing", dir)
	logging.Logger = zap.NewNop()
	logging.N2n = zap.NewNop()
	var store datastore.Store = memorystore.GetStorageProvider()
	round.SetupEntity(store)
	round.SetupVRFShareEntity(store)
	block.SetupEntity(store)
	e := &env{Pool: node.NewPool(node.NodeTypeMiner)}
	for i := 0; i < n; i++ {
		w := world.NewWallet(fmt.Sprintf("conc-party-%d", i))
		nd := &node.Node{Type: node.NodeTypeMiner, Host: "127.0.0.1", N2NHost: "127.0.0.1", Port: 7071 + i, Status: node.NodeStatusActive, SetIndex: i}
		if err := nd.SetSignatureScheme(w.Scheme); err != nil {
			panic(err)
		}
		nd.Client.ID = w.ID
		if err := e.Pool.AddNode(nd); err != nil {
			panic(err)
		}
		if i == 0 {
			node.Self = &node.SelfNode{}
			node.Self.Node = nd
			if err := node.Self.SetSignatureScheme(w.Scheme); err != nil {
				panic(err)
			}
		}
		e.Parties = append(e.Parties, &party{W: w, N: nd})
	}
	return e
}

// ---------------------------------------------------------------------------------------------------------
// goroutine dumps

func goid() int64 {
	var buf [64]byte
	n := runtime.Stack(buf[:], false)
	f := strings.Fields(string(buf[:n]))
	if len(f) >= 2 {
		v, _ := strconv.ParseInt(f[1], 10, 64)
		return v
	}
	return -1
}

func allStacks() string {
	buf := make([]byte, 1<<20)
	for {
		n := runtime.Stack(buf, true)
		if n < len(buf) {
			return string(buf[:n])
		}
		buf = make([]byte, 2*len(buf))
	}
}

// goroutineBlock returns the dump section of goroutine id.
func goroutineBlock(dump string, id int64) string {
	hdr := fmt.Sprintf("goroutine %d [", id)
	for _, blk := range strings.Split(dump, "\n\n") {
		if strings.HasPrefix(blk, hdr) {
			return blk
		}
	}
	return ""
}

// blockedInRoundLock tells whether the goroutine section shows a round method waiting on a sync primitive, and
// returns that method's frame.
func blockedInRoundLock(blk string) (string, bool) {
	lines := strings.Split(blk, "\n")
	if len(lines) == 0 || !strings.Contains(lines[0], "[sync.") && !strings.Contains(lines[0], "[semacquire") {
		return "", false
	}
	for _, l := range lines[1:] {
		if strings.HasPrefix(l, "0chain.net/chaincore/round.") {
			return strings.TrimSpace(l), true
		}
		if strings.HasPrefix(l, "verifh/") {
			return "", false // the first non-sync frame is harness code, not a round method
		}
	}
	return "", false
}

func roundFrame(blk string) string {
	for _, l := range strings.Split(blk, "\n") {
		if strings.HasPrefix(l, "0chain.net/chaincore/round.") {
			return strings.TrimSpace(l)
		}
	}
	return ""
}

// clock is the one monotonic counter every recorded history takes its call / return timestamps from.
var clock int64

func tick() int64 { return atomic.AddInt64(&clock, 1) }

func scale(tier string, quick, thorough int) int {
	if tier == "thorough" {
		return thorough
	}
	return quick
}

// mon.Run.Violate keeps at most 200 violations per process and drops the rest; a defect that fires hundreds of
// times would then hide a rarer one found later. Children therefore hand at most perSigCap violations per
// signature to the run (the full tally is kept in the counter "violations:<signature>"), and parent-level
// violations are merged, which is not capped.
const perSigCap = 4

type limiter struct {
	run *mon.Run
	n   map[string]int
}

func newLimiter(run *mon.Run) *limiter { return &limiter{run: run, n: map[string]int{}} }

func (l *limiter) Violate(sig, detail string, replay interface{}) {
	l.n[sig]++
	l.run.Count("violations:"+sig, 1)
	if l.n[sig] <= perSigCap {
		l.run.Violate(sig, detail, replay)
	}
}

func parentViolate(run *mon.Run, sig, detail string, replay interface{}) {
	run.Count("violations:"+sig, 1)
	run.Merge(mon.Partial{Violations: []mon.Violation{{Property: run.Property, Signature: sig, Detail: detail, Replay: replay}}})
}
