package conc

import (
	"fmt"
	"path/filepath"
	"strings"
	"time"

	"verifh/mon"
)

func raceEnv(name string) (env []string, logPrefix string) {
	logPrefix = filepath.Join(mon.ScratchDir(), "race-"+name)
	return []string{"GORACE=halt_on_error=0 exitcode=0 history_size=3 log_path=" + logPrefix}, logPrefix
}

func firstPanicLine(log string) string {
	for _, l := range strings.Split(log, "\n") {
		if strings.HasPrefix(l, "panic:") || strings.HasPrefix(l, "fatal error:") {
			if len(l) > 200 {
				l = l[:200]
			}
			return l
		}
	}
	return "no panic line"
}

func c37Parent(tier string) int {
	run := mon.NewRun("C37", tier, "exploration",
		"sequential: op sequences generated from VERIF_SEED on a real round.Round (two classes: Restart only below Share / unrestricted), distinct = distinct sequence of (op, outcome class); "+
			"concurrent: seeded 8-16 goroutine histories on one round recorded at the call boundary and checked with porcupine, distinct = distinct observed interleaving (ops with outputs in call order plus overlap degree)")
	to := 4 * time.Minute
	if tier == "thorough" {
		to = 25 * time.Minute
	}
	nSeq := 8
	var specs []mon.ChildSpec
	for i := 0; i < nSeq; i++ {
		env, _ := raceEnv(fmt.Sprintf("c37seq%d", i))
		specs = append(specs, mon.ChildSpec{Name: fmt.Sprintf("seq%d", i), Args: childArgs("C37", tier, "seq", i, nSeq), Env: env, Timeout: to})
	}
	res := mon.RunChildren(run, specs, 8)
	nConc := 4
	specs = nil
	for i := 0; i < nConc; i++ {
		env, _ := raceEnv(fmt.Sprintf("c37conc%d", i))
		specs = append(specs, mon.ChildSpec{Name: fmt.Sprintf("conc%d", i), Args: childArgs("C37", tier, "conc", i, nConc), Env: env, Timeout: to})
	}
	res = append(res, mon.RunChildren(run, specs, nConc)...)
	for _, cr := range res {
		if cr.Crashed && !cr.TimedOut {
			p := mon.KeepLog(cr, fmt.Sprintf("C37-crash-%s-seed%d.log", cr.Spec.Name, run.SeedV))
			l := firstPanicLine(cr.LogTail)
			if strings.Contains(cr.LogTail, "0chain.net/chaincore/round.") {
				parentViolate(run, "C37:crash-in-round-operation", fmt.Sprintf("child %s died inside a round operation: %s", cr.Spec.Name, l), map[string]string{"log": p})
			} else {
				run.Inconclusive(fmt.Sprintf("child %s crashed outside the round package (log %s): %s", cr.Spec.Name, p, l))
			}
		}
	}
	run.RequireMin("seq_ops_judged", 5000)
	run.RequireMin("porcupine_checks", 2000)
	run.RequireMin("overlapping_phase_writer_pairs_distinct_targets", 200)
	run.Set("overlapping_setphase_pairs_observed", run.Counter("overlapping_phase_writer_pairs"))
	run.Set("overlapping_setphase_pairs_with_different_targets", run.Counter("overlapping_phase_writer_pairs_distinct_targets"))
	run.Set("concurrent_histories", run.Counter("conc_histories"))
	run.Set("concurrent_ops", run.Counter("conc_ops"))
	races, _ := collectRaces(filepath.Join(mon.ScratchDir(), "race-c37"))
	run.Set("race_reports_seen_during_c37 (judged by C44, not here)", len(races))
	run.Assume("only the schedules the stress actually produced are judged; the evidence counts overlapping phase-writer pairs and distinct interleavings")
	run.Assume("the concurrent histories never contain a Restart that could be rejected (it freezes the round, see the sequential part); Clone and the datastore methods of Round are not part of the state machine and are not driven")
	run.Assume("porcupine v1.3.0 is trusted as the linearizability checker; the four reference objects are independent because AddVRFShare only ever requests the lowest phase")
	return run.Finish()
}
