package conc

import (
	"fmt"
	"path/filepath"
	"runtime"
	"sort"
	"strings"
	"sync"
	"sync/atomic"
	"time"

	"0chain.net/core/util/orderbuffer"
	"github.com/anishathalye/porcupine"

	"verifh/mon"
)

// ---------------------------------------------------------------------------------------------------------
// C46: the ordered block buffer. The statement, clause by clause:
//
//   (a) First / Pop hand out an entry of the lowest round held (ties: any of them), empty <=> nothing held;
//   (b) never more entries than the capacity;
//   (c) an Add on a full buffer may lose one entry, and that entry has the highest round among (held + new);
//       an Add on a buffer that is not full loses nothing;
//   (d) an Add is ignored when it repeats, round and payload, the entry already held at the insertion position
//       (the last entry whose round is <= the new round); a repeat of an entry held elsewhere may go either way.
//
// A payload stands for a block, so one payload always comes with the same round.

type payload struct {
	Round int64
	ID    int
}

type obOp struct {
	K string // "add" | "pop" | "first"
	P *payload
}

type obCase struct {
	ID  int
	Cap int
	Ops []obOp
}

func genOB(seed uint64, id int) obCase {
	r := mon.NewRand(seed).Fork(fmt.Sprintf("c46seq:%d", id))
	c := obCase{ID: id, Cap: []int{0, 1, 2, 3, 4, 5, 8, 12, 40}[r.Intn(9)]}
	nRounds := []int{2, 4, 8, 30, 200}[r.Intn(5)]
	perRound := 1 + r.Intn(3)
	pool := map[[2]int]*payload{}
	get := func(rd, k int) *payload {
		key := [2]int{rd, k}
		if p, ok := pool[key]; ok {
			return p
		}
		p := &payload{Round: int64(rd), ID: len(pool)}
		pool[key] = p
		return p
	}
	n := 10 + r.Intn(120)
	addW := 45 + r.Intn(30)
	var last *payload
	for i := 0; i < n; i++ {
		x := r.Intn(100)
		switch {
		case x < addW:
			var p *payload
			if last != nil && r.Intn(6) == 0 {
				p = last // immediate exact repeat
			} else {
				p = get(r.Intn(nRounds), r.Intn(perRound))
			}
			last = p
			c.Ops = append(c.Ops, obOp{"add", p})
		case x < addW+(100-addW)*3/5:
			c.Ops = append(c.Ops, obOp{"pop", nil})
		default:
			c.Ops = append(c.Ops, obOp{"first", nil})
		}
	}
	return c
}

func (o obOp) String() string {
	if o.K == "add" {
		return fmt.Sprintf("Add(r%d,#%d)", o.P.Round, o.P.ID)
	}
	return strings.Title(o.K) + "()"
}

func snapshot(b *orderbuffer.OrderBuffer) []orderbuffer.Item {
	return append([]orderbuffer.Item{}, b.Buffer...)
}

func itemsString(it []orderbuffer.Item) string {
	var s []string
	for _, x := range it {
		if p, ok := x.Data.(*payload); ok {
			s = append(s, fmt.Sprintf("r%d#%d", x.Round, p.ID))
		} else {
			s = append(s, fmt.Sprintf("r%d?", x.Round))
		}
	}
	return "[" + strings.Join(s, " ") + "]"
}

// multiset difference: elements of a not matched in b
func minus(a, b []orderbuffer.Item) []orderbuffer.Item {
	used := make([]bool, len(b))
	var out []orderbuffer.Item
	for _, x := range a {
		found := false
		for j, y := range b {
			if !used[j] && x.Round == y.Round && x.Data == y.Data {
				used[j], found = true, true
				break
			}
		}
		if !found {
			out = append(out, x)
		}
	}
	return out
}

func maxRound(it []orderbuffer.Item) int64 {
	m := int64(-1 << 62)
	for _, x := range it {
		if x.Round > m {
			m = x.Round
		}
	}
	return m
}

func minRound(it []orderbuffer.Item) int64 {
	m := int64(1<<62 - 1)
	for _, x := range it {
		if x.Round < m {
			m = x.Round
		}
	}
	return m
}

type obViolation struct {
	Sig, Detail string
	At          int
}

// judgeOB runs one case and returns the outcome classes and violations. The reference is the multiset of entries
// the buffer must hold, carried forward by the rules above from what was held before each call.
func judgeOB(c obCase) (outcomes []string, vio []obViolation) {
	b := orderbuffer.New(c.Cap)
	for i, o := range c.Ops {
		before := snapshot(b)
		bad := func(sig, f string, a ...interface{}) {
			vio = append(vio, obViolation{Sig: sig, At: i, Detail: fmt.Sprintf("case %d cap %d op %d %s on %s: ", c.ID, c.Cap, i, o, itemsString(before)) + fmt.Sprintf(f, a...)})
		}
		out := o.K
		switch o.K {
		case "add":
			var pan interface{}
			func() {
				defer func() { pan = recover() }()
				b.Add(o.P.Round, o.P)
			}()
			if pan != nil {
				bad("C46:add-panicked", "%v", pan)
				return append(outcomes, "add:panic"), vio
			}
			after := snapshot(b)
			nw := orderbuffer.Item{Round: o.P.Round, Data: o.P}
			want := append(append([]orderbuffer.Item{}, before...), nw)
			lost := minus(want, after)
			extra := minus(after, want)
			// insertion position: after every entry with round <= new round
			pos := 0
			for _, x := range before {
				if x.Round <= nw.Round {
					pos++
				}
			}
			repeatAtPos := pos > 0 && before[pos-1].Round == nw.Round && before[pos-1].Data == nw.Data
			heldSomewhere := len(minus([]orderbuffer.Item{nw}, before)) == 0
			full := len(before) >= c.Cap
			switch {
			case len(extra) > 0:
				bad("C46:add-invented-entry", "entries %s appeared", itemsString(extra))
			case len(lost) == 0:
				out += ":inserted"
				if repeatAtPos {
					bad("C46:repeat-not-ignored", "exact repeat of the entry at the insertion position was inserted again, now %s", itemsString(after))
				}
				if heldSomewhere && !repeatAtPos {
					out += "-duplicate-elsewhere"
				}
			case len(lost) == 1:
				l := lost[0]
				isNew := l.Round == nw.Round && l.Data == nw.Data
				switch {
				case isNew && heldSomewhere && (repeatAtPos || !full):
					out += ":ignored-repeat" // (d): the repeat was ignored; nothing that was held is gone
					if !repeatAtPos {
						out += "-elsewhere"
					}
				case full && l.Round == maxRound(want):
					if isNew {
						out += ":full-dropped-new"
					} else {
						out += ":full-dropped-held-max"
					}
				case !full:
					bad("C46:dropped-while-not-full", "entry r%d lost although only %d of %d held, now %s", l.Round, len(before), c.Cap, itemsString(after))
				default:
					bad("C46:dropped-not-highest", "entry r%d lost while the highest round is r%d, now %s", l.Round, maxRound(want), itemsString(after))
				}
			default:
				bad("C46:add-lost-several", "entries %s lost by one Add", itemsString(lost))
			}
			if len(after) > c.Cap {
				bad("C46:over-capacity", "holds %d > capacity %d", len(after), c.Cap)
			}
			for k := 1; k < len(after); k++ {
				if after[k-1].Round > after[k].Round {
					bad("C46:not-sorted", "buffer %s", itemsString(after))
					break
				}
			}
		case "pop", "first":
			var it orderbuffer.Item
			var ok bool
			var pan interface{}
			func() {
				defer func() { pan = recover() }()
				if o.K == "pop" {
					it, ok = b.Pop()
				} else {
					it, ok = b.First()
				}
			}()
			if pan != nil {
				bad("C46:"+o.K+"-panicked", "%v", pan)
				return append(outcomes, o.K+":panic"), vio
			}
			after := snapshot(b)
			if len(before) == 0 {
				out += ":empty"
				if ok {
					bad("C46:"+o.K+"-from-empty", "returned r%d from an empty buffer", it.Round)
				}
			} else {
				if !ok {
					bad("C46:"+o.K+"-missed", "reported empty while holding %d", len(before))
				} else {
					if len(minus([]orderbuffer.Item{it}, before)) != 0 {
						bad("C46:"+o.K+"-unknown-entry", "returned r%d which was not held", it.Round)
					}
					if it.Round != minRound(before) {
						bad("C46:"+o.K+"-not-lowest", "returned r%d while r%d is held", it.Round, minRound(before))
					}
					ties := 0
					for _, x := range before {
						if x.Round == it.Round {
							ties++
						}
					}
					if ties > 1 {
						out += ":lowest-tied"
					} else {
						out += ":lowest"
					}
				}
			}
			want := before
			if o.K == "pop" && ok {
				want = minus(before, []orderbuffer.Item{it})
			}
			if len(minus(want, after)) != 0 || len(minus(after, want)) != 0 {
				bad("C46:"+o.K+"-changed-contents", "buffer %s, expected %s", itemsString(after), itemsString(want))
			}
		}
		outcomes = append(outcomes, out)
	}
	return
}

func c46SeqChild(tier string, idx, of int) int {
	run0 := mon.NewRun("C46", tier, "exploration", "")
	run, lim := run0, newLimiter(run0)
	per := scale(tier, 1500, 40000)
	seed := mon.Seed()
	for k := 0; k < per; k++ {
		c := genOB(seed, idx*per+k)
		outs, vio := judgeOB(c)
		run.Eval(1)
		run.Count("seq_cases", 1)
		run.Count("seq_ops_judged", int64(len(outs)))
		for _, o := range outs {
			run.Count("seq_op:"+o, 1)
		}
		run.Distinct(fmt.Sprintf("seq:%d:%s", c.Cap, strings.Join(outs, ",")))
		if idx == 0 && k < 2 {
			var ops []string
			for _, o := range c.Ops {
				ops = append(ops, o.String())
			}
			run.Sample(map[string]interface{}{"kind": "sequential", "case": c.ID, "capacity": c.Cap, "ops": ops, "outcomes": outs})
		}
		for _, v := range vio {
			var ops []string
			for _, o := range c.Ops[:v.At+1] {
				ops = append(ops, o.String())
			}
			lim.Violate(v.Sig, v.Detail, map[string]interface{}{"case": c.ID, "capacity": c.Cap, "ops": ops, "seed": seed})
		}
		if k%200 == 0 {
			run.Checkpoint()
		}
	}
	run.Checkpoint()
	return 0
}

// ---------------------------------------------------------------------------------------------------------
// concurrent: (1) short histories with globally unique rounds checked with porcupine against the deterministic
// instance of the same model (sorted set with capacity, drop the maximum, ignore the repeat of a held entry);
// (2) bulk exactly-once runs with ties and no capacity pressure.

type obIn struct {
	Op    string
	Round int64
	Cap   int
}
type obOut struct {
	Round int64
	OK    bool
}

func obModel() porcupine.Model {
	dec := func(s string) []int64 {
		var out []int64
		if s == "" {
			return out
		}
		for _, f := range strings.Split(s, ",") {
			var v int64
			fmt.Sscanf(f, "%d", &v)
			out = append(out, v)
		}
		return out
	}
	enc := func(v []int64) string {
		var s []string
		for _, x := range v {
			s = append(s, fmt.Sprint(x))
		}
		return strings.Join(s, ",")
	}
	return porcupine.Model{
		Init: func() interface{} { return "" },
		Step: func(state, input, output interface{}) (bool, interface{}) {
			in, out, st := input.(obIn), output.(obOut), dec(state.(string))
			switch in.Op {
			case "add":
				for _, x := range st {
					if x == in.Round {
						return true, state // exact repeat of the held entry
					}
				}
				st = append(st, in.Round)
				sort.Slice(st, func(i, j int) bool { return st[i] < st[j] })
				if len(st) > in.Cap {
					st = st[:in.Cap]
				}
				return true, enc(st)
			case "pop":
				if len(st) == 0 {
					return !out.OK, state
				}
				return out.OK && out.Round == st[0], enc(st[1:])
			case "first":
				if len(st) == 0 {
					return !out.OK, state
				}
				return out.OK && out.Round == st[0], state
			}
			return false, state
		},
	}
}

type obConcCase struct {
	ID      int
	Cap     int
	Threads [][]obIn
}

func genOBConc(seed uint64, id int) obConcCase {
	r := mon.NewRand(seed).Fork(fmt.Sprintf("c46conc:%d", id))
	c := obConcCase{ID: id, Cap: []int{1, 2, 3, 5, 8, 100}[r.Intn(6)]}
	perm := make([]int64, 64)
	for i := range perm {
		perm[i] = int64(i + 1)
	}
	r.Shuffle(len(perm), func(i, j int) { perm[i], perm[j] = perm[j], perm[i] })
	next := 0
	for t := 0; t < 8; t++ {
		producer := t < 4
		n := 3 + r.Intn(4)
		var ops []obIn
		var mine []int64
		for i := 0; i < n; i++ {
			x := r.Intn(10)
			switch {
			case producer && x < 7, !producer && x < 2:
				if len(mine) > 0 && r.Intn(5) == 0 {
					ops = append(ops, obIn{"add", mine[r.Intn(len(mine))], c.Cap}) // repeat of an own earlier entry
				} else {
					ops = append(ops, obIn{"add", perm[next], c.Cap})
					mine = append(mine, perm[next])
					next++
				}
			case x < 9:
				ops = append(ops, obIn{"pop", 0, c.Cap})
			default:
				ops = append(ops, obIn{"first", 0, c.Cap})
			}
		}
		c.Threads = append(c.Threads, ops)
	}
	return c
}

func runOBHistory(c *obConcCase) []porcupine.Operation {
	b := orderbuffer.New(c.Cap)
	payloads := map[int64]*payload{}
	for _, th := range c.Threads {
		for _, o := range th {
			if o.Op == "add" && payloads[o.Round] == nil {
				payloads[o.Round] = &payload{Round: o.Round, ID: int(o.Round)}
			}
		}
	}
	g := len(c.Threads)
	res := make([][]porcupine.Operation, g)
	var start int32
	var wg, ready sync.WaitGroup
	wg.Add(g)
	ready.Add(g)
	for t := 0; t < g; t++ {
		go func(t int) {
			defer wg.Done()
			ready.Done()
			for atomic.LoadInt32(&start) == 0 {
				runtime.Gosched()
			}
			for _, o := range c.Threads[t] {
				var out obOut
				call := tick()
				switch o.Op {
				case "add":
					out.OK = b.Add(o.Round, payloads[o.Round])
				case "pop":
					it, ok := b.Pop()
					out = obOut{it.Round, ok}
				case "first":
					it, ok := b.First()
					out = obOut{it.Round, ok}
				}
				ret := tick()
				res[t] = append(res[t], porcupine.Operation{ClientId: t, Input: o, Call: call, Output: out, Return: ret})
			}
		}(t)
	}
	ready.Wait()
	atomic.StoreInt32(&start, 1)
	wg.Wait()
	var all []porcupine.Operation
	for _, r := range res {
		all = append(all, r...)
	}
	// drain: closes the history with quiescent pops
	for {
		call := tick()
		it, ok := b.Pop()
		ret := tick()
		all = append(all, porcupine.Operation{ClientId: g, Input: obIn{"pop", 0, c.Cap}, Call: call, Output: obOut{it.Round, ok}, Return: ret})
		if !ok {
			break
		}
	}
	return all
}

func describeOB(ops []porcupine.Operation) []string {
	s := append([]porcupine.Operation{}, ops...)
	sort.Slice(s, func(i, j int) bool { return s[i].Call < s[j].Call })
	var out []string
	for _, o := range s {
		in, ou := o.Input.(obIn), o.Output.(obOut)
		switch in.Op {
		case "add":
			out = append(out, fmt.Sprintf("g%d [%d,%d] Add(r%d)", o.ClientId, o.Call, o.Return, in.Round))
		default:
			out = append(out, fmt.Sprintf("g%d [%d,%d] %s -> r%d,%v", o.ClientId, o.Call, o.Return, in.Op, ou.Round, ou.OK))
		}
	}
	return out
}

func c46ConcChild(tier string, idx, of int) int {
	run0 := mon.NewRun("C46", tier, "exploration", "")
	run, lim := run0, newLimiter(run0)
	seed := mon.Seed()
	per := scale(tier, 2500, 40000)
	model := obModel()
	for k := 0; k < per; k++ {
		c := genOBConc(seed, idx*per+k)
		ops := runOBHistory(&c)
		run.Eval(1)
		run.Count("conc_histories", 1)
		run.Count("conc_ops", int64(len(ops)))
		ov := 0
		for i := range ops {
			for j := i + 1; j < len(ops); j++ {
				if ops[i].ClientId != ops[j].ClientId && ops[i].Call < ops[j].Return && ops[j].Call < ops[i].Return {
					ov++
				}
			}
		}
		run.Count("overlapping_op_pairs", int64(ov))
		res, _ := porcupine.CheckOperationsVerbose(model, ops, 10*time.Second)
		if res == porcupine.Unknown {
			// a loaded machine, not a hard history: these checks take milliseconds. Retry with a generous watchdog.
			run.Count("porcupine_retries_after_timeout", 1)
			res, _ = porcupine.CheckOperationsVerbose(model, ops, 120*time.Second)
		}
		run.Count("porcupine_checks", 1)
		run.Distinct("conc:" + strings.Join(describeOBOrder(ops), ";"))
		if idx == 0 && k < 1 {
			run.Sample(map[string]interface{}{"kind": "concurrent", "history": c.ID, "capacity": c.Cap, "ops": describeOB(ops), "porcupine": string(res)})
		}
		switch res {
		case porcupine.Ok:
			run.Count("porcupine_ok", 1)
		case porcupine.Unknown:
			run.Inconclusive(fmt.Sprintf("porcupine timed out on buffer history %d", c.ID))
		case porcupine.Illegal:
			lim.Violate("C46:concurrent-history-not-linearizable", fmt.Sprintf("history %d capacity %d admits no linearization against the sorted bounded set: %s", c.ID, c.Cap, strings.Join(describeOB(ops), " | ")),
				map[string]interface{}{"history": c.ID, "capacity": c.Cap, "ops_call_return": describeOB(ops), "seed": seed})
		}
		if k%200 == 0 {
			run.Checkpoint()
		}
	}
	// bulk exactly-once runs: ties allowed, capacity never reached
	bulk := scale(tier, 30, 300)
	for k := 0; k < bulk; k++ {
		r := mon.NewRand(seed).Fork(fmt.Sprintf("c46bulk:%d:%d", idx, k))
		const P, C, M = 4, 4, 200
		b := orderbuffer.New(P*M + 1)
		nRounds := 1 + r.Intn(50)
		items := make([][]*payload, P)
		for p := 0; p < P; p++ {
			for i := 0; i < M; i++ {
				items[p] = append(items[p], &payload{Round: int64(r.Intn(nRounds)), ID: p*M + i})
			}
		}
		popped := make([][]*payload, C)
		var producing int32 = P
		var wg sync.WaitGroup
		for p := 0; p < P; p++ {
			wg.Add(1)
			go func(p int) {
				defer wg.Done()
				for _, it := range items[p] {
					b.Add(it.Round, it)
				}
				atomic.AddInt32(&producing, -1)
			}(p)
		}
		for cns := 0; cns < C; cns++ {
			wg.Add(1)
			go func(cns int) {
				defer wg.Done()
				for {
					fin := atomic.LoadInt32(&producing) == 0
					it, ok := b.Pop()
					if ok {
						popped[cns] = append(popped[cns], it.Data.(*payload))
						if it.Round != it.Data.(*payload).Round {
							popped[cns] = append(popped[cns], &payload{Round: -1, ID: -1})
						}
						continue
					}
					if fin {
						return
					}
					runtime.Gosched()
				}
			}(cns)
		}
		wg.Wait()
		seen := map[int]int{}
		total := 0
		for _, ps := range popped {
			for _, p := range ps {
				seen[p.ID]++
				total++
			}
		}
		run.Eval(1)
		run.Count("bulk_runs", 1)
		run.Count("bulk_items", int64(P*M))
		run.Distinct(fmt.Sprintf("bulk:%d:%d", nRounds, k))
		if seen[-1] > 0 {
			lim.Violate("C46:bulk-round-payload-mismatch", "a popped item carried a round different from its payload's", nil)
		}
		for id, n := range seen {
			if n != 1 && id >= 0 {
				lim.Violate("C46:bulk-not-exactly-once", fmt.Sprintf("payload #%d handed out %d times", id, n), map[string]interface{}{"run": k, "seed": seed})
				break
			}
		}
		if rest, _ := b.First(); total != P*M || rest.Data != nil {
			if total != P*M {
				lim.Violate("C46:bulk-lost-entries", fmt.Sprintf("%d of %d entries handed out although the capacity was never reached", total, P*M), map[string]interface{}{"run": k, "seed": seed})
			}
		}
	}
	run.Checkpoint()
	return 0
}

func describeOBOrder(ops []porcupine.Operation) []string {
	s := append([]porcupine.Operation{}, ops...)
	sort.Slice(s, func(i, j int) bool { return s[i].Call < s[j].Call })
	var out []string
	for i, o := range s {
		in, ou := o.Input.(obIn), o.Output.(obOut)
		ov := 0
		for j := i + 1; j < len(s) && s[j].Call < o.Return; j++ {
			ov++
		}
		out = append(out, fmt.Sprintf("%d%s%d>%d%v+%d", o.ClientId, in.Op, in.Round, ou.Round, ou.OK, ov))
	}
	return out
}

func c46Parent(tier string) int {
	run := mon.NewRun("C46", tier, "exploration",
		"sequential: Add/Pop/First sequences generated from VERIF_SEED (capacities 0..40, round domains 2..200, repeats and ties) judged after every call against the multiset the statement allows, distinct = capacity + sequence of (op, outcome class); "+
			"concurrent: 4 producers + 4 consumers with unique rounds, histories checked with porcupine (distinct = observed interleaving), plus bulk exactly-once runs with ties; race detector on throughout")
	to := 4 * time.Minute
	if tier == "thorough" {
		to = 25 * time.Minute
	}
	var specs []mon.ChildSpec
	nSeq, nConc := 4, 2
	for i := 0; i < nSeq; i++ {
		env, _ := raceEnv(fmt.Sprintf("c46seq%d", i))
		specs = append(specs, mon.ChildSpec{Name: fmt.Sprintf("seq%d", i), Args: childArgs("C46", tier, "seq", i, nSeq), Env: env, Timeout: to})
	}
	res := mon.RunChildren(run, specs, nSeq)
	specs = nil
	for i := 0; i < nConc; i++ {
		env, _ := raceEnv(fmt.Sprintf("c46conc%d", i))
		specs = append(specs, mon.ChildSpec{Name: fmt.Sprintf("conc%d", i), Args: childArgs("C46", tier, "conc", i, nConc), Env: env, Timeout: to})
	}
	res = append(res, mon.RunChildren(run, specs, nConc)...)
	for _, cr := range res {
		if cr.Crashed && !cr.TimedOut {
			p := mon.KeepLog(cr, fmt.Sprintf("C46-crash-%s-seed%d.log", cr.Spec.Name, run.SeedV))
			l := firstPanicLine(cr.LogTail)
			if strings.Contains(cr.LogTail, "0chain.net/core/util/orderbuffer.") {
				parentViolate(run, "C46:crash-in-buffer-operation", fmt.Sprintf("child %s died inside the order buffer: %s", cr.Spec.Name, l), map[string]string{"log": p})
			} else {
				run.Inconclusive(fmt.Sprintf("child %s crashed (log %s): %s", cr.Spec.Name, p, l))
			}
		}
	}
	races, _ := collectRaces(filepath.Join(mon.ScratchDir(), "race-c46"))
	run.Count("race_reports", int64(len(races)))
	for _, rp := range races {
		if rp.class() != "repo" {
			run.Inconclusive("HARNESS BUG: data race in the harness while driving the order buffer: " + rp.Pair)
			continue
		}
		parentViolate(run, "C46:race:"+rp.Pair, fmt.Sprintf("%s in %s vs %s in %s", rp.Access[0], strings.Join(topFrames(rp.Stacks[0], 3), " < "), rp.Access[1], strings.Join(topFrames(rp.Stacks[1], 3), " < ")),
			map[string]interface{}{"stack_1": stackStrings(rp.Stacks[0]), "stack_2": stackStrings(rp.Stacks[1]), "raw": rp.Raw})
	}
	run.RequireMin("seq_ops_judged", 20000)
	run.RequireMin("porcupine_checks", 1000)
	run.RequireMin("overlapping_op_pairs", 1000)
	run.RequireMin("seq_op:add:ignored-repeat", 50)
	run.RequireMin("seq_op:add:full-dropped-held-max", 50)
	run.Assume("a payload stands for a block: the same payload is always offered with the same round, and payloads are comparable (pointers)")
	run.Assume("only the schedules the stress produced are judged; the evidence counts overlapping operation pairs and distinct interleavings")
	return run.Finish()
}
