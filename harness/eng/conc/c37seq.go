package conc

import (
	"encoding/json"
	"fmt"
	"sort"
	"strings"
	"sync/atomic"
	"time"

	"0chain.net/chaincore/block"
	"0chain.net/chaincore/round"
	"0chain.net/core/viper"

	"verifh/mon"
)

// ---------------------------------------------------------------------------------------------------------
// C37, sequential part: generated operation sequences on a real round.Round judged by a reference machine written
// from the statement. The machine is relational (it tracks what it observed and judges every transition):
//
//   phase      after any op  >= before, except ResetPhase (== argument) and an ACCEPTED Restart that started
//              below Share (== ShareVRF). SetPhase(p) yields max(before, p). A Restart at or above Share must be
//              rejected and leave the phase alone.
//   timeouts   GetTimeoutCount after any op >= before.
//   shares     |GetVRFShares| <= threshold, one per party; AddVRFShare answers true iff the party is new and
//              there is room; no share appears that was not added.
//   finalized  ResetFinalizingStateIfNotFinalized on a finalized round leaves it finalized.
//   returns    every call (and the locked observation after it) returns: the sequence runs in its own goroutine,
//              every op is printed before it is called; a goroutine found parked on the round's own mutex while
//              nothing else touches that round is a deadlock.

type opKind int

const (
	opSetPhase opKind = iota
	opResetPhase
	opAddVRFShare
	opAddNotarizedBlock
	opAddProposedBlock
	opRestart
	opFinalize
	opSetFinalizing
	opSetFinalized
	opResetFinIfNot
	opResetFin
	opSetTimeoutCount
	opIncTimeoutCount
	opAddTimeoutVote
	opSetRandomSeed
	opSetVRFOutput
	opIncSoftTimeout
	opReaders
	numOpKinds
)

var opNames = [...]string{"SetPhase", "ResetPhase", "AddVRFShare", "AddNotarizedBlock", "AddProposedBlock", "Restart",
	"Finalize", "SetFinalizing", "SetFinalized", "ResetFinalizingStateIfNotFinalized", "ResetFinalizingState",
	"SetTimeoutCount", "IncrementTimeoutCount", "AddTimeoutVote", "SetRandomSeed", "SetVRFOutput", "IncSoftTimeoutCount", "Readers"}

func (k opKind) String() string { return opNames[k] }

type op struct {
	K opKind `json:"k"`
	A int    `json:"a"` // phase / party index / block index / count
	B int    `json:"b"` // vote value / seed
}

func (o op) String() string {
	switch o.K {
	case opSetPhase, opResetPhase:
		return fmt.Sprintf("%s(%s)", o.K, round.GetPhaseName(round.Phase(o.A)))
	case opAddVRFShare:
		return fmt.Sprintf("AddVRFShare(party%d)", o.A)
	case opAddNotarizedBlock, opAddProposedBlock, opFinalize:
		return fmt.Sprintf("%s(block%d)", o.K, o.A)
	case opSetTimeoutCount:
		return fmt.Sprintf("SetTimeoutCount(%d)", o.A)
	case opAddTimeoutVote:
		return fmt.Sprintf("AddTimeoutVote(%d,party%d)", o.B, o.A)
	case opIncTimeoutCount:
		return fmt.Sprintf("IncrementTimeoutCount(prrs=%d)", o.B)
	case opSetRandomSeed:
		return fmt.Sprintf("SetRandomSeed(%d)", o.B)
	}
	return o.K.String() + "()"
}

type seqCase struct {
	ID        int    `json:"id"`
	Class     string `json:"class"` // "accepted-restarts" (Restart only generated below Share) | "free"
	RoundNum  int64  `json:"round"`
	Threshold int    `json:"threshold"`
	Cap       int    `json:"timeout_cap"`
	Ops       []op   `json:"ops"`
}

const c37Parties = 5
const c37Blocks = 4

// genSeq builds case id from the seed alone.
func genSeq(seed uint64, id int) seqCase {
	r := mon.NewRand(seed).Fork(fmt.Sprintf("c37seq:%d", id))
	c := seqCase{ID: id, RoundNum: int64(1 + r.Intn(50)), Threshold: 1 + r.Intn(c37Parties), Cap: []int{0, 0, 1, 4}[r.Intn(4)]}
	if r.Intn(25) == 0 {
		c.RoundNum = 0 // round 0 counts as finalized from the start
	}
	c.Class = "accepted-restarts"
	if r.Intn(10) < 3 {
		c.Class = "free"
	}
	n := 8 + r.Intn(40)
	//                 SetPh Reset Share Notar Prop Restart Fin SetFing SetFin RstIf Rst SetTC IncTC Vote Seed VRFo Soft Readers
	weights := []int{14, 5, 14, 7, 4, 8, 3, 5, 3, 6, 3, 7, 6, 5, 3, 2, 2, 3}
	model := 0 // generator-side phase under the max-register reading, only used to steer class "accepted-restarts"
	for len(c.Ops) < n {
		o := op{K: opKind(r.Pick(weights))}
		switch o.K {
		case opSetPhase, opResetPhase:
			o.A = r.Intn(5)
		case opAddVRFShare:
			o.A = r.Intn(c37Parties)
		case opAddNotarizedBlock, opAddProposedBlock, opFinalize:
			o.A = r.Intn(c37Blocks)
		case opSetTimeoutCount:
			o.A = r.Intn(9)
		case opAddTimeoutVote:
			o.A = r.Intn(c37Parties)
			o.B = r.Intn(9)
		case opIncTimeoutCount:
			o.B = r.Intn(3) // prrs 0 means "no previous seed": the code skips the increment
		case opSetRandomSeed:
			o.B = 1 + r.Intn(1000)
		}
		if o.K == opRestart && c.Class == "accepted-restarts" && model >= int(round.Share) {
			continue
		}
		switch o.K {
		case opSetPhase:
			if o.A > model {
				model = o.A
			}
		case opResetPhase:
			model = o.A
		case opAddNotarizedBlock:
			if model < int(round.Share) {
				model = int(round.Share)
			}
		case opRestart:
			if model < int(round.Share) {
				model = 0
			}
		}
		c.Ops = append(c.Ops, o)
	}
	return c
}

// observation of a round through its public accessors
type obs struct {
	Phase      int
	TC         int
	Shares     []string
	Finalized  bool
	Finalizing bool
}

type seqResult struct {
	Done                  bool
	Violations            []seqViolation
	Outcomes              []string // per op outcome class
	HungAt                int      // index of the op after which nothing returned (-1 = none)
	HungIn                string   // "op" or "observe"
	HungFrame             string
	HungDump              string
	HangKind              string // "round-mutex" | "unknown"
	Panic                 string
	RejectedRestartBefore bool
}

type seqViolation struct {
	Sig    string
	Detail string
	At     int
}

type seqRunner struct {
	env      *env
	c        seqCase
	quiet    bool
	progress int64 // bumped before every call into the round
	curOp    int64
	inObs    int32
	gid      int64
	res      seqResult
	blocks   []*block.Block
}

func newBlocks(roundNum int64, tag string) []*block.Block { return newBlocksN(roundNum, c37Blocks) }

func newBlocksN(roundNum int64, n int) []*block.Block {
	var bs []*block.Block
	for i := 0; i < n; i++ {
		b := block.NewBlock("", roundNum)
		b.Hash = fmt.Sprintf("%064x", uint64(i+1)*1000003)
		b.RoundRank = i % 3 // blocks 0 and 3 share a rank
		b.MinerID = fmt.Sprintf("miner-%d", i)
		bs = append(bs, b)
	}
	return bs
}

func (s *seqRunner) observe(r *round.Round) obs {
	var o obs
	o.Phase = int(r.GetPhase())
	o.TC = r.GetTimeoutCount()
	for k := range r.GetVRFShares() {
		o.Shares = append(o.Shares, k)
	}
	sort.Strings(o.Shares)
	o.Finalized = r.IsFinalized()
	o.Finalizing = r.IsFinalizing()
	return o
}

func (s *seqRunner) violate(at int, sig, detail string) {
	s.res.Violations = append(s.res.Violations, seqViolation{Sig: sig, Detail: detail, At: at})
}

// run executes the case; it is the only goroutine that ever touches the round.
func (s *seqRunner) run(done chan<- struct{}) {
	atomic.StoreInt64(&s.gid, goid())
	defer close(done)
	c := s.c
	viper.Set("server_chain.round_timeouts.timeout_cap", c.Cap)
	r := round.NewRound(c.RoundNum)
	s.blocks = newBlocks(c.RoundNum, "seq")
	added := map[string]bool{} // reference share set: party key -> present
	everAdded := map[string]bool{}
	atomic.AddInt64(&s.progress, 1)
	before := s.observe(r)
	for i, o := range c.Ops {
		atomic.StoreInt64(&s.curOp, int64(i))
		atomic.StoreInt32(&s.inObs, 0)
		atomic.AddInt64(&s.progress, 1)
		if !s.quiet {
			fmt.Printf("C37SEQ case=%d op=%d CALL %s\n", c.ID, i, o)
		}
		var retBool bool
		var retErr error
		pan := func() (p interface{}) {
			defer func() { p = recover() }()
			switch o.K {
			case opSetPhase:
				r.SetPhase(round.Phase(o.A))
			case opResetPhase:
				r.ResetPhase(round.Phase(o.A))
			case opAddVRFShare:
				sh := &round.VRFShare{Round: c.RoundNum, Share: fmt.Sprintf("share-%d-%d", o.A, i)}
				sh.SetParty(s.env.Parties[o.A].N)
				retBool = r.AddVRFShare(sh, c.Threshold)
			case opAddNotarizedBlock:
				r.AddNotarizedBlock(s.blocks[o.A])
			case opAddProposedBlock:
				r.AddProposedBlock(s.blocks[o.A])
			case opRestart:
				retErr = r.Restart()
			case opFinalize:
				r.Finalize(s.blocks[o.A])
			case opSetFinalizing:
				retBool = r.SetFinalizing()
			case opSetFinalized:
				r.SetFinalized()
			case opResetFinIfNot:
				r.ResetFinalizingStateIfNotFinalized()
			case opResetFin:
				r.ResetFinalizingState()
			case opSetTimeoutCount:
				retBool = r.SetTimeoutCount(o.A)
			case opIncTimeoutCount:
				r.IncrementTimeoutCount(int64(o.B), s.env.Pool)
			case opAddTimeoutVote:
				r.AddTimeoutVote(o.B, s.env.Parties[o.A].N.GetKey())
			case opSetRandomSeed:
				r.SetRandomSeed(int64(o.B), c37Parties)
			case opSetVRFOutput:
				r.SetVRFOutput(fmt.Sprintf("out-%d", i))
			case opIncSoftTimeout:
				r.IncSoftTimeoutCount()
			case opReaders:
				_ = r.GetNotarizedBlocks()
				_ = r.GetHeaviestNotarizedBlock()
				_ = r.GetBestRankedNotarizedBlock()
				_ = r.GetProposedBlocks()
				_ = r.GetBlockHash()
				_ = r.GetVRFOutput()
				_ = r.GetRandomSeed()
				_ = r.IsRanksComputed()
				_ = r.FinalizeState()
			}
			return nil
		}()
		if pan != nil {
			s.res.Panic = fmt.Sprintf("%v", pan)
			s.violate(i, "C37:op-panicked:"+o.K.String(), fmt.Sprintf("case %d op %d %s panicked: %v", c.ID, i, o, pan))
			s.res.HungAt = -1
			return
		}
		if o.K == opRestart && retErr != nil {
			s.res.RejectedRestartBefore = true
		}
		atomic.StoreInt32(&s.inObs, 1)
		atomic.AddInt64(&s.progress, 1)
		if !s.quiet {
			fmt.Printf("C37SEQ case=%d op=%d RETURNED ret=%v err=%v; OBSERVE\n", c.ID, i, retBool, retErr)
		}
		after := s.observe(r)

		// ---- the reference machine judges the transition before -> after
		out := o.K.String()
		switch o.K {
		case opResetPhase:
			if after.Phase != o.A {
				s.violate(i, "C37:reset-phase-ineffective", fmt.Sprintf("case %d op %d %s: phase %d", c.ID, i, o, after.Phase))
			}
		case opRestart:
			switch {
			case retErr == nil && before.Phase >= int(round.Share):
				out += ":accepted-at-or-after-share"
				if after.Phase < before.Phase {
					s.violate(i, "C37:phase-moved-back:Restart-after-share", fmt.Sprintf("case %d op %d: Restart accepted at phase %d, phase now %d", c.ID, i, before.Phase, after.Phase))
				}
			case retErr == nil:
				out += ":accepted"
				if after.Phase != int(round.ShareVRF) {
					s.violate(i, "C37:restart-phase", fmt.Sprintf("case %d op %d: accepted Restart left phase %d", c.ID, i, after.Phase))
				}
			default:
				out += ":rejected"
				if after.Phase != before.Phase {
					s.violate(i, "C37:phase-changed-by-rejected-restart", fmt.Sprintf("case %d op %d: %d -> %d", c.ID, i, before.Phase, after.Phase))
				}
			}
		default:
			if after.Phase < before.Phase {
				s.violate(i, "C37:phase-moved-back:"+o.K.String(), fmt.Sprintf("case %d op %d %s: phase %d -> %d", c.ID, i, o, before.Phase, after.Phase))
			}
			if o.K == opSetPhase {
				want := before.Phase
				if o.A > want {
					want = o.A
					out += ":advance"
				} else {
					out += ":noop"
				}
				if after.Phase != want {
					s.violate(i, "C37:setphase-not-max", fmt.Sprintf("case %d op %d %s: phase %d -> %d, want %d", c.ID, i, o, before.Phase, after.Phase, want))
				}
			}
		}
		if after.TC < before.TC {
			sig := "C37:timeout-count-decreased:" + o.K.String()
			if c.Cap > 0 && after.TC == c.Cap {
				sig += ":clamped-to-cap"
			}
			s.violate(i, sig, fmt.Sprintf("case %d op %d %s (timeout_cap=%d): timeout count %d -> %d", c.ID, i, o, c.Cap, before.TC, after.TC))
		}
		// shares
		if o.K == opAddVRFShare {
			key := s.env.Parties[o.A].N.GetKey()
			want := !added[key] && len(added) < c.Threshold
			if want {
				added[key] = true
				everAdded[key] = true
				out += ":added"
			} else if added[key] {
				out += ":duplicate"
			} else {
				out += ":full"
			}
			if retBool != want {
				s.violate(i, "C37:share-result-mismatch", fmt.Sprintf("case %d op %d %s: returned %v, reference %v (held %d, threshold %d)", c.ID, i, o, retBool, want, len(added), c.Threshold))
			}
		}
		if o.K == opRestart && retErr == nil {
			// an accepted restart may drop shares; it must not invent any
			na := map[string]bool{}
			for _, k := range after.Shares {
				if !added[k] {
					s.violate(i, "C37:share-invented", fmt.Sprintf("case %d op %d: share of %s appeared in Restart", c.ID, i, k))
				}
				na[k] = true
			}
			added = na
		} else {
			if len(after.Shares) != len(added) {
				s.violate(i, "C37:share-set-mismatch", fmt.Sprintf("case %d op %d %s: holds %v, reference %d", c.ID, i, o, after.Shares, len(added)))
			} else {
				for _, k := range after.Shares {
					if !added[k] {
						s.violate(i, "C37:share-set-mismatch", fmt.Sprintf("case %d op %d %s: holds %s which the reference does not", c.ID, i, o, k))
					}
				}
			}
		}
		if len(after.Shares) > c.Threshold {
			s.violate(i, "C37:shares-over-threshold", fmt.Sprintf("case %d op %d %s: %d shares, threshold %d", c.ID, i, o, len(after.Shares), c.Threshold))
		}
		// finalization
		if o.K == opResetFinIfNot {
			if before.Finalized {
				out += ":on-finalized"
				if !after.Finalized {
					s.violate(i, "C37:conditional-reset-unfinalized", fmt.Sprintf("case %d op %d: finalized round became un-finalized", c.ID, i))
				}
			} else {
				out += ":on-not-finalized"
			}
		}
		if o.K == opSetFinalizing {
			out += fmt.Sprintf(":%v", retBool)
		}
		if o.K == opSetTimeoutCount {
			out += fmt.Sprintf(":%v", retBool)
		}
		s.res.Outcomes = append(s.res.Outcomes, out)
		before = after
	}
	s.res.Done = true
}

// runSeq runs one case under the logical bound. A sequence is single-threaded, so a runner parked in a sync
// primitive under a round method, with no progress, twice in a row, is a deadlock; anything else gets 20 s.
func runSeq(e *env, c seqCase, quiet bool) *seqResult {
	s := &seqRunner{env: e, c: c, quiet: quiet}
	s.res.HungAt = -1
	done := make(chan struct{})
	go s.run(done)
	last := int64(-1)
	lastChange := time.Now()
	confirmed := 0
	tk := time.NewTicker(10 * time.Millisecond)
	defer tk.Stop()
	for {
		select {
		case <-done:
			return &s.res
		case <-tk.C:
		}
		cur := atomic.LoadInt64(&s.progress)
		if cur != last {
			last, lastChange, confirmed = cur, time.Now(), 0
			continue
		}
		quietFor := time.Since(lastChange)
		if quietFor < 100*time.Millisecond*time.Duration(confirmed+1) {
			continue
		}
		dump := allStacks()
		blk := goroutineBlock(dump, atomic.LoadInt64(&s.gid))
		frame, isLock := blockedInRoundLock(blk)
		if isLock {
			confirmed++
			if confirmed < 2 {
				continue
			}
		} else if quietFor < 20*time.Second {
			continue
		}
		// hung
		res := s.res // the runner is parked; reading its result struct is safe after the progress counter went quiet
		res.HungAt = int(atomic.LoadInt64(&s.curOp))
		res.HungIn = "op"
		if atomic.LoadInt32(&s.inObs) == 1 {
			res.HungIn = "observe"
		}
		res.HungDump = blk
		if isLock {
			res.HangKind, res.HungFrame = "round-mutex", frame
		} else {
			res.HangKind, res.HungFrame = "unknown", roundFrame(blk)
		}
		if !quiet {
			fmt.Printf("C37SEQ case=%d HUNG after op=%d in=%s frame=%s\n%s\n", c.ID, res.HungAt, res.HungIn, res.HungFrame, blk)
		}
		return &res
	}
}

// ddmin removes chunks of operations (halving the chunk size) in front of the last one while pred still holds.
func ddmin(c seqCase, upto int, pred func(seqCase) bool) seqCase {
	cur := c
	cur.Ops = append([]op{}, c.Ops[:upto+1]...)
	for chunk := len(cur.Ops) / 2; chunk >= 1; chunk /= 2 {
		for i := 0; i < len(cur.Ops)-1; {
			hi := i + chunk
			if hi > len(cur.Ops)-1 {
				hi = len(cur.Ops) - 1
			}
			t := cur
			t.Ops = append(append([]op{}, cur.Ops[:i]...), cur.Ops[hi:]...)
			if pred(t) {
				cur = t
			} else {
				i = hi
			}
		}
	}
	return cur
}

// minimise shrinks a hanging case while the same hang (after the last op, same blocked frame) persists.
func minimise(e *env, c seqCase, hungAt int, frame string) seqCase {
	return ddmin(c, hungAt, func(t seqCase) bool {
		r := runSeq(e, t, true)
		return r.HungAt == len(t.Ops)-1 && r.HangKind == "round-mutex" && frameFunc(r.HungFrame) == frameFunc(frame)
	})
}

// minimiseViolation shrinks a case while its last op still draws a violation with the same signature.
func minimiseViolation(e *env, c seqCase, at int, sig string) seqCase {
	return ddmin(c, at, func(t seqCase) bool {
		r := runSeq(e, t, true)
		for _, v := range r.Violations {
			if v.Sig == sig && v.At == len(t.Ops)-1 {
				return true
			}
		}
		return false
	})
}

func frameFunc(f string) string {
	if i := strings.Index(f, "("); i > 0 {
		if j := strings.LastIndex(f, "("); j > i {
			return f[:j]
		}
	}
	return f
}

func opStrings(ops []op) []string {
	var out []string
	for _, o := range ops {
		out = append(out, o.String())
	}
	return out
}

func c37SeqChild(tier string, idx, of int) int {
	run0 := mon.NewRun("C37", tier, "exploration", "")
	run, lim := run0, newLimiter(run0)
	e := setupEntities(c37Parties)
	per := scale(tier, 120, 1500)
	seed := mon.Seed()
	minimised := map[string]bool{}
	for k := 0; k < per; k++ {
		id := idx*per + k
		c := genSeq(seed, id)
		res := runSeq(e, c, false)
		run.Eval(1)
		run.Count("seq_cases", 1)
		run.Count("seq_class_"+c.Class, 1)
		run.Count("seq_ops_judged", int64(len(res.Outcomes)))
		for _, o := range res.Outcomes {
			run.Count("seq_op:"+o, 1)
		}
		run.Distinct("seq:" + strings.Join(res.Outcomes, ","))
		if k < 2 && idx == 0 {
			run.Sample(map[string]interface{}{"kind": "sequential", "case": c.ID, "class": c.Class, "threshold": c.Threshold, "timeout_cap": c.Cap, "ops": opStrings(c.Ops), "outcomes": res.Outcomes})
		}
		for _, v := range res.Violations {
			w := c
			w.Ops = c.Ops[:v.At+1]
			detail := v.Detail
			if !minimised[v.Sig] {
				minimised[v.Sig] = true
				w = minimiseViolation(e, c, v.At, v.Sig)
				run.Count("seq_minimised_witnesses", 1)
				detail += fmt.Sprintf("; minimal witness (threshold %d, timeout_cap %d): %v", c.Threshold, c.Cap, opStrings(w.Ops))
			}
			lim.Violate(v.Sig, detail, map[string]interface{}{"witness_ops": opStrings(w.Ops), "witness": w, "case": c.ID, "seed": seed})
		}
		if res.HungAt >= 0 {
			run.Count("seq_hangs", 1)
			o := c.Ops[res.HungAt]
			hk := o.K.String()
			if o.K == opRestart && res.RejectedRestartBefore {
				hk += ":rejected"
			}
			run.Count("seq_op:"+hk+":never-returned-from-"+res.HungIn, 1)
			if res.HangKind != "round-mutex" {
				if res.HungFrame != "" {
					lim.Violate("C37:op-never-returns:"+o.K.String(), fmt.Sprintf("case %d: no return within 20 s after op %d %s, round frame %s", c.ID, res.HungAt, o, res.HungFrame),
						map[string]interface{}{"case": c, "dump": res.HungDump})
				} else {
					run.Inconclusive(fmt.Sprintf("sequence %d stalled outside the round package after op %d", c.ID, res.HungAt))
				}
				continue
			}
			sig := "C37:op-never-returns:" + o.K.String()
			if o.K == opRestart && res.RejectedRestartBefore && res.HungIn == "observe" {
				sig = "C37:rejected-restart-leaks-lock"
			}
			witness := c
			witness.Ops = c.Ops[:res.HungAt+1]
			if !minimised[sig] {
				minimised[sig] = true
				witness = minimise(e, c, res.HungAt, res.HungFrame)
				run.Count("seq_minimised_witnesses", 1)
			}
			detail := fmt.Sprintf("after %s (op %d of case %d, it %s) the next locked access %s never returns: goroutine parked on the round's own mutex with no other user of the round; witness %v",
				o, res.HungAt, c.ID, map[bool]string{true: "returned an error", false: "returned"}[res.RejectedRestartBefore && o.K == opRestart], frameFunc(res.HungFrame), opStrings(witness.Ops))
			lim.Violate(sig, detail, map[string]interface{}{"witness_ops": opStrings(witness.Ops), "witness_len": len(witness.Ops), "witness": witness, "blocked_frame": res.HungFrame, "goroutine": res.HungDump, "seed": seed})
		}
		if k%25 == 0 {
			run.Checkpoint()
		}
	}
	run.Checkpoint()
	return 0
}

func mustJSON(v interface{}) string {
	b, _ := json.Marshal(v)
	return string(b)
}
