// Package notar is the engine for the byzantine-message properties of the consensus layer:
//
//	C31  a block counts as notarized only with enough verified tickets (miner receive paths)
//	C41  LFB tickets are authentic and never move backwards (LFB ticket worker + HTTP handler)
//
// Both drive the REAL handlers of 0chain on a real chain (world) and judge what the node reports afterwards with an
// oracle that never calls the code's own ticket verification.
package notar

import (
	"flag"
	"fmt"
	"os"
	"runtime/debug"
	"strings"
	"sync"
	"time"

	"verifh/mon"
)

// Props served by this engine.
var Props = []string{"C31", "C41"}

var levels = map[string]string{"C31": "fault_enumeration", "C41": "exploration"}

var rules = map[string]string{
	"C31": "real miner chain (n in {4,7} miners with harness-owned BLS keys, threshold_by_count 66%, real rounds with seeds); validly signed blocks received through the JSON path; " +
		"every inbound path (proposal -> processVerifyBlock, single ticket messages in permuted orders around the block's arrival, notarization message -> notarizationProcess, notarized block -> handleNotarizedBlockMessage, " +
		"re-proposal of a known block, proposal followed by tickets / a notarization message, next-round proposal carrying previous-block tickets) x every ticket mix " +
		"(v valid distinct miners in {0,1,thr-1,thr,n} combined with each fault class: duplicated verifier, sharder verifier, stranger key, bad signature, valid signature over another block hash, nil; plus seeded multi-class mixes); " +
		"after every message, every block object known to the harness, the chain or the round is judged: notarized => #distinct round miners with an individually verified signature on its hash >= threshold; " +
		"distinct = (n, path, variant, mix class, #valid relative to threshold, notarized?) tuples",
	"C41": "real StartLFBTicketWorker on a world chain (node.Self a miner in half of the children, a sharder in the other half); seeded streams of inputs: tickets POSTed to the real LFBTicketHandler " +
		"(signer in {current sharder, current miner, registered sharder outside the current magic block, unknown node} x signature in {valid, other key, replayed with altered round/hash, empty, garbage} x round in {lower, equal, +1..+5, far ahead, boundary: MinInt64, MinInt64+1, MinInt64+L-1, MinInt64+L, MinInt64+L+1, -1, 0, L-1, L, L+1, 2^32, 2^53 for the reported round L}), " +
		"bursts of several tickets before the worker runs, local BroadcastLFBTicket and the miner's own unsigned bump; sweeps of every boundary round over every path; a last episode per worker that delivers MaxInt64-1 and MaxInt64 and then everything again; after each input is consumed GetLatestLFBTicket is compared with the previous answer; " +
		"distinct = (self type, input kind, signer class, signature class, round relation, adopted?) tuples",
}

// Main is the engine entry point: verifh notar -prop C31|C41 -tier quick|thorough
func Main(args []string) int {
	fs := flag.NewFlagSet("notar", flag.ExitOnError)
	prop := fs.String("prop", "C31", "property id")
	tier := fs.String("tier", "quick", "quick|thorough")
	child := fs.String("child", "", "child name (internal)")
	_ = fs.Parse(args)
	if levels[*prop] == "" {
		fmt.Printf("notar: unknown property %q\n", *prop)
		return 2
	}
	if *child != "" {
		return childMain(*prop, *tier, *child)
	}
	defer mon.CleanScratch()
	run := mon.NewRun(*prop, *tier, levels[*prop], rules[*prop])
	var names []string
	to := 3 * time.Minute
	switch *prop {
	case "C31":
		nc := c31Children(*tier)
		for i := 0; i < nc; i++ {
			names = append(names, fmt.Sprintf("g%d", i))
		}
		names = append(names, "nil4", "nil7")
	case "C41":
		nc := 8
		if *tier == "thorough" {
			nc = 32
		}
		for i := 0; i < nc; i++ {
			names = append(names, fmt.Sprintf("s%d", i))
		}
	}
	if *tier == "thorough" {
		to = 25 * time.Minute
	}
	var specs []mon.ChildSpec
	for _, n := range names {
		specs = append(specs, mon.ChildSpec{Name: n, Timeout: to, Args: []string{"notar", "-prop", *prop, "-tier", *tier, "-child", n}})
	}
	res := mon.RunChildren(run, specs, 16)
	var crashes []string
	for _, cr := range res {
		if cr.Crashed && !cr.TimedOut {
			line := firstPanicLine(cr.LogTail)
			if *prop == "C31" && strings.HasPrefix(cr.Spec.Name, "nil") {
				// a process abort is not a notarization: recorded, not judged (DESIGN 2.8)
				run.Count("c31.observed_process_crash_on_malformed_ticket", 1)
				crashes = append(crashes, fmt.Sprintf("child %s (messages carrying a null ticket): the process died in a goroutine of the node: %s", cr.Spec.Name, line))
				continue
			}
			p := mon.KeepLog(cr, fmt.Sprintf("%s-crash-%s-seed%d.log", *prop, cr.Spec.Name, run.SeedV))
			run.Inconclusive(fmt.Sprintf("child %s crashed (log %s): %s", cr.Spec.Name, p, line))
		}
	}
	if len(crashes) > 0 {
		run.Set("observations.crashes", crashes)
	}
	finishParent(run, *prop, *tier)
	return run.Finish()
}

func firstPanicLine(tail string) string {
	lines := strings.Split(tail, "\n")
	for i, l := range lines {
		if strings.HasPrefix(l, "panic") || strings.Contains(l, "fatal error") || strings.Contains(l, "HARNESS-PANIC") {
			if len(l) > 200 {
				l = l[:200]
			}
			// name the first frames of the code under test
			var frames []string
			for _, f := range lines[i+1:] {
				f = strings.TrimSpace(f)
				if strings.HasPrefix(f, "0chain.net/") && len(frames) < 3 {
					if k := strings.Index(f, "("); k > 0 && !strings.HasPrefix(f[k:], "(*") {
						f = f[:k]
					}
					if len(f) > 100 {
						f = f[:100]
					}
					frames = append(frames, f)
				}
			}
			if len(frames) > 0 {
				l += " in " + strings.Join(frames, " <- ")
			}
			return l
		}
	}
	return "no panic line"
}

func finishParent(run *mon.Run, prop, tier string) {
	switch prop {
	case "C31":
		run.RequireMin("c31.notarized_judged", 40)
		run.RequireMin("c31.not_notarized_judged", 400)
		for _, p := range c31Paths {
			run.RequireMin("c31.converse_notarized."+p, 2)
			run.RequireMin("c31.below_threshold_delivered."+p, 10)
		}
		run.Assume("a ticket counts as verified when BLS0ChainScheme.Verify (judged separately under C47) accepts its signature on the block hash under the public key the harness generated for that miner; the code's VerifyTickets / VerifyNotarization / reachedNotarization are never consulted by the oracle")
		run.Assume("tickets held by the node for a block = union of the tickets on every block object with that hash (received objects, chain cache, round lists) and the round's collected tickets for that hash (the most generous reading of 'holds')")
		run.Assume("the HTTP front ends (VerifyBlockHandler, VerificationTicketReceiptHandler, NotarizationReceiptHandler, NotarizedBlockHandler) only filter by round / sender and queue the message; the message bodies are delivered straight to the handlers the workers call (processVerifyBlock, handleVerificationTicketMessage, notarizationProcess, handleNotarizedBlockMessage)")
		run.Assume("several scenarios share one child process, each on fresh round numbers and fresh blocks; next-round start after a notarization blocks in waitNotAhead (no LFB ticket worker) and network sends fail against unreachable peers")
	case "C41":
		run.RequireMin("c41.monotone_judged", 300)
		run.RequireMin("c41.adoption_judged", 40)
		run.RequireMin("c41.valid_current_sharder_higher_adopted", 10)
		run.RequireMin("c41.lower_or_equal_round_valid_sharder_offered", 10)
		c41Require(run) // boundary-round classes (c41.go)
		run.Assume("an input has settled when the worker's input channels are empty and a following GetLatestLFBTicket exchange (served by the same single goroutine) returned; a wait above 10 s makes the run inconclusive")
		run.Assume("the node's own tickets (initial ticket, BroadcastLFBTicket, the miner's unsigned bump through AddReceivedLFBTicket) are local inputs: they are judged for monotonicity only, authenticity is judged for tickets that arrived through LFBTicketHandler")
		run.Assume("signature validity is recomputed with BLS0ChainScheme.Verify under the key the harness generated for the claimed signer; membership is read from the sharder pool of the chain's current magic block")
	}
}

func childMain(prop, tier, name string) (code int) {
	run := mon.NewRun(prop, tier, levels[prop], "")
	defer func() {
		if e := recover(); e != nil {
			fmt.Printf("HARNESS-PANIC %v\n%s\n", e, debug.Stack())
			run.Checkpoint()
			os.Exit(3)
		}
	}()
	switch prop {
	case "C31":
		c31Child(run, tier, name)
	case "C41":
		c41Child(run, tier, name)
	}
	run.Checkpoint()
	return 0
}

func rnd(label string) *mon.Rand { return mon.NewRand(mon.Seed()).Fork("notar:" + label) }

// guard runs f and reports a panic as a string (empty = no panic).
func guard(f func()) (panicked string) {
	defer func() {
		if e := recover(); e != nil {
			panicked = fmt.Sprint(e)
			if len(panicked) > 200 {
				panicked = panicked[:200]
			}
		}
	}()
	f()
	return ""
}

func idx(name string) int {
	n := 0
	for _, c := range name {
		if c >= '0' && c <= '9' {
			n = n*10 + int(c-'0')
		}
	}
	return n
}

// violate reports at most 2 witnesses per signature and process; the rest is counted.
var (
	vioMu   sync.Mutex
	vioSeen = map[string]int{}
)

func violate(run *mon.Run, sig, detail string, replay interface{}) {
	vioMu.Lock()
	vioSeen[sig]++
	n := vioSeen[sig]
	vioMu.Unlock()
	run.Count("violations."+sig, 1)
	if n <= 2 {
		run.Violate(sig, detail, replay)
	}
}
