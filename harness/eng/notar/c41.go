package notar

import (
	"bytes"
	"context"
	"encoding/json"
	"fmt"
	"net/http/httptest"
	"time"

	"0chain.net/chaincore/block"
	"0chain.net/chaincore/chain"
	"0chain.net/chaincore/node"
	"0chain.net/core/common"
	"0chain.net/core/encryption"
	"github.com/0chain/common/core/logging"
	"go.uber.org/zap"

	"verifh/mon"
	"verifh/world"
)

// c41Input is one element of a stream.
type c41Input struct {
	Kind     string `json:"kind"`      // recv | broadcast | bump
	Signer   string `json:"signer"`    // current-sharder | miner | former-sharder | unknown | self
	SignerIx int    `json:"signer_ix"` //
	SigClass string `json:"sig"`       // valid | other-key | altered-round | altered-hash | empty | garbage
	Rel      string `json:"rel"`       // lower | equal | higher | far
	Round    int64  `json:"round"`
	Hash     string `json:"hash"`
	// what was sent (recv only)
	SharderID string `json:"sharder_id,omitempty"`
	Sign      string `json:"sign,omitempty"`
	accepted  bool   // the handler answered without error
}

type c41Env struct {
	run      *mon.Run
	w        *world.World
	c        *chain.Chain
	selfType string
	former   []*world.Wallet // registered sharder nodes that are not in the current magic block
	unknown  []*world.Wallet // never registered
	pub      map[string]string
	handler  common.ReqRespHandlerf
	latest   *chain.LFBTicket
	maxSeen  int64
	step     int
}

func c41Child(run *mon.Run, tier, name string) {
	ci := idx(name)
	w := world.New(world.Options{Seed: mon.Seed()*1000 + 41*13 + uint64(ci), NumMiners: 4, NumSharders: 3, NumClients: 2})
	defer w.Close()
	logging.Logger = zap.NewNop()
	logging.N2n = zap.NewNop()
	chain.SetupLFBTicketSender()
	e := &c41Env{run: run, w: w, c: w.Chain, selfType: "miner", pub: map[string]string{}}
	if ci%2 == 1 {
		// the node is a sharder: local broadcasts are effective
		e.selfType = "sharder"
		sn := w.MB.Sharders.GetNode(w.Sharders[0].ID)
		node.Self.Node = sn
		if err := node.Self.SetSignatureScheme(w.Sharders[0].Scheme); err != nil {
			panic(err)
		}
	}
	for _, wl := range append(append([]*world.Wallet{}, w.Miners...), w.Sharders...) {
		e.pub[wl.ID] = wl.PubKey
	}
	for i := 0; i < 2; i++ {
		f := world.NewWallet(fmt.Sprintf("%d:c41-former-%s-%d", mon.Seed(), name, i))
		n := &node.Node{Type: node.NodeTypeSharder, Host: "127.0.0.1", N2NHost: "127.0.0.1", Port: 7271 + i, Status: node.NodeStatusActive}
		if err := n.SetSignatureScheme(f.Scheme); err != nil {
			panic(err)
		}
		n.Client.ID = f.ID
		node.RegisterNode(n) // what loading an earlier magic block leaves behind: nodes are never deregistered
		e.former = append(e.former, f)
		e.pub[f.ID] = f.PubKey
		u := world.NewWallet(fmt.Sprintf("%d:c41-unknown-%s-%d", mon.Seed(), name, i))
		e.unknown = append(e.unknown, u)
		e.pub[u.ID] = u.PubKey
	}
	if w.Chain.GetCurrentMagicBlock().Sharders.Size() != 3 || w.Chain.GetCurrentMagicBlock().Sharders.GetNode(e.former[0].ID) != nil {
		run.Inconclusive("current magic block does not hold exactly the harness sharders")
		return
	}
	e.handler = common.ToJSONResponse(chain.LFBTicketHandler) // the way handler.go registers it (rate limiting aside)

	ctx, cancel := context.WithCancel(context.Background())
	defer cancel()
	go w.Chain.StartLFBTicketWorker(ctx, w.GB)
	first, ok := e.getLatest()
	if !ok {
		run.Inconclusive("LFB ticket worker did not answer")
		return
	}
	e.latest, e.maxSeen = first, first.Round

	r := rnd("c41/" + name)
	nStreams, nInputs := 6, 60
	if tier == "thorough" {
		nStreams, nInputs = 20, 150
	}
	for s := 0; s < nStreams; s++ {
		rr := r.Fork(fmt.Sprintf("stream%d", s))
		for i := 0; i < nInputs; i++ {
			if !e.stepOnce(rr) {
				return
			}
		}
		run.Checkpoint()
	}
}

func (e *c41Env) getLatest() (*chain.LFBTicket, bool) {
	deadline := time.Now().Add(10 * time.Second)
	for e.c.VerifNotarLFBTicketQueueLen() > 0 {
		if time.Now().After(deadline) {
			return nil, false
		}
		time.Sleep(200 * time.Microsecond)
	}
	ctx, cancel := context.WithTimeout(context.Background(), 10*time.Second)
	defer cancel()
	// two exchanges: the second one can only be served after the worker finished whatever it took before the first
	if tk := e.c.GetLatestLFBTicket(ctx); tk == nil {
		return nil, false
	}
	tk := e.c.GetLatestLFBTicket(ctx)
	return tk, tk != nil
}

func (e *c41Env) pickRound(r *mon.Rand) (int64, string) {
	cur := e.latest.Round
	switch r.Pick([]int{3, 2, 6, 1}) {
	case 0:
		if cur == 0 {
			return 0, "equal"
		}
		return int64(r.Intn(int(cur))), "lower"
	case 1:
		return cur, "equal"
	case 2:
		return cur + 1 + int64(r.Intn(5)), "higher"
	}
	return cur + 1000 + int64(r.Intn(100000)), "far"
}

func (e *c41Env) mkRecv(r *mon.Rand) *c41Input {
	in := &c41Input{Kind: "recv"}
	in.Round, in.Rel = e.pickRound(r)
	in.Hash = encryption.Hash(fmt.Sprintf("c41-lfb:%d:%d:%d", mon.Seed(), e.step, in.Round))
	var wl *world.Wallet
	switch r.Pick([]int{5, 3, 2, 2}) {
	case 0:
		in.Signer, in.SignerIx = "current-sharder", r.Intn(len(e.w.Sharders))
		wl = e.w.Sharders[in.SignerIx]
	case 1:
		in.Signer, in.SignerIx = "miner", r.Intn(len(e.w.Miners))
		wl = e.w.Miners[in.SignerIx]
	case 2:
		in.Signer, in.SignerIx = "former-sharder", r.Intn(len(e.former))
		wl = e.former[in.SignerIx]
	default:
		in.Signer, in.SignerIx = "unknown", r.Intn(len(e.unknown))
		wl = e.unknown[in.SignerIx]
	}
	in.SharderID = wl.ID
	tk := chain.LFBTicket{Round: in.Round, SharderID: wl.ID, LFBHash: in.Hash}
	switch r.Pick([]int{10, 2, 2, 2, 1, 1}) {
	case 0:
		in.SigClass = "valid"
		in.Sign = wl.Sign(tk.Hash())
	case 1:
		in.SigClass = "other-key"
		other := e.w.Sharders[(in.SignerIx+1)%len(e.w.Sharders)]
		if other.ID == wl.ID {
			other = e.w.Miners[0]
		}
		in.Sign = other.Sign(tk.Hash())
	case 2: // a genuine ticket of this signer replayed with a higher round
		in.SigClass = "altered-round"
		old := chain.LFBTicket{Round: in.Round - 1 - int64(r.Intn(3)), SharderID: wl.ID, LFBHash: in.Hash}
		in.Sign = wl.Sign(old.Hash())
	case 3:
		in.SigClass = "altered-hash"
		old := chain.LFBTicket{Round: in.Round, SharderID: wl.ID, LFBHash: encryption.Hash("another block " + in.Hash)}
		in.Sign = wl.Sign(old.Hash())
	case 4:
		in.SigClass = "empty"
		in.Sign = ""
	default:
		in.SigClass = "garbage"
		in.Sign = "zz" + encryption.Hash(in.Hash)
	}
	return in
}

func (e *c41Env) post(in *c41Input) {
	body, _ := json.Marshal(map[string]interface{}{"round": in.Round, "sharder_id": in.SharderID, "lfb_hash": in.Hash, "sign": in.Sign})
	req := httptest.NewRequest("POST", "/v1/block/get/latest_finalized_ticket", bytes.NewReader(body))
	req.Header.Set("Content-Type", "application/json")
	rec := httptest.NewRecorder()
	p := guard(func() { e.handler(rec, req) })
	if p != "" {
		e.run.Count("c41.handler_panics", 1)
		e.run.Set("observations.panic.LFBTicketHandler."+in.SigClass, p)
		return
	}
	in.accepted = rec.Code == 200
}

// sigValid recomputes the ticket signature check with the key the harness generated for the claimed signer.
func (e *c41Env) sigValid(tk *chain.LFBTicket) bool {
	pub, ok := e.pub[tk.SharderID]
	if !ok {
		return false
	}
	good := false
	_ = guard(func() {
		s := encryption.NewBLS0ChainScheme()
		if err := s.SetPublicKey(pub); err != nil {
			return
		}
		msg := encryption.Hash(fmt.Sprintf("%d:%s:%s", tk.Round, tk.SharderID, tk.LFBHash))
		ok, err := s.Verify(tk.Sign, msg)
		good = ok && err == nil
	})
	return good
}

func sameTicket(a, b *chain.LFBTicket) bool {
	return a.Round == b.Round && a.SharderID == b.SharderID && a.LFBHash == b.LFBHash && a.Sign == b.Sign
}

// stepOnce submits one input (or one burst), waits for the worker and judges the answer of GetLatestLFBTicket.
func (e *c41Env) stepOnce(r *mon.Rand) bool {
	e.step++
	var batch []*c41Input
	kind := r.Pick([]int{10, 3, 2, 1})
	switch kind {
	case 0:
		batch = append(batch, e.mkRecv(r))
	case 1: // burst: several tickets reach the channel before the worker looks at it
		for k := 2 + r.Intn(4); k > 0; k-- {
			batch = append(batch, e.mkRecv(r))
		}
	case 2:
		in := &c41Input{Kind: "broadcast", Signer: "self", SigClass: "valid"}
		in.Round, in.Rel = e.pickRound(r)
		in.Hash = encryption.Hash(fmt.Sprintf("c41-own-lfb:%d:%d", mon.Seed(), e.step))
		batch = append(batch, in)
	default:
		in := &c41Input{Kind: "bump", Signer: "self", SigClass: "empty"}
		in.Round, in.Rel = e.pickRound(r)
		batch = append(batch, in)
	}
	ctx, cancel := context.WithTimeout(context.Background(), 10*time.Second)
	for _, in := range batch {
		switch in.Kind {
		case "recv":
			e.post(in)
			e.run.Count("ops.LFBTicketHandler", 1)
			if in.Signer == "current-sharder" && in.SigClass == "valid" && (in.Rel == "lower" || in.Rel == "equal") {
				e.run.Count("c41.lower_or_equal_round_valid_sharder_offered", 1)
			}
		case "broadcast":
			b := block.NewBlock(e.c.GetKey(), in.Round)
			b.Hash = in.Hash
			e.c.BroadcastLFBTicket(ctx, b)
			e.run.Count("ops.BroadcastLFBTicket", 1)
		case "bump":
			e.c.AddReceivedLFBTicket(ctx, &chain.LFBTicket{Round: in.Round}) // what miner.bumpLFBTicket does
			e.run.Count("ops.AddReceivedLFBTicket(bump)", 1)
		}
	}
	cancel()
	now, ok := e.getLatest()
	if !ok {
		e.run.Inconclusive("the LFB ticket worker did not settle within 10 s")
		return false
	}
	prev := e.latest
	e.latest = now
	e.run.Eval(1)
	e.run.Count("c41.monotone_judged", 1)
	label := batch[0]
	if len(batch) > 1 {
		label = &c41Input{Kind: "burst", Signer: "several", SigClass: "several", Rel: "several"}
	}
	rep := map[string]interface{}{"seed": mon.Seed(), "self": e.selfType, "step": e.step, "inputs": batch,
		"previous_latest": map[string]interface{}{"round": prev.Round, "signer": prev.SharderID, "own": prev.IsOwn},
		"latest":          map[string]interface{}{"round": now.Round, "signer": now.SharderID, "sign": now.Sign, "own": now.IsOwn}}
	if now.Round < prev.Round || now.Round < e.maxSeen {
		violate(e.run, "C41:latest-round-decreased", fmt.Sprintf("self=%s: GetLatestLFBTicket answered round %d after having answered round %d (input: %s %s %s round %d)", e.selfType, now.Round, e.maxSeen, label.Kind, label.Signer, label.SigClass, label.Round), rep)
	}
	if now.Round > e.maxSeen {
		e.maxSeen = now.Round
	}
	adopted := !sameTicket(now, prev)
	if adopted {
		// where does the new latest come from?
		var src *c41Input
		for _, in := range batch {
			switch in.Kind {
			case "recv":
				if now.Round == in.Round && now.SharderID == in.SharderID && now.LFBHash == in.Hash && now.Sign == in.Sign && !now.IsOwn {
					src = in
				}
			case "broadcast":
				if now.IsOwn && now.Round == in.Round && now.LFBHash == in.Hash && now.SharderID == node.Self.GetKey() {
					src = in
				}
			case "bump":
				if now.Round == in.Round && now.Sign == "" && now.SharderID == "" {
					src = in
				}
			}
		}
		switch {
		case src == nil:
			e.run.Inconclusive(fmt.Sprintf("the latest ticket changed to one the harness did not submit in this step (round %d signer %s)", now.Round, short(now.SharderID)))
			return false
		case src.Kind == "recv":
			e.run.Count("c41.adoption_judged", 1)
			mb := e.c.GetCurrentMagicBlock()
			isCurrentSharder := mb != nil && mb.Sharders.GetNode(now.SharderID) != nil
			valid := e.sigValid(now)
			if !isCurrentSharder {
				violate(e.run, "C41:adopted-ticket-not-from-current-sharder:"+src.Signer, fmt.Sprintf("self=%s: a ticket for round %d signed by %s %s (signature %s) received through LFBTicketHandler became the latest LFB ticket (previous latest round %d); the signer is not in the sharder pool of the current magic block",
					e.selfType, now.Round, src.Signer, short(now.SharderID), src.SigClass, prev.Round), rep)
			}
			if !valid {
				violate(e.run, "C41:adopted-ticket-bad-signature", fmt.Sprintf("self=%s: a ticket for round %d claimed by %s %s with a %s signature became the latest LFB ticket", e.selfType, now.Round, src.Signer, short(now.SharderID), src.SigClass), rep)
			}
			if isCurrentSharder && valid && now.Round > prev.Round {
				e.run.Count("c41.valid_current_sharder_higher_adopted", 1)
			}
		default:
			e.run.Count("c41.local_update_judged", 1)
		}
	}
	for _, in := range batch {
		e.run.Count(fmt.Sprintf("inputs.%s.%s.%s.%s", in.Kind, in.Signer, in.SigClass, in.Rel), 1)
		e.run.Distinct(fmt.Sprintf("self=%s|%s|%s|%s|%s|burst=%v|accepted=%v|adopted=%v", e.selfType, in.Kind, in.Signer, in.SigClass, in.Rel, len(batch) > 1, in.accepted, adopted && sameInput(now, in)))
	}
	if e.step%97 == 1 {
		e.run.Sample(rep)
	}
	return true
}

func sameInput(now *chain.LFBTicket, in *c41Input) bool {
	switch in.Kind {
	case "recv":
		return now.Round == in.Round && now.SharderID == in.SharderID && now.LFBHash == in.Hash && now.Sign == in.Sign
	case "broadcast":
		return now.IsOwn && now.Round == in.Round && now.LFBHash == in.Hash
	}
	return now.Round == in.Round && now.Sign == "" && now.SharderID == ""
}
