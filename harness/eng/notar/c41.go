package notar

import (
	"bytes"
	"context"
	"encoding/json"
	"fmt"
	"math"
	"net/http/httptest"
	"time"

	"0chain.net/chaincore/block"
	"0chain.net/chaincore/chain"
	"0chain.net/chaincore/node"
	"0chain.net/core/common"
	"0chain.net/core/encryption"
	"github.com/0chain/common/core/logging"
	"go.uber.org/zap"

	"verifh/mon"
	"verifh/world"
)

// c41Input is one element of a stream.
type c41Input struct {
	Kind     string `json:"kind"`      // recv | broadcast | bump
	Signer   string `json:"signer"`    // current-sharder | miner | former-sharder | unknown | self
	SignerIx int    `json:"signer_ix"` //
	SigClass string `json:"sig"`       // valid | other-key | altered-round | altered-hash | empty | garbage
	Rel      string `json:"rel"`       // lower | equal | higher | far (relation of Round to the round reported when the input was built)
	Class    string `json:"class"`     // moderate | one of the boundary classes of c41Small / c41Big / c41Ceil
	Round    int64  `json:"round"`
	Hash     string `json:"hash"`
	// what was sent (recv only)
	SharderID string `json:"sharder_id,omitempty"`
	Sign      string `json:"sign,omitempty"`
	accepted  bool   // the handler answered without error
}

type c41Env struct {
	run      *mon.Run
	w        *world.World
	c        *chain.Chain
	selfType string
	former   []*world.Wallet // registered sharder nodes that are not in the current magic block
	unknown  []*world.Wallet // never registered
	pub      map[string]string
	handler  common.ReqRespHandlerf
	latest   *chain.LFBTicket
	maxSeen  int64
	step     int
	allowed  []string // boundary classes the generator may use in the current phase
}

// Boundary rounds (L = the round the node reports when the input is built). The classes of c41Ceil can only be delivered
// in the last episode of a child: once MaxInt64 is the reported round nothing greater exists.
var (
	c41Small      = []string{"minint", "minint+1", "minint+L-1", "minint+L", "minint+L+1", "-1", "0", "L-1", "L", "L+1"}
	c41Big        = []string{"2^32", "2^53"}
	c41Ceil       = []string{"maxint-1", "maxint"}
	c41ExtremeNeg = []string{"minint", "minint+1", "minint+L-1", "minint+L", "minint+L+1"}
)

// c41Boundary returns the round of a boundary class for the currently reported round cur (false: not representable in int64).
func c41Boundary(class string, cur int64) (int64, bool) {
	switch class {
	case "minint":
		return math.MinInt64, true
	case "minint+1":
		return math.MinInt64 + 1, true
	case "minint+L-1":
		if cur < 1 {
			return 0, false
		}
		return math.MinInt64 + (cur - 1), true
	case "minint+L":
		if cur < 0 {
			return 0, false
		}
		return math.MinInt64 + cur, true
	case "minint+L+1":
		if cur < 0 {
			return 0, false
		}
		return (math.MinInt64 + cur) + 1, true
	case "-1":
		return -1, true
	case "0":
		return 0, true
	case "L-1":
		if cur == math.MinInt64 {
			return 0, false
		}
		return cur - 1, true
	case "L":
		return cur, true
	case "L+1":
		if cur == math.MaxInt64 {
			return 0, false
		}
		return cur + 1, true
	case "2^32":
		return 1 << 32, true
	case "2^53":
		return 1 << 53, true
	case "maxint-1":
		return math.MaxInt64 - 1, true
	case "maxint":
		return math.MaxInt64, true
	}
	return 0, false
}

// c41SatAdd adds d >= 0 to a, stopping at MaxInt64.
func c41SatAdd(a, d int64) int64 {
	if a > math.MaxInt64-d {
		return math.MaxInt64
	}
	return a + d
}

// c41SatSub subtracts d >= 0 from a, stopping at MinInt64.
func c41SatSub(a, d int64) int64 {
	if a < math.MinInt64+d {
		return math.MinInt64
	}
	return a - d
}

func c41Rel(round, cur int64) string {
	switch {
	case round < cur:
		return "lower"
	case round == cur:
		return "equal"
	case round <= c41SatAdd(cur, 5):
		return "higher"
	}
	return "far"
}

// c41DistanceExceedsInt64 tells whether the true distance between the offered round and the reported one is above MaxInt64.
func c41DistanceExceedsInt64(round, cur int64) bool {
	if round < 0 && cur > 0 {
		return round < math.MinInt64+cur
	}
	if round > 0 && cur < 0 {
		return round > math.MaxInt64+cur
	}
	return false
}

func c41Child(run *mon.Run, tier, name string) {
	ci := idx(name)
	w := world.New(world.Options{Seed: mon.Seed()*1000 + 41*13 + uint64(ci), NumMiners: 4, NumSharders: 3, NumClients: 2})
	defer w.Close()
	logging.Logger = zap.NewNop()
	logging.N2n = zap.NewNop()
	chain.SetupLFBTicketSender()
	e := &c41Env{run: run, w: w, c: w.Chain, selfType: "miner", pub: map[string]string{}}
	if ci%2 == 1 {
		// the node is a sharder: local broadcasts are effective
		e.selfType = "sharder"
		sn := w.MB.Sharders.GetNode(w.Sharders[0].ID)
		node.Self.Node = sn
		if err := node.Self.SetSignatureScheme(w.Sharders[0].Scheme); err != nil {
			panic(err)
		}
	}
	for _, wl := range append(append([]*world.Wallet{}, w.Miners...), w.Sharders...) {
		e.pub[wl.ID] = wl.PubKey
	}
	for i := 0; i < 2; i++ {
		f := world.NewWallet(fmt.Sprintf("%d:c41-former-%s-%d", mon.Seed(), name, i))
		n := &node.Node{Type: node.NodeTypeSharder, Host: "127.0.0.1", N2NHost: "127.0.0.1", Port: 7271 + i, Status: node.NodeStatusActive}
		if err := n.SetSignatureScheme(f.Scheme); err != nil {
			panic(err)
		}
		n.Client.ID = f.ID
		node.RegisterNode(n) // what loading an earlier magic block leaves behind: nodes are never deregistered
		e.former = append(e.former, f)
		e.pub[f.ID] = f.PubKey
		u := world.NewWallet(fmt.Sprintf("%d:c41-unknown-%s-%d", mon.Seed(), name, i))
		e.unknown = append(e.unknown, u)
		e.pub[u.ID] = u.PubKey
	}
	if w.Chain.GetCurrentMagicBlock().Sharders.Size() != 3 || w.Chain.GetCurrentMagicBlock().Sharders.GetNode(e.former[0].ID) != nil {
		run.Inconclusive("current magic block does not hold exactly the harness sharders")
		return
	}
	e.handler = common.ToJSONResponse(chain.LFBTicketHandler) // the way handler.go registers it (rate limiting aside)

	ctx, cancel := context.WithCancel(context.Background())
	defer cancel()
	go w.Chain.StartLFBTicketWorker(ctx, w.GB)
	first, ok := e.getLatest()
	if !ok {
		run.Inconclusive("LFB ticket worker did not answer")
		return
	}
	e.latest, e.maxSeen = first, first.Round

	r := rnd("c41/" + name)
	nStreams, nInputs := 6, 60
	if tier == "thorough" {
		nStreams, nInputs = 20, 150
	}
	sweeps := 0
	for s := 0; s < nStreams; s++ {
		// first half: the reported round stays moderate; second half: 2^32 and 2^53 are offered as well
		e.allowed = append([]string{}, c41Small...)
		if s >= nStreams/2 {
			e.allowed = append(e.allowed, c41Big...)
		}
		rr := r.Fork(fmt.Sprintf("stream%d", s))
		for i := 0; i < nInputs; i++ {
			if !e.stepOnce(rr) {
				return
			}
		}
		if s%2 == 1 {
			if !e.sweep(r.Fork(fmt.Sprintf("sweep%d", s)), sweeps) {
				return
			}
			sweeps++
		}
		run.Checkpoint()
	}
	// last episode of this worker: the top of the int64 range. After MaxInt64 has been reported nothing may be adopted any more.
	e.allowed = append(append(append([]string{}, c41Small...), c41Big...), c41Ceil...)
	if !e.sweep(r.Fork("ceiling-sweep-a"), sweeps) {
		return
	}
	if e.latest.Round == math.MaxInt64 {
		run.Count("c41.ceiling_reached", 1)
	}
	rr := r.Fork("ceiling-stream")
	for i := 0; i < nInputs/2; i++ {
		if !e.stepOnce(rr) {
			return
		}
	}
	if !e.sweep(r.Fork("ceiling-sweep-b"), sweeps+1) {
		return
	}
}

// c41Require: the minimum coverage of the boundary classes (called by the parent once the children are merged).
func c41Require(run *mon.Run) {
	for _, cl := range c41ExtremeNeg {
		run.RequireMin("c41.class."+cl+".recv_valid_current_sharder", 20)
		run.RequireMin("c41.class."+cl+".bump", 15)
		run.RequireMin("c41.class."+cl+".broadcast", 8)
	}
	run.RequireMin("c41.distance_exceeds_int64.recv_valid_current_sharder", 40)
	run.RequireMin("c41.distance_exceeds_int64.recv_other", 10)
	run.RequireMin("c41.distance_exceeds_int64.bump", 30)
	run.RequireMin("c41.distance_exceeds_int64.broadcast", 15)
	run.RequireMin("c41.distance_exceeds_int64.in_burst", 30)
	run.RequireMin("c41.class.maxint.recv_valid_current_sharder", 8)
	run.RequireMin("c41.class.maxint-1.recv_valid_current_sharder", 8)
	run.RequireMin("c41.class.2^32.recv_valid_current_sharder", 8)
	run.RequireMin("c41.class.2^53.recv_valid_current_sharder", 8)
	run.RequireMin("c41.ceiling_reached", 4)
	run.RequireMin("c41.judged_at_maxint", 100)
	run.Assume("boundary rounds are computed from the round L the node reported before the input (MinInt64, MinInt64+1, MinInt64+L-1, MinInt64+L, MinInt64+L+1, -1, 0, L-1, L, L+1, 2^32, 2^53; MaxInt64-1 and MaxInt64 only in the last episode of each worker, after which every further input must leave the reported round at MaxInt64)")
}

func (e *c41Env) getLatest() (*chain.LFBTicket, bool) {
	deadline := time.Now().Add(10 * time.Second)
	for e.c.VerifNotarLFBTicketQueueLen() > 0 {
		if time.Now().After(deadline) {
			return nil, false
		}
		time.Sleep(200 * time.Microsecond)
	}
	ctx, cancel := context.WithTimeout(context.Background(), 10*time.Second)
	defer cancel()
	// two exchanges: the second one can only be served after the worker finished whatever it took before the first
	if tk := e.c.GetLatestLFBTicket(ctx); tk == nil {
		return nil, false
	}
	tk := e.c.GetLatestLFBTicket(ctx)
	return tk, tk != nil
}

// pickRound returns a round, its relation to the reported round and its generator class.
func (e *c41Env) pickRound(r *mon.Rand) (int64, string, string) {
	cur := e.latest.Round
	switch r.Pick([]int{3, 2, 6, 1, 4}) {
	case 0:
		if cur == 0 {
			return 0, "equal", "moderate"
		}
		if cur < 0 { // only after a violation
			v := c41SatSub(cur, 1+int64(r.Intn(1000)))
			return v, c41Rel(v, cur), "moderate"
		}
		return int64(r.Intn(int(cur))), "lower", "moderate"
	case 1:
		return cur, "equal", "moderate"
	case 2:
		v := c41SatAdd(cur, 1+int64(r.Intn(5)))
		return v, c41Rel(v, cur), "moderate"
	case 3:
		v := c41SatAdd(cur, 1000+int64(r.Intn(100000)))
		return v, c41Rel(v, cur), "moderate"
	}
	for try := 0; try < 8 && len(e.allowed) > 0; try++ {
		cl := e.allowed[r.Intn(len(e.allowed))]
		if v, ok := c41Boundary(cl, cur); ok {
			return v, c41Rel(v, cur), cl
		}
	}
	return cur, "equal", "moderate"
}

// roundOf: the round of a forced boundary class, or a generated one.
func (e *c41Env) roundOf(r *mon.Rand, class string) (int64, string, string, bool) {
	if class == "" {
		v, rel, cl := e.pickRound(r)
		return v, rel, cl, true
	}
	v, ok := c41Boundary(class, e.latest.Round)
	return v, c41Rel(v, e.latest.Round), class, ok
}

func (e *c41Env) mkRecv(r *mon.Rand) *c41Input { return e.mkRecvF(r, "", -1, -1) }

// mkRecvF builds a received ticket; class "" / signer -1 / sig -1 leave the choice to the generator.
// It returns nil when the forced boundary class has no int64 value for the reported round.
func (e *c41Env) mkRecvF(r *mon.Rand, class string, signer, sig int) *c41Input {
	in := &c41Input{Kind: "recv"}
	var ok bool
	if in.Round, in.Rel, in.Class, ok = e.roundOf(r, class); !ok {
		return nil
	}
	in.Hash = encryption.Hash(fmt.Sprintf("c41-lfb:%d:%d:%d", mon.Seed(), e.step, in.Round))
	var wl *world.Wallet
	if signer < 0 {
		signer = r.Pick([]int{5, 3, 2, 2})
	}
	switch signer {
	case 0:
		in.Signer, in.SignerIx = "current-sharder", r.Intn(len(e.w.Sharders))
		wl = e.w.Sharders[in.SignerIx]
	case 1:
		in.Signer, in.SignerIx = "miner", r.Intn(len(e.w.Miners))
		wl = e.w.Miners[in.SignerIx]
	case 2:
		in.Signer, in.SignerIx = "former-sharder", r.Intn(len(e.former))
		wl = e.former[in.SignerIx]
	default:
		in.Signer, in.SignerIx = "unknown", r.Intn(len(e.unknown))
		wl = e.unknown[in.SignerIx]
	}
	in.SharderID = wl.ID
	tk := chain.LFBTicket{Round: in.Round, SharderID: wl.ID, LFBHash: in.Hash}
	if sig < 0 {
		sig = r.Pick([]int{10, 2, 2, 2, 1, 1})
	}
	switch sig {
	case 0:
		in.SigClass = "valid"
		in.Sign = wl.Sign(tk.Hash())
	case 1:
		in.SigClass = "other-key"
		other := e.w.Sharders[(in.SignerIx+1)%len(e.w.Sharders)]
		if other.ID == wl.ID {
			other = e.w.Miners[0]
		}
		in.Sign = other.Sign(tk.Hash())
	case 2: // a genuine ticket of this signer replayed with a higher round
		in.SigClass = "altered-round"
		old := chain.LFBTicket{Round: in.Round - 1 - int64(r.Intn(3)), SharderID: wl.ID, LFBHash: in.Hash}
		in.Sign = wl.Sign(old.Hash())
	case 3:
		in.SigClass = "altered-hash"
		old := chain.LFBTicket{Round: in.Round, SharderID: wl.ID, LFBHash: encryption.Hash("another block " + in.Hash)}
		in.Sign = wl.Sign(old.Hash())
	case 4:
		in.SigClass = "empty"
		in.Sign = ""
	default:
		in.SigClass = "garbage"
		in.Sign = "zz" + encryption.Hash(in.Hash)
	}
	return in
}

func (e *c41Env) post(in *c41Input) {
	body, _ := json.Marshal(map[string]interface{}{"round": in.Round, "sharder_id": in.SharderID, "lfb_hash": in.Hash, "sign": in.Sign})
	req := httptest.NewRequest("POST", "/v1/block/get/latest_finalized_ticket", bytes.NewReader(body))
	req.Header.Set("Content-Type", "application/json")
	rec := httptest.NewRecorder()
	p := guard(func() { e.handler(rec, req) })
	if p != "" {
		e.run.Count("c41.handler_panics", 1)
		e.run.Set("observations.panic.LFBTicketHandler."+in.SigClass, p)
		return
	}
	in.accepted = rec.Code == 200
}

// sigValid recomputes the ticket signature check with the key the harness generated for the claimed signer.
func (e *c41Env) sigValid(tk *chain.LFBTicket) bool {
	pub, ok := e.pub[tk.SharderID]
	if !ok {
		return false
	}
	good := false
	_ = guard(func() {
		s := encryption.NewBLS0ChainScheme()
		if err := s.SetPublicKey(pub); err != nil {
			return
		}
		msg := encryption.Hash(fmt.Sprintf("%d:%s:%s", tk.Round, tk.SharderID, tk.LFBHash))
		ok, err := s.Verify(tk.Sign, msg)
		good = ok && err == nil
	})
	return good
}

func sameTicket(a, b *chain.LFBTicket) bool {
	return a.Round == b.Round && a.SharderID == b.SharderID && a.LFBHash == b.LFBHash && a.Sign == b.Sign
}

// mkLocal builds a local input (broadcast of an own block / the miner's unsigned bump); nil when the forced class has no value.
func (e *c41Env) mkLocal(r *mon.Rand, kind, class string) *c41Input {
	in := &c41Input{Kind: kind, Signer: "self", SigClass: "valid"}
	if kind == "bump" {
		in.SigClass = "empty"
	}
	var ok bool
	if in.Round, in.Rel, in.Class, ok = e.roundOf(r, class); !ok {
		return nil
	}
	if kind == "broadcast" {
		in.Hash = encryption.Hash(fmt.Sprintf("c41-own-lfb:%d:%d", mon.Seed(), e.step))
	}
	return in
}

// stepOnce submits one generated input (or one burst), waits for the worker and judges the answer of GetLatestLFBTicket.
func (e *c41Env) stepOnce(r *mon.Rand) bool {
	e.step++
	var batch []*c41Input
	kind := r.Pick([]int{10, 3, 2, 1})
	switch kind {
	case 0:
		batch = append(batch, e.mkRecv(r))
	case 1: // burst: several tickets reach the channel before the worker looks at it
		for k := 2 + r.Intn(4); k > 0; k-- {
			batch = append(batch, e.mkRecv(r))
		}
	case 2:
		batch = append(batch, e.mkLocal(r, "broadcast", ""))
	default:
		batch = append(batch, e.mkLocal(r, "bump", ""))
	}
	return e.deliver(batch)
}

// c41BadVariants: (signer, signature) pairs that must never be adopted.
var c41BadVariants = [][2]int{{0, 1}, {0, 2}, {0, 3}, {0, 4}, {0, 5}, {1, 0}, {2, 0}, {3, 0}}

// sweep delivers every boundary class allowed in the current phase on every path: a ticket validly signed by a sharder of
// the magic block through the handler, a ticket that must not be adopted (bad signature / signer outside the sharder pool,
// rotating with n), the unsigned bump, an own-block broadcast, and a burst holding the boundary ticket among generated ones.
func (e *c41Env) sweep(r *mon.Rand, n int) bool {
	for ci, cl := range e.allowed {
		for path := 0; path < 5; path++ {
			e.step++
			var batch []*c41Input
			switch path {
			case 0:
				batch = append(batch, e.mkRecvF(r, cl, 0, 0))
			case 1:
				v := c41BadVariants[(n+ci)%len(c41BadVariants)]
				batch = append(batch, e.mkRecvF(r, cl, v[0], v[1]))
			case 2:
				batch = append(batch, e.mkLocal(r, "bump", cl))
			case 3:
				batch = append(batch, e.mkLocal(r, "broadcast", cl))
			default:
				batch = append(batch, e.mkRecv(r), e.mkRecvF(r, cl, 0, 0), e.mkRecv(r))
				if (n+ci)%2 == 1 {
					batch = append(batch, e.mkRecvF(r, cl, 0, 0)) // the same boundary round twice in one burst
				}
				r.Shuffle(len(batch), func(i, j int) { batch[i], batch[j] = batch[j], batch[i] })
			}
			ok := true
			for _, in := range batch {
				if in == nil {
					ok = false // class without an int64 value for the reported round
				}
			}
			if !ok {
				e.run.Count("c41.class."+cl+".not_representable", 1)
				continue
			}
			if !e.deliver(batch) {
				return false
			}
		}
	}
	return true
}

// deliver submits the inputs of one step, waits for the worker and judges the answer of GetLatestLFBTicket.
func (e *c41Env) deliver(batch []*c41Input) bool {
	ctx, cancel := context.WithTimeout(context.Background(), 10*time.Second)
	for _, in := range batch {
		switch in.Kind {
		case "recv":
			e.post(in)
			e.run.Count("ops.LFBTicketHandler", 1)
			if in.Signer == "current-sharder" && in.SigClass == "valid" && (in.Rel == "lower" || in.Rel == "equal") {
				e.run.Count("c41.lower_or_equal_round_valid_sharder_offered", 1)
			}
		case "broadcast":
			b := block.NewBlock(e.c.GetKey(), in.Round)
			b.Hash = in.Hash
			e.c.BroadcastLFBTicket(ctx, b)
			e.run.Count("ops.BroadcastLFBTicket", 1)
		case "bump":
			e.c.AddReceivedLFBTicket(ctx, &chain.LFBTicket{Round: in.Round}) // what miner.bumpLFBTicket does
			e.run.Count("ops.AddReceivedLFBTicket(bump)", 1)
		}
	}
	cancel()
	now, ok := e.getLatest()
	if !ok {
		e.run.Inconclusive("the LFB ticket worker did not settle within 10 s")
		return false
	}
	prev := e.latest
	e.latest = now
	e.run.Eval(1)
	e.run.Count("c41.monotone_judged", 1)
	label := batch[0]
	if len(batch) > 1 {
		label = &c41Input{Kind: "burst", Signer: "several", SigClass: "several", Rel: "several"}
	}
	rep := map[string]interface{}{"seed": mon.Seed(), "self": e.selfType, "step": e.step, "inputs": batch,
		"previous_latest": map[string]interface{}{"round": prev.Round, "signer": prev.SharderID, "own": prev.IsOwn},
		"latest":          map[string]interface{}{"round": now.Round, "signer": now.SharderID, "sign": now.Sign, "own": now.IsOwn}}
	if now.Round < prev.Round || now.Round < e.maxSeen {
		violate(e.run, "C41:latest-round-decreased", fmt.Sprintf("self=%s: GetLatestLFBTicket answered round %d after having answered round %d (input: %s %s %s round %d)", e.selfType, now.Round, e.maxSeen, label.Kind, label.Signer, label.SigClass, label.Round), rep)
	}
	if now.Round > e.maxSeen {
		e.maxSeen = now.Round
	}
	adopted := !sameTicket(now, prev)
	if adopted {
		// where does the new latest come from?
		var src *c41Input
		for _, in := range batch {
			switch in.Kind {
			case "recv":
				if now.Round == in.Round && now.SharderID == in.SharderID && now.LFBHash == in.Hash && now.Sign == in.Sign && !now.IsOwn {
					src = in
				}
			case "broadcast":
				if now.IsOwn && now.Round == in.Round && now.LFBHash == in.Hash && now.SharderID == node.Self.GetKey() {
					src = in
				}
			case "bump":
				if now.Round == in.Round && now.Sign == "" && now.SharderID == "" {
					src = in
				}
			}
		}
		switch {
		case src == nil:
			e.run.Inconclusive(fmt.Sprintf("the latest ticket changed to one the harness did not submit in this step (round %d signer %s)", now.Round, short(now.SharderID)))
			return false
		case src.Kind == "recv":
			e.run.Count("c41.adoption_judged", 1)
			mb := e.c.GetCurrentMagicBlock()
			isCurrentSharder := mb != nil && mb.Sharders.GetNode(now.SharderID) != nil
			valid := e.sigValid(now)
			if !isCurrentSharder {
				violate(e.run, "C41:adopted-ticket-not-from-current-sharder:"+src.Signer, fmt.Sprintf("self=%s: a ticket for round %d signed by %s %s (signature %s) received through LFBTicketHandler became the latest LFB ticket (previous latest round %d); the signer is not in the sharder pool of the current magic block",
					e.selfType, now.Round, src.Signer, short(now.SharderID), src.SigClass, prev.Round), rep)
			}
			if !valid {
				violate(e.run, "C41:adopted-ticket-bad-signature", fmt.Sprintf("self=%s: a ticket for round %d claimed by %s %s with a %s signature became the latest LFB ticket", e.selfType, now.Round, src.Signer, short(now.SharderID), src.SigClass), rep)
			}
			if isCurrentSharder && valid && now.Round > prev.Round {
				e.run.Count("c41.valid_current_sharder_higher_adopted", 1)
			}
		default:
			e.run.Count("c41.local_update_judged", 1)
		}
	}
	if prev.Round == math.MaxInt64 {
		e.run.Count("c41.judged_at_maxint", 1)
	}
	for _, in := range batch {
		e.run.Count(fmt.Sprintf("inputs.%s.%s.%s.%s", in.Kind, in.Signer, in.SigClass, in.Rel), 1)
		e.run.Distinct(fmt.Sprintf("self=%s|%s|%s|%s|%s|burst=%v|accepted=%v|adopted=%v", e.selfType, in.Kind, in.Signer, in.SigClass, in.Rel, len(batch) > 1, in.accepted, adopted && sameInput(now, in)))
		how := in.Kind
		if in.Kind == "broadcast" && e.selfType != "sharder" {
			how = "broadcast_on_miner" // BroadcastLFBTicket does nothing on a miner
		}
		if in.Kind == "recv" {
			how = "recv_other"
			if in.Signer == "current-sharder" && in.SigClass == "valid" {
				how = "recv_valid_current_sharder"
			}
		}
		if in.Class != "moderate" {
			e.run.Count("c41.class."+in.Class+"."+how, 1)
			e.run.Distinct(fmt.Sprintf("class=%s|self=%s|%s|%s|%s|burst=%v|adopted=%v", in.Class, e.selfType, in.Kind, in.Signer, in.SigClass, len(batch) > 1, adopted && sameInput(now, in)))
		}
		if c41DistanceExceedsInt64(in.Round, prev.Round) {
			e.run.Count("c41.distance_exceeds_int64."+how, 1)
			if len(batch) > 1 {
				e.run.Count("c41.distance_exceeds_int64.in_burst", 1)
			}
		}
	}
	if e.step%97 == 1 {
		e.run.Sample(rep)
	}
	return true
}

func sameInput(now *chain.LFBTicket, in *c41Input) bool {
	switch in.Kind {
	case "recv":
		return now.Round == in.Round && now.SharderID == in.SharderID && now.LFBHash == in.Hash && now.Sign == in.Sign
	case "broadcast":
		return now.IsOwn && now.Round == in.Round && now.LFBHash == in.Hash
	}
	return now.Round == in.Round && now.Sign == "" && now.SharderID == ""
}
