package notar

import (
	"context"
	"fmt"
	"sort"
	"strings"
	"time"

	"0chain.net/chaincore/block"
	"0chain.net/chaincore/chain"
	"0chain.net/chaincore/round"
	"0chain.net/core/common"
	"0chain.net/core/datastore"
	"0chain.net/core/encryption"
	"0chain.net/miner"
	"github.com/0chain/common/core/logging"
	"go.uber.org/zap"

	"verifh/mon"
	"verifh/world"
)

// c31Paths are the inbound paths (and path sequences) a scenario is delivered through.
var c31Paths = []string{"proposal", "ticket", "notarization", "notarized-block", "reproposal", "proposal+ticket", "proposal+notarization", "prev-tickets"}

var c31Faults = []string{"dup", "sharder", "stranger", "bad-sig", "other-hash", "nil"}

// c31Entry names the message through which the (possibly forged) tickets of a scenario reach the node; it is the path
// part of a violation signature. The sequences that start with a ticket-carrying proposal share its entry.
func c31Entry(path string) string {
	switch path {
	case "reproposal", "proposal+ticket", "proposal+notarization":
		return "proposal"
	case "prev-tickets":
		return "proposal-prev-tickets"
	}
	return path
}

func c31Children(tier string) int {
	if tier == "thorough" {
		return 48
	}
	return 12
}

// tkSpec describes one ticket of a mix before it is bound to a block hash.
type tkSpec struct {
	Class string `json:"class"` // valid | dup | sharder | stranger | bad-sig | other-hash | nil
	Who   int    `json:"who"`   // miner index (valid, dup, bad-sig, other-hash), sharder index, stranger index
}

// mix is one ticket combination.
type mix struct {
	Class   string   `json:"class"` // the fault class ("valid-only", one of c31Faults, "mixed")
	Valid   int      `json:"valid"` // distinct valid miners in the list
	Tickets []tkSpec `json:"tickets"`
}

func uniqInts(xs ...int) []int {
	seen := map[int]bool{}
	var out []int
	for _, x := range xs {
		if x >= 0 && !seen[x] {
			seen[x] = true
			out = append(out, x)
		}
	}
	return out
}

func validSpecs(v int) []tkSpec {
	var t []tkSpec
	for i := 0; i < v; i++ {
		t = append(t, tkSpec{"valid", i})
	}
	return t
}

// c31Mixes enumerates the ticket mixes for n miners: every fault class with every interesting number of valid
// tickets and the two interesting totals (count just reaches the threshold / every miner "signed"), plus seeded mixed ones.
func c31Mixes(n, thr int, r *mon.Rand, nMixed int, faults []string) []mix {
	var out []mix
	for _, v := range uniqInts(1, thr-1, thr, n) {
		out = append(out, mix{Class: "valid-only", Valid: v, Tickets: validSpecs(v)})
	}
	for _, c := range faults {
		for _, v := range uniqInts(0, 1, thr-1, thr) {
			if c == "dup" && v == 0 {
				continue
			}
			totals := uniqInts(thr, n)
			if v >= thr {
				totals = []int{v + 1}
			}
			for _, total := range totals {
				f := total - v
				if f <= 0 {
					continue
				}
				if (c == "bad-sig" || c == "other-hash") && f > n-v {
					f = n - v
				}
				if f <= 0 {
					continue
				}
				t := validSpecs(v)
				for i := 0; i < f; i++ {
					switch c {
					case "dup":
						t = append(t, tkSpec{"dup", i % v})
					case "sharder", "stranger":
						t = append(t, tkSpec{c, i})
					case "bad-sig", "other-hash":
						t = append(t, tkSpec{c, v + i})
					case "nil":
						t = append(t, tkSpec{"nil", 0})
					}
				}
				rr := r.Fork(fmt.Sprintf("order-%s-%d-%d", c, v, total))
				rr.Shuffle(len(t), func(i, j int) { t[i], t[j] = t[j], t[i] })
				out = append(out, mix{Class: c, Valid: v, Tickets: t})
			}
		}
	}
	var mixable []string
	for _, c := range faults {
		if c != "nil" {
			mixable = append(mixable, c)
		}
	}
	for k := 0; k < nMixed && len(mixable) > 1; k++ {
		rr := r.Fork(fmt.Sprintf("mixed-%d", k))
		v := rr.Intn(thr)
		if rr.Chance(0.2) {
			v = thr + rr.Intn(n-thr+1)
		}
		t := validSpecs(v)
		nf := 2 + rr.Intn(n+1-v+1)
		used := map[string]bool{}
		for i := 0; i < nf; i++ {
			c := mixable[rr.Intn(len(mixable))]
			if c == "dup" && v == 0 {
				c = "stranger"
			}
			used[c] = true
			switch c {
			case "dup":
				t = append(t, tkSpec{"dup", rr.Intn(v)})
			case "sharder", "stranger":
				t = append(t, tkSpec{c, rr.Intn(n)})
			default:
				t = append(t, tkSpec{c, rr.Intn(n)}) // may collide with a valid verifier: same id, second signature
			}
		}
		if len(used) < 2 {
			t = append(t, tkSpec{"stranger", n + 1}, tkSpec{"bad-sig", rr.Intn(n)})
		}
		rr.Shuffle(len(t), func(i, j int) { t[i], t[j] = t[j], t[i] })
		out = append(out, mix{Class: "mixed", Valid: v, Tickets: t})
	}
	return out
}

// c31Env is the per-process environment.
type c31Env struct {
	run       *mon.Run
	w         *world.World
	mc        *miner.Chain
	n, thr    int
	strangers []*world.Wallet
	minerPub  map[string]string // miner id -> public key (harness-generated)
	lfmbHash  string
	head      *block.Block                // the node's own notarized tip: every scenario extends it by one round
	headVts   []*block.VerificationTicket // its (valid) tickets, carried by honest-looking proposals as previous-block tickets
	crashes   map[string]bool
}

type c31Scenario struct {
	Idx     int    `json:"idx"`
	N       int    `json:"n"`
	Path    string `json:"path"`
	Variant string `json:"variant"`
	Mix     mix    `json:"mix"`
}

// tracked is one block hash the oracle follows inside a scenario.
type tracked struct {
	hash  string
	round int64
	objs  []*block.Block
}

type c31Run struct {
	e       *c31Env
	sc      c31Scenario
	rn      int64
	mr      *miner.Round
	A, O    *block.Block // canonical (generator-side) blocks; never handed to the node
	tr      map[string]*tracked
	steps   []string
	flagged map[string]bool
	ctx     context.Context
}

func c31Child(run *mon.Run, tier, name string) {
	tStart := time.Now()
	ci := idx(name)
	n := 4
	nilChild := strings.HasPrefix(name, "nil")
	if nilChild {
		n = ci
	} else if ci%2 == 1 {
		n = 7
	}
	w := world.New(world.Options{Seed: mon.Seed()*1000 + 31*17 + uint64(ci) + uint64(len(name))*97, NumMiners: n, NumSharders: n, NumClients: 2})
	defer w.Close()
	logging.Logger = zap.NewNop()
	logging.N2n = zap.NewNop()
	miner.SetupMinerChain(w.Chain)
	mc := miner.GetMinerChain()
	setupN2N()
	e := &c31Env{run: run, w: w, mc: mc, n: n, minerPub: map[string]string{}, crashes: map[string]bool{}}
	// the oracle's threshold comes from the configured percentage, not from the code's own computation
	e.thr = (n*66 + 99) / 100
	if mc.ThresholdByCount() != 66 || mc.ThresholdByStake() != 0 {
		run.Inconclusive(fmt.Sprintf("unexpected threshold configuration: by count %d%%, by stake %d", mc.ThresholdByCount(), mc.ThresholdByStake()))
		return
	}
	run.Eval(1)
	run.Count("c31.threshold_count_judged", 1)
	if got := mc.GetNotarizationThresholdCount(n); got != e.thr {
		violate(run, "C31:threshold-count-differs-from-configured-percentage", fmt.Sprintf("GetNotarizationThresholdCount(%d) = %d, 66%% of %d miners rounded up is %d", n, got, n, e.thr), nil)
	}
	if mc.GetMiners(20).Size() != n {
		run.Inconclusive("magic block does not hold the harness miners")
		return
	}
	for _, m := range w.Miners {
		e.minerPub[m.ID] = m.PubKey
	}
	for i := 0; i < n+3; i++ {
		e.strangers = append(e.strangers, world.NewWallet(fmt.Sprintf("%d:c31-stranger-%s-%d", mon.Seed(), name, i)))
	}
	lfmb := mc.GetLatestFinalizedMagicBlockRound(20)
	if lfmb == nil {
		run.Inconclusive("no latest finalized magic block")
		return
	}
	e.lfmbHash = lfmb.Hash
	e.head = w.GB
	e.advanceHead(1) // round 0 is not a miner round; scenarios start on top of a notarized round-1 block

	r := rnd(fmt.Sprintf("c31/n%d", n)) // the list is the same in every child of the same n; children take slices of it
	nMixed := 16
	if tier == "thorough" {
		nMixed = 80
	}
	faults := c31Faults[:len(c31Faults)-1] // nil tickets abort goroutines of the node: they run in children of their own
	paths := c31Paths
	if nilChild {
		faults = []string{"nil"}
		nMixed = 0
	}
	mixes := c31Mixes(n, e.thr, r, nMixed, faults)
	reps := 2
	if tier == "thorough" {
		reps = 5
	}
	var scs []c31Scenario
	for rep := 0; rep < reps; rep++ {
		for _, p := range paths {
			for mi, m := range mixes {
				if nilChild && m.Class == "valid-only" {
					continue
				}
				mm := m
				if rep > 0 { // other arrival orders of the same mix
					mm.Tickets = append([]tkSpec{}, m.Tickets...)
					rr := r.Fork(fmt.Sprintf("rep%d-%s-%d", rep, p, mi))
					rr.Shuffle(len(mm.Tickets), func(i, j int) { mm.Tickets[i], mm.Tickets[j] = mm.Tickets[j], mm.Tickets[i] })
				}
				vr := r.Fork(fmt.Sprintf("variant-%d-%s-%d", rep, p, mi))
				scs = append(scs, c31Scenario{Idx: len(scs), N: n, Path: p, Mix: mm, Variant: c31Variant(p, vr)})
				if p == "prev-tickets" {
					// whether the unverified merge of previous-block tickets is reached depends on a goroutine of the node
					// winning a race inside processVerifyBlock: every mix is delivered three times (fresh rounds each)
					for try := 2; try <= 3; try++ {
						scs = append(scs, c31Scenario{Idx: len(scs), N: n, Path: p, Mix: mm, Variant: fmt.Sprintf("try%d", try)})
					}
				}
			}
		}
	}
	share, slot := 1, 0
	if !nilChild {
		share = c31Children(tier) / 2
		slot = ci / 2
	}
	for _, sc := range scs {
		if sc.Idx%share != slot {
			continue
		}
		e.scenario(sc)
		run.Checkpoint()
	}
	fmt.Printf("scenarios done after %s\n", time.Since(tStart).Round(time.Millisecond))
	time.Sleep(100 * time.Millisecond)
}

// setupN2N prepares the senders / requestors the way the miner's main does (initN2NHandlers) so that the
// handlers can attempt their network side effects; every peer is unreachable, the attempts fail fast.
func setupN2N() {
	miner.SetupNotarizationEntity()
	miner.SetupM2MSenders()
	miner.SetupM2SSenders()
	miner.SetupM2SRequestors()
	miner.SetupM2MRequestors()
	chain.SetupX2MRequestors()
	chain.SetupX2SRequestors()
	chain.SetupLFBTicketSender()
}

func c31Variant(path string, r *mon.Rand) string {
	switch path {
	case "proposal":
		return []string{"round-known", "round-known", "round-unknown", "other-rrs"}[r.Intn(4)]
	case "ticket":
		return []string{"block-first", "block-last", "block-middle"}[r.Intn(3)]
	case "notarization":
		return []string{"block-known", "block-known", "block-known", "block-known", "block-known", "block-unknown"}[r.Intn(6)]
	case "notarized-block":
		return []string{"block-unknown", "block-known", "other-rrs"}[r.Intn(3)]
	}
	return "std"
}

// ---------------------------------------------------------------------------------------------------
// block and ticket construction (the byzantine sender's side)

func (e *c31Env) mkBlock(rn int64, gen int, seed int64, prev *block.Block, salt int64) *block.Block {
	b := block.NewBlock(e.w.Chain.GetKey(), rn)
	b.MinerID = e.w.Miners[gen].ID
	b.PrevHash = prev.Hash
	b.CreationDate = e.w.Now + 1 + common.Timestamp(salt%1000)
	b.SetRoundRandomSeed(seed)
	b.LatestFinalizedMagicBlockHash = e.lfmbHash
	b.LatestFinalizedMagicBlockRound = 0
	b.ClientStateHash = prev.ClientStateHash
	b.HashBlock()
	b.Signature = e.w.Miners[gen].Sign(b.Hash)
	return b
}

// recv turns the sender's block into what the node decodes from the wire: a fresh object without local state.
func (e *c31Env) recv(b *block.Block, vts, prevVts []*block.VerificationTicket) *block.Block {
	c := e.shallow(b)
	c.VerificationTickets = vts
	c.PrevBlockVerificationTickets = prevVts
	if prevVts == nil && b.PrevHash == e.head.Hash {
		c.PrevBlockVerificationTickets = e.headVts // what an honest generator attaches
	}
	js := append([]byte{}, datastore.ToJSON(c).Bytes()...)
	nb := block.Provider().(*block.Block)
	if err := datastore.FromJSON(js, nb); err != nil {
		panic("harness: cannot decode its own block: " + err.Error())
	}
	return nb
}

// shallow copies the hashed / signed fields into a new block value (no mutex copying).
func (e *c31Env) shallow(b *block.Block) *block.Block {
	c := block.NewBlock(b.ChainID, b.Round)
	c.MinerID, c.PrevHash, c.CreationDate = b.MinerID, b.PrevHash, b.CreationDate
	c.SetRoundRandomSeed(b.GetRoundRandomSeed())
	c.RoundTimeoutCount = b.RoundTimeoutCount
	c.LatestFinalizedMagicBlockHash, c.LatestFinalizedMagicBlockRound = b.LatestFinalizedMagicBlockHash, b.LatestFinalizedMagicBlockRound
	c.ClientStateHash = b.ClientStateHash
	c.Hash, c.Signature = b.Hash, b.Signature
	return c
}

func (x *c31Run) ticket(s tkSpec, on, other string) *block.VerificationTicket {
	e := x.e
	switch s.Class {
	case "valid", "dup":
		m := e.w.Miners[s.Who%e.n]
		return &block.VerificationTicket{VerifierID: m.ID, Signature: m.Sign(on)}
	case "sharder":
		sh := e.w.Sharders[s.Who%len(e.w.Sharders)]
		return &block.VerificationTicket{VerifierID: sh.ID, Signature: sh.Sign(on)}
	case "stranger":
		st := e.strangers[s.Who%len(e.strangers)]
		return &block.VerificationTicket{VerifierID: st.ID, Signature: st.Sign(on)}
	case "bad-sig": // a well-formed signature made with a key that is not the claimed miner's, or a string that is no signature at all
		m := e.w.Miners[s.Who%e.n]
		if s.Who%2 == 1 {
			return &block.VerificationTicket{VerifierID: m.ID, Signature: "zz" + encryption.Hash(on)}
		}
		return &block.VerificationTicket{VerifierID: m.ID, Signature: e.strangers[s.Who%len(e.strangers)].Sign(on)}
	case "other-hash":
		m := e.w.Miners[s.Who%e.n]
		return &block.VerificationTicket{VerifierID: m.ID, Signature: m.Sign(other)}
	case "nil":
		return nil
	}
	panic("unknown ticket class " + s.Class)
}

func (x *c31Run) tickets(specs []tkSpec, on, other string) []*block.VerificationTicket {
	var out []*block.VerificationTicket
	for _, s := range specs {
		out = append(out, x.ticket(s, on, other))
	}
	return out
}

// ---------------------------------------------------------------------------------------------------
// the oracle

func (e *c31Env) verifies(vt *block.VerificationTicket, hash string) bool {
	if vt == nil {
		return false
	}
	pub, ok := e.minerPub[vt.VerifierID]
	if !ok {
		return false
	}
	good := false
	_ = guard(func() {
		s := encryption.NewBLS0ChainScheme()
		if err := s.SetPublicKey(pub); err != nil {
			return
		}
		ok, err := s.Verify(vt.Signature, hash)
		good = ok && err == nil
	})
	return good
}

func (x *c31Run) track(b *block.Block) {
	t := x.tr[b.Hash]
	if t == nil {
		t = &tracked{hash: b.Hash, round: b.Round}
		x.tr[b.Hash] = t
	}
	for _, o := range t.objs {
		if o == b {
			return
		}
	}
	t.objs = append(t.objs, b)
}

// judge evaluates the property on everything the node holds after a message.
func (x *c31Run) judge(step string) {
	e := x.e
	x.steps = append(x.steps, step)
	hashes := make([]string, 0, len(x.tr))
	for h := range x.tr {
		hashes = append(hashes, h)
	}
	sort.Strings(hashes)
	for _, h := range hashes {
		t := x.tr[h]
		objs := append([]*block.Block{}, t.objs...)
		if cb, err := e.mc.GetBlock(x.ctx, h); err == nil && cb != nil {
			objs = appendObj(objs, cb)
		}
		notarized, where := false, ""
		var held []*block.VerificationTicket
		if mr := e.mc.GetMinerRound(t.round); mr != nil {
			for _, nb := range mr.GetNotarizedBlocks() {
				if nb.Hash == h {
					notarized, where = true, "round.GetNotarizedBlocks"
					objs = appendObj(objs, nb)
				}
			}
			for _, pb := range mr.GetProposedBlocks() {
				if pb.Hash == h {
					objs = appendObj(objs, pb)
				}
			}
			held = append(held, mr.GetVerificationTickets(h)...)
		}
		for _, o := range objs {
			if o.IsBlockNotarized() {
				notarized = true
				if where == "" {
					where = "Block.IsBlockNotarized"
				}
			}
			o.DoReadLock()
			held = append(held, o.VerificationTickets...)
			o.DoReadUnlock()
		}
		signers := map[string]bool{}
		for _, vt := range held {
			if vt != nil && !signers[vt.VerifierID] && e.verifies(vt, h) {
				signers[vt.VerifierID] = true
			}
		}
		e.run.Eval(1)
		if !notarized {
			e.run.Count("c31.not_notarized_judged", 1)
			continue
		}
		e.run.Count("c31.notarized_judged", 1)
		if len(signers) >= e.thr {
			continue
		}
		sig := fmt.Sprintf("C31:notarized-below-threshold:%s:%s", c31Entry(x.sc.Path), x.sc.Mix.Class)
		key := sig + h
		if x.flagged[key] {
			continue
		}
		x.flagged[key] = true
		role := "the received block"
		if x.A != nil && h != x.A.Hash {
			role = "another block of the scenario"
			if x.sc.Path == "prev-tickets" {
				role = "the previous-round block"
			}
		}
		var classes []string
		for _, s := range x.sc.Mix.Tickets {
			classes = append(classes, s.Class)
		}
		violate(e.run, sig, fmt.Sprintf("n=%d miners, threshold %d: after %q (path %s, variant %s) %s %s of round %d is notarized (%s) while only %d distinct round miners hold a ticket that verifies on its hash (tickets held: %d); ticket mix %v",
			e.n, e.thr, step, x.sc.Path, x.sc.Variant, role, short(h), t.round, where, len(signers), len(held), classes),
			map[string]interface{}{"seed": mon.Seed(), "n": e.n, "threshold": e.thr, "scenario": x.sc, "steps": x.steps, "valid_distinct_signers": len(signers), "tickets_held": len(held), "observed_at": where})
	}
}

func appendObj(objs []*block.Block, b *block.Block) []*block.Block {
	for _, o := range objs {
		if o == b {
			return objs
		}
	}
	return append(objs, b)
}

func short(h string) string {
	if len(h) > 10 {
		return h[:10]
	}
	return h
}

func (x *c31Run) isNotarized(h string) bool {
	t := x.tr[h]
	if t == nil {
		return false
	}
	for _, o := range t.objs {
		if o.IsBlockNotarized() {
			return true
		}
	}
	if cb, err := x.e.mc.GetBlock(x.ctx, h); err == nil && cb != nil && cb.IsBlockNotarized() {
		return true
	}
	if mr := x.e.mc.GetMinerRound(t.round); mr != nil {
		for _, nb := range mr.GetNotarizedBlocks() {
			if nb.Hash == h {
				return true
			}
		}
	}
	return false
}

// ---------------------------------------------------------------------------------------------------
// deliveries (each is one message reaching the node, followed by a judgement)

func (x *c31Run) call(step string, f func()) {
	p := guard(f)
	if p != "" {
		// a panic in the calling goroutine: in the node this goroutine has no recover, i.e. the process dies.
		// Not a notarization; recorded as an observation.
		key := x.sc.Path + "." + x.sc.Mix.Class
		x.e.run.Count("c31.handler_panics", 1)
		if !x.e.crashes[key] {
			x.e.crashes[key] = true
			x.e.run.Set("observations.panic."+key, fmt.Sprintf("%s: %s", step, firstLine(p)))
		}
	}
	x.judge(step)
}

func firstLine(s string) string {
	if i := strings.Index(s, "\n"); i >= 0 {
		s = s[:i]
	}
	if len(s) > 80 {
		s = s[:80]
	}
	return s
}

func (x *c31Run) deliverProposal(step string, b *block.Block) {
	x.track(b)
	x.e.run.Count("ops.processVerifyBlock", 1)
	x.call(step, func() {
		ctx, cancel := context.WithTimeout(x.ctx, 5*time.Second)
		defer cancel()
		_ = x.e.mc.VerifNotarProcessVerifyBlock(ctx, b)
	})
}

func (x *c31Run) deliverTicket(step string, vt *block.VerificationTicket, hash string, rn int64, sender int) {
	if vt == nil {
		return // a ticket message always carries a ticket
	}
	x.e.run.Count("ops.handleVerificationTicketMessage", 1)
	msg := miner.NewBlockMessage(miner.MessageVerificationTicket, x.e.w.MB.Miners.GetNode(x.e.w.Miners[sender%x.e.n].ID), nil, nil)
	msg.BlockVerificationTicket = &block.BlockVerificationTicket{VerificationTicket: *vt, Round: rn, BlockID: hash}
	x.call(step, func() {
		ctx, cancel := context.WithTimeout(x.ctx, 5*time.Second)
		defer cancel()
		x.e.mc.VerifNotarHandleVerificationTicketMessage(ctx, msg)
	})
}

func (x *c31Run) deliverNotarization(step string, hash string, rn int64, vts []*block.VerificationTicket) {
	x.e.run.Count("ops.notarizationProcess", 1)
	not := &miner.Notarization{BlockID: hash, Round: rn, VerificationTickets: vts}
	to := 3 * time.Second
	if _, err := x.e.mc.GetBlock(x.ctx, hash); err != nil {
		to = 400 * time.Millisecond // the node will try to fetch the block from peers that do not exist
	}
	x.call(step, func() {
		ctx, cancel := context.WithTimeout(x.ctx, to)
		defer cancel()
		_ = x.e.mc.VerifNotarNotarizationProcess(ctx, not)
	})
}

func (x *c31Run) deliverNotarizedBlock(step string, nb *block.Block, sender int) {
	x.track(nb)
	x.e.run.Count("ops.handleNotarizedBlockMessage", 1)
	msg := &miner.BlockMessage{Type: miner.MessageNotarizedBlock, Sender: x.e.w.MB.Miners.GetNode(x.e.w.Miners[sender%x.e.n].ID), Block: nb}
	x.call(step, func() {
		ctx, cancel := context.WithTimeout(x.ctx, 5*time.Second)
		defer cancel()
		x.e.mc.VerifNotarHandleNotarizedBlockMessage(ctx, msg)
	})
}

// ---------------------------------------------------------------------------------------------------
// one scenario

func (e *c31Env) newRound(rn int64, seed int64) *miner.Round {
	mr := e.mc.AddRound(e.mc.CreateRound(round.NewRound(rn))).(*miner.Round)
	if seed != 0 && !mr.HasRandomSeed() {
		e.mc.SetRandomSeed(mr.Round, seed)
	}
	return mr
}

// advanceHead gives the node a new tip at round rn: a block with computed state, the tickets of every miner and the
// notarized flag set by the real code (AddVerificationTicket -> UpdateBlockNotarization), registered in its round.
func (e *c31Env) advanceHead(rn int64) {
	for r := e.head.Round + 1; r <= rn; r++ {
		mr := e.mc.GetMinerRound(r)
		if mr == nil {
			mr = e.newRound(r, int64(encryption.RawHash(fmt.Sprintf("c31-round-seed:%d:%d", mon.Seed(), r))[0])<<24|int64(r)<<8|1)
		}
		bc := e.w.NewBlock(e.head, r, 0)
		if mr.HasRandomSeed() {
			bc.B.SetRoundRandomSeed(mr.GetRandomSeed())
		}
		bc.B.LatestFinalizedMagicBlockHash = e.lfmbHash
		h := bc.Seal()
		h = e.mc.AddBlock(h)
		var vts []*block.VerificationTicket
		for _, m := range e.w.Miners {
			vt := &block.VerificationTicket{VerifierID: m.ID, Signature: m.Sign(h.Hash)}
			vts = append(vts, vt)
			e.mc.AddVerificationTicket(h, vt)
		}
		if !h.IsBlockNotarized() {
			panic("harness: the tip did not become notarized with the tickets of every miner")
		}
		e.mc.AddNotarizedBlockToRound(mr, h)
		e.head, e.headVts = h, vts
	}
}

func (e *c31Env) scenario(sc c31Scenario) {
	base := e.head.Round
	rn := base + 1
	r := rnd(fmt.Sprintf("c31/scenario/%d/%d", sc.N, sc.Idx))
	seedPrev := int64(r.U64()>>2) | 1
	seed := int64(r.U64()>>2) | 1
	t0 := time.Now()
	defer func() {
		fmt.Printf("scenario %d n=%d path=%s variant=%s mix=%s valid=%d base=%d took %s\n", sc.Idx, sc.N, sc.Path, sc.Variant, sc.Mix.Class, sc.Mix.Valid, base, time.Since(t0).Round(time.Millisecond))
	}()
	x := &c31Run{e: e, sc: sc, rn: rn, tr: map[string]*tracked{}, flagged: map[string]bool{}, ctx: context.Background()}
	_ = seedPrev
	if e.mc.GetMinerRound(base) == nil {
		panic("harness: the round of the tip is missing")
	}
	if !(sc.Path == "proposal" && sc.Variant == "round-unknown") {
		x.mr = e.newRound(rn, seed)
	}
	e.mc.SetCurrentRound(rn)
	gen := 1 + r.Intn(e.n-1)
	blockSeed := seed
	if sc.Variant == "other-rrs" {
		blockSeed = seed + 2
	}
	x.A = e.mkBlock(rn, gen, blockSeed, e.head, base*7+1)
	x.O = e.mkBlock(rn, 1+(gen%(e.n-1)), blockSeed, e.head, base*7+2)
	if x.A.Hash == x.O.Hash {
		panic("harness: the two blocks of a scenario coincide")
	}
	A, O := x.A, x.O
	vts := x.tickets(sc.Mix.Tickets, A.Hash, O.Hash)
	validIn := func(ts []*block.VerificationTicket, h string) int {
		s := map[string]bool{}
		for _, vt := range ts {
			if e.verifies(vt, h) {
				s[vt.VerifierID] = true
			}
		}
		return len(s)
	}
	offered := validIn(vts, A.Hash) // valid distinct round miners the byzantine sender offers for A over the whole scenario
	target := A.Hash

	switch sc.Path {
	case "proposal":
		x.deliverProposal("proposal with attached tickets", e.recv(A, vts, nil))

	case "reproposal":
		x.deliverProposal("plain proposal", e.recv(A, nil, nil))
		x.deliverProposal("same block proposed again with attached tickets", e.recv(A, vts, nil))

	case "ticket":
		pos := 0
		switch sc.Variant {
		case "block-last":
			pos = len(vts)
		case "block-middle":
			pos = len(vts) / 2
		}
		for i := 0; i <= len(vts); i++ {
			if i == pos {
				x.deliverProposal("plain proposal", e.recv(A, nil, nil))
			}
			if i < len(vts) {
				x.deliverTicket(fmt.Sprintf("ticket message #%d (%s)", i, sc.Mix.Tickets[i].Class), vts[i], A.Hash, rn, 1+i)
			}
		}

	case "notarization":
		if sc.Variant != "block-unknown" {
			x.deliverProposal("plain proposal", e.recv(A, nil, nil))
		} else {
			x.track(e.recv(A, nil, nil)) // never delivered; the hash is followed all the same
		}
		x.deliverNotarization("notarization message", A.Hash, rn, vts)

	case "notarized-block":
		if sc.Variant == "block-known" {
			x.deliverProposal("plain proposal", e.recv(A, nil, nil))
		}
		x.deliverNotarizedBlock("notarized block message", e.recv(A, vts, nil), gen)

	case "proposal+ticket", "proposal+notarization":
		// stage 1: a proposal whose attached list stays below the threshold count
		att := vts
		if len(att) > e.thr-1 {
			att = att[:e.thr-1]
		}
		x.deliverProposal("proposal with attached tickets (count below threshold)", e.recv(A, att, nil))
		have := map[string]bool{}
		for _, vt := range att {
			if e.verifies(vt, A.Hash) {
				have[vt.VerifierID] = true
			}
		}
		var fresh []*block.VerificationTicket // valid tickets of miners that are not among the valid attached ones
		for i := 0; i < e.n; i++ {
			m := e.w.Miners[i]
			if !have[m.ID] {
				fresh = append(fresh, &block.VerificationTicket{VerifierID: m.ID, Signature: m.Sign(A.Hash)})
			}
		}
		r.Shuffle(len(fresh), func(i, j int) { fresh[i], fresh[j] = fresh[j], fresh[i] })
		need := e.thr - len(have) // how many more valid tickets make the block legitimately notarized
		if sc.Path == "proposal+ticket" {
			for i := 0; i < need && i < len(fresh); i++ {
				x.deliverTicket(fmt.Sprintf("valid ticket message (%d of %d distinct valid signers held)", len(have)+i+1, e.thr), fresh[i], A.Hash, rn, 1+i)
			}
		} else {
			if need-1 > 0 {
				x.deliverNotarization(fmt.Sprintf("notarization message with %d valid tickets (%d of %d distinct valid signers held)", need-1, len(have)+need-1, e.thr), A.Hash, rn, fresh[:need-1])
			}
			x.deliverNotarization(fmt.Sprintf("notarization message with %d valid tickets (threshold reached)", need), A.Hash, rn, fresh[:need])
		}
		offered = e.thr
		e.run.Count("c31.below_threshold_delivered."+sc.Path, 1) // stage 1 and every step before the last

	case "prev-tickets":
		// A is known and verified by the node; the next round's proposal B carries tickets for A
		ra := e.recv(A, nil, nil)
		x.deliverProposal("plain proposal of the previous-round block", ra)
		if cb, err := e.mc.GetBlock(x.ctx, A.Hash); err == nil {
			cctx, cancel := context.WithTimeout(x.ctx, 5*time.Second)
			_ = e.mc.ComputeState(cctx, cb) // what the node's own verification of A does
			cancel()
		}
		e.newRound(rn+1, int64(r.U64()>>2)|1)
		e.mc.SetCurrentRound(rn + 1)
		nrSeed := e.mc.GetMinerRound(rn + 1).GetRandomSeed()
		B := e.mkBlock(rn+1, gen, nrSeed, A, base*7+3)
		nonNil := 0
		for _, vt := range vts {
			if vt != nil {
				nonNil++
			}
		}
		if nonNil >= e.thr && offered < e.thr {
			e.run.Count("c31.prev_tickets.forged_list_reaches_count", 1) // the unverified merge, when reached, must show
		}
		x.deliverProposal("next-round proposal carrying previous-block tickets", e.recv(B, nil, vts))
		if x.isNotarized(A.Hash) && offered < e.thr {
			e.run.Count("c31.prev_tickets.unverified_merge_reached", 1)
		}
		time.Sleep(120 * time.Millisecond) // the previous-block notarization check runs in a goroutine of the node
		x.judge("after the previous-block notarization goroutine")
	}

	// converse (effectiveness): with >= threshold valid tickets offered the block does become notarized
	got := x.isNotarized(target)
	defer func() {
		next := rn
		if sc.Path == "prev-tickets" {
			next = rn + 1
		}
		e.advanceHead(next)
	}()
	rel := "below"
	if offered >= e.thr {
		rel = "at-or-above"
		e.run.Count("c31.threshold_reached_delivered."+sc.Path, 1)
		if got {
			e.run.Count("c31.converse_notarized."+sc.Path, 1)
		} else {
			e.run.Count("c31.converse_not_notarized."+sc.Path+"."+sc.Mix.Class, 1)
		}
	} else {
		e.run.Count("c31.below_threshold_delivered."+sc.Path, 1)
	}
	e.run.Count("c31.scenarios", 1)
	e.run.Distinct(fmt.Sprintf("n=%d|%s|%s|%s|valid=%s(%d)|notarized=%v", e.n, sc.Path, sc.Variant, sc.Mix.Class, rel, sc.Mix.Valid, got))
	if sc.Idx%37 == 0 {
		e.run.Sample(map[string]interface{}{"n": e.n, "threshold": e.thr, "path": sc.Path, "variant": sc.Variant, "mix": sc.Mix, "valid_distinct_offered": offered, "steps": x.steps, "notarized": got})
	}
}
