package unitchain

import (
	"fmt"
	"sort"

	"verifh/mon"

	"0chain.net/chaincore/block"
	"0chain.net/chaincore/chain"
	"0chain.net/chaincore/round"
)

// c40Grid is the universe of starting rounds of the exhaustive part: genesis (0), adjacent starts, gaps equal to the
// view-change offset (4) and gaps larger than it. Non-genesis magic blocks start after round ViewChangeOffset.
var c40Grid = []int64{0, 5, 6, 10, 14, 15, 19, 25}

// refFloor is the reference model: index (into the ascending start list) of the greatest start <= q, or -1.
func refFloor(sorted []int64, q int64) int {
	idx := -1
	for i, s := range sorted {
		if s <= q {
			idx = i
		}
	}
	return idx
}

// refEffective: a magic block starting at s is in force from round s+offset; rounds before the first view change use the round itself floor 0.
func refEffective(q int64) int64 {
	e := q - chain.ViewChangeOffset
	if e < 0 {
		e = 0
	}
	return e
}

type c40Ent struct{ start int64 }

func runC40(run *mon.Run, thorough bool) {
	w := newWorld(mon.Seed())
	defer w.Close()
	rnd := mon.NewRand(mon.Seed()).Fork("C40")
	c := w.Chain
	maxK := 5
	if thorough {
		maxK = 7
	}
	run.Set("bound", fmt.Sprintf("every non-empty subset of size <= %d of the starting-round grid %v, every insertion order, every query round 0..max+offset+2, every prune point (each stored start, each non-stored grid value, PruneRoundStorage with every target count)", maxK, c40Grid))
	run.Assume(fmt.Sprintf("non-genesis magic blocks start after round ViewChangeOffset (%d): for a start in 1..%d mbRoundOffset is not monotonic (rounds <= %d are looked up without offset, round %d with it)", chain.ViewChangeOffset, chain.ViewChangeOffset, chain.ViewChangeOffset, chain.ViewChangeOffset+1))
	run.Assume("a prune that removes every stored magic block is outside the statement (nothing is retained); Chain.PruneRoundStorage always keeps >= 1 entry")

	origStorage := c.MagicBlockStorage
	origPrev := c.PreviousMagicBlock
	defer func() { c.MagicBlockStorage, c.PreviousMagicBlock = origStorage, origPrev }()
	sentinelPrev := block.NewMagicBlock()
	sentinelPrev.Hash = "c40-previous-magic-block-field"
	c.PreviousMagicBlock = sentinelPrev

	// magic blocks per start (fresh objects per case would only cost allocations; identity is what we compare)
	mbOf := map[int64]*block.MagicBlock{}
	getMB := func(s int64) *block.MagicBlock {
		if mb, ok := mbOf[s]; ok {
			return mb
		}
		mb := block.NewMagicBlock()
		mb.StartingRound = s
		mb.MagicBlockNumber = s + 1
		mb.Hash = fmt.Sprintf("c40-mb-%d", s)
		mbOf[s] = mb
		return mb
	}

	var sampleN int
	// judge one (set, insertion order)
	judge := func(starts []int64, order []int, exhaustivePart bool) {
		m := len(starts)
		order = append([]int{}, order...) // the enumerator reuses its slice
		starts = append([]int64{}, starts...)
		checkpoint(run)
		sorted := append([]int64{}, starts...)
		sort.Slice(sorted, func(i, j int) bool { return sorted[i] < sorted[j] })
		maxQ := sorted[m-1] + chain.ViewChangeOffset + 2
		build := func() round.RoundStorage {
			var rs round.RoundStorage = round.NewRoundStartingStorage()
			for _, i := range order {
				_ = rs.Put(&c40Ent{starts[i]}, starts[i])
			}
			return rs
		}
		// ---- storage level: floor lookup
		st := build()
		run.Eval(1)
		gotRounds := st.GetRounds()
		run.Count("storage_rounds_sorted", 1)
		if fmt.Sprint(gotRounds) != fmt.Sprint(sorted) || st.Count() != m {
			violate(run, "C40:storage-rounds-not-sorted-set", fmt.Sprintf("starts=%v order=%v GetRounds=%v Count=%d", starts, order, gotRounds, st.Count()),
				map[string]interface{}{"starts": starts, "order": order})
		}
		answers := make([]int64, maxQ+1) // start of the entity returned for q, -1 = nil
		for q := int64(0); q <= maxQ; q++ {
			run.Count("storage_get_floor", 1)
			want := int64(-1)
			if i := refFloor(sorted, q); i >= 0 {
				want = sorted[i]
			}
			got := int64(-1)
			if e := st.Get(q); e != nil {
				got = e.(*c40Ent).start
			}
			answers[q] = got
			if got != want {
				violate(run, "C40:floor-lookup-mismatch", fmt.Sprintf("storage.Get(%d) with starts %v inserted in order %v returned start %d, floor is %d", q, starts, order, got, want),
					map[string]interface{}{"starts": starts, "order": order, "query": q, "level": "storage"})
			}
			run.Count("storage_find_round_index", 1)
			if gi, wi := st.FindRoundIndex(q), refFloor(sorted, q); gi != wi {
				violate(run, "C40:find-round-index-mismatch", fmt.Sprintf("FindRoundIndex(%d) starts=%v order=%v got %d want %d", q, starts, order, gi, wi),
					map[string]interface{}{"starts": starts, "order": order, "query": q})
			}
		}
		run.Count("storage_get_latest", 1)
		if l := st.GetLatest(); l == nil || l.(*c40Ent).start != sorted[m-1] {
			violate(run, "C40:latest-mismatch", fmt.Sprintf("GetLatest starts=%v order=%v", starts, order), map[string]interface{}{"starts": starts, "order": order})
		}
		// ---- prune points: every stored start, plus a value that is not stored
		prunePoints := append([]int64{}, sorted...)
		for _, g := range c40Grid {
			if refFloor(sorted, g) < 0 || sorted[refFloor(sorted, g)] != g {
				prunePoints = append(prunePoints, g)
				break
			}
		}
		for _, p := range prunePoints {
			ps := build()
			err := ps.Prune(p)
			stored := refFloor(sorted, p) >= 0 && sorted[refFloor(sorted, p)] == p
			var retained []int64
			if stored {
				for _, s := range sorted {
					if s > p {
						retained = append(retained, s)
					}
				}
			} else {
				retained = sorted
			}
			run.Count("prune_result", 1)
			if stored != (err == nil) {
				violate(run, "C40:prune-result", fmt.Sprintf("Prune(%d) starts=%v order=%v err=%v", p, starts, order, err), map[string]interface{}{"starts": starts, "order": order, "prune": p})
			}
			if len(retained) == 0 {
				run.Count("prune_removed_everything_unjudged", 1)
				continue
			}
			if fmt.Sprint(ps.GetRounds()) != fmt.Sprint(retained) {
				violate(run, "C40:prune-retained-set", fmt.Sprintf("Prune(%d) starts=%v order=%v left %v, expected %v", p, starts, order, ps.GetRounds(), retained),
					map[string]interface{}{"starts": starts, "order": order, "prune": p})
			}
			for q := retained[0]; q <= maxQ; q++ {
				run.Count("prune_answers_unchanged", 1)
				got := int64(-1)
				if e := ps.Get(q); e != nil {
					got = e.(*c40Ent).start
				}
				if got != answers[q] || got != sorted[refFloor(sorted, q)] {
					violate(run, "C40:prune-changes-answer", fmt.Sprintf("after Prune(%d) of starts %v (order %v) Get(%d) returns start %d, before pruning %d", p, starts, order, q, got, answers[q]),
						map[string]interface{}{"starts": starts, "order": order, "prune": p, "query": q})
				}
			}
		}
		// ---- through the real Chain
		c.MagicBlockStorage = round.NewRoundStartingStorage()
		for _, i := range order {
			c.SetMagicBlock(getMB(starts[i]))
		}
		chainAnswers := make([]*block.MagicBlock, maxQ+1)
		for q := int64(0); q <= maxQ; q++ {
			run.Count("chain_get_magic_block", 1)
			wi := refFloor(sorted, refEffective(q))
			if wi < 0 {
				wi = m - 1 // none starts earlier: the latest one
				run.Count("chain_fallback_latest", 1)
			}
			got := c.GetMagicBlock(q)
			chainAnswers[q] = got
			if got != mbOf[sorted[wi]] {
				violate(run, "C40:floor-lookup-mismatch", fmt.Sprintf("Chain.GetMagicBlock(%d) with starts %v set in order %v returned the block starting at %d, expected %d", q, starts, order, got.StartingRound, sorted[wi]),
					map[string]interface{}{"starts": starts, "order": order, "query": q, "level": "chain"})
			}
			run.Count("chain_get_magic_block_no_offset", 1)
			wn := refFloor(sorted, q)
			if wn < 0 {
				wn = m - 1
			}
			if g := c.GetMagicBlockNoOffset(q); g != mbOf[sorted[wn]] {
				violate(run, "C40:floor-lookup-mismatch-no-offset", fmt.Sprintf("Chain.GetMagicBlockNoOffset(%d) starts=%v order=%v got %d want %d", q, starts, order, g.StartingRound, sorted[wn]),
					map[string]interface{}{"starts": starts, "order": order, "query": q})
			}
			// predecessor of the block in force (judged when a stored predecessor exists)
			if pi := refFloor(sorted, refEffective(q)); pi >= 1 {
				run.Count("chain_get_prev_magic_block", 1)
				if g := c.GetPrevMagicBlock(q); g != mbOf[sorted[pi-1]] {
					gs := int64(-1)
					if g != nil {
						gs = g.StartingRound
					}
					violate(run, "C40:prev-magic-block-mismatch", fmt.Sprintf("Chain.GetPrevMagicBlock(%d) starts=%v order=%v got %d want %d", q, starts, order, gs, sorted[pi-1]),
						map[string]interface{}{"starts": starts, "order": order, "query": q})
				}
			} else {
				run.Count("chain_prev_without_stored_predecessor_unjudged", 1)
			}
		}
		run.Count("chain_latest", 1)
		if c.GetLatestMagicBlock() != mbOf[sorted[m-1]] {
			violate(run, "C40:latest-mismatch", fmt.Sprintf("Chain.GetLatestMagicBlock starts=%v order=%v", starts, order), map[string]interface{}{"starts": starts, "order": order, "level": "chain"})
		}
		// observation only: GetPrevMagicBlockFromMB(mb) vs the stored predecessor of mb
		for i := 1; i < m; i++ {
			g := c.GetPrevMagicBlockFromMB(mbOf[sorted[i]])
			if g == mbOf[sorted[i-1]] {
				run.Count("obs_prev_from_mb_is_stored_predecessor", 1)
			} else {
				run.Count("obs_prev_from_mb_is_not_stored_predecessor", 1)
			}
		}
		// Chain.PruneRoundStorage with every target count: answers for rounds using a retained block are unchanged
		for target := 1; target < m; target++ {
			c.MagicBlockStorage = round.NewRoundStartingStorage()
			for _, i := range order {
				c.SetMagicBlock(getMB(starts[i]))
			}
			c.PruneRoundStorage(func(round.RoundStorage) int { return target }, c.MagicBlockStorage)
			retained := sorted[m-target:]
			run.Count("chain_prune_retained", 1)
			if fmt.Sprint(c.MagicBlockStorage.GetRounds()) != fmt.Sprint(retained) {
				violate(run, "C40:prune-retained-set", fmt.Sprintf("Chain.PruneRoundStorage(target %d) starts=%v order=%v left %v expected %v", target, starts, order, c.MagicBlockStorage.GetRounds(), retained),
					map[string]interface{}{"starts": starts, "order": order, "target": target, "level": "chain"})
				continue
			}
			for q := retained[0] + chain.ViewChangeOffset; q <= maxQ; q++ {
				run.Count("chain_prune_answers_unchanged", 1)
				if g := c.GetMagicBlock(q); g != chainAnswers[q] {
					violate(run, "C40:prune-changes-answer", fmt.Sprintf("after Chain.PruneRoundStorage(keep %d) of starts %v (order %v) GetMagicBlock(%d) returns start %d, before pruning %d", target, starts, order, q, g.StartingRound, chainAnswers[q].StartingRound),
						map[string]interface{}{"starts": starts, "order": order, "target": target, "query": q, "level": "chain"})
				}
			}
		}
		if m >= 2 {
			run.Distinct(fmt.Sprintf("starts=%v order=%v", starts, order))
		}
		if sampleN < 3 && m >= 3 && order[0] != 0 {
			sampleN++
			run.Sample(map[string]interface{}{"starts": starts, "insertion_order": order, "queries": maxQ + 1, "prune_points": prunePoints, "storage_answers_by_round": answers})
		}
	}

	// exhaustive part: every subset of size <= maxK of the grid, every insertion order
	n := len(c40Grid)
	subsets, orders := 0, 0
	for mask := 1; mask < 1<<n; mask++ {
		var starts []int64
		for i := 0; i < n; i++ {
			if mask&(1<<i) != 0 {
				starts = append(starts, c40Grid[i])
			}
		}
		if len(starts) > maxK {
			continue
		}
		subsets++
		permutations(len(starts), func(p []int) {
			orders++
			judge(starts, p, true)
		})
	}
	run.Set("exhaustive_subsets", subsets)
	run.Set("exhaustive_insertion_orders", orders)
	run.Set("exhaustive_part_complete", true)

	// seeded extras outside the grid: realistic view-change spacing, larger sets, re-Put of an existing start
	extra := 300
	if thorough {
		extra = 5000
	}
	for i := 0; i < extra; i++ {
		m := 2 + rnd.Intn(9)
		seen := map[int64]bool{}
		var starts []int64
		if rnd.Chance(0.5) {
			starts, seen[0] = append(starts, 0), true
		}
		for len(starts) < m {
			var s int64
			switch rnd.Intn(3) {
			case 0:
				s = int64(5 + rnd.Intn(60))
			case 1:
				s = int64(1+rnd.Intn(12))*50 + 1
			default:
				s = int64(5 + rnd.Intn(5000))
			}
			if !seen[s] {
				seen[s] = true
				starts = append(starts, s)
			}
		}
		if starts[len(starts)-1] > 700 || maxOf(starts) > 700 {
			// keep the query range small: scale large sets down to spacing that still exercises the same comparisons
			for j := range starts {
				if starts[j] > 0 {
					starts[j] = 5 + starts[j]%600
				}
			}
			starts = dedup64(starts)
		}
		run.Count("random_sets", 1)
		judge(starts, randPerm(rnd, len(starts)), false)
	}
	// re-Put replaces the entity without duplicating the start
	for i := 0; i < 50; i++ {
		st := round.NewRoundStartingStorage()
		a, b := &c40Ent{10}, &c40Ent{10}
		_ = st.Put(&c40Ent{0}, 0)
		_ = st.Put(a, 10)
		_ = st.Put(&c40Ent{20}, 20)
		_ = st.Put(b, 10)
		run.Count("reput_replaces_entity", 1)
		if st.Get(12) != interface{}(b) || st.Count() != 3 || fmt.Sprint(st.GetRounds()) != "[0 10 20]" {
			violate(run, "C40:reput-does-not-replace", fmt.Sprintf("rounds=%v count=%d", st.GetRounds(), st.Count()), nil)
		}
	}

}

func maxOf(s []int64) int64 {
	m := s[0]
	for _, v := range s {
		if v > m {
			m = v
		}
	}
	return m
}

func dedup64(s []int64) []int64 {
	seen := map[int64]bool{}
	var out []int64
	for _, v := range s {
		if !seen[v] {
			seen[v] = true
			out = append(out, v)
		}
	}
	return out
}
