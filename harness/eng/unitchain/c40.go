package unitchain

import (
	"fmt"
	"sort"

	"verifh/mon"

	"0chain.net/chaincore/block"
	"0chain.net/chaincore/chain"
	"0chain.net/chaincore/round"
)

// c40Grid is the universe of starting rounds of the exhaustive part: genesis (0), adjacent starts, gaps equal to the
// view-change offset (4) and gaps larger than it. Non-genesis magic blocks start after round ViewChangeOffset.
var c40Grid = []int64{0, 5, 6, 10, 14, 15, 19, 25}

// refFloor is the reference model: index (into the ascending start list) of the greatest start <= q, or -1.
func refFloor(sorted []int64, q int64) int {
	idx := -1
	for i, s := range sorted {
		if s <= q {
			idx = i
		}
	}
	return idx
}

// refEffective: a magic block starting at s is in force from round s+offset; rounds before the first view change use the round itself floor 0.
func refEffective(q int64) int64 {
	e := q - chain.ViewChangeOffset
	if e < 0 {
		e = 0
	}
	return e
}

type c40Ent struct{ start int64 }

func runC40(run *mon.Run, thorough bool) {
	w := newWorld(mon.Seed())
	defer w.Close()
	rnd := mon.NewRand(mon.Seed()).Fork("C40")
	c := w.Chain
	maxK := 5
	if thorough {
		maxK = 7
	}
	run.Set("bound", fmt.Sprintf("every non-empty subset of size <= %d of the starting-round grid %v, every insertion order, every query round 0..max+offset+2, every prune point (each stored start, each non-stored grid value, PruneRoundStorage with every target count)", maxK, c40Grid))
	run.Assume(fmt.Sprintf("grid and sequence families: non-genesis magic blocks start after round ViewChangeOffset (%d): for a start in 1..%d mbRoundOffset is not monotonic (rounds <= %d are looked up without offset, round %d with it). "+
		"The chain-model family (c40chain.go) has no such restriction: starts 0..12 in every combination, judged at every round with the exact rule (rounds 0..%d unshifted, later rounds looked up for round-%d)",
		chain.ViewChangeOffset, chain.ViewChangeOffset, chain.ViewChangeOffset, chain.ViewChangeOffset+1, chain.ViewChangeOffset, chain.ViewChangeOffset))
	run.Assume("a prune that removes every stored magic block is outside the statement (nothing is retained); Chain.PruneRoundStorage always keeps >= 1 entry. " +
		"In the operation sequences such a prune is judged (the storage must be empty afterwards) and ends the sequence; what a later Put of an older start does is counted as an observation only")

	origStorage := c.MagicBlockStorage
	origPrev := c.PreviousMagicBlock
	defer func() { c.MagicBlockStorage, c.PreviousMagicBlock = origStorage, origPrev }()
	sentinelPrev := block.NewMagicBlock()
	sentinelPrev.Hash = "c40-previous-magic-block-field"
	c.PreviousMagicBlock = sentinelPrev

	// magic blocks per start (fresh objects per case would only cost allocations; identity is what we compare)
	mbOf := map[int64]*block.MagicBlock{}
	getMB := func(s int64) *block.MagicBlock {
		if mb, ok := mbOf[s]; ok {
			return mb
		}
		mb := block.NewMagicBlock()
		mb.StartingRound = s
		mb.MagicBlockNumber = s + 1
		mb.Hash = fmt.Sprintf("c40-mb-%d", s)
		mbOf[s] = mb
		return mb
	}

	var sampleN int
	// judge one (set, insertion order)
	judge := func(starts []int64, order []int, exhaustivePart bool) {
		m := len(starts)
		order = append([]int{}, order...) // the enumerator reuses its slice
		starts = append([]int64{}, starts...)
		checkpoint(run)
		sorted := append([]int64{}, starts...)
		sort.Slice(sorted, func(i, j int) bool { return sorted[i] < sorted[j] })
		maxQ := sorted[m-1] + chain.ViewChangeOffset + 2
		build := func() round.RoundStorage {
			var rs round.RoundStorage = round.NewRoundStartingStorage()
			for _, i := range order {
				_ = rs.Put(&c40Ent{starts[i]}, starts[i])
			}
			return rs
		}
		// ---- storage level: floor lookup
		st := build()
		run.Eval(1)
		gotRounds := st.GetRounds()
		run.Count("storage_rounds_sorted", 1)
		if fmt.Sprint(gotRounds) != fmt.Sprint(sorted) || st.Count() != m {
			violate(run, "C40:storage-rounds-not-sorted-set", fmt.Sprintf("starts=%v order=%v GetRounds=%v Count=%d", starts, order, gotRounds, st.Count()),
				map[string]interface{}{"starts": starts, "order": order})
		}
		answers := make([]int64, maxQ+1) // start of the entity returned for q, -1 = nil
		for q := int64(0); q <= maxQ; q++ {
			run.Count("storage_get_floor", 1)
			want := int64(-1)
			if i := refFloor(sorted, q); i >= 0 {
				want = sorted[i]
			}
			got := int64(-1)
			if e := st.Get(q); e != nil {
				got = e.(*c40Ent).start
			}
			answers[q] = got
			if got != want {
				violate(run, "C40:floor-lookup-mismatch", fmt.Sprintf("storage.Get(%d) with starts %v inserted in order %v returned start %d, floor is %d", q, starts, order, got, want),
					map[string]interface{}{"starts": starts, "order": order, "query": q, "level": "storage"})
			}
			run.Count("storage_find_round_index", 1)
			if gi, wi := st.FindRoundIndex(q), refFloor(sorted, q); gi != wi {
				violate(run, "C40:find-round-index-mismatch", fmt.Sprintf("FindRoundIndex(%d) starts=%v order=%v got %d want %d", q, starts, order, gi, wi),
					map[string]interface{}{"starts": starts, "order": order, "query": q})
			}
		}
		run.Count("storage_get_latest", 1)
		if l := st.GetLatest(); l == nil || l.(*c40Ent).start != sorted[m-1] {
			violate(run, "C40:latest-mismatch", fmt.Sprintf("GetLatest starts=%v order=%v", starts, order), map[string]interface{}{"starts": starts, "order": order})
		}
		// ---- prune points: every stored start, plus a value that is not stored
		prunePoints := append([]int64{}, sorted...)
		for _, g := range c40Grid {
			if refFloor(sorted, g) < 0 || sorted[refFloor(sorted, g)] != g {
				prunePoints = append(prunePoints, g)
				break
			}
		}
		for _, p := range prunePoints {
			ps := build()
			err := ps.Prune(p)
			stored := refFloor(sorted, p) >= 0 && sorted[refFloor(sorted, p)] == p
			var retained []int64
			if stored {
				for _, s := range sorted {
					if s > p {
						retained = append(retained, s)
					}
				}
			} else {
				retained = sorted
			}
			run.Count("prune_result", 1)
			if stored != (err == nil) {
				violate(run, "C40:prune-result", fmt.Sprintf("Prune(%d) starts=%v order=%v err=%v", p, starts, order, err), map[string]interface{}{"starts": starts, "order": order, "prune": p})
			}
			if len(retained) == 0 {
				run.Count("prune_removed_everything_unjudged", 1)
				continue
			}
			if fmt.Sprint(ps.GetRounds()) != fmt.Sprint(retained) {
				violate(run, "C40:prune-retained-set", fmt.Sprintf("Prune(%d) starts=%v order=%v left %v, expected %v", p, starts, order, ps.GetRounds(), retained),
					map[string]interface{}{"starts": starts, "order": order, "prune": p})
			}
			for q := retained[0]; q <= maxQ; q++ {
				run.Count("prune_answers_unchanged", 1)
				got := int64(-1)
				if e := ps.Get(q); e != nil {
					got = e.(*c40Ent).start
				}
				if got != answers[q] || got != sorted[refFloor(sorted, q)] {
					violate(run, "C40:prune-changes-answer", fmt.Sprintf("after Prune(%d) of starts %v (order %v) Get(%d) returns start %d, before pruning %d", p, starts, order, q, got, answers[q]),
						map[string]interface{}{"starts": starts, "order": order, "prune": p, "query": q})
				}
			}
		}
		// ---- through the real Chain
		c.MagicBlockStorage = round.NewRoundStartingStorage()
		for _, i := range order {
			c.SetMagicBlock(getMB(starts[i]))
		}
		chainAnswers := make([]*block.MagicBlock, maxQ+1)
		for q := int64(0); q <= maxQ; q++ {
			run.Count("chain_get_magic_block", 1)
			wi := refFloor(sorted, refEffective(q))
			if wi < 0 {
				wi = m - 1 // none starts earlier: the latest one
				run.Count("chain_fallback_latest", 1)
			}
			got := c.GetMagicBlock(q)
			chainAnswers[q] = got
			if got != mbOf[sorted[wi]] {
				violate(run, "C40:floor-lookup-mismatch", fmt.Sprintf("Chain.GetMagicBlock(%d) with starts %v set in order %v returned the block starting at %d, expected %d", q, starts, order, got.StartingRound, sorted[wi]),
					map[string]interface{}{"starts": starts, "order": order, "query": q, "level": "chain"})
			}
			run.Count("chain_get_magic_block_no_offset", 1)
			wn := refFloor(sorted, q)
			if wn < 0 {
				wn = m - 1
			}
			if g := c.GetMagicBlockNoOffset(q); g != mbOf[sorted[wn]] {
				violate(run, "C40:floor-lookup-mismatch-no-offset", fmt.Sprintf("Chain.GetMagicBlockNoOffset(%d) starts=%v order=%v got %d want %d", q, starts, order, g.StartingRound, sorted[wn]),
					map[string]interface{}{"starts": starts, "order": order, "query": q})
			}
			// predecessor of the block in force (judged when a stored predecessor exists)
			if pi := refFloor(sorted, refEffective(q)); pi >= 1 {
				run.Count("chain_get_prev_magic_block", 1)
				if g := c.GetPrevMagicBlock(q); g != mbOf[sorted[pi-1]] {
					gs := int64(-1)
					if g != nil {
						gs = g.StartingRound
					}
					violate(run, "C40:prev-magic-block-mismatch", fmt.Sprintf("Chain.GetPrevMagicBlock(%d) starts=%v order=%v got %d want %d", q, starts, order, gs, sorted[pi-1]),
						map[string]interface{}{"starts": starts, "order": order, "query": q})
				}
			} else {
				run.Count("chain_prev_without_stored_predecessor_unjudged", 1)
			}
		}
		run.Count("chain_latest", 1)
		if c.GetLatestMagicBlock() != mbOf[sorted[m-1]] {
			violate(run, "C40:latest-mismatch", fmt.Sprintf("Chain.GetLatestMagicBlock starts=%v order=%v", starts, order), map[string]interface{}{"starts": starts, "order": order, "level": "chain"})
		}
		// observation only: GetPrevMagicBlockFromMB(mb) vs the stored predecessor of mb
		for i := 1; i < m; i++ {
			g := c.GetPrevMagicBlockFromMB(mbOf[sorted[i]])
			if g == mbOf[sorted[i-1]] {
				run.Count("obs_prev_from_mb_is_stored_predecessor", 1)
			} else {
				run.Count("obs_prev_from_mb_is_not_stored_predecessor", 1)
			}
		}
		// Chain.PruneRoundStorage with every target count: answers for rounds using a retained block are unchanged
		for target := 1; target < m; target++ {
			c.MagicBlockStorage = round.NewRoundStartingStorage()
			for _, i := range order {
				c.SetMagicBlock(getMB(starts[i]))
			}
			c.PruneRoundStorage(func(round.RoundStorage) int { return target }, c.MagicBlockStorage)
			retained := sorted[m-target:]
			run.Count("chain_prune_retained", 1)
			if fmt.Sprint(c.MagicBlockStorage.GetRounds()) != fmt.Sprint(retained) {
				violate(run, "C40:prune-retained-set", fmt.Sprintf("Chain.PruneRoundStorage(target %d) starts=%v order=%v left %v expected %v", target, starts, order, c.MagicBlockStorage.GetRounds(), retained),
					map[string]interface{}{"starts": starts, "order": order, "target": target, "level": "chain"})
				continue
			}
			for q := retained[0] + chain.ViewChangeOffset; q <= maxQ; q++ {
				run.Count("chain_prune_answers_unchanged", 1)
				if g := c.GetMagicBlock(q); g != chainAnswers[q] {
					violate(run, "C40:prune-changes-answer", fmt.Sprintf("after Chain.PruneRoundStorage(keep %d) of starts %v (order %v) GetMagicBlock(%d) returns start %d, before pruning %d", target, starts, order, q, g.StartingRound, chainAnswers[q].StartingRound),
						map[string]interface{}{"starts": starts, "order": order, "target": target, "query": q, "level": "chain"})
				}
			}
		}
		if m >= 2 {
			run.Distinct(fmt.Sprintf("starts=%v order=%v", starts, order))
		}
		if sampleN < 3 && m >= 3 && order[0] != 0 {
			sampleN++
			run.Sample(map[string]interface{}{"starts": starts, "insertion_order": order, "queries": maxQ + 1, "prune_points": prunePoints, "storage_answers_by_round": answers})
		}
	}

	// exhaustive part: every subset of size <= maxK of the grid, every insertion order
	n := len(c40Grid)
	subsets, orders := 0, 0
	for mask := 1; mask < 1<<n; mask++ {
		var starts []int64
		for i := 0; i < n; i++ {
			if mask&(1<<i) != 0 {
				starts = append(starts, c40Grid[i])
			}
		}
		if len(starts) > maxK {
			continue
		}
		subsets++
		permutations(len(starts), func(p []int) {
			orders++
			judge(starts, p, true)
		})
	}
	run.Set("exhaustive_subsets", subsets)
	run.Set("exhaustive_insertion_orders", orders)
	run.Set("exhaustive_part_complete", true)

	// seeded extras outside the grid: realistic view-change spacing, larger sets, re-Put of an existing start
	extra := 300
	if thorough {
		extra = 5000
	}
	for i := 0; i < extra; i++ {
		m := 2 + rnd.Intn(9)
		seen := map[int64]bool{}
		var starts []int64
		if rnd.Chance(0.5) {
			starts, seen[0] = append(starts, 0), true
		}
		for len(starts) < m {
			var s int64
			switch rnd.Intn(3) {
			case 0:
				s = int64(5 + rnd.Intn(60))
			case 1:
				s = int64(1+rnd.Intn(12))*50 + 1
			default:
				s = int64(5 + rnd.Intn(5000))
			}
			if !seen[s] {
				seen[s] = true
				starts = append(starts, s)
			}
		}
		if starts[len(starts)-1] > 700 || maxOf(starts) > 700 {
			// keep the query range small: scale large sets down to spacing that still exercises the same comparisons
			for j := range starts {
				if starts[j] > 0 {
					starts[j] = 5 + starts[j]%600
				}
			}
			starts = dedup64(starts)
		}
		run.Count("random_sets", 1)
		judge(starts, randPerm(rnd, len(starts)), false)
	}
	// re-Put replaces the entity without duplicating the start
	for i := 0; i < 50; i++ {
		st := round.NewRoundStartingStorage()
		a, b := &c40Ent{10}, &c40Ent{10}
		_ = st.Put(&c40Ent{0}, 0)
		_ = st.Put(a, 10)
		_ = st.Put(&c40Ent{20}, 20)
		_ = st.Put(b, 10)
		run.Count("reput_replaces_entity", 1)
		if st.Get(12) != interface{}(b) || st.Count() != 3 || fmt.Sprint(st.GetRounds()) != "[0 10 20]" {
			violate(run, "C40:reput-does-not-replace", fmt.Sprintf("rounds=%v count=%d", st.GetRounds(), st.Count()), nil)
		}
	}

	// operation sequences: Put / Prune / lookups interleaved, judged after every step against the reference model
	c40seqRun(run, rnd.Fork("sequences"), c, thorough)

	// chain-level family: fresh real Chains, starting rounds around the view-change offset, every round queried (c40chain.go)
	c40chainRun(run, rnd.Fork("chain-model"), thorough)
}

func maxOf(s []int64) int64 {
	m := s[0]
	for _, v := range s {
		if v > m {
			m = v
		}
	}
	return m
}

func dedup64(s []int64) []int64 {
	seen := map[int64]bool{}
	var out []int64
	for _, v := range s {
		if !seen[v] {
			seen[v] = true
			out = append(out, v)
		}
	}
	return out
}

// ---------------------------------------------------------------------------------------------------------------------
// Operation sequences. The cases above build a storage, prune once and query; here Put (any order, again for a retained
// start, again for a pruned start), Prune (at every stored start: fewer than half of the entries, half or more, all but
// one, everything; and at a value that is not stored) and the lookups are interleaved, and after every step the whole
// observable state (Count, GetRounds, GetRound, GetLatest, Get and FindRoundIndex below/at/above every start) is compared
// with a reference model: a map start -> entity, floor lookup over its sorted keys, latest = highest stored start.
// The same is done through the real Chain (SetMagicBlock / PruneRoundStorage / GetMagicBlock / GetMagicBlockNoOffset /
// GetPrevMagicBlock / GetLatestMagicBlock).

type c40seqOp struct {
	Kind  string `json:"op"`    // "put", "prune" (storage.Prune(round)) or "keep" (Chain.PruneRoundStorage with target count = round)
	Round int64  `json:"round"` // starting round, or the target count of "keep"
}

func c40seqString(ops []c40seqOp) string {
	var b []byte
	for i, o := range ops {
		if i > 0 {
			b = append(b, ' ')
		}
		b = append(b, fmt.Sprintf("%s(%d)", o.Kind, o.Round)...)
	}
	return string(b)
}

// c40seqModel is the reference model.
type c40seqModel struct {
	ent    map[int64]interface{} // stored start -> entity given with the last Put of that start
	pruned map[int64]bool        // starts removed by a prune and not stored again (only used to name the kind of a Put)
}

func c40seqNewModel() *c40seqModel {
	return &c40seqModel{ent: map[int64]interface{}{}, pruned: map[int64]bool{}}
}

func (m *c40seqModel) sorted() []int64 {
	out := make([]int64, 0, len(m.ent))
	for s := range m.ent {
		out = append(out, s)
	}
	sort.Slice(out, func(i, j int) bool { return out[i] < out[j] })
	return out
}

// put stores e for start r and names the kind of the Put.
func (m *c40seqModel) put(r int64, e interface{}) string {
	sorted := m.sorted()
	class := ""
	switch {
	case len(sorted) == 0 && m.pruned[r]:
		class = "put-pruned-start-into-empty"
	case len(sorted) == 0:
		class = "put-into-empty"
	case m.ent[r] != nil && r == sorted[len(sorted)-1]:
		class = "reput-latest"
	case m.ent[r] != nil:
		class = "reput-retained-older"
	case m.pruned[r] && r < sorted[0]:
		class = "put-pruned-start-below-all"
	case m.pruned[r]:
		class = "put-pruned-start-between" // above a start that was put again after the prune
	case r > sorted[len(sorted)-1]:
		class = "put-above-latest"
	case r < sorted[0]:
		class = "put-new-below-all"
	default:
		class = "put-new-between"
	}
	m.ent[r] = e
	delete(m.pruned, r)
	return class
}

// prune removes every start <= p when p is stored; reports whether p was stored and names the kind of the prune.
func (m *c40seqModel) prune(p int64) (bool, string) {
	if _, ok := m.ent[p]; !ok {
		return false, "prune-not-stored"
	}
	n, k := len(m.ent), 0
	for s := range m.ent {
		if s <= p {
			k++
		}
	}
	for s := range m.ent {
		if s <= p {
			delete(m.ent, s)
			m.pruned[s] = true
		}
	}
	switch {
	case k == n:
		return true, "prune-everything"
	case k == n-1:
		return true, "prune-all-but-one"
	case 2*k >= n:
		return true, "prune-half-or-more"
	}
	return true, "prune-less-than-half"
}

// c40seqQueries: rounds below / at / above every start of the universe (also across the view-change offset), far above, 0.
func c40seqQueries(universe []int64) []int64 {
	seen := map[int64]bool{}
	var out []int64
	add := func(q int64) {
		if q >= 0 && !seen[q] {
			seen[q] = true
			out = append(out, q)
		}
	}
	add(0)
	top := int64(0)
	for _, u := range universe {
		for _, d := range []int64{-1, 0, 1, chain.ViewChangeOffset - 1, chain.ViewChangeOffset, chain.ViewChangeOffset + 1} {
			add(u + d)
		}
		if u > top {
			top = u
		}
	}
	add(top + 2*chain.ViewChangeOffset + 3)
	add(top + 1000)
	add(1 << 40)
	sort.Slice(out, func(i, j int) bool { return out[i] < out[j] })
	return out
}

// c40seqJudgeStorage compares everything the storage shows with the model.
func c40seqJudgeStorage(run *mon.Run, st round.RoundStorage, m *c40seqModel, queries []int64, ops []c40seqOp) {
	run.Count("seq_storage_step_judged", 1)
	sorted := m.sorted()
	replay := func(extra ...interface{}) map[string]interface{} {
		r := map[string]interface{}{"level": "storage", "ops": ops, "model_stored_starts": sorted}
		for i := 0; i+1 < len(extra); i += 2 {
			r[extra[i].(string)] = extra[i+1]
		}
		return r
	}
	if got := st.GetRounds(); fmt.Sprint(got) != fmt.Sprint(sorted) || st.Count() != len(sorted) {
		violate(run, "C40:storage-rounds-not-sorted-set", fmt.Sprintf("after [%s]: GetRounds=%v Count=%d, stored starts are %v", c40seqString(ops), got, st.Count(), sorted), replay())
		return
	}
	for i, s := range sorted {
		if g := st.GetRound(i); g != s {
			violate(run, "C40:storage-rounds-not-sorted-set", fmt.Sprintf("after [%s]: GetRound(%d)=%d, stored starts are %v", c40seqString(ops), i, g, sorted), replay())
		}
	}
	run.Count("seq_storage_get_latest", 1)
	var wantLatest interface{}
	if len(sorted) > 0 {
		wantLatest = m.ent[sorted[len(sorted)-1]]
	}
	if l := st.GetLatest(); l != wantLatest {
		violate(run, "C40:latest-mismatch", fmt.Sprintf("after [%s]: GetLatest returned %s, the highest stored start of %v is expected", c40seqString(ops), c40seqName(l), sorted), replay())
	}
	for _, q := range queries {
		run.Count("seq_storage_get_floor", 1)
		wi := refFloor(sorted, q)
		var want interface{}
		if wi >= 0 {
			want = m.ent[sorted[wi]]
		}
		if got := st.Get(q); got != want {
			violate(run, "C40:floor-lookup-mismatch", fmt.Sprintf("after [%s]: storage.Get(%d) returned %s, stored starts are %v, expected %s", c40seqString(ops), q, c40seqName(got), sorted, c40seqName(want)), replay("query", q))
		}
		if gi := st.FindRoundIndex(q); gi != wi {
			violate(run, "C40:find-round-index-mismatch", fmt.Sprintf("after [%s]: FindRoundIndex(%d)=%d, stored starts are %v, expected %d", c40seqString(ops), q, gi, sorted, wi), replay("query", q))
		}
	}
}

func c40seqName(e interface{}) string {
	switch v := e.(type) {
	case nil:
		return "nothing"
	case *c40Ent:
		return fmt.Sprintf("the entity of start %d", v.start)
	case *block.MagicBlock:
		return fmt.Sprintf("the magic block %q (start %d)", v.Hash, v.StartingRound)
	}
	return fmt.Sprintf("%v", e)
}

// c40seqStorage replays ops on a fresh real storage and on the model. With judgeEvery the state is judged after every step, otherwise
// after the last one (the exhaustive enumeration contains every prefix as a sequence of its own). A prune that removes everything
// ends the sequence (see the assumption recorded by runC40); returns false when that happened before the last op.
func c40seqStorage(run *mon.Run, ops []c40seqOp, queries []int64, judgeEvery bool) (bool, string) {
	var st round.RoundStorage = round.NewRoundStartingStorage()
	m := c40seqNewModel()
	classes := ""
	for i, o := range ops {
		last := i == len(ops)-1
		var class string
		switch o.Kind {
		case "put":
			e := &c40Ent{o.Round}
			class = m.put(o.Round, e)
			if err := st.Put(e, o.Round); err != nil {
				violate(run, "C40:put-fails", fmt.Sprintf("after [%s]: %v", c40seqString(ops[:i+1]), err), map[string]interface{}{"level": "storage", "ops": ops[:i+1]})
			}
		case "prune":
			before := m.sorted()
			var ok bool
			ok, class = m.prune(o.Round)
			err := st.Prune(o.Round)
			if judgeEvery || last {
				run.Count("seq_storage_prune_result", 1)
				if ok != (err == nil) {
					violate(run, "C40:prune-result", fmt.Sprintf("after [%s]: Prune(%d) with stored starts %v returned %v", c40seqString(ops[:i]), o.Round, before, err), map[string]interface{}{"level": "storage", "ops": ops[:i+1]})
				}
			}
		}
		classes += "," + class
		if judgeEvery || last {
			run.Count("seq_op["+class+"]", 1)
			c40seqJudgeStorage(run, st, m, queries, ops[:i+1])
		}
		if class == "prune-everything" {
			if judgeEvery || last {
				// observation only (outside the statement: nothing is retained): an older start put after everything was pruned
				older := o.Round - 1
				if older >= 0 {
					e := &c40Ent{older}
					_ = st.Put(e, older)
					if st.Get(o.Round+1) == interface{}(e) && st.GetLatest() == interface{}(e) {
						run.Count("obs_put_of_older_start_after_prune_everything_found", 1)
					} else {
						run.Count("obs_put_of_older_start_after_prune_everything_not_found", 1)
					}
				}
			}
			return last, classes
		}
	}
	return true, classes
}

// c40seqChainUnusable is set when a call into the Chain panicked: Chain.GetMagicBlock takes its read lock without a deferred unlock, so
// after a recovered panic the next SetMagicBlock would block forever. The finding is recorded; the remaining chain sequences are skipped.
var c40seqChainUnusable bool

// c40seqChain replays ops on the real Chain (fresh magic-block storage) and on the model.
func c40seqChain(run *mon.Run, c *chain.Chain, ops []c40seqOp, queries []int64, judgeEvery bool) string {
	if c40seqChainUnusable {
		run.Count("seq_chain_sequences_skipped_after_panic", 1)
		return ",skipped"
	}
	c.MagicBlockStorage = round.NewRoundStartingStorage()
	m := c40seqNewModel()
	classes := ""
	gen := 0
	for i, o := range ops {
		last := i == len(ops)-1
		var class string
		cur := ops[:i+1]
		func() {
			defer func() {
				if r := recover(); r != nil {
					violate(run, "C40:chain-call-panics", fmt.Sprintf("[%s]: the last operation panicked: %v", c40seqString(cur), r), map[string]interface{}{"level": "chain", "ops": cur})
					c40seqChainUnusable = true
					run.Checkpoint()
				}
			}()
			switch o.Kind {
			case "put":
				gen++
				mb := block.NewMagicBlock()
				mb.StartingRound = o.Round
				mb.MagicBlockNumber = o.Round + 1
				mb.Hash = fmt.Sprintf("c40seq-mb-%d-#%d", o.Round, gen)
				class = m.put(o.Round, mb)
				c.SetMagicBlock(mb)
			case "keep":
				sorted := m.sorted()
				class = "keep-all"
				if t := int(o.Round); len(sorted) > t {
					_, class = m.prune(sorted[len(sorted)-t-1])
				}
				target := int(o.Round)
				c.PruneRoundStorage(func(round.RoundStorage) int { return target }, c.MagicBlockStorage)
			}
		}()
		classes += "," + class
		if c40seqChainUnusable {
			return classes
		}
		if !(judgeEvery || last) || len(m.ent) == 0 {
			continue
		}
		run.Count("seq_op[chain-"+class+"]", 1)
		run.Count("seq_chain_step_judged", 1)
		sorted := m.sorted()
		n := len(sorted)
		if fmt.Sprint(c.MagicBlockStorage.GetRounds()) != fmt.Sprint(sorted) {
			violate(run, "C40:prune-retained-set", fmt.Sprintf("after [%s]: the chain's storage holds %v, expected %v", c40seqString(cur), c.MagicBlockStorage.GetRounds(), sorted), map[string]interface{}{"level": "chain", "ops": cur})
			continue
		}
		call := func(name string, q int64, f func() *block.MagicBlock) (mb *block.MagicBlock, ok bool) {
			defer func() {
				if r := recover(); r != nil {
					violate(run, "C40:lookup-panics", fmt.Sprintf("after [%s]: Chain.%s(%d) panicked with stored starts %v: %v", c40seqString(cur), name, q, sorted, r),
						map[string]interface{}{"level": "chain", "ops": cur, "query": q, "call": name})
					mb, ok = nil, false
					c40seqChainUnusable = true
					run.Checkpoint()
				}
			}()
			if c40seqChainUnusable {
				return nil, false
			}
			return f(), true
		}
		run.Count("seq_chain_latest", 1)
		if g, ok := call("GetLatestMagicBlock", 0, c.GetLatestMagicBlock); ok && interface{}(g) != m.ent[sorted[n-1]] {
			violate(run, "C40:latest-mismatch", fmt.Sprintf("after [%s]: Chain.GetLatestMagicBlock returned %s, stored starts are %v", c40seqString(cur), c40seqName(g), sorted), map[string]interface{}{"level": "chain", "ops": cur})
		}
		for _, q := range queries {
			q := q
			run.Count("seq_chain_get_magic_block", 1)
			wi := refFloor(sorted, refEffective(q))
			pi := wi
			if wi < 0 {
				wi = n - 1 // none starts earlier: the latest one
			}
			if g, ok := call("GetMagicBlock", q, func() *block.MagicBlock { return c.GetMagicBlock(q) }); ok && interface{}(g) != m.ent[sorted[wi]] {
				violate(run, "C40:floor-lookup-mismatch", fmt.Sprintf("after [%s]: Chain.GetMagicBlock(%d) returned %s, stored starts are %v, expected the one starting at %d", c40seqString(cur), q, c40seqName(g), sorted, sorted[wi]),
					map[string]interface{}{"level": "chain", "ops": cur, "query": q})
			}
			wn := refFloor(sorted, q)
			if wn < 0 {
				wn = n - 1
			}
			if g, ok := call("GetMagicBlockNoOffset", q, func() *block.MagicBlock { return c.GetMagicBlockNoOffset(q) }); ok && interface{}(g) != m.ent[sorted[wn]] {
				violate(run, "C40:floor-lookup-mismatch-no-offset", fmt.Sprintf("after [%s]: Chain.GetMagicBlockNoOffset(%d) returned %s, stored starts are %v, expected the one starting at %d", c40seqString(cur), q, c40seqName(g), sorted, sorted[wn]),
					map[string]interface{}{"level": "chain", "ops": cur, "query": q})
			}
			if pi >= 1 {
				run.Count("seq_chain_get_prev_magic_block", 1)
				if g, ok := call("GetPrevMagicBlock", q, func() *block.MagicBlock { return c.GetPrevMagicBlock(q) }); ok && interface{}(g) != m.ent[sorted[pi-1]] {
					violate(run, "C40:prev-magic-block-mismatch", fmt.Sprintf("after [%s]: Chain.GetPrevMagicBlock(%d) returned %s, stored starts are %v, expected the one starting at %d", c40seqString(cur), q, c40seqName(g), sorted, sorted[pi-1]),
						map[string]interface{}{"level": "chain", "ops": cur, "query": q})
				}
			}
		}
	}
	return classes
}

func c40seqRun(run *mon.Run, rnd *mon.Rand, c *chain.Chain, thorough bool) {
	universe := []int64{0, 5, 9, 14}
	maxLen := 5
	if thorough {
		maxLen = 6
	}
	run.Set("sequence_bound", fmt.Sprintf("every sequence of <= %d operations out of Put(s)/Prune(s), s in %v, on the storage and of SetMagicBlock(s)/PruneRoundStorage(keep 1..3) on the chain (a prune that removes everything ends a sequence); "+
		"judged after every step at the rounds below/at/above every start and across the view-change offset", maxLen, universe))
	queries := c40seqQueries(universe)
	var stAlpha, chAlpha []c40seqOp
	for _, u := range universe {
		stAlpha = append(stAlpha, c40seqOp{"put", u})
		chAlpha = append(chAlpha, c40seqOp{"put", u})
	}
	for _, u := range universe {
		stAlpha = append(stAlpha, c40seqOp{"prune", u})
	}
	for t := int64(1); t <= 3; t++ {
		chAlpha = append(chAlpha, c40seqOp{"keep", t})
	}
	enumerate := func(alpha []c40seqOp, f func(ops []c40seqOp)) {
		ops := make([]c40seqOp, 0, maxLen)
		var rec func(length int)
		rec = func(length int) {
			if len(ops) == length {
				f(ops)
				return
			}
			for _, o := range alpha {
				ops = append(ops, o)
				rec(length)
				ops = ops[:len(ops)-1]
			}
		}
		for length := 1; length <= maxLen; length++ { // shortest first: the first witness of a finding is a shortest one
			rec(length)
		}
	}
	nSt, nCh := 0, 0
	enumerate(stAlpha, func(ops []c40seqOp) {
		if ops[0].Kind != "put" {
			return // a prune of an empty storage first: the same sequences appear without it
		}
		if nSt%2000 == 0 {
			checkpoint(run)
		}
		if complete, classes := c40seqStorage(run, ops, queries, false); complete {
			nSt++
			run.Eval(1)
			run.Distinct("seq-storage" + classes)
		}
	})
	enumerate(chAlpha, func(ops []c40seqOp) {
		if ops[0].Kind != "put" {
			return
		}
		if nCh%2000 == 0 {
			checkpoint(run)
		}
		nCh++
		run.Eval(1)
		run.Distinct("seq-chain" + c40seqChain(run, c, ops, queries, false))
	})
	run.Set("exhaustive_storage_sequences", nSt)
	run.Set("exhaustive_chain_sequences", nCh)

	// seeded longer sequences over larger universes (realistic view-change spacing), judged after every step
	nRandom := 250
	if thorough {
		nRandom = 4000
	}
	sampled := 0
	for i := 0; i < nRandom; i++ {
		checkpoint(run)
		nu := 4 + rnd.Intn(11)
		seen := map[int64]bool{}
		var uni []int64
		if rnd.Chance(0.5) {
			uni, seen[0] = append(uni, 0), true
		}
		base := int64(5 + rnd.Intn(40))
		for len(uni) < nu {
			var s int64
			switch rnd.Intn(3) {
			case 0:
				s = base + int64(rnd.Intn(60))
			case 1:
				s = int64(1+rnd.Intn(14))*50 + 1
			default:
				s = base + int64(rnd.Intn(8))*int64(1+rnd.Intn(6))
			}
			if !seen[s] {
				seen[s] = true
				uni = append(uni, s)
			}
		}
		qs := c40seqQueries(uni)
		onChain := i%2 == 1
		length := 8 + rnd.Intn(40)
		var ops []c40seqOp
		model := c40seqNewModel() // only to steer the generator towards every kind of prune
		for len(ops) < length {
			sorted := model.sorted()
			if len(sorted) == 0 || rnd.Chance(0.7) || (len(sorted) < 5 && rnd.Chance(0.6)) {
				var s int64
				switch {
				case len(sorted) > 0 && rnd.Chance(0.3):
					s = sorted[rnd.Intn(len(sorted))] // again for a retained start
				case len(model.pruned) > 0 && rnd.Chance(0.3):
					var was []int64 // again for a start that was pruned
					for _, u := range uni {
						if model.pruned[u] {
							was = append(was, u)
						}
					}
					s = was[rnd.Intn(len(was))]
				default:
					s = uni[rnd.Intn(len(uni))]
				}
				ops = append(ops, c40seqOp{"put", s})
				model.put(s, true)
				continue
			}
			n := len(sorted)
			var k int // how many entries go
			switch rnd.Intn(6) {
			case 0:
				k = 0 // a value that is not stored / keep everything
			case 1:
				k = 1
			case 2:
				k = (n + 1) / 2
			case 3:
				k = n/2 + 1 + rnd.Intn(n-n/2)
			case 4:
				k = n - 1
			default:
				k = n
				if onChain || rnd.Chance(0.7) {
					k = n - 1
				}
			}
			if k > n {
				k = n
			}
			if onChain {
				t := n - k
				if t < 1 {
					t = 1
				}
				if k == 0 {
					t = n + rnd.Intn(2)
				}
				ops = append(ops, c40seqOp{"keep", int64(t)})
				if n > t {
					model.prune(sorted[n-t-1])
				}
				continue
			}
			if k == 0 {
				p := int64(-1)
				for _, u := range uni {
					if _, stored := model.ent[u]; !stored {
						p = u
					}
				}
				if p < 0 {
					p = sorted[n-1] + 1
				}
				ops = append(ops, c40seqOp{"prune", p})
				continue
			}
			ops = append(ops, c40seqOp{"prune", sorted[k-1]})
			model.prune(sorted[k-1])
			if k == n {
				break
			}
		}
		run.Eval(1)
		run.Count("random_sequences", 1)
		var classes string
		if onChain {
			classes = c40seqChain(run, c, ops, qs, true)
		} else {
			_, classes = c40seqStorage(run, ops, qs, true)
		}
		run.Distinct(fmt.Sprintf("seq-random chain=%v%s", onChain, classes))
		if sampled < 2 && len(ops) >= 12 {
			sampled++
			run.Sample(map[string]interface{}{"sequence_on_chain": onChain, "starting_rounds": uni, "operations": c40seqString(ops), "kinds": classes, "query_rounds": len(qs)})
		}
	}
}
