// Package unitchain decides C35, C36, C39, C40 and C42 by calling the real chain-core functions on generated inputs
// and comparing the results with tiny reference models written from the property statements.
package unitchain

import (
	"flag"
	"fmt"
	"runtime/debug"
	"sort"
	"strings"
	"sync"
	"time"

	"verifh/mon"
	"verifh/world"

	"github.com/0chain/common/core/logging"
	"go.uber.org/zap"
)

// Props served by this engine.
var Props = []string{"C35", "C36", "C39", "C40", "C42"}

type propDef struct {
	level string
	rule  string
	fn    func(run *mon.Run, thorough bool)
	mins  map[string]int64 // monitor -> minimum number of evaluations for a conclusive run
}

var defs = map[string]propDef{
	"C35": {"exploration", "real node.Pool built in permuted insertion orders + Round.SetRandomSeed/GetMinerRank/GetMinersByRank vs permutation/order-independence/determinism oracles; " +
		"AddNotarizedBlock/UpdateNotarizedBlock op sequences vs a reference list (<=1 per rank, lightest rank number first, update stores the given pointer); " +
		"distinct = (pool size, seed class) for ranks and (op-shape, list-shape) for notarized sequences", runC35,
		map[string]int64{"rank_permutation": 200, "rank_order_independent": 200, "rank_same_seed_same_ranking": 200, "nb_one_per_rank": 1000, "nb_sorted_heaviest_first": 1000, "nb_update_stores_given_block": 200}},
	"C36": {"exploration", "real Chain.ComputeFinalizedBlock on a real chain whose rounds hold every level-structured tree of notarized blocks inside the stated depth/width bound " +
		"(every parent assignment, every number of trailing empty rounds, PrevBlock linked or resolved through the block cache), plus seeded random larger trees; oracle = deepest common ancestor in an earlier round; " +
		"finalizeRound driven over growing trees with the harness standing in for the finalized-block worker; rollback part: dead fork holding the LFB + competing fork that forks again below/at/above the LFB round, " +
		"after every finalizeRound the new LFB must be the old one, a descendant, or on a rollback the most recent common ancestor (ancestry from the harness' own parent map); distinct = tree shape (parent vectors, tail, link mode)", runC36,
		map[string]int64{"dca_linked": 1000, "dca_via_block_cache": 1000, "growth_finalized_descends_from_lfb": 100, "rollback_lfb_single_chain": 2000, "rollback_rollback_to_common_ancestor": 100, "sibling_lfb_single_chain": 1000, "sibling_scenarios[sibling-of-lfb,hidden=true]": 200}},
	"C39": {"exploration", "real SimpleNodes.reduce on generated candidate layouts (stakes with many ties, previous sets, limits, percentages, seeds) vs size/pinned/stake-order/determinism oracles, " +
		"id renaming through random bijections, and selection frequencies over many seeds inside every class of interchangeable candidates (same stake, same previous-set membership); " +
		"real DKGMinerNodes.reduceNodes (final and non-final) on DKG miner lists created with calculateTKN at one max_n, stored and read back, candidates dropped between the phases, max_n then lowered / raised / unchanged, " +
		"candidate counts around both limits (every combination in a small box plus seeded larger ones): |selected| == min(max_n in force, candidates) and the same pinned/stake-order/determinism oracles; " +
		"distinct = (n, limit, pinned count, tie-class position/size, cut-off inside tie) layout classes and (final, max_n change, candidates vs both limits) classes", runC39,
		map[string]int64{"size_exact": 500, "tie_class_frequency": 50, "rename_keeps_stake_profile": 500,
			"dkg_size_exact": 1000, "dkg_max_n_lowered_candidates_between_the_two_limits": 50, "dkg_max_n_raised_candidates_between_the_two_limits": 50, "dkg_max_n_unchanged": 50, "dkg_nonfinal_keeps_candidates": 200}},
	"C40": {"exploration", "real roundStartingStorage (Put/Get/Prune/FindRoundIndex/GetLatest) and real Chain.SetMagicBlock/GetMagicBlock/GetMagicBlockNoOffset/GetPrevMagicBlock/PruneRoundStorage: every insertion order of every set of <=N starting rounds " +
		"drawn from a spaced grid, every query round in range +- the view-change offset, every prune point; oracle = reference floor lookup on a sorted slice; " +
		"operation sequences (every sequence of <= L Put/Prune operations over 4 starts on the storage and of SetMagicBlock/PruneRoundStorage on the chain, plus seeded longer ones: Put in any order, again for retained and for pruned starts, " +
		"prunes of fewer than half / half or more / all but one / all entries) judged after every step against a reference model (map start -> entity, floor lookup, latest = highest stored start); " +
		"distinct = (start set, insertion order) and sequences of operation kinds", runC40,
		map[string]int64{"storage_get_floor": 10000, "chain_get_magic_block": 10000, "prune_answers_unchanged": 10000, "chain_prune_answers_unchanged": 1000,
			"seq_storage_step_judged": 10000, "seq_chain_step_judged": 10000, "seq_storage_get_latest": 10000, "seq_chain_get_magic_block": 100000}},
	"C42": {"exploration", "real Chain.IsBlockSharder/IsBlockSharderFromHash/CanShardBlockWithReplicators on sharder pools built in permuted insertion orders (nodes made by node.NewNode and by magic-block JSON decoding) " +
		"and on copies of those pools made by the real code (Pool.Clone, MagicBlock.Clone, Block.Clone of the block carrying the magic block, a clone of a clone, clone of a decoded magic block, msgp encode/decode), " +
		"seeded random block hashes, replicator counts {0,1,k,n,n+1}; oracle = identical responsible id sets across orders and entry points and between a copy and the pool it was made from, |set| >= k when k <= n, k=0 => everyone; " +
		"distinct = (n, k, |set|, construction) classes", runC42,
		map[string]int64{"order_independent_set": 1000, "size_at_least_k": 1000, "k0_everyone": 100, "copy_same_set_as_source": 1000,
			"copy_same_set_as_source[pool-clone]": 200, "copy_same_set_as_source[magic-block-clone]": 200, "copy_same_set_as_source[block-clone]": 200}},
}

// Main is the engine entry point. The work runs in one child process under a watchdog: a call that never returns makes
// the run inconclusive instead of blocking the harness, and what was judged before is kept (checkpoints).
func Main(args []string) int {
	fs := flag.NewFlagSet("unitchain", flag.ExitOnError)
	prop := fs.String("prop", "C35", "property id")
	tier := fs.String("tier", "quick", "quick|thorough")
	_ = fs.Parse(args)
	d, ok := defs[*prop]
	if !ok {
		fmt.Printf("unitchain: unknown property %q (serves %s)\n", *prop, strings.Join(Props, " "))
		return 2
	}
	run := mon.NewRun(*prop, *tier, d.level, d.rule)
	if mon.IsChild() {
		func() {
			defer func() {
				if r := recover(); r != nil {
					// a panic inside the code under check on a generated input: the judged prefix stands, the run is not "held"
					run.Inconclusive(fmt.Sprintf("panic in engine/code under check: %v", r))
					run.Set("panic_stack", trimStack(string(debug.Stack())))
				}
			}()
			d.fn(run, *tier == "thorough")
		}()
		run.Checkpoint()
		return 0
	}
	defer mon.CleanScratch()
	to := 4 * time.Minute
	if *tier == "thorough" {
		to = 28 * time.Minute
	}
	res := mon.RunChildren(run, []mon.ChildSpec{{Name: *prop, Timeout: to, Args: []string{"unitchain", "-prop", *prop, "-tier", *tier}}}, 1)
	for _, cr := range res {
		if cr.TimedOut {
			p := mon.KeepLog(cr, fmt.Sprintf("%s-watchdog-seed%d.log", *prop, run.SeedV))
			run.Set("watchdog_goroutine_dump", p)
		} else if cr.Crashed {
			p := mon.KeepLog(cr, fmt.Sprintf("%s-crash-seed%d.log", *prop, run.SeedV))
			run.Inconclusive(fmt.Sprintf("child crashed (exit %d, log %s): %s", cr.ExitCode, p, firstPanicLine(cr.LogTail)))
		} else if cr.Partial == nil {
			run.Inconclusive("child returned no result")
		}
	}
	if run.Export().Extra["exhaustive_part_complete"] == true {
		run.Exhaustive(true)
	}
	for name, n := range d.mins {
		run.RequireMin(name, n)
	}
	return run.Finish()
}

func firstPanicLine(log string) string {
	for _, l := range strings.Split(log, "\n") {
		if strings.HasPrefix(l, "panic:") || strings.HasPrefix(l, "fatal error:") {
			return l
		}
	}
	return "no panic line in log tail"
}

// maxPerSignature bounds how many violations of one signature are recorded, so that a frequent finding cannot crowd
// other signatures out of the (bounded) violation list; the rest is counted.
const maxPerSignature = 20

var (
	sigMu    sync.Mutex
	sigCount = map[string]int{}
	lastCkpt = time.Now()
)

func violate(run *mon.Run, sig, detail string, replay interface{}) {
	sigMu.Lock()
	sigCount[sig]++
	n := sigCount[sig]
	sigMu.Unlock()
	run.Count("violations_observed["+sig+"]", 1)
	if n <= maxPerSignature {
		run.Violate(sig, detail, replay)
	}
}

// checkpoint hands the partial result to the parent now and then (wall clock only paces the hand-over, never an oracle).
func checkpoint(run *mon.Run) {
	if time.Since(lastCkpt) > 15*time.Second {
		run.Checkpoint()
		lastCkpt = time.Now()
	}
}

func trimStack(s string) string {
	if len(s) > 4000 {
		return s[:4000]
	}
	return s
}

// newWorld builds the one real chain of this process and silences the file logger (millions of calls would
// otherwise be dominated by log I/O; Panic/DPanic levels still panic with a no-op core).
func newWorld(seed uint64) *world.World {
	w := world.New(world.Options{Seed: seed})
	logging.Logger = zap.NewNop()
	return w
}

// permutations calls f with every permutation of 0..n-1 (Heap's algorithm, deterministic order). f must not keep p.
func permutations(n int, f func(p []int)) {
	p := make([]int, n)
	for i := range p {
		p[i] = i
	}
	var rec func(k int)
	rec = func(k int) {
		if k <= 1 {
			f(p)
			return
		}
		for i := 0; i < k; i++ {
			rec(k - 1)
			if k%2 == 0 {
				p[i], p[k-1] = p[k-1], p[i]
			} else {
				p[0], p[k-1] = p[k-1], p[0]
			}
		}
	}
	rec(n)
}

func randPerm(r *mon.Rand, n int) []int {
	p := make([]int, n)
	for i := range p {
		p[i] = i
	}
	r.Shuffle(n, func(i, j int) { p[i], p[j] = p[j], p[i] })
	return p
}

func sortedCopy(s []string) []string {
	c := append([]string{}, s...)
	sort.Strings(c)
	return c
}

func short(id string) string {
	if len(id) > 8 {
		return id[:8]
	}
	return id
}

func shorts(ids []string) []string {
	out := make([]string, len(ids))
	for i, s := range ids {
		out[i] = short(s)
	}
	return out
}
