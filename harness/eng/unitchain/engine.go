// Package unitchain decides C35, C36, C39, C40 and C42 by calling the real chain-core functions on generated inputs
// and comparing the results with tiny reference models written from the property statements.
package unitchain

import (
	"flag"
	"fmt"
	"runtime/debug"
	"sort"
	"strings"

	"verifh/mon"
	"verifh/world"

	"github.com/0chain/common/core/logging"
	"go.uber.org/zap"
)

// Props served by this engine.
var Props = []string{"C35", "C36", "C39", "C40", "C42"}

type propDef struct {
	level string
	rule  string
	fn    func(run *mon.Run, thorough bool)
}

var defs = map[string]propDef{
	"C35": {"exploration", "real node.Pool built in permuted insertion orders + Round.SetRandomSeed/GetMinerRank/GetMinersByRank vs permutation/order-independence/determinism oracles; " +
		"AddNotarizedBlock/UpdateNotarizedBlock op sequences vs a reference list (<=1 per rank, lightest rank number first, update stores the given pointer); " +
		"distinct = (pool size, seed class) for ranks and (op-shape, list-shape) for notarized sequences", runC35},
	"C36": {"exploration", "real Chain.ComputeFinalizedBlock on a real chain whose rounds hold every level-structured tree of notarized blocks inside the stated depth/width bound " +
		"(every parent assignment, every number of trailing empty rounds, PrevBlock linked or resolved through the block cache), plus seeded random larger trees; oracle = deepest common ancestor in an earlier round; " +
		"finalizeRound driven over growing trees with the harness standing in for the finalized-block worker; distinct = tree shape (parent vectors, tail, link mode)", runC36},
	"C39": {"exploration", "real SimpleNodes.reduce on generated candidate layouts (stakes with many ties, previous sets, limits, percentages, seeds) vs size/pinned/stake-order/determinism oracles, " +
		"id renaming through random bijections, and selection frequencies over many seeds inside every class of interchangeable candidates (same stake, same previous-set membership); " +
		"distinct = (n, limit, pinned count, tie-class position/size, cut-off inside tie) layout classes", runC39},
	"C40": {"exploration", "real roundStartingStorage (Put/Get/Prune/FindRoundIndex/GetLatest) and real Chain.SetMagicBlock/GetMagicBlock/GetMagicBlockNoOffset/GetPrevMagicBlock: every insertion order of every set of <=N starting rounds " +
		"drawn from a spaced grid, every query round in range +- the view-change offset, every prune point; oracle = reference floor lookup on a sorted slice; distinct = (start set, insertion order)", runC40},
	"C42": {"exploration", "real Chain.IsBlockSharder/IsBlockSharderFromHash/CanShardBlockWithReplicators on sharder pools built in permuted insertion orders (nodes made by node.NewNode and by magic-block JSON decoding), " +
		"seeded random block hashes, replicator counts {0,1,k,n,n+1}; oracle = identical responsible id sets across orders and entry points, |set| >= k when k <= n, k=0 => everyone; distinct = (n, k, |set|, construction) classes", runC42},
}

// Main is the engine entry point.
func Main(args []string) int {
	fs := flag.NewFlagSet("unitchain", flag.ExitOnError)
	prop := fs.String("prop", "C35", "property id")
	tier := fs.String("tier", "quick", "quick|thorough")
	_ = fs.Parse(args)
	d, ok := defs[*prop]
	if !ok {
		fmt.Printf("unitchain: unknown property %q (serves %s)\n", *prop, strings.Join(Props, " "))
		return 2
	}
	defer mon.CleanScratch()
	run := mon.NewRun(*prop, *tier, d.level, d.rule)
	func() {
		defer func() {
			if r := recover(); r != nil {
				// a panic inside the code under check on a generated input: the judged prefix stands, the run is not "held"
				run.Inconclusive(fmt.Sprintf("panic in engine/code under check: %v", r))
				run.Set("panic_stack", trimStack(string(debug.Stack())))
			}
		}()
		d.fn(run, *tier == "thorough")
	}()
	return run.Finish()
}

func trimStack(s string) string {
	if len(s) > 4000 {
		return s[:4000]
	}
	return s
}

// newWorld builds the one real chain of this process and silences the file logger (millions of calls would
// otherwise be dominated by log I/O; Panic/DPanic levels still panic with a no-op core).
func newWorld(seed uint64) *world.World {
	w := world.New(world.Options{Seed: seed})
	logging.Logger = zap.NewNop()
	return w
}

// permutations calls f with every permutation of 0..n-1 (Heap's algorithm, deterministic order). f must not keep p.
func permutations(n int, f func(p []int)) {
	p := make([]int, n)
	for i := range p {
		p[i] = i
	}
	var rec func(k int)
	rec = func(k int) {
		if k <= 1 {
			f(p)
			return
		}
		for i := 0; i < k; i++ {
			rec(k - 1)
			if k%2 == 0 {
				p[i], p[k-1] = p[k-1], p[i]
			} else {
				p[0], p[k-1] = p[k-1], p[0]
			}
		}
	}
	rec(n)
}

func randPerm(r *mon.Rand, n int) []int {
	p := make([]int, n)
	for i := range p {
		p[i] = i
	}
	r.Shuffle(n, func(i, j int) { p[i], p[j] = p[j], p[i] })
	return p
}

func sortedCopy(s []string) []string {
	c := append([]string{}, s...)
	sort.Strings(c)
	return c
}

func short(id string) string {
	if len(id) > 8 {
		return id[:8]
	}
	return id
}

func shorts(ids []string) []string {
	out := make([]string, len(ids))
	for i, s := range ids {
		out[i] = short(s)
	}
	return out
}
