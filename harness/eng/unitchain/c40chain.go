package unitchain

import (
	"context"
	"fmt"
	"sort"

	"verifh/mon"

	"0chain.net/chaincore/block"
	"0chain.net/chaincore/chain"
	"0chain.net/chaincore/round"
)

// ---------------------------------------------------------------------------------------------------------------------
// Chain-level family of C40: the round -> magic block mapping of a real chain.Chain for EVERY round, with sets of starting
// rounds that tell the rounds around the view-change offset apart (blocks starting at 1..ViewChangeOffset, sets without a
// block at round 0). The grid families of c40.go keep every non-genesis start above the offset, where the rounds 0..offset
// all have the same answer; here nothing is left out.
//
// Reference model (from the statement plus the documented offset: "offset between block with new MB (501) and the block where
// the new MB should be used (505)", chain.ViewChangeOffset; both copies of the rule in the tree, chaincore/chain and miner,
// leave the rounds 0..ViewChangeOffset unshifted and answer a later round r for r-ViewChangeOffset):
//
//	lookup round e(r) = r                      for r <= ViewChangeOffset
//	                  = r - ViewChangeOffset   for r >  ViewChangeOffset
//	answer(r)         = the stored magic block with the greatest starting round <= e(r),
//	                    or the stored one with the highest starting round when none starts at or before e(r)
//
// "stored" is what the operations so far left: SetMagicBlock adds (or replaces) a start, PruneRoundStorage(keep t) leaves the
// t highest starts, storage.Prune(p) removes every start <= p. Pruning clause: for every round whose lookup round is at or
// after the lowest retained start the answer is the same object before and after the prune.

// c40cEff is the lookup round of the model.
func c40cEff(r int64) int64 {
	if r <= chain.ViewChangeOffset {
		return r
	}
	return r - chain.ViewChangeOffset
}

// c40cAcc aggregates counters locally (one mutex round trip per case instead of one per query).
type c40cAcc map[string]int64

func (a c40cAcc) flush(run *mon.Run) {
	for k, v := range a {
		run.Count(k, v)
		delete(a, k)
	}
}

// c40cClass names the class of one query: position of the round relative to the offset and what the stored set looks like.
func c40cClass(r int64, sorted []int64) string {
	pos := "round>offset"
	switch {
	case r < chain.ViewChangeOffset:
		pos = "round<offset"
	case r == chain.ViewChangeOffset:
		pos = "round==offset"
	}
	at0, small := "no-block-at-0", "no-block-in-1..offset"
	for _, s := range sorted {
		if s == 0 {
			at0 = "block-at-0"
		}
		if s >= 1 && s <= chain.ViewChangeOffset {
			small = "block-in-1..offset"
		}
	}
	return "chainq[" + pos + "," + at0 + "," + small + "]"
}

// c40cMins: minimum number of judged queries per class. The engine's table of minimums lives in engine.go; these are checked
// at the end of the family and make the run inconclusive when a class was not reached.
var c40cMins = map[string]int64{
	"chainq[round==offset,block-at-0,block-in-1..offset]":       2000,
	"chainq[round==offset,no-block-at-0,block-in-1..offset]":    2000,
	"chainq[round==offset,block-at-0,no-block-in-1..offset]":    500,
	"chainq[round==offset,no-block-at-0,no-block-in-1..offset]": 500,
	"chainq[round<offset,block-at-0,block-in-1..offset]":        5000,
	"chainq[round<offset,no-block-at-0,block-in-1..offset]":     5000,
	"chainq[round>offset,block-at-0,block-in-1..offset]":        20000,
	"chainq[round>offset,no-block-at-0,block-in-1..offset]":     20000,
	"chainq[round>offset,block-at-0,no-block-in-1..offset]":     5000,
	"chainq[round>offset,no-block-at-0,no-block-in-1..offset]":  5000,
	"chain_model_get_magic_block":                               100000,
	"chain_model_get_magic_block_no_offset":                     100000,
	"chain_model_get_prev_magic_block":                          50000,
	"chain_model_prune_answer_unchanged":                        20000,
	"chain_model_prune_at_offset_round_judged":                  500,
	"chain_model_cases[dense-0..12]":                            8191,
	"chain_model_cases[ordinary-spacing]":                       50,
	"chain_model_cases[random]":                                 100,
	"chain_model_cases[all-orders]":                             1000,
	"lfmb_model_round_query":                                    2000,
	"lfmb_model_round_query[round==offset,distinguishing-set]":  20,
}

// c40cCase runs one operation list on a fresh real Chain and judges every round 0..maxQ against the model: after the last
// operation, and before and after every prune.
func c40cCase(run *mon.Run, acc c40cAcc, family string, ops []c40seqOp) {
	defer acc.flush(run)
	acc["chain_model_cases["+family+"]"]++
	run.Eval(1)
	maxQ := int64(0)
	for _, o := range ops {
		if o.Kind == "put" && o.Round > maxQ {
			maxQ = o.Round
		}
	}
	maxQ += 10
	c := &chain.Chain{MagicBlockStorage: round.NewRoundStartingStorage()}
	sentinel := block.NewMagicBlock()
	sentinel.Hash = "c40c-previous-magic-block-field"
	c.PreviousMagicBlock = sentinel
	stored := map[int64]*block.MagicBlock{}
	sortedStarts := func() []int64 {
		out := make([]int64, 0, len(stored))
		for s := range stored {
			out = append(out, s)
		}
		sort.Slice(out, func(i, j int) bool { return out[i] < out[j] })
		return out
	}
	name := func(mb *block.MagicBlock) string {
		if mb == nil {
			return "nil"
		}
		if mb == sentinel {
			return "the PreviousMagicBlock field"
		}
		return fmt.Sprintf("the magic block starting at %d", mb.StartingRound)
	}
	var done []c40seqOp
	replay := func(q int64, call string) map[string]interface{} {
		return map[string]interface{}{"level": "chain-model", "family": family, "ops": append([]c40seqOp{}, done...), "stored_starts": sortedStarts(), "query": q, "call": call,
			"view_change_offset": chain.ViewChangeOffset}
	}
	// judgeAll queries every round and returns GetMagicBlock's answers.
	judgeAll := func() []*block.MagicBlock {
		sorted := sortedStarts()
		n := len(sorted)
		answers := make([]*block.MagicBlock, maxQ+1)
		for q := int64(0); q <= maxQ; q++ {
			acc[c40cClass(q, sorted)]++
			acc["chain_model_get_magic_block"]++
			fi := refFloor(sorted, c40cEff(q))
			wi := fi
			if wi < 0 {
				wi = n - 1 // none starts at or before the lookup round: the latest one
				acc["chain_model_fallback_latest"]++
			}
			got := c.GetMagicBlock(q)
			answers[q] = got
			if got != stored[sorted[wi]] {
				violate(run, "C40:chain-magic-block-for-round-differs-from-model",
					fmt.Sprintf("after [%s]: Chain.GetMagicBlock(%d) returned %s; stored starts %v, lookup round %d (offset %d), expected the one starting at %d",
						c40seqString(done), q, name(got), sorted, c40cEff(q), chain.ViewChangeOffset, sorted[wi]), replay(q, "GetMagicBlock"))
			}
			acc["chain_model_get_magic_block_no_offset"]++
			wn := refFloor(sorted, q)
			if wn < 0 {
				wn = n - 1
			}
			if g := c.GetMagicBlockNoOffset(q); g != stored[sorted[wn]] {
				violate(run, "C40:chain-magic-block-no-offset-differs-from-model",
					fmt.Sprintf("after [%s]: Chain.GetMagicBlockNoOffset(%d) returned %s; stored starts %v, expected the one starting at %d", c40seqString(done), q, name(g), sorted, sorted[wn]),
					replay(q, "GetMagicBlockNoOffset"))
			}
			// the block in force before the one in force at q (judged when a stored predecessor exists)
			g := c.GetPrevMagicBlock(q)
			if fi >= 1 {
				acc["chain_model_get_prev_magic_block"]++
				if g != stored[sorted[fi-1]] {
					violate(run, "C40:chain-prev-magic-block-for-round-differs-from-model",
						fmt.Sprintf("after [%s]: Chain.GetPrevMagicBlock(%d) returned %s; stored starts %v, lookup round %d, expected the one starting at %d",
							c40seqString(done), q, name(g), sorted, c40cEff(q), sorted[fi-1]), replay(q, "GetPrevMagicBlock"))
				}
			} else if g == sentinel {
				acc["obs_chain_model_prev_without_stored_predecessor_is_previous_field"]++
			} else {
				acc["obs_chain_model_prev_without_stored_predecessor_is_other"]++
			}
		}
		acc["chain_model_latest"]++
		if g := c.GetLatestMagicBlock(); g != stored[sorted[n-1]] {
			violate(run, "C40:chain-latest-magic-block-differs-from-model", fmt.Sprintf("after [%s]: Chain.GetLatestMagicBlock returned %s; stored starts %v", c40seqString(done), name(g), sorted), replay(-1, "GetLatestMagicBlock"))
		}
		return answers
	}
	func() {
		defer func() {
			if r := recover(); r != nil {
				violate(run, "C40:chain-call-panics", fmt.Sprintf("[%s]: a call into a fresh Chain panicked: %v", c40seqString(done), r), replay(-1, "panic"))
			}
		}()
		gen := 0
		for _, o := range ops {
			switch o.Kind {
			case "put":
				gen++
				mb := block.NewMagicBlock()
				mb.StartingRound = o.Round
				mb.MagicBlockNumber = o.Round + 1
				mb.Hash = fmt.Sprintf("c40c-mb-%d-#%d", o.Round, gen)
				if _, again := stored[o.Round]; again {
					acc["chain_model_op[set-again]"]++
				} else {
					acc["chain_model_op[set]"]++
				}
				done = append(done, o)
				c.SetMagicBlock(mb)
				stored[o.Round] = mb
			case "keep", "prune":
				sorted := sortedStarts()
				var cut int64 = -1 // every start <= cut goes
				if o.Kind == "keep" {
					if t := int(o.Round); t >= 1 && len(sorted) > t {
						cut = sorted[len(sorted)-t-1]
					}
				} else if _, ok := stored[o.Round]; ok && o.Round < sorted[len(sorted)-1] {
					cut = o.Round
				} else if ok {
					continue // would remove everything: outside the statement (see runC40's assumption), not done here
				}
				before := judgeAll()
				done = append(done, o)
				if o.Kind == "keep" {
					target := int(o.Round)
					c.PruneRoundStorage(func(round.RoundStorage) int { return target }, c.MagicBlockStorage)
				} else {
					err := c.MagicBlockStorage.Prune(o.Round)
					if (err == nil) != (cut >= 0) {
						violate(run, "C40:prune-result", fmt.Sprintf("after [%s]: the last Prune returned %v with stored starts %v", c40seqString(done), err, sorted), replay(-1, "Prune"))
					}
				}
				if cut < 0 {
					acc["chain_model_op["+o.Kind+"-removes-nothing]"]++
				} else {
					acc["chain_model_op["+o.Kind+"]"]++
				}
				for s := range stored {
					if s <= cut {
						delete(stored, s)
					}
				}
				retained := sortedStarts()
				if fmt.Sprint(c.MagicBlockStorage.GetRounds()) != fmt.Sprint(retained) {
					violate(run, "C40:prune-retained-set", fmt.Sprintf("after [%s]: the chain's storage holds %v, expected %v", c40seqString(done), c.MagicBlockStorage.GetRounds(), retained), replay(-1, "GetRounds"))
					return
				}
				after := judgeAll()
				for q := int64(0); q <= maxQ; q++ {
					if c40cEff(q) < retained[0] {
						acc["chain_model_prune_round_before_pruned_point_not_compared"]++
						continue
					}
					acc["chain_model_prune_answer_unchanged"]++
					if q == chain.ViewChangeOffset {
						acc["chain_model_prune_at_offset_round_judged"]++
					}
					if before[q] != after[q] {
						violate(run, "C40:chain-prune-changes-magic-block-for-round",
							fmt.Sprintf("[%s]: Chain.GetMagicBlock(%d) returned %s before the last operation and %s after it; retained starts %v, lookup round %d",
								c40seqString(done), q, name(before[q]), name(after[q]), retained, c40cEff(q)), replay(q, "GetMagicBlock"))
					}
				}
			}
		}
		judgeAll()
	}()
}

func c40cPuts(starts []int64, order []int) []c40seqOp {
	ops := make([]c40seqOp, 0, len(order)+2)
	for _, i := range order {
		ops = append(ops, c40seqOp{"put", starts[i]})
	}
	return ops
}

func c40cAscending(n int) []int {
	p := make([]int, n)
	for i := range p {
		p[i] = i
	}
	return p
}

func c40cDescending(n int) []int {
	p := make([]int, n)
	for i := range p {
		p[i] = n - 1 - i
	}
	return p
}

// c40cWithPrune puts a prune into an insertion list: PruneRoundStorage or storage.Prune after the first k insertions (k = all of them: at the end).
func c40cWithPrune(rnd *mon.Rand, puts []c40seqOp, atEnd bool) []c40seqOp {
	m := len(puts)
	k := m
	if !atEnd {
		k = 2 + rnd.Intn(m-1) // 2..m
	}
	var ops []c40seqOp
	ops = append(ops, puts[:k]...)
	if rnd.Chance(0.7) {
		ops = append(ops, c40seqOp{"keep", int64(1 + rnd.Intn(k-1))})
	} else {
		first := append([]c40seqOp{}, puts[:k]...)
		sort.Slice(first, func(i, j int) bool { return first[i].Round < first[j].Round })
		ops = append(ops, c40seqOp{"prune", first[rnd.Intn(k-1)].Round})
	}
	ops = append(ops, puts[k:]...)
	if rnd.Chance(0.3) {
		ops = append(ops, puts[rnd.Intn(m)]) // a start again: retained (replaces the block) or pruned (stored again below the others)
	}
	return ops
}

// c40chainRun is the chain-level family.
func c40chainRun(run *mon.Run, rnd *mon.Rand, thorough bool) {
	acc := c40cAcc{}
	const dense = 13 // starting rounds 0..12
	run.Set("chain_model_bound", fmt.Sprintf("real Chain per case, every round 0..max+10 queried through GetMagicBlock/GetMagicBlockNoOffset/GetPrevMagicBlock: every non-empty subset of the starting rounds 0..%d "+
		"(ascending, descending and seeded insertion orders; PruneRoundStorage with every target count; seeded prunes in between and re-insertions), every insertion order of every subset of <= 4 of 0..7, "+
		"ordinary spacing (first start 0/1/offset-1/offset/offset+1/spacing, also with early view changes mixed in), seeded random sets and operation lists", dense-1))

	// 1. dense small starting rounds: every non-empty subset of 0..12
	for mask := 1; mask < 1<<dense; mask++ {
		if mask%512 == 0 {
			checkpoint(run)
		}
		var starts []int64
		for i := 0; i < dense; i++ {
			if mask&(1<<i) != 0 {
				starts = append(starts, int64(i))
			}
		}
		m := len(starts)
		run.Distinct(fmt.Sprintf("chain-model dense %v", starts))
		c40cCase(run, acc, "dense-0..12", c40cPuts(starts, c40cAscending(m)))
		if m < 2 {
			continue
		}
		c40cCase(run, acc, "dense-0..12-descending", c40cPuts(starts, c40cDescending(m)))
		// PruneRoundStorage with every target count (all of them for the sets inside 0..8 and in the thorough tier, one seeded target otherwise)
		if thorough || mask < 1<<9 {
			for t := 1; t < m; t++ {
				c40cCase(run, acc, "dense-0..12-keep", append(c40cPuts(starts, c40cDescending(m)), c40seqOp{"keep", int64(t)}))
			}
		} else {
			c40cCase(run, acc, "dense-0..12-keep", append(c40cPuts(starts, c40cAscending(m)), c40seqOp{"keep", int64(1 + rnd.Intn(m-1))}))
		}
		if m >= 3 {
			c40cCase(run, acc, "dense-0..12-seeded-order", c40cPuts(starts, randPerm(rnd, m)))
			c40cCase(run, acc, "dense-0..12-prune-in-between", c40cWithPrune(rnd, c40cPuts(starts, randPerm(rnd, m)), false))
		}
	}
	// 2. every insertion order of every subset of <= 4 starting rounds out of 0..7
	for mask := 1; mask < 1<<8; mask++ {
		var starts []int64
		for i := 0; i < 8; i++ {
			if mask&(1<<i) != 0 {
				starts = append(starts, int64(i))
			}
		}
		if len(starts) < 2 || len(starts) > 4 {
			continue
		}
		permutations(len(starts), func(p []int) {
			c40cCase(run, acc, "all-orders", c40cPuts(starts, p))
		})
	}
	checkpoint(run)
	// 3. ordinary spacing: view changes every `gap` rounds; the first block at 0, next to the offset, or one gap in; early view changes mixed in
	off := int64(chain.ViewChangeOffset)
	for _, gap := range []int64{50, 100} {
		for _, first := range []int64{0, 1, off - 1, off, off + 1, gap} {
			for n := 1; n <= 5; n++ {
				for _, early := range [][]int64{nil, {2}, {off}, {1, off + 2}} {
					seen := map[int64]bool{}
					var starts []int64
					for i := 0; i < n; i++ {
						starts = append(starts, first+int64(i)*gap)
						seen[first+int64(i)*gap] = true
					}
					for _, e := range early {
						if !seen[e] {
							seen[e] = true
							starts = append(starts, e)
						}
					}
					sort.Slice(starts, func(i, j int) bool { return starts[i] < starts[j] })
					m := len(starts)
					run.Distinct(fmt.Sprintf("chain-model ordinary %v", starts))
					c40cCase(run, acc, "ordinary-spacing", c40cPuts(starts, c40cAscending(m)))
					if m >= 2 {
						puts := c40cPuts(starts, randPerm(rnd, m))
						c40cCase(run, acc, "ordinary-spacing-seeded-order", puts)
						c40cCase(run, acc, "ordinary-spacing-pruned", c40cWithPrune(rnd, puts, rnd.Chance(0.5)))
					}
				}
			}
		}
	}
	checkpoint(run)
	// 4. seeded random sets and operation lists
	nRandom := 400
	if thorough {
		nRandom = 6000
	}
	sampled := 0
	for i := 0; i < nRandom; i++ {
		m := 1 + rnd.Intn(8)
		seen := map[int64]bool{}
		var starts []int64
		for len(starts) < m {
			var s int64
			switch rnd.Intn(4) {
			case 0:
				s = int64(rnd.Intn(int(off) + 2)) // 0..offset+1
			case 1:
				s = int64(rnd.Intn(13))
			case 2:
				s = int64(rnd.Intn(60))
			default:
				s = int64(rnd.Intn(8)) * int64(25+rnd.Intn(40))
			}
			if !seen[s] {
				seen[s] = true
				starts = append(starts, s)
			}
		}
		ops := c40cPuts(starts, randPerm(rnd, m))
		if m >= 2 && rnd.Chance(0.6) {
			ops = c40cWithPrune(rnd, ops, rnd.Chance(0.4))
			if rnd.Chance(0.3) && len(ops) >= 4 {
				ops = append(ops, c40seqOp{"keep", int64(1 + rnd.Intn(3))})
			}
		}
		run.Distinct("chain-model random " + c40seqString(ops))
		c40cCase(run, acc, "random", ops)
		if sampled < 1 && len(ops) >= 6 {
			sampled++
			run.Sample(map[string]interface{}{"chain_model_case": c40seqString(ops), "rounds_queried": "every round 0..max+10", "view_change_offset": off})
		}
	}
	checkpoint(run)

	// 5. the finalized-magic-block-for-round accessor of the same rule
	c40cLFMB(run, rnd.Fork("lfmb"), thorough)

	for name, min := range c40cMins {
		run.RequireMin(name, min) // kept for a run judged in this process
		if got := run.Counter(name); got < min {
			run.Inconclusive(fmt.Sprintf("monitor %q evaluated %d times (< %d)", name, got, min))
		}
	}
}

// c40cLFMB: Chain.GetLatestFinalizedMagicBlockRound answers with the finalized block that carries the magic block in force for a round. The set
// of finalized magic blocks of a chain only grows, so every set gets a chain of its own (chain.Provider plus its LFMB worker) and is judged after
// every insertion at every round.
func c40cLFMB(run *mon.Run, rnd *mon.Rand, thorough bool) {
	acc := c40cAcc{}
	defer acc.flush(run)
	off := int64(chain.ViewChangeOffset)
	sets := [][]int64{{0, 3, 50}, {1, 100}, {0, 2, 4, 6, 200}, {0, 100, 200}, {off}, {off + 1, 1}, {0, off}, {0, off + 1}, {2, 0}, {off - 1, off, off + 1}}
	nRandom := 40
	if thorough {
		nRandom = 400
	}
	for i := 0; i < nRandom; i++ {
		m := 1 + rnd.Intn(6)
		seen := map[int64]bool{}
		var starts []int64
		for len(starts) < m {
			var s int64
			switch rnd.Intn(3) {
			case 0:
				s = int64(rnd.Intn(int(off) + 2))
			case 1:
				s = int64(rnd.Intn(13))
			default:
				s = int64(rnd.Intn(5)) * int64(20+rnd.Intn(30))
			}
			if !seen[s] {
				seen[s] = true
				starts = append(starts, s)
			}
		}
		sets = append(sets, starts)
	}
	for _, starts := range sets {
		checkpoint(run)
		func() {
			ctx, cancel := context.WithCancel(context.Background())
			defer cancel()
			c := chain.Provider().(*chain.Chain)
			go c.StartLFMBWorker(ctx)
			run.Eval(1)
			acc["lfmb_model_sets"]++
			maxQ := maxOf(starts) + 10
			stored := map[int64]*block.Block{}
			var done []int64
			defer func() {
				if r := recover(); r != nil {
					violate(run, "C40:chain-call-panics", fmt.Sprintf("finalized magic blocks set in the order %v: a call panicked: %v", done, r), map[string]interface{}{"level": "chain-lfmb", "starts_in_order": done})
				}
			}()
			for _, s := range starts {
				mb := block.NewMagicBlock()
				mb.StartingRound = s
				mb.MagicBlockNumber = 1000 + 2*s // never the successor number of another one: the previous-hash link is not part of this property
				mb.Hash = fmt.Sprintf("c40c-lfmb-%d", s)
				b := block.NewBlock(c.GetKey(), s)
				b.MagicBlock = mb
				b.Hash = fmt.Sprintf("c40c-lfmb-block-%d", s)
				c.SetLatestFinalizedMagicBlock(b)
				stored[s] = b
				done = append(done, s)
				sorted := append([]int64{}, done...)
				sort.Slice(sorted, func(i, j int) bool { return sorted[i] < sorted[j] })
				distinguishing := sorted[0] != 0
				for _, x := range sorted {
					if x >= 1 && x <= off {
						distinguishing = true
					}
				}
				for q := int64(0); q <= maxQ; q++ {
					acc["lfmb_model_round_query"]++
					if q == off && distinguishing {
						acc["lfmb_model_round_query[round==offset,distinguishing-set]"]++
					}
					wi := refFloor(sorted, c40cEff(q))
					if wi < 0 {
						wi = len(sorted) - 1
					}
					if g := c.GetLatestFinalizedMagicBlockRound(q); g != stored[sorted[wi]] {
						gs := "nil"
						if g != nil && g.MagicBlock != nil {
							gs = fmt.Sprintf("the block with the magic block starting at %d", g.MagicBlock.StartingRound)
						}
						violate(run, "C40:chain-finalized-magic-block-for-round-differs-from-model",
							fmt.Sprintf("finalized magic blocks set in the order %v: Chain.GetLatestFinalizedMagicBlockRound(%d) returned %s; lookup round %d (offset %d), expected the one starting at %d",
								done, q, gs, c40cEff(q), off, sorted[wi]),
							map[string]interface{}{"level": "chain-lfmb", "starts_in_order": append([]int64{}, done...), "query": q, "view_change_offset": off})
					}
				}
			}
		}()
	}
}
