package unitchain

import (
	"fmt"
	"sort"
	"strings"

	"verifh/mon"
	"verifh/world"

	"0chain.net/chaincore/block"
	"0chain.net/chaincore/node"
	"0chain.net/chaincore/round"
)

// mkNode builds a fresh node object for a wallet the way the configuration reader does (node.NewNode: sets the id
// bytes used by the hash scorer and checks id == hash(public key)).
func mkNode(w *world.Wallet, typ node.NodeType, port int) *node.Node {
	n, err := node.NewNode(map[interface{}]interface{}{
		"type": typ, "public_ip": "127.0.0.1", "n2n_ip": "127.0.0.1", "port": port,
		"id": w.ID, "public_key": w.PubKey,
	})
	if err != nil {
		panic(fmt.Sprintf("node.NewNode: %v", err))
	}
	n.Status = node.NodeStatusActive
	return n
}

// buildPool adds fresh node objects for the wallets in the given insertion order.
func buildPool(ws []*world.Wallet, order []int, typ node.NodeType) *node.Pool {
	p := node.NewPool(typ)
	made := map[int]*node.Node{}
	for k, i := range order {
		// a member that is added again comes as a fresh object (refreshed registration, decoded again) or as the very same
		// object (a set-up that runs twice over the nodes it already holds), alternating with the position
		n := made[i]
		if n == nil || k%2 == 0 {
			n = mkNode(ws[i], typ, 9000+k)
			made[i] = n
		}
		if err := p.AddNode(n); err != nil {
			panic(fmt.Sprintf("Pool.AddNode: %v", err))
		}
	}
	return p
}

func wallets(label string, n int) []*world.Wallet {
	out := make([]*world.Wallet, n)
	for i := range out {
		out[i] = world.NewWallet(fmt.Sprintf("%s-%d", label, i))
	}
	return out
}

type rankObs struct {
	rank   map[string]int // node id -> GetMinerRank
	byRank []string       // ids as returned by GetMinersByRank
}

func observeRanks(pool *node.Pool, roundNum, seed int64) rankObs {
	r := round.NewRound(roundNum)
	r.SetRandomSeed(seed, pool.Size())
	o := rankObs{rank: map[string]int{}}
	for _, n := range pool.CopyNodes() {
		o.rank[n.GetKey()] = r.GetMinerRank(n)
	}
	for _, n := range r.GetMinersByRank(pool.CopyNodes()) {
		o.byRank = append(o.byRank, n.GetKey())
	}
	return o
}

func runC35(run *mon.Run, thorough bool) {
	w := newWorld(mon.Seed())
	defer w.Close()
	rnd := mon.NewRand(mon.Seed()).Fork("C35")
	run.Assume("node objects are created per pool (a node object shared by two pools with different members would carry the SetIndex of the pool it was added to last)")
	run.Assume("block ranks stay below the number of miners (<= 64): Block.Weight() underflows to 0 only for ranks > 1074")

	c35Ranks(run, rnd.Fork("ranks"), thorough)
	c35Notarized(run, w, rnd.Fork("nb"), thorough)

}

func c35Ranks(run *mon.Run, rnd *mon.Rand, thorough bool) {
	maxN, ordersPer, seedsPer := 24, 6, 12
	if thorough {
		maxN, ordersPer, seedsPer = 64, 12, 24
	}
	ws := wallets(fmt.Sprintf("c35-miner-%d", mon.Seed()), maxN)
	sizes := []int{1, 2, 3, 4, 5, 7, 10, 16, maxN}
	for _, n := range sizes {
		if n > maxN {
			continue
		}
		// subsets: a prefix and a random subset of the wallet universe
		subsets := [][]*world.Wallet{ws[:n]}
		if n < maxN {
			p := randPerm(rnd, maxN)
			var s []*world.Wallet
			for _, i := range p[:n] {
				s = append(s, ws[i])
			}
			subsets = append(subsets, s)
		}
		for si, sub := range subsets {
			// insertion orders: all of them for n<=4, otherwise identity, reverse and random ones
			var orders [][]int
			if n <= 4 {
				permutations(n, func(p []int) { orders = append(orders, append([]int{}, p...)) })
			} else {
				id := make([]int, n)
				rev := make([]int, n)
				for i := range id {
					id[i], rev[i] = i, n-1-i
				}
				orders = append(orders, id, rev)
				for k := 0; k < ordersPer; k++ {
					orders = append(orders, randPerm(rnd, n))
				}
			}
			// insertion histories in which members are added again with a fresh node object (a node re-read from a magic block or
			// re-registered with new settings replaces the object in the pool): the ranking must not depend on that either
			if n >= 2 {
				for k := 0; k < 2+ordersPer/2; k++ {
					o := randPerm(rnd, n)
					for d := 1 + rnd.Intn(3); d > 0; d-- {
						again := o[rnd.Intn(n)]
						at := rnd.Intn(len(o) + 1)
						o = append(o[:at], append([]int{again}, o[at:]...)...)
					}
					if rnd.Chance(0.5) {
						o = append(o, randPerm(rnd, n)...) // everybody once more
					}
					orders = append(orders, o)
					run.Count("insertion_histories_with_readded_members", 1)
				}
			}
			pools := make([]*node.Pool, len(orders))
			for k, o := range orders {
				pools[k] = buildPool(sub, o, node.NodeTypeMiner)
			}
			seeds := []int64{1, -1, 0x7fffffffffffffff, -0x8000000000000000}
			for k := 0; k < seedsPer; k++ {
				seeds = append(seeds, int64(rnd.U64()))
			}
			for _, seed := range seeds {
				if seed == 0 {
					continue // 0 means "no seed yet" for a round
				}
				var first rankObs
				for k, pool := range pools {
					o := observeRanks(pool, 10+int64(k), seed)
					run.Eval(1)
					// (1) permutation of 0..n-1
					run.Count("rank_permutation", 1)
					seen := make([]bool, n)
					okPerm := len(o.rank) == n
					for _, rk := range o.rank {
						if rk < 0 || rk >= n || seen[rk] {
							okPerm = false
							break
						}
						seen[rk] = true
					}
					if !okPerm {
						violate(run, "C35:ranks-not-a-permutation", fmt.Sprintf("n=%d seed=%d ranks=%v", n, seed, o.rank),
							map[string]interface{}{"n": n, "seed": seed, "order": orders[k]})
					}
					// (1b) GetMinersByRank lists every miner once, strictly monotone in GetMinerRank
					run.Count("minersbyrank_consistent", 1)
					okList := len(o.byRank) == n
					dir := 0
					for i := 1; okList && i < len(o.byRank); i++ {
						d := o.rank[o.byRank[i]] - o.rank[o.byRank[i-1]]
						if d == 0 || (dir != 0 && (d > 0) != (dir > 0)) {
							okList = false
						}
						dir = d
					}
					if dir < 0 {
						run.Count("obs_minersbyrank_highest_rank_number_first", 1)
					} else if dir > 0 {
						run.Count("obs_minersbyrank_lowest_rank_number_first", 1)
					}
					if !okList {
						violate(run, "C35:miners-by-rank-inconsistent-with-rank", fmt.Sprintf("n=%d seed=%d byRank=%v ranks=%v", n, seed, shorts(o.byRank), o.rank),
							map[string]interface{}{"n": n, "seed": seed, "order": orders[k]})
					}
					if k == 0 {
						first = o
						// (3) a second node (fresh round object, fresh pool object) with the same seed and set
						run.Count("rank_same_seed_same_ranking", 1)
						again := observeRanks(buildPool(sub, orders[0], node.NodeTypeMiner), 99, seed)
						if !sameRanks(first, again) {
							violate(run, "C35:same-seed-different-ranking", fmt.Sprintf("n=%d seed=%d a=%v b=%v", n, seed, first.rank, again.rank),
								map[string]interface{}{"n": n, "seed": seed})
						}
						continue
					}
					// (2) identical across insertion orders, keyed by node id
					run.Count("rank_order_independent", 1)
					if !sameRanks(first, o) {
						violate(run, "C35:rank-depends-on-insertion-order", fmt.Sprintf("n=%d seed=%d order0=%v ranks0=%v order=%v ranks=%v", n, seed, orders[0], first.rank, orders[k], o.rank),
							map[string]interface{}{"n": n, "seed": seed, "order_a": orders[0], "order_b": orders[k]})
					}
				}
				if n > 1 {
					run.Distinct(fmt.Sprintf("ranks:n=%d:sub=%d:seed=%d", n, si, seed))
				}
			}
			if si == 0 && (n == 5 || n == 16) {
				o := observeRanks(pools[len(pools)-1], 7, seeds[4])
				lit := map[string]int{}
				for id, rk := range o.rank {
					lit[short(id)] = rk
				}
				run.Sample(map[string]interface{}{"kind": "ranks", "n": n, "seed": seeds[4], "insertion_orders_compared": len(orders), "seeds": len(seeds), "rank_by_miner_id": lit, "miners_by_rank": shorts(o.byRank)})
			}
		}
	}
}

func sameRanks(a, b rankObs) bool {
	if len(a.rank) != len(b.rank) || len(a.byRank) != len(b.byRank) {
		return false
	}
	for id, r := range a.rank {
		if rb, ok := b.rank[id]; !ok || rb != r {
			return false
		}
	}
	for i := range a.byRank {
		if a.byRank[i] != b.byRank[i] {
			return false
		}
	}
	return true
}

// ---- notarized list --------------------------------------------------------------------------------------------

type nbOp struct {
	Kind string `json:"op"`   // "add" (new object), "readd" (same object again), "update" (new object, same hash)
	Hash int    `json:"hash"` // index into the hash universe; rank = rankOf[hash]
}

func c35Notarized(run *mon.Run, w *world.World, rnd *mon.Rand, thorough bool) {
	// hash universe: hash h has a fixed rank (a block's generator, hence its rank, is part of the block)
	rankOf := []int{0, 1, 1, 2, 0, 3}
	// exhaustive short sequences over 4 hashes (two of them share rank 1), shortest first so that the first witness is minimal
	kinds := []string{"add", "update", "readd"}
	var seqs [][]nbOp
	maxLen := 4
	if thorough {
		maxLen = 5
	}
	var gen func(prefix []nbOp, left int)
	for l := 1; l <= maxLen; l++ {
		gen = func(prefix []nbOp, left int) {
			if left == 0 {
				seqs = append(seqs, append([]nbOp{}, prefix...))
				return
			}
			for _, k := range kinds {
				for h := 0; h < 4; h++ {
					gen(append(prefix, nbOp{k, h}), left-1)
				}
			}
		}
		gen(nil, l)
	}
	nExh := len(seqs)
	nRand := 3000
	if thorough {
		nRand = 60000
	}
	for i := 0; i < nRand; i++ {
		l := 5 + rnd.Intn(12)
		s := make([]nbOp, l)
		for j := range s {
			s[j] = nbOp{kinds[rnd.Pick([]int{5, 3, 1})], rnd.Intn(len(rankOf))}
		}
		seqs = append(seqs, s)
	}
	run.Set("nb_sequences_exhaustive_short", nExh)
	run.Set("nb_sequences_random", nRand)

	for si, seq := range seqs {
		if si%500 == 0 {
			checkpoint(run)
		}
		r := round.NewRound(int64(100 + si%7))
		var ref []*block.Block // reference: at most one per rank, newest wins, ascending rank number
		last := map[int]*block.Block{}
		serial := 0
		mk := func(h int) *block.Block {
			serial++
			b := block.NewBlock(w.Chain.GetKey(), r.GetRoundNumber())
			b.Hash = fmt.Sprintf("%064x", 0xC35000+h)
			b.RoundRank = rankOf[h]
			b.MinerID = w.Miners[rankOf[h]%len(w.Miners)].ID
			b.RunningTxnCount = int64(serial) // tells the objects apart in samples
			return b
		}
		var shape []string
		for oi, op := range seq {
			var b *block.Block
			before := append([]*block.Block{}, r.GetNotarizedBlocks()...)
			inList := -1
			for i, x := range before {
				if x.Hash == fmt.Sprintf("%064x", 0xC35000+op.Hash) {
					inList = i
				}
			}
			switch op.Kind {
			case "add":
				b = mk(op.Hash)
				r.AddNotarizedBlock(b)
			case "readd":
				b = last[op.Hash]
				if b == nil {
					b = mk(op.Hash)
				}
				r.AddNotarizedBlock(b)
			case "update":
				b = mk(op.Hash)
				r.UpdateNotarizedBlock(b)
			}
			last[op.Hash] = b
			got := r.GetNotarizedBlocks()
			run.Eval(1)
			replay := map[string]interface{}{"ops": seq[:oi+1], "rank_of_hash": rankOf}

			// reference update
			if op.Kind == "update" {
				if inList >= 0 {
					for i, x := range ref {
						if x.Hash == b.Hash {
							ref[i] = b
						}
					}
				}
			} else if inList < 0 {
				var nr []*block.Block
				for _, x := range ref {
					if x.RoundRank != b.RoundRank {
						nr = append(nr, x)
					}
				}
				nr = append(nr, b)
				sort.SliceStable(nr, func(i, j int) bool { return nr[i].RoundRank < nr[j].RoundRank })
				ref = nr
			}

			// (a) at most one notarized block per rank
			run.Count("nb_one_per_rank", 1)
			seenRank := map[int]bool{}
			for _, x := range got {
				if seenRank[x.RoundRank] {
					violate(run, "C35:two-notarized-blocks-with-one-rank", fmt.Sprintf("after %v the list holds two blocks of rank %d: %s", seq[:oi+1], x.RoundRank, descList(got)), replay)
				}
				seenRank[x.RoundRank] = true
			}
			// (b) heaviest first (weight halves with every rank step => ascending rank number)
			run.Count("nb_sorted_heaviest_first", 1)
			for i := 1; i < len(got); i++ {
				if got[i-1].RoundRank > got[i].RoundRank {
					violate(run, "C35:notarized-list-not-heaviest-first", fmt.Sprintf("after %v: %s", seq[:oi+1], descList(got)), replay)
					break
				}
			}
			// (c) update replaces the stored entry with the given block
			if op.Kind == "update" {
				if inList >= 0 {
					run.Count("nb_update_stores_given_block", 1)
					stored := -1
					for i, x := range got {
						if x.Hash == b.Hash {
							stored = i
						}
					}
					if stored < 0 || got[stored] != b {
						what := "missing"
						if stored >= 0 {
							what = fmt.Sprintf("object #%d (the block stored before the update)", got[stored].RunningTxnCount)
							if got[stored] != before[inList] {
								what = fmt.Sprintf("object #%d (neither the old nor the given block)", got[stored].RunningTxnCount)
							}
						}
						violate(run, "C35:update-keeps-old-block", fmt.Sprintf("ops %v: UpdateNotarizedBlock(object #%d, hash h%d) left %s in the notarized list; list=%s",
							seq[:oi+1], b.RunningTxnCount, op.Hash, what, descList(got)), replay)
						// keep judging the rest of the sequence against what the statement requires
					}
				} else {
					run.Count("nb_update_of_absent_hash_is_noop", 1)
					if !samePtrs(before, got) {
						violate(run, "C35:update-of-absent-block-changes-list", fmt.Sprintf("ops %v: before=%s after=%s", seq[:oi+1], descList(before), descList(got)), replay)
					}
				}
			}
			// (d) membership: the hashes/ranks present are those of the reference (an added block is there, nothing else vanished, no phantom)
			run.Count("nb_membership", 1)
			if hashesOf(got) != hashesOf(ref) {
				violate(run, "C35:notarized-list-membership", fmt.Sprintf("ops %v: list=%s reference=%s", seq[:oi+1], descList(got), descList(ref)), replay)
			}
			if hv := r.GetHeaviestNotarizedBlock(); len(got) > 0 {
				run.Count("nb_heaviest_is_first", 1)
				if hv != got[0] {
					violate(run, "C35:heaviest-accessor-differs-from-list-head", fmt.Sprintf("ops %v", seq[:oi+1]), replay)
				}
			}
			shape = append(shape, fmt.Sprintf("%s:%d:%v", op.Kind, rankOf[op.Hash], inList >= 0))
		}
		if len(seq) >= 2 {
			run.Distinct("nb:" + strings.Join(shape, ",") + "|" + descShape(r.GetNotarizedBlocks()))
		}
		if si == nExh/2 || si == nExh+1 {
			run.Sample(map[string]interface{}{"kind": "notarized", "ops": seq, "final_list": descList(r.GetNotarizedBlocks())})
		}
	}
}

func samePtrs(a, b []*block.Block) bool {
	if len(a) != len(b) {
		return false
	}
	for i := range a {
		if a[i] != b[i] {
			return false
		}
	}
	return true
}

func hashesOf(l []*block.Block) string {
	var s []string
	for _, b := range l {
		s = append(s, fmt.Sprintf("%s/%d", b.Hash[58:], b.RoundRank))
	}
	sort.Strings(s)
	return strings.Join(s, ",")
}

func descList(l []*block.Block) string {
	var s []string
	for _, b := range l {
		s = append(s, fmt.Sprintf("h%s(rank %d, object #%d)", b.Hash[63:], b.RoundRank, b.RunningTxnCount))
	}
	return "[" + strings.Join(s, " ") + "]"
}

func descShape(l []*block.Block) string {
	var s []string
	for _, b := range l {
		s = append(s, fmt.Sprint(b.RoundRank))
	}
	return strings.Join(s, ".")
}
