package unitchain

import (
	"fmt"
	"math"
	"sort"
	"strings"

	"verifh/mon"

	"0chain.net/chaincore/block"
	cstate "0chain.net/chaincore/chain/state"
	"0chain.net/chaincore/node"
	"0chain.net/smartcontract/minersc"
	"0chain.net/smartcontract/provider"
	"github.com/0chain/common/core/currency"
)

type c39Cand struct {
	ID    string `json:"id"`
	Stake int64  `json:"stake"`
	Prev  bool   `json:"prev"`
}

type c39Layout struct {
	Cands []c39Cand `json:"candidates"`
	Limit int       `json:"limit"`
	XP    float64   `json:"x_percent"`
	Note  string    `json:"note,omitempty"`
}

type poolSet map[string]bool

func (p poolSet) HasNode(id string) bool { return p[id] }

// realReduce runs the real selection on fresh objects and returns the selected ids and the returned count.
func realReduce(l c39Layout, seed int64) (map[string]bool, int) {
	sns := minersc.NewSimpleNodes()
	prev := poolSet{}
	for _, c := range l.Cands {
		sns[c.ID] = &minersc.SimpleNode{Provider: provider.Provider{ID: c.ID}, TotalStaked: currency.Coin(c.Stake)}
		if c.Prev {
			prev[c.ID] = true
		}
	}
	var pooler minersc.Pooler
	if len(prev) > 0 || seed%2 == 0 {
		pooler = prev // an empty previous set and a nil one must behave alike
	}
	ret := minersc.VerifUnitchainReduce(sns, l.Limit, l.XP, seed, pooler)
	out := map[string]bool{}
	for id, sn := range sns {
		if sn == nil || sn.ID != id {
			out["CORRUPT:"+id] = true
			continue
		}
		out[id] = true
	}
	return out, ret
}

// c39Ref holds what the statement fixes about a layout (independent of ids and seed).
type c39Ref struct {
	size      int   // min(limit, candidates)
	req       int   // previous-set members that must be included
	ps        int64 // stake of the req-th previous member (pinned cut-off), valid if req > 0
	prevAbove int   // previous members with stake > ps
	prevAtPs  int   // previous members with stake == ps
}

func c39Reference(l c39Layout) c39Ref {
	n := len(l.Cands)
	r := c39Ref{size: l.Limit}
	if n < r.size {
		r.size = n
	}
	var prevStakes []int64
	for _, c := range l.Cands {
		if c.Prev {
			prevStakes = append(prevStakes, c.Stake)
		}
	}
	sort.Slice(prevStakes, func(i, j int) bool { return prevStakes[i] > prevStakes[j] })
	r.req = int(math.Ceil(l.XP * float64(r.size)))
	if len(prevStakes) < r.req {
		r.req = len(prevStakes)
	}
	if r.req > 0 {
		r.ps = prevStakes[r.req-1]
		for _, s := range prevStakes {
			if s > r.ps {
				r.prevAbove++
			} else if s == r.ps {
				r.prevAtPs++
			}
		}
	}
	return r
}

func (l c39Layout) String() string {
	var s []string
	for _, c := range l.Cands {
		t := "new"
		if c.Prev {
			t = "prev"
		}
		s = append(s, fmt.Sprintf("%s:%d:%s", short(c.ID), c.Stake, t))
	}
	return fmt.Sprintf("limit=%d x=%.2f [%s]", l.Limit, l.XP, strings.Join(s, " "))
}

// judgeOne checks size, membership, pinned members and stake order of one result.
func c39JudgeOne(run *mon.Run, l c39Layout, ref c39Ref, seed int64, out map[string]bool, ret int) {
	replay := map[string]interface{}{"layout": l, "seed": seed, "selected": keysOf(out)}
	run.Count("size_exact", 1)
	if len(out) != ref.size || ret != ref.size {
		violate(run, "C39:wrong-size", fmt.Sprintf("%v seed=%d: selected %d (returned %d), expected min(limit, candidates)=%d", l, seed, len(out), ret, ref.size), replay)
	}
	byID := map[string]c39Cand{}
	for _, c := range l.Cands {
		byID[c.ID] = c
	}
	run.Count("subset_of_candidates", 1)
	for id := range out {
		if _, ok := byID[id]; !ok {
			violate(run, "C39:selected-non-candidate", fmt.Sprintf("%v seed=%d: %s", l, seed, id), replay)
			return
		}
	}
	// required previous-set members with the highest stakes
	if ref.req > 0 {
		run.Count("pinned_previous_members", 1)
		inAtOrAbove := 0
		for _, c := range l.Cands {
			if !c.Prev {
				continue
			}
			if c.Stake > ref.ps && !out[c.ID] {
				violate(run, "C39:top-previous-member-missing", fmt.Sprintf("%v seed=%d: previous member %s (stake %d > pinned cut-off %d) not selected", l, seed, short(c.ID), c.Stake, ref.ps), replay)
			}
			if c.Stake >= ref.ps && out[c.ID] {
				inAtOrAbove++
			}
		}
		if inAtOrAbove < ref.req {
			violate(run, "C39:too-few-previous-members", fmt.Sprintf("%v seed=%d: %d previous members with stake >= %d selected, %d required", l, seed, inAtOrAbove, ref.ps, ref.req), replay)
		}
	}
	// otherwise higher stake first: whoever is selected below the best excluded stake must be one of the required previous members
	run.Count("stake_order", 1)
	maxExcluded := int64(-1)
	for _, c := range l.Cands {
		if !out[c.ID] && c.Stake > maxExcluded {
			maxExcluded = c.Stake
		}
	}
	low := 0
	for id := range out {
		c := byID[id]
		if c.Stake < maxExcluded {
			low++
			if !(c.Prev && ref.req > 0 && c.Stake >= ref.ps) {
				violate(run, "C39:lower-stake-preferred", fmt.Sprintf("%v seed=%d: %s (stake %d) selected although a candidate with stake %d is excluded and it is not a required previous member", l, seed, short(id), c.Stake, maxExcluded), replay)
			}
		}
	}
	if low > ref.req {
		violate(run, "C39:lower-stake-preferred", fmt.Sprintf("%v seed=%d: %d selected below the best excluded stake %d but only %d previous members are required", l, seed, low, maxExcluded, ref.req), replay)
	}
}

func keysOf(m map[string]bool) []string {
	var k []string
	for id := range m {
		k = append(k, short(id))
	}
	sort.Strings(k)
	return k
}

func sameSet(a, b map[string]bool) bool {
	if len(a) != len(b) {
		return false
	}
	for k := range a {
		if !b[k] {
			return false
		}
	}
	return true
}

func c39RandID(r *mon.Rand) string {
	return fmt.Sprintf("%016x%016x%016x%016x", r.U64(), r.U64(), r.U64(), r.U64())
}

func runC39(run *mon.Run, thorough bool) {
	rnd := mon.NewRand(mon.Seed()).Fork("C39")
	run.Assume("the required number of previous-set members is ceil(x_percent * min(limit, candidates)) capped by the previous members present (the formula of the contract; x_percent in [0,1])")
	run.Assume("reduceShardersList (which reads the previous magic block from a state context and calls reduce) is not driven; reduce itself and DKGMinerNodes.reduceNodes are")
	c39dkgPart(run, mon.NewRand(mon.Seed()).Fork("C39-dkg"), thorough)

	nSeeds := 1500
	nRandom := 260
	if thorough {
		nSeeds = 6000
		nRandom = 4000
	}

	var layouts []c39Layout
	ids := func(n int) []string {
		out := make([]string, n)
		for i := range out {
			out[i] = c39RandID(rnd)
		}
		return out
	}
	// --- systematic small layouts, smallest first (so that the first witness of a class is minimal)
	for n := 2; n <= 5; n++ { // all stakes equal, no previous set: the tie class starts at the top of the list
		for limit := 1; limit < n; limit++ {
			id := ids(n)
			l := c39Layout{Limit: limit, XP: 0, Note: "all stakes equal, no previous set"}
			for i := 0; i < n; i++ {
				l.Cands = append(l.Cands, c39Cand{id[i], 100, false})
			}
			layouts = append(layouts, l)
		}
	}
	for n := 3; n <= 6; n++ { // one richer candidate, then a tie: the tie class starts below the top
		for limit := 2; limit < n; limit++ {
			id := ids(n)
			l := c39Layout{Limit: limit, XP: 0, Note: "one richer candidate above the tie"}
			l.Cands = append(l.Cands, c39Cand{id[0], 500, false})
			for i := 1; i < n; i++ {
				l.Cands = append(l.Cands, c39Cand{id[i], 100, false})
			}
			layouts = append(layouts, l)
		}
	}
	{ // previous members tied at the pinned cut-off
		id := ids(2)
		layouts = append(layouts, c39Layout{Limit: 1, XP: 1, Note: "two tied previous members, one slot",
			Cands: []c39Cand{{id[0], 100, true}, {id[1], 100, true}}})
		id = ids(3)
		layouts = append(layouts, c39Layout{Limit: 2, XP: 0.5, Note: "two tied previous members, one pinned slot, richer newcomer",
			Cands: []c39Cand{{id[0], 100, true}, {id[1], 100, true}, {id[2], 500, false}}})
		id = ids(5)
		layouts = append(layouts, c39Layout{Limit: 3, XP: 0.35, Note: "tied previous members and a tie among newcomers below a richer one",
			Cands: []c39Cand{{id[0], 100, true}, {id[1], 100, true}, {id[2], 500, false}, {id[3], 300, false}, {id[4], 300, false}}})
	}
	nSystematic := len(layouts)
	// --- random layouts
	xps := []float64{0, 0.25, 0.35, 0.5, 0.7, 0.75, 1}
	for i := 0; i < nRandom; i++ {
		n := 1 + rnd.Intn(24)
		if thorough && rnd.Chance(0.1) {
			n = 25 + rnd.Intn(60)
		}
		levels := 1 + rnd.Intn(5) // few distinct stake levels => many ties
		if rnd.Chance(0.25) {
			levels = n + 5
		}
		l := c39Layout{XP: xps[rnd.Intn(len(xps))]}
		switch rnd.Intn(6) {
		case 0:
			l.Limit = n + rnd.Intn(3) // no reduction needed
		case 1:
			l.Limit = 1
		default:
			l.Limit = 1 + rnd.Intn(n)
		}
		if rnd.Chance(0.03) {
			l.Limit = 0
		}
		pPrev := float64(rnd.Intn(5)) / 4
		for j := 0; j < n; j++ {
			l.Cands = append(l.Cands, c39Cand{c39RandID(rnd), int64(rnd.Intn(levels)) * 1000, rnd.Chance(pPrev)})
		}
		layouts = append(layouts, l)
	}
	run.Set("layouts_systematic", nSystematic)
	run.Set("layouts_random", nRandom)
	run.Set("seeds_per_layout", nSeeds)

	seedRnd := rnd.Fork("seeds")
	seeds := make([]int64, nSeeds)
	for i := range seeds {
		seeds[i] = int64(seedRnd.U64())
	}
	seeds[0], seeds[1], seeds[2] = 0, 1, -1

	for li, l := range layouts {
		checkpoint(run)
		ref := c39Reference(l)
		n := len(l.Cands)
		byID := map[string]c39Cand{}
		for _, c := range l.Cands {
			byID[c.ID] = c
		}
		// (A) full judgement + determinism on the first seeds
		for si := 0; si < 6 && si < nSeeds; si++ {
			out, ret := realReduce(l, seeds[si])
			run.Eval(1)
			c39JudgeOne(run, l, ref, seeds[si], out, ret)
			run.Count("deterministic_same_input", 1)
			for rep := 0; rep < 2; rep++ {
				// same input, candidates presented in another order (the contract holds them in a map)
				l2 := l
				l2.Cands = append([]c39Cand{}, l.Cands...)
				rnd.Shuffle(len(l2.Cands), func(i, j int) { l2.Cands[i], l2.Cands[j] = l2.Cands[j], l2.Cands[i] })
				out2, _ := realReduce(l2, seeds[si])
				if !sameSet(out, out2) {
					violate(run, "C39:same-input-different-output", fmt.Sprintf("%v seed=%d: %v vs %v", l, seeds[si], keysOf(out), keysOf(out2)),
						map[string]interface{}{"layout": l, "seed": seeds[si]})
				}
			}
			// (B) renaming ids through a random bijection keeps the number selected per stake level
			run.Count("rename_keeps_stake_profile", 1)
			ren := c39Layout{Limit: l.Limit, XP: l.XP}
			back := map[string]string{}
			for _, c := range l.Cands {
				nid := c39RandID(rnd)
				back[nid] = c.ID
				ren.Cands = append(ren.Cands, c39Cand{nid, c.Stake, c.Prev})
			}
			outR, retR := realReduce(ren, seeds[si])
			c39JudgeOne(run, ren, ref, seeds[si], outR, retR)
			prof := func(o map[string]bool, m map[string]c39Cand) string {
				cnt := map[int64]int{}
				for id := range o {
					cnt[m[id].Stake]++
				}
				var ks []int64
				for k := range cnt {
					ks = append(ks, k)
				}
				sort.Slice(ks, func(i, j int) bool { return ks[i] < ks[j] })
				var s []string
				for _, k := range ks {
					s = append(s, fmt.Sprintf("%d:%d", k, cnt[k]))
				}
				return strings.Join(s, ",")
			}
			renByID := map[string]c39Cand{}
			for _, c := range ren.Cands {
				renByID[c.ID] = c
			}
			if prof(out, byID) != prof(outR, renByID) {
				violate(run, "C39:selection-depends-on-id-outside-tie", fmt.Sprintf("%v seed=%d: selected per stake level %s, after renaming ids %s", l, seeds[si], prof(out, byID), prof(outR, renByID)),
					map[string]interface{}{"layout": l, "renamed": ren, "seed": seeds[si]})
			}
		}
		if ref.size >= n || ref.size == 0 {
			run.Count("layouts_without_choice", 1)
			continue
		}
		// (C) over many seeds: inside a class of interchangeable candidates (same stake, same previous-set membership) nobody is preferred
		count := map[string]int{}
		for _, sd := range seeds {
			out, _ := realReduce(l, sd)
			run.Eval(1)
			if len(out) != ref.size {
				violate(run, "C39:wrong-size", fmt.Sprintf("%v seed=%d: selected %d expected %d", l, sd, len(out), ref.size), map[string]interface{}{"layout": l, "seed": sd})
			}
			for id := range out {
				count[id]++
			}
		}
		type clsKey struct {
			stake int64
			prev  bool
		}
		classes := map[clsKey][]string{}
		for _, c := range l.Cands {
			k := clsKey{c.Stake, c.Prev}
			classes[k] = append(classes[k], c.ID)
		}
		var keys []clsKey
		for k := range classes {
			keys = append(keys, k)
		}
		sort.Slice(keys, func(i, j int) bool {
			if keys[i].stake != keys[j].stake {
				return keys[i].stake > keys[j].stake
			}
			return keys[i].prev && !keys[j].prev
		})
		tieShape := ""
		for _, k := range keys {
			members := classes[k]
			sort.Strings(members)
			if len(members) < 2 {
				continue
			}
			total := 0
			for _, id := range members {
				total += count[id]
			}
			if total == 0 || total == len(members)*nSeeds {
				continue // the whole class is always in or always out: no choice inside it
			}
			run.Count("tie_class_frequency", 1)
			p := float64(total) / float64(len(members)*nSeeds)
			bound := 6*math.Sqrt(float64(nSeeds)*p*(1-p)) + 1
			mean := p * float64(nSeeds)
			worst, worstID := 0.0, ""
			for _, id := range members {
				if d := math.Abs(float64(count[id]) - mean); d > worst {
					worst, worstID = d, id
				}
			}
			// where does the class sit?
			atPinned := k.prev && ref.req > 0 && k.stake == ref.ps && ref.prevAtPs > ref.req-ref.prevAbove
			higher := 0 // non-pinned candidates with a higher stake (0 => the tie class is at the top of the contested list)
			for _, c := range l.Cands {
				if c.Stake > k.stake && !(c.Prev && ref.req > 0 && c.Stake >= ref.ps) {
					higher++
				}
			}
			tieShape += fmt.Sprintf("|m=%d prev=%v pinned=%v top=%v", len(members), k.prev, atPinned, higher == 0)
			if worst > bound {
				var freq []string
				for i, id := range members {
					freq = append(freq, fmt.Sprintf("#%d %s:%d", i, short(id), count[id]))
				}
				sig := "C39:tie-choice-depends-on-id"
				if atPinned {
					sig = "C39:pinned-tie-choice-depends-on-id"
					run.Count("tie_class_skewed_at_pinned_cut_off", 1)
				} else if higher == 0 {
					run.Count("tie_class_skewed_at_top_of_contested_list", 1)
				} else {
					run.Count("tie_class_skewed_below_top_of_contested_list", 1)
				}
				violate(run, sig, fmt.Sprintf("%v: over %d seeds the %d interchangeable candidates with stake %d (previous=%v), listed in id order, were selected [%s] times; expected about %.0f each (+-%.0f); %s deviates by %.0f",
					l, nSeeds, len(members), k.stake, k.prev, strings.Join(freq, " "), mean, bound, short(worstID), worst),
					map[string]interface{}{"layout": l, "seeds": nSeeds, "class_stake": k.stake, "class_prev": k.prev, "counts_in_id_order": freq, "tie_class_at_top_of_contested_list": higher == 0, "at_pinned_cut_off": atPinned})
			} else {
				run.Count("tie_class_uniform", 1)
			}
		}
		if tieShape != "" {
			run.Distinct(fmt.Sprintf("n=%d limit=%d req=%d%s", n, l.Limit, ref.req, tieShape))
		} else {
			run.Count("layouts_without_tie_at_cut_off", 1)
		}
		if li == 0 || li == nSystematic-1 || li == nSystematic+3 {
			var freq []string
			for _, c := range l.Cands {
				freq = append(freq, fmt.Sprintf("%s:%d", short(c.ID), count[c.ID]))
			}
			run.Sample(map[string]interface{}{"layout": l.String(), "selected_counts_over_seeds": freq, "seeds": nSeeds})
		}
	}
}

// ---------------------------------------------------------------------------------------------------------------------
// The selection as the contract runs it for miners: DKGMinerNodes.reduceNodes (widdleDKGMinersForShare with final=false,
// createMagicBlockForWait and adjustViewChange with final=true). The DKG miners list is created at DKG start with
// calculateTKN, which copies min_n / max_n / percentages of that moment into the list; the owner may change max_n while
// the DKG is running, candidates may drop out between the phases. Whatever happened before, the final step has to return
// exactly min(max_n in force, candidates) nodes, chosen by the C39 rules.

type c39dkgCase struct {
	Cands      []c39Cand `json:"candidates_at_selection"`
	AtStart    int       `json:"candidates_at_dkg_start"`
	MaxNStart  int       `json:"max_n_at_dkg_start"`
	MaxNLive   int       `json:"max_n_at_selection"`
	MinN       int       `json:"min_n"`
	XP         float64   `json:"x_percent"`
	Final      bool      `json:"final"`
	Seed       int64     `json:"previous_magic_block_seed"`
	Stored     bool      `json:"list_stored_and_read_back"`
	PrevFromGN bool      `json:"previous_magic_block_kept_in_global_node"`
	Departed   int       `json:"previous_members_not_among_candidates"`
}

func (k c39dkgCase) String() string {
	return fmt.Sprintf("DKG started with max_n=%d and %d candidates, max_n=%d at the selection (final=%v), %v",
		k.MaxNStart, k.AtStart, k.MaxNLive, k.Final, c39Layout{Cands: k.Cands, Limit: k.MaxNLive, XP: k.XP})
}

// c39dkgRun drives the real code for one case; returns the ids left in the DKG list and the error of reduceNodes.
func c39dkgRun(k c39dkgCase, extra []c39Cand) (map[string]bool, error) {
	gn := &minersc.GlobalNode{MaxN: k.MaxNStart, MinN: k.MinN, TPercent: 0.66, KPercent: 0.75, XPercent: k.XP}
	// previous magic block: the previous members among the candidates and some that left
	prevMB := block.NewMagicBlock()
	prevMB.Miners = node.NewPool(node.NodeTypeMiner)
	prevMB.Sharders = node.NewPool(node.NodeTypeSharder)
	all := append(append([]c39Cand{}, k.Cands...), extra...)
	for _, c := range all {
		if c.Prev {
			prevMB.Miners.NodesMap[c.ID] = node.Provider()
		}
	}
	for i := 0; i < k.Departed; i++ {
		prevMB.Miners.NodesMap[fmt.Sprintf("%064x", i+1)] = node.Provider()
	}
	lfmb := &block.Block{}
	lfmb.MagicBlock = prevMB
	lfmb.RoundRandomSeed = k.Seed
	balances := cstate.NewStateContext(nil, nil, nil, nil, func() *block.Block { return lfmb }, nil, nil, nil, nil)
	if k.PrevFromGN {
		gn.PrevMagicBlock = prevMB
	}
	// DKG start: every candidate of that moment, limits copied into the list
	sns := minersc.NewSimpleNodes()
	for _, c := range all {
		sns[c.ID] = &minersc.SimpleNode{Provider: provider.Provider{ID: c.ID}, TotalStaked: currency.Coin(c.Stake)}
	}
	d := minersc.VerifUnitchainDKGStart(gn, len(all), sns)
	if k.Stored { // the list lives in the state between the phases
		raw := d.Encode()
		d = minersc.NewDKGMinerNodes()
		if err := d.Decode(raw); err != nil {
			panic(fmt.Sprintf("DKGMinerNodes decode: %v", err))
		}
	}
	// candidates that did not finish a phase are dropped by the contract before the selection
	for _, c := range extra {
		delete(d.SimpleNodes, c.ID)
	}
	// the owner's settings update in between
	gn.MaxN = k.MaxNLive
	err := minersc.VerifUnitchainReduceNodes(d, k.Final, gn, balances)
	out := map[string]bool{}
	for id, sn := range d.SimpleNodes {
		if sn == nil || sn.ID != id {
			out["CORRUPT:"+id] = true
			continue
		}
		out[id] = true
	}
	return out, err
}

func c39dkgRel(a, b int) string {
	switch {
	case a < b:
		return "<"
	case a > b:
		return ">"
	}
	return "="
}

func c39dkgPart(run *mon.Run, rnd *mon.Rand, thorough bool) {
	run.Assume("the limit of a miner selection is the max_n in force when the selection is made (the value the contract passes to the selection), not the copy taken into the DKG list at DKG start; x_percent is not changed during a DKG here")
	xps := []float64{0, 0.25, 0.35, 0.5, 0.7, 1}
	judge := func(k c39dkgCase, extra []c39Cand) {
		run.Eval(1)
		n := len(k.Cands)
		hasPrev := false
		for _, c := range k.Cands {
			hasPrev = hasPrev || c.Prev
		}
		out, err := c39dkgRun(k, extra)
		replay := map[string]interface{}{"case": k, "dropped_before_selection": extra, "left_in_list": keysOf(out)}
		if n < k.MinN || !hasPrev {
			// the contract refuses (too few miners / nobody of the previous set): no selection is made
			run.Count("dkg_obs_refused_no_selection", 1)
			if err == nil {
				run.Count("dkg_obs_refusal_expected_but_accepted", 1)
			}
			return
		}
		if err != nil {
			run.Count("dkg_obs_unexpected_refusal", 1)
			return
		}
		cls := fmt.Sprintf("dkg final=%v max_n live%sstart, n%slive n%sstart dropped=%v", k.Final, c39dkgRel(k.MaxNLive, k.MaxNStart), c39dkgRel(n, k.MaxNLive), c39dkgRel(n, k.MaxNStart), len(extra) > 0)
		if !k.Final {
			// the check of the share phase selects nobody: every candidate stays
			run.Count("dkg_nonfinal_keeps_candidates", 1)
			if len(out) != n {
				violate(run, "C39:non-final-check-changes-candidates", fmt.Sprintf("%v: %d of %d candidates left after the non-final check", k, len(out), n), replay)
			}
			run.Distinct(cls)
			return
		}
		l := c39Layout{Cands: k.Cands, Limit: k.MaxNLive, XP: k.XP}
		ref := c39Reference(l)
		run.Count("dkg_size_exact", 1)
		switch {
		case k.MaxNLive < k.MaxNStart && n > k.MaxNLive && n <= k.MaxNStart:
			run.Count("dkg_max_n_lowered_candidates_between_the_two_limits", 1)
		case k.MaxNLive < k.MaxNStart:
			run.Count("dkg_max_n_lowered_other", 1)
		case k.MaxNLive > k.MaxNStart && n > k.MaxNStart && n <= k.MaxNLive:
			run.Count("dkg_max_n_raised_candidates_between_the_two_limits", 1)
		case k.MaxNLive > k.MaxNStart:
			run.Count("dkg_max_n_raised_other", 1)
		default:
			run.Count("dkg_max_n_unchanged", 1)
		}
		if len(out) != ref.size {
			violate(run, "C39:wrong-size", fmt.Sprintf("%v: reduceNodes left %d miners, expected min(max_n in force, candidates) = min(%d, %d) = %d", k, len(out), k.MaxNLive, n, ref.size), replay)
		}
		c39JudgeOne(run, l, ref, k.Seed, out, len(out))
		// identical for identical inputs
		run.Count("dkg_deterministic_same_input", 1)
		k2 := k
		k2.Cands = append([]c39Cand{}, k.Cands...)
		rnd.Shuffle(len(k2.Cands), func(i, j int) { k2.Cands[i], k2.Cands[j] = k2.Cands[j], k2.Cands[i] })
		if out2, _ := c39dkgRun(k2, extra); !sameSet(out, out2) {
			violate(run, "C39:same-input-different-output", fmt.Sprintf("%v: %v vs %v", k, keysOf(out), keysOf(out2)), replay)
		}
		run.Distinct(cls + fmt.Sprintf(" req=%d", ref.req))
	}
	mkCands := func(n, levels int, nPrev int) []c39Cand {
		cs := make([]c39Cand, n)
		for i := range cs {
			cs[i] = c39Cand{c39RandID(rnd), int64(1+rnd.Intn(levels)) * 1000, false}
		}
		for _, i := range randPerm(rnd, n) {
			if nPrev > 0 {
				cs[i].Prev = true
				nPrev--
			}
		}
		return cs
	}
	// systematic: every (max_n at start, max_n at selection, candidates) in a small box, final and not, distinct stakes and ties
	box := 9
	if thorough {
		box = 14
	}
	sampled := 0
	for start := 1; start <= box; start++ {
		for live := 1; live <= box; live++ {
			checkpoint(run)
			for n := 1; n <= box+2; n++ {
				for variant := 0; variant < 4; variant++ {
					levels := 100000 // all stakes distinct (almost surely)
					if variant%2 == 1 {
						levels = 3
					}
					nPrev := 1 + rnd.Intn(n)
					if nPrev > 4 && rnd.Chance(0.7) {
						nPrev = 1 + rnd.Intn(4)
					}
					k := c39dkgCase{Cands: mkCands(n, levels, nPrev), MaxNStart: start, MaxNLive: live, MinN: 1, XP: xps[rnd.Intn(len(xps))],
						Final: variant < 3, Seed: int64(rnd.U64()), Stored: rnd.Chance(0.5), PrevFromGN: rnd.Chance(0.5), Departed: rnd.Intn(3)}
					var extra []c39Cand
					if rnd.Chance(0.4) {
						extra = mkCands(1+rnd.Intn(4), levels, rnd.Intn(2))
					}
					k.AtStart = n + len(extra)
					judge(k, extra)
					if sampled < 2 && k.Final && live < start && n > live && n <= start && n >= 4 {
						sampled++
						out, _ := c39dkgRun(k, extra)
						run.Sample(map[string]interface{}{"dkg_case": k.String(), "selected": keysOf(out)})
					}
				}
			}
		}
	}
	// seeded larger cases: limits and candidate counts around each other, refusals included
	nRandom := 1500
	if thorough {
		nRandom = 20000
	}
	for i := 0; i < nRandom; i++ {
		checkpoint(run)
		start := 2 + rnd.Intn(30)
		live := start
		switch rnd.Intn(3) {
		case 0:
			live = 1 + rnd.Intn(start)
		case 1:
			live = start + rnd.Intn(10)
		}
		anchors := []int{live - 1, live, live + 1, start - 1, start, start + 1, (live + start) / 2, start + live, 1 + rnd.Intn(45)}
		n := anchors[rnd.Intn(len(anchors))]
		if n < 1 {
			n = 1
		}
		levels := 1 + rnd.Intn(5)
		if rnd.Chance(0.3) {
			levels = 100000
		}
		nPrev := rnd.Intn(n + 1)
		if rnd.Chance(0.9) && nPrev == 0 {
			nPrev = 1
		}
		k := c39dkgCase{Cands: mkCands(n, levels, nPrev), MaxNStart: start, MaxNLive: live, MinN: 1 + rnd.Intn(3), XP: xps[rnd.Intn(len(xps))],
			Final: rnd.Chance(0.8), Seed: int64(rnd.U64()), Stored: rnd.Chance(0.5), PrevFromGN: rnd.Chance(0.5), Departed: rnd.Intn(4)}
		var extra []c39Cand
		if rnd.Chance(0.4) {
			extra = mkCands(1+rnd.Intn(6), levels, rnd.Intn(3))
		}
		k.AtStart = n + len(extra)
		judge(k, extra)
	}
}
