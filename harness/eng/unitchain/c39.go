package unitchain

import (
	"fmt"
	"math"
	"sort"
	"strings"

	"verifh/mon"

	"0chain.net/smartcontract/minersc"
	"0chain.net/smartcontract/provider"
	"github.com/0chain/common/core/currency"
)

type c39Cand struct {
	ID    string `json:"id"`
	Stake int64  `json:"stake"`
	Prev  bool   `json:"prev"`
}

type c39Layout struct {
	Cands []c39Cand `json:"candidates"`
	Limit int       `json:"limit"`
	XP    float64   `json:"x_percent"`
	Note  string    `json:"note,omitempty"`
}

type poolSet map[string]bool

func (p poolSet) HasNode(id string) bool { return p[id] }

// realReduce runs the real selection on fresh objects and returns the selected ids and the returned count.
func realReduce(l c39Layout, seed int64) (map[string]bool, int) {
	sns := minersc.NewSimpleNodes()
	prev := poolSet{}
	for _, c := range l.Cands {
		sns[c.ID] = &minersc.SimpleNode{Provider: provider.Provider{ID: c.ID}, TotalStaked: currency.Coin(c.Stake)}
		if c.Prev {
			prev[c.ID] = true
		}
	}
	var pooler minersc.Pooler
	if len(prev) > 0 || seed%2 == 0 {
		pooler = prev // an empty previous set and a nil one must behave alike
	}
	ret := minersc.VerifUnitchainReduce(sns, l.Limit, l.XP, seed, pooler)
	out := map[string]bool{}
	for id, sn := range sns {
		if sn == nil || sn.ID != id {
			out["CORRUPT:"+id] = true
			continue
		}
		out[id] = true
	}
	return out, ret
}

// c39Ref holds what the statement fixes about a layout (independent of ids and seed).
type c39Ref struct {
	size      int   // min(limit, candidates)
	req       int   // previous-set members that must be included
	ps        int64 // stake of the req-th previous member (pinned cut-off), valid if req > 0
	prevAbove int   // previous members with stake > ps
	prevAtPs  int   // previous members with stake == ps
}

func c39Reference(l c39Layout) c39Ref {
	n := len(l.Cands)
	r := c39Ref{size: l.Limit}
	if n < r.size {
		r.size = n
	}
	var prevStakes []int64
	for _, c := range l.Cands {
		if c.Prev {
			prevStakes = append(prevStakes, c.Stake)
		}
	}
	sort.Slice(prevStakes, func(i, j int) bool { return prevStakes[i] > prevStakes[j] })
	r.req = int(math.Ceil(l.XP * float64(r.size)))
	if len(prevStakes) < r.req {
		r.req = len(prevStakes)
	}
	if r.req > 0 {
		r.ps = prevStakes[r.req-1]
		for _, s := range prevStakes {
			if s > r.ps {
				r.prevAbove++
			} else if s == r.ps {
				r.prevAtPs++
			}
		}
	}
	return r
}

func (l c39Layout) String() string {
	var s []string
	for _, c := range l.Cands {
		t := "new"
		if c.Prev {
			t = "prev"
		}
		s = append(s, fmt.Sprintf("%s:%d:%s", short(c.ID), c.Stake, t))
	}
	return fmt.Sprintf("limit=%d x=%.2f [%s]", l.Limit, l.XP, strings.Join(s, " "))
}

// judgeOne checks size, membership, pinned members and stake order of one result.
func c39JudgeOne(run *mon.Run, l c39Layout, ref c39Ref, seed int64, out map[string]bool, ret int) {
	replay := map[string]interface{}{"layout": l, "seed": seed, "selected": keysOf(out)}
	run.Count("size_exact", 1)
	if len(out) != ref.size || ret != ref.size {
		violate(run, "C39:wrong-size", fmt.Sprintf("%v seed=%d: selected %d (returned %d), expected min(limit, candidates)=%d", l, seed, len(out), ret, ref.size), replay)
	}
	byID := map[string]c39Cand{}
	for _, c := range l.Cands {
		byID[c.ID] = c
	}
	run.Count("subset_of_candidates", 1)
	for id := range out {
		if _, ok := byID[id]; !ok {
			violate(run, "C39:selected-non-candidate", fmt.Sprintf("%v seed=%d: %s", l, seed, id), replay)
			return
		}
	}
	// required previous-set members with the highest stakes
	if ref.req > 0 {
		run.Count("pinned_previous_members", 1)
		inAtOrAbove := 0
		for _, c := range l.Cands {
			if !c.Prev {
				continue
			}
			if c.Stake > ref.ps && !out[c.ID] {
				violate(run, "C39:top-previous-member-missing", fmt.Sprintf("%v seed=%d: previous member %s (stake %d > pinned cut-off %d) not selected", l, seed, short(c.ID), c.Stake, ref.ps), replay)
			}
			if c.Stake >= ref.ps && out[c.ID] {
				inAtOrAbove++
			}
		}
		if inAtOrAbove < ref.req {
			violate(run, "C39:too-few-previous-members", fmt.Sprintf("%v seed=%d: %d previous members with stake >= %d selected, %d required", l, seed, inAtOrAbove, ref.ps, ref.req), replay)
		}
	}
	// otherwise higher stake first: whoever is selected below the best excluded stake must be one of the required previous members
	run.Count("stake_order", 1)
	maxExcluded := int64(-1)
	for _, c := range l.Cands {
		if !out[c.ID] && c.Stake > maxExcluded {
			maxExcluded = c.Stake
		}
	}
	low := 0
	for id := range out {
		c := byID[id]
		if c.Stake < maxExcluded {
			low++
			if !(c.Prev && ref.req > 0 && c.Stake >= ref.ps) {
				violate(run, "C39:lower-stake-preferred", fmt.Sprintf("%v seed=%d: %s (stake %d) selected although a candidate with stake %d is excluded and it is not a required previous member", l, seed, short(id), c.Stake, maxExcluded), replay)
			}
		}
	}
	if low > ref.req {
		violate(run, "C39:lower-stake-preferred", fmt.Sprintf("%v seed=%d: %d selected below the best excluded stake %d but only %d previous members are required", l, seed, low, maxExcluded, ref.req), replay)
	}
}

func keysOf(m map[string]bool) []string {
	var k []string
	for id := range m {
		k = append(k, short(id))
	}
	sort.Strings(k)
	return k
}

func sameSet(a, b map[string]bool) bool {
	if len(a) != len(b) {
		return false
	}
	for k := range a {
		if !b[k] {
			return false
		}
	}
	return true
}

func c39RandID(r *mon.Rand) string {
	return fmt.Sprintf("%016x%016x%016x%016x", r.U64(), r.U64(), r.U64(), r.U64())
}

func runC39(run *mon.Run, thorough bool) {
	rnd := mon.NewRand(mon.Seed()).Fork("C39")
	run.Assume("the required number of previous-set members is ceil(x_percent * min(limit, candidates)) capped by the previous members present (the formula of the contract; x_percent in [0,1])")
	run.Assume("reduceShardersList/reduceNodes (which read the previous magic block from a state context and call reduce) are not driven; reduce itself is")

	nSeeds := 1500
	nRandom := 260
	if thorough {
		nSeeds = 6000
		nRandom = 4000
	}

	var layouts []c39Layout
	ids := func(n int) []string {
		out := make([]string, n)
		for i := range out {
			out[i] = c39RandID(rnd)
		}
		return out
	}
	// --- systematic small layouts, smallest first (so that the first witness of a class is minimal)
	for n := 2; n <= 5; n++ { // all stakes equal, no previous set: the tie class starts at the top of the list
		for limit := 1; limit < n; limit++ {
			id := ids(n)
			l := c39Layout{Limit: limit, XP: 0, Note: "all stakes equal, no previous set"}
			for i := 0; i < n; i++ {
				l.Cands = append(l.Cands, c39Cand{id[i], 100, false})
			}
			layouts = append(layouts, l)
		}
	}
	for n := 3; n <= 6; n++ { // one richer candidate, then a tie: the tie class starts below the top
		for limit := 2; limit < n; limit++ {
			id := ids(n)
			l := c39Layout{Limit: limit, XP: 0, Note: "one richer candidate above the tie"}
			l.Cands = append(l.Cands, c39Cand{id[0], 500, false})
			for i := 1; i < n; i++ {
				l.Cands = append(l.Cands, c39Cand{id[i], 100, false})
			}
			layouts = append(layouts, l)
		}
	}
	{ // previous members tied at the pinned cut-off
		id := ids(2)
		layouts = append(layouts, c39Layout{Limit: 1, XP: 1, Note: "two tied previous members, one slot",
			Cands: []c39Cand{{id[0], 100, true}, {id[1], 100, true}}})
		id = ids(3)
		layouts = append(layouts, c39Layout{Limit: 2, XP: 0.5, Note: "two tied previous members, one pinned slot, richer newcomer",
			Cands: []c39Cand{{id[0], 100, true}, {id[1], 100, true}, {id[2], 500, false}}})
		id = ids(5)
		layouts = append(layouts, c39Layout{Limit: 3, XP: 0.35, Note: "tied previous members and a tie among newcomers below a richer one",
			Cands: []c39Cand{{id[0], 100, true}, {id[1], 100, true}, {id[2], 500, false}, {id[3], 300, false}, {id[4], 300, false}}})
	}
	nSystematic := len(layouts)
	// --- random layouts
	xps := []float64{0, 0.25, 0.35, 0.5, 0.7, 0.75, 1}
	for i := 0; i < nRandom; i++ {
		n := 1 + rnd.Intn(24)
		if thorough && rnd.Chance(0.1) {
			n = 25 + rnd.Intn(60)
		}
		levels := 1 + rnd.Intn(5) // few distinct stake levels => many ties
		if rnd.Chance(0.25) {
			levels = n + 5
		}
		l := c39Layout{XP: xps[rnd.Intn(len(xps))]}
		switch rnd.Intn(6) {
		case 0:
			l.Limit = n + rnd.Intn(3) // no reduction needed
		case 1:
			l.Limit = 1
		default:
			l.Limit = 1 + rnd.Intn(n)
		}
		if rnd.Chance(0.03) {
			l.Limit = 0
		}
		pPrev := float64(rnd.Intn(5)) / 4
		for j := 0; j < n; j++ {
			l.Cands = append(l.Cands, c39Cand{c39RandID(rnd), int64(rnd.Intn(levels)) * 1000, rnd.Chance(pPrev)})
		}
		layouts = append(layouts, l)
	}
	run.Set("layouts_systematic", nSystematic)
	run.Set("layouts_random", nRandom)
	run.Set("seeds_per_layout", nSeeds)

	seedRnd := rnd.Fork("seeds")
	seeds := make([]int64, nSeeds)
	for i := range seeds {
		seeds[i] = int64(seedRnd.U64())
	}
	seeds[0], seeds[1], seeds[2] = 0, 1, -1

	for li, l := range layouts {
		checkpoint(run)
		ref := c39Reference(l)
		n := len(l.Cands)
		byID := map[string]c39Cand{}
		for _, c := range l.Cands {
			byID[c.ID] = c
		}
		// (A) full judgement + determinism on the first seeds
		for si := 0; si < 6 && si < nSeeds; si++ {
			out, ret := realReduce(l, seeds[si])
			run.Eval(1)
			c39JudgeOne(run, l, ref, seeds[si], out, ret)
			run.Count("deterministic_same_input", 1)
			for rep := 0; rep < 2; rep++ {
				// same input, candidates presented in another order (the contract holds them in a map)
				l2 := l
				l2.Cands = append([]c39Cand{}, l.Cands...)
				rnd.Shuffle(len(l2.Cands), func(i, j int) { l2.Cands[i], l2.Cands[j] = l2.Cands[j], l2.Cands[i] })
				out2, _ := realReduce(l2, seeds[si])
				if !sameSet(out, out2) {
					violate(run, "C39:same-input-different-output", fmt.Sprintf("%v seed=%d: %v vs %v", l, seeds[si], keysOf(out), keysOf(out2)),
						map[string]interface{}{"layout": l, "seed": seeds[si]})
				}
			}
			// (B) renaming ids through a random bijection keeps the number selected per stake level
			run.Count("rename_keeps_stake_profile", 1)
			ren := c39Layout{Limit: l.Limit, XP: l.XP}
			back := map[string]string{}
			for _, c := range l.Cands {
				nid := c39RandID(rnd)
				back[nid] = c.ID
				ren.Cands = append(ren.Cands, c39Cand{nid, c.Stake, c.Prev})
			}
			outR, retR := realReduce(ren, seeds[si])
			c39JudgeOne(run, ren, ref, seeds[si], outR, retR)
			prof := func(o map[string]bool, m map[string]c39Cand) string {
				cnt := map[int64]int{}
				for id := range o {
					cnt[m[id].Stake]++
				}
				var ks []int64
				for k := range cnt {
					ks = append(ks, k)
				}
				sort.Slice(ks, func(i, j int) bool { return ks[i] < ks[j] })
				var s []string
				for _, k := range ks {
					s = append(s, fmt.Sprintf("%d:%d", k, cnt[k]))
				}
				return strings.Join(s, ",")
			}
			renByID := map[string]c39Cand{}
			for _, c := range ren.Cands {
				renByID[c.ID] = c
			}
			if prof(out, byID) != prof(outR, renByID) {
				violate(run, "C39:selection-depends-on-id-outside-tie", fmt.Sprintf("%v seed=%d: selected per stake level %s, after renaming ids %s", l, seeds[si], prof(out, byID), prof(outR, renByID)),
					map[string]interface{}{"layout": l, "renamed": ren, "seed": seeds[si]})
			}
		}
		if ref.size >= n || ref.size == 0 {
			run.Count("layouts_without_choice", 1)
			continue
		}
		// (C) over many seeds: inside a class of interchangeable candidates (same stake, same previous-set membership) nobody is preferred
		count := map[string]int{}
		for _, sd := range seeds {
			out, _ := realReduce(l, sd)
			run.Eval(1)
			if len(out) != ref.size {
				violate(run, "C39:wrong-size", fmt.Sprintf("%v seed=%d: selected %d expected %d", l, sd, len(out), ref.size), map[string]interface{}{"layout": l, "seed": sd})
			}
			for id := range out {
				count[id]++
			}
		}
		type clsKey struct {
			stake int64
			prev  bool
		}
		classes := map[clsKey][]string{}
		for _, c := range l.Cands {
			k := clsKey{c.Stake, c.Prev}
			classes[k] = append(classes[k], c.ID)
		}
		var keys []clsKey
		for k := range classes {
			keys = append(keys, k)
		}
		sort.Slice(keys, func(i, j int) bool {
			if keys[i].stake != keys[j].stake {
				return keys[i].stake > keys[j].stake
			}
			return keys[i].prev && !keys[j].prev
		})
		tieShape := ""
		for _, k := range keys {
			members := classes[k]
			sort.Strings(members)
			if len(members) < 2 {
				continue
			}
			total := 0
			for _, id := range members {
				total += count[id]
			}
			if total == 0 || total == len(members)*nSeeds {
				continue // the whole class is always in or always out: no choice inside it
			}
			run.Count("tie_class_frequency", 1)
			p := float64(total) / float64(len(members)*nSeeds)
			bound := 6*math.Sqrt(float64(nSeeds)*p*(1-p)) + 1
			mean := p * float64(nSeeds)
			worst, worstID := 0.0, ""
			for _, id := range members {
				if d := math.Abs(float64(count[id]) - mean); d > worst {
					worst, worstID = d, id
				}
			}
			// where does the class sit?
			atPinned := k.prev && ref.req > 0 && k.stake == ref.ps && ref.prevAtPs > ref.req-ref.prevAbove
			higher := 0 // non-pinned candidates with a higher stake (0 => the tie class is at the top of the contested list)
			for _, c := range l.Cands {
				if c.Stake > k.stake && !(c.Prev && ref.req > 0 && c.Stake >= ref.ps) {
					higher++
				}
			}
			tieShape += fmt.Sprintf("|m=%d prev=%v pinned=%v top=%v", len(members), k.prev, atPinned, higher == 0)
			if worst > bound {
				var freq []string
				for i, id := range members {
					freq = append(freq, fmt.Sprintf("#%d %s:%d", i, short(id), count[id]))
				}
				sig := "C39:tie-choice-depends-on-id"
				if atPinned {
					sig = "C39:pinned-tie-choice-depends-on-id"
					run.Count("tie_class_skewed_at_pinned_cut_off", 1)
				} else if higher == 0 {
					run.Count("tie_class_skewed_at_top_of_contested_list", 1)
				} else {
					run.Count("tie_class_skewed_below_top_of_contested_list", 1)
				}
				violate(run, sig, fmt.Sprintf("%v: over %d seeds the %d interchangeable candidates with stake %d (previous=%v), listed in id order, were selected [%s] times; expected about %.0f each (+-%.0f); %s deviates by %.0f",
					l, nSeeds, len(members), k.stake, k.prev, strings.Join(freq, " "), mean, bound, short(worstID), worst),
					map[string]interface{}{"layout": l, "seeds": nSeeds, "class_stake": k.stake, "class_prev": k.prev, "counts_in_id_order": freq, "tie_class_at_top_of_contested_list": higher == 0, "at_pinned_cut_off": atPinned})
			} else {
				run.Count("tie_class_uniform", 1)
			}
		}
		if tieShape != "" {
			run.Distinct(fmt.Sprintf("n=%d limit=%d req=%d%s", n, l.Limit, ref.req, tieShape))
		} else {
			run.Count("layouts_without_tie_at_cut_off", 1)
		}
		if li == 0 || li == nSystematic-1 || li == nSystematic+3 {
			var freq []string
			for _, c := range l.Cands {
				freq = append(freq, fmt.Sprintf("%s:%d", short(c.ID), count[c.ID]))
			}
			run.Sample(map[string]interface{}{"layout": l.String(), "selected_counts_over_seeds": freq, "seeds": nSeeds})
		}
	}
}
