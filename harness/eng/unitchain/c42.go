package unitchain

import (
	"encoding/hex"
	"encoding/json"
	"fmt"
	"strings"

	"verifh/mon"
	"verifh/world"

	"0chain.net/chaincore/block"
	"0chain.net/chaincore/chain"
	"0chain.net/chaincore/node"
	"0chain.net/core/viper"
)

func runC42(run *mon.Run, thorough bool) {
	w := newWorld(mon.Seed())
	defer w.Close()
	rnd := mon.NewRand(mon.Seed()).Fork("C42")
	c := w.Chain
	run.Assume("the sharder asked about is the node object held by the magic block's pool (IsInTop compares node pointers; production passes node.Self, which node.Setup rebinds to the pool's object)")
	run.Assume("replicator count > number of sharders ('not enough sharders') is observed but not judged for size: the statement conditions the size bound on enough sharders existing")

	maxN, hashesPer, ordersPer := 13, 24, 4
	if thorough {
		maxN, hashesPer, ordersPer = 40, 200, 10
	}
	ws := wallets(fmt.Sprintf("c42-sharder-%d", mon.Seed()), maxN)
	sizes := []int{1, 2, 3, 4, 5, 8, maxN}
	setK := func(k int) {
		viper.Set("server_chain.block.replicators", k)
		_ = c.ChainConfig.FromViper()
		if c.NumReplicators() != k {
			panic(fmt.Sprintf("replicators not applied: %d != %d", c.NumReplicators(), k))
		}
	}
	nextStart := int64(1000)
	for _, n := range sizes {
		sub := ws[:n]
		if n > 2 && n < maxN {
			p := randPerm(rnd, maxN)
			sub = nil
			for _, i := range p[:n] {
				sub = append(sub, ws[i])
			}
		}
		var orders [][]int
		if n <= 4 {
			permutations(n, func(p []int) { orders = append(orders, append([]int{}, p...)) })
		} else {
			id, rev := make([]int, n), make([]int, n)
			for i := range id {
				id[i], rev[i] = i, n-1-i
			}
			orders = append(orders, id, rev)
			for k := 0; k < ordersPer; k++ {
				orders = append(orders, randPerm(rnd, n))
			}
		}
		// insertion histories in which sharders are added again (once, twice, three times in a row) with fresh node objects: a
		// refreshed registration or a node decoded again replaces the object in the pool
		if n >= 2 {
			for k := 0; k < 3; k++ {
				o := randPerm(rnd, n)
				for d := 1 + rnd.Intn(3); d > 0; d-- {
					again := o[rnd.Intn(n)]
					for rep := 1 + rnd.Intn(3); rep > 0; rep-- {
						o = append(o, again)
					}
				}
				orders = append(orders, o)
				run.Count("insertion_histories_with_readded_members", 1)
			}
		}
		// One magic block per (construction, insertion order), each in force for its own round. A construction is either a way to
		// build the pool from scratch ("newnode", "json") or a copy of such a pool made by the real copying code; a copy names its source.
		type mbr struct {
			construction string
			orderIdx     int
			round        int64
			pool         *node.Pool
		}
		var mbs []mbr
		for _, cons := range c42Constructions {
			for oi, o := range orders {
				if cons.source != "" && oi >= 2 && oi < len(orders)-2 {
					continue // copies: the first two orders and the last two (histories with re-added members)
				}
				src := buildPool(sub, o, node.NodeTypeSharder)
				mb := block.NewMagicBlock()
				mb.Miners = w.MB.Miners
				mb.Sharders = src
				mb.StartingRound = nextStart
				mb.MagicBlockNumber = nextStart
				mb.Hash = fmt.Sprintf("c42-mb-%d", nextStart)
				mb = cons.make(c, mb)
				run.Count("pools_built["+cons.name+"]", 1)
				if got := strings.Join(sortedCopy(mb.Sharders.Keys()), ","); got != strings.Join(sortedCopy(idsOf(sub)), ",") {
					violate(run, "C42:construction-loses-sharders", fmt.Sprintf("construction %s of a pool of %d sharders holds %d", cons.name, n, mb.Sharders.Size()),
						map[string]interface{}{"n": n, "order": o, "construction": cons.name})
					continue
				}
				c.SetMagicBlock(mb)
				mbs = append(mbs, mbr{cons.name, oi, nextStart + 10, mb.Sharders})
				nextStart += 100
			}
		}
		ks := []int{0, 1, n, n + 1}
		if n > 2 {
			ks = append(ks, 2+rnd.Intn(n-2))
		}
		if n > 5 {
			ks = append(ks, n/2)
		}
		for _, k := range ks {
			checkpoint(run)
			setK(k)
			for h := 0; h < hashesPer; h++ {
				raw := make([]byte, 32)
				for i := range raw {
					raw[i] = byte(rnd.U64())
				}
				if h%5 == 4 { // low-entropy hashes produce many score ties
					for i := range raw {
						raw[i] = byte(0xff * (h % 2))
					}
					raw[h%32] ^= byte(1 << uint(h%8))
				}
				hash := hex.EncodeToString(raw)
				firstSet := map[string]string{}   // construction -> set of its first insertion order
				firstIDs := map[string][]string{} // the same as ids
				firstOrd := map[string]int{}
				for _, m := range mbs {
					construction, oi := m.construction, m.orderIdx
					b := block.NewBlock(c.GetKey(), m.round)
					b.Hash = hash
					var ids, idsFromHash, idsCan []string
					var listed string
					for _, nd := range m.pool.CopyNodes() {
						if c.IsBlockSharder(b, nd) {
							ids = append(ids, nd.GetKey())
						}
						if c.IsBlockSharderFromHash(m.round, hash, nd) {
							idsFromHash = append(idsFromHash, nd.GetKey())
						}
						ok, nodes := c.CanShardBlockWithReplicators(m.round, hash, nd)
						if ok {
							idsCan = append(idsCan, nd.GetKey())
						}
						var l []string
						for _, x := range nodes {
							l = append(l, x.GetKey())
						}
						ls := strings.Join(sortedCopy(l), ",")
						if listed == "" {
							listed = ls
						} else if listed != ls {
							listed = "INCONSISTENT:" + listed + " vs " + ls
						}
					}
					run.Eval(1)
					set := strings.Join(sortedCopy(ids), ",")
					replay := map[string]interface{}{"n": n, "k": k, "hash": hash, "order": orders[oi], "construction": construction, "sharder_ids": shorts(idsOf(sub))}
					// the three entry points describe one set
					run.Count("entry_points_agree", 1)
					if set != strings.Join(sortedCopy(idsFromHash), ",") || set != strings.Join(sortedCopy(idsCan), ",") || (k <= n && set != listed) {
						violate(run, "C42:entry-points-disagree", fmt.Sprintf("n=%d k=%d hash=%s IsBlockSharder=%v FromHash=%v CanShard=%v listed=%s", n, k, short(hash), shorts(ids), shorts(idsFromHash), shorts(idsCan), listed), replay)
					}
					// size
					switch {
					case k <= 0:
						run.Count("k0_everyone", 1)
						if len(ids) != n || listed != strings.Join(sortedCopy(idsOf(sub)), ",") {
							violate(run, "C42:replication-disabled-not-everyone", fmt.Sprintf("n=%d k=%d responsible=%d listed=%s", n, k, len(ids), listed), replay)
						}
					case k <= n:
						run.Count("size_at_least_k", 1)
						if len(ids) < k {
							violate(run, "C42:fewer-than-configured-replicators", fmt.Sprintf("n=%d k=%d hash=%s responsible=%v", n, k, short(hash), shorts(ids)), replay)
						}
						if len(ids) > k {
							run.Count("obs_score_ties_extend_set", 1)
						}
					default:
						run.Count("obs_k_gt_n", 1)
						if len(ids) == 0 {
							run.Count("obs_k_gt_n_nobody_responsible", 1)
						}
					}
					// identical across insertion orders
					_, seen := firstSet[construction]
					if !seen {
						firstSet[construction], firstIDs[construction], firstOrd[construction] = set, ids, oi
					} else {
						run.Count("order_independent_set", 1)
						if set != firstSet[construction] {
							violate(run, "C42:order-dependent-set", fmt.Sprintf("n=%d k=%d hash=%s construction %s: order %v -> %v, order %v -> %v", n, k, short(hash), construction, orders[firstOrd[construction]], shorts(sortedCopy(firstIDs[construction])), orders[oi], shorts(sortedCopy(ids))), replay)
						}
					}
					// a copy of a pool (the same sharder set, held by the same or by another node) describes the same set as the pool it was made from
					if src := c42SourceOf(construction); src != "" {
						run.Count("copy_same_set_as_source", 1)
						run.Count("copy_same_set_as_source["+construction+"]", 1)
						if set != firstSet[src] {
							replay["source_construction"] = src
							violate(run, "C42:copy-of-pool-changes-set", fmt.Sprintf("n=%d k=%d hash=%s: the pool built by %s -> %v, its copy made by %s -> %v (same sharders, same block hash)", n, k, short(hash), src, shorts(sortedCopy(firstIDs[src])), construction, shorts(sortedCopy(ids))), replay)
						}
					} else if construction != "newnode" && k >= 1 && k <= n {
						// observation only: pools decoded from bytes versus pools made by node.NewNode
						if set == firstSet["newnode"] {
							run.Count("obs_decoded_pool_same_set_as_newnode_pool", 1)
						} else {
							run.Count("obs_decoded_pool_other_set_than_newnode_pool", 1)
						}
					}
					if !seen {
						if construction == "json" && k >= 1 && k <= n && len(ids) == n && n > k {
							run.Count("obs_json_decoded_pool_everyone_responsible", 1)
						}
						// pointer identity observation: an equal node object that is not the pool's own
						if k >= 1 && k <= n && len(ids) > 0 && construction == "newnode" {
							twin := mkNode(walletByID(sub, ids[0]), node.NodeTypeSharder, 1)
							if !c.IsBlockSharder(b, twin) {
								run.Count("obs_equal_id_other_object_not_responsible", 1)
							}
						}
						run.Distinct(fmt.Sprintf("n=%d k=%d size=%d %s", n, k, len(ids), construction))
						if h == 1 && n >= 5 && k >= 2 && k <= n && construction == "newnode" {
							run.Sample(map[string]interface{}{"n": n, "k": k, "block_hash": hash, "responsible": shorts(sortedCopy(ids)), "insertion_orders_compared": len(orders), "sharders": shorts(sortedCopy(idsOf(sub)))})
						}
					}
				}
			}
		}
	}
	// view changes: chains holding magic blocks with different sharder sets, rounds around the view-change offset (c42vc.go)
	runC42ViewChange(run, w, rnd.Fork("view-change"), thorough)
}

// c42Construction turns a magic block whose sharder pool was built with node.NewNode + Pool.AddNode into the magic block the
// chain is given. source == "" : built from scratch; otherwise a copy, made by the real copying code, of what <source> builds.
type c42Construction struct {
	name   string
	source string
	make   func(c *chain.Chain, mb *block.MagicBlock) *block.MagicBlock
}

func c42JSONPool(p *node.Pool) *node.Pool {
	// the way a magic block arrives from another node / the store: JSON decode of the pool
	raw, err := json.Marshal(p)
	if err != nil {
		panic(err)
	}
	dec := node.NewPool(p.Type)
	if err := json.Unmarshal(raw, dec); err != nil {
		panic(fmt.Sprintf("pool json: %v", err))
	}
	return dec
}

var c42Constructions = []c42Construction{
	{"newnode", "", func(c *chain.Chain, mb *block.MagicBlock) *block.MagicBlock { return mb }},
	{"json", "", func(c *chain.Chain, mb *block.MagicBlock) *block.MagicBlock {
		mb.Sharders = c42JSONPool(mb.Sharders)
		return mb
	}},
	{"pool-clone", "newnode", func(c *chain.Chain, mb *block.MagicBlock) *block.MagicBlock {
		mb.Sharders = mb.Sharders.Clone()
		return mb
	}},
	{"magic-block-clone", "newnode", func(c *chain.Chain, mb *block.MagicBlock) *block.MagicBlock { return mb.Clone() }},
	{"block-clone", "newnode", func(c *chain.Chain, mb *block.MagicBlock) *block.MagicBlock {
		// the latest-finalized-magic-block path: the block carrying the magic block is cloned
		b := block.NewBlock(c.GetKey(), mb.StartingRound)
		b.Hash = "c42-mb-block-" + mb.Hash
		b.MagicBlock = mb
		return b.Clone().MagicBlock
	}},
	{"clone-of-clone", "newnode", func(c *chain.Chain, mb *block.MagicBlock) *block.MagicBlock { return mb.Clone().Clone() }},
	{"json-magic-block-clone", "json", func(c *chain.Chain, mb *block.MagicBlock) *block.MagicBlock {
		mb.Sharders = c42JSONPool(mb.Sharders)
		return mb.Clone()
	}},
	{"msgp", "json", func(c *chain.Chain, mb *block.MagicBlock) *block.MagicBlock {
		// the binary encoding of the pool (Pool.MarshalMsg / UnmarshalMsg), decoded like the JSON one
		raw, err := mb.Sharders.MarshalMsg(nil)
		if err != nil {
			panic(fmt.Sprintf("pool msgp encode: %v", err))
		}
		dec := node.NewPool(mb.Sharders.Type)
		if _, err := dec.UnmarshalMsg(raw); err != nil {
			panic(fmt.Sprintf("pool msgp decode: %v", err))
		}
		mb.Sharders = dec
		return mb
	}},
}

func c42SourceOf(construction string) string {
	for _, c := range c42Constructions {
		if c.name == construction {
			return c.source
		}
	}
	return ""
}

func idsOf(ws []*world.Wallet) []string {
	out := make([]string, len(ws))
	for i, w := range ws {
		out[i] = w.ID
	}
	return out
}

func walletByID(ws []*world.Wallet, id string) *world.Wallet {
	for _, w := range ws {
		if w.ID == id {
			return w
		}
	}
	panic("unknown wallet " + id)
}
