package unitchain

import (
	"encoding/hex"
	"encoding/json"
	"fmt"
	"strings"

	"verifh/mon"
	"verifh/world"

	"0chain.net/chaincore/block"
	"0chain.net/chaincore/node"
	"0chain.net/core/viper"
)

func runC42(run *mon.Run, thorough bool) {
	w := newWorld(mon.Seed())
	defer w.Close()
	rnd := mon.NewRand(mon.Seed()).Fork("C42")
	c := w.Chain
	run.Assume("the sharder asked about is the node object held by the magic block's pool (IsInTop compares node pointers; production passes node.Self, which node.Setup rebinds to the pool's object)")
	run.Assume("replicator count > number of sharders ('not enough sharders') is observed but not judged for size: the statement conditions the size bound on enough sharders existing")

	maxN, hashesPer, ordersPer := 13, 24, 4
	if thorough {
		maxN, hashesPer, ordersPer = 40, 200, 10
	}
	ws := wallets(fmt.Sprintf("c42-sharder-%d", mon.Seed()), maxN)
	sizes := []int{1, 2, 3, 4, 5, 8, maxN}
	setK := func(k int) {
		viper.Set("server_chain.block.replicators", k)
		_ = c.ChainConfig.FromViper()
		if c.NumReplicators() != k {
			panic(fmt.Sprintf("replicators not applied: %d != %d", c.NumReplicators(), k))
		}
	}
	nextStart := int64(1000)
	for _, n := range sizes {
		sub := ws[:n]
		if n > 2 && n < maxN {
			p := randPerm(rnd, maxN)
			sub = nil
			for _, i := range p[:n] {
				sub = append(sub, ws[i])
			}
		}
		var orders [][]int
		if n <= 4 {
			permutations(n, func(p []int) { orders = append(orders, append([]int{}, p...)) })
		} else {
			id, rev := make([]int, n), make([]int, n)
			for i := range id {
				id[i], rev[i] = i, n-1-i
			}
			orders = append(orders, id, rev)
			for k := 0; k < ordersPer; k++ {
				orders = append(orders, randPerm(rnd, n))
			}
		}
		// insertion histories in which sharders are added again (once, twice, three times in a row) with fresh node objects: a
		// refreshed registration or a node decoded again replaces the object in the pool
		if n >= 2 {
			for k := 0; k < 3; k++ {
				o := randPerm(rnd, n)
				for d := 1 + rnd.Intn(3); d > 0; d-- {
					again := o[rnd.Intn(n)]
					for rep := 1 + rnd.Intn(3); rep > 0; rep-- {
						o = append(o, again)
					}
				}
				orders = append(orders, o)
				run.Count("insertion_histories_with_readded_members", 1)
			}
		}
		for _, construction := range []string{"newnode", "json"} {
			// one magic block per insertion order, each in force for its own round
			type mbr struct {
				round int64
				pool  *node.Pool
			}
			var mbs []mbr
			for _, o := range orders {
				pool := buildPool(sub, o, node.NodeTypeSharder)
				if construction == "json" {
					// the way a magic block arrives from another node / the store: JSON decode of the pool
					raw, err := json.Marshal(pool)
					if err != nil {
						panic(err)
					}
					// re-order the JSON object members in insertion order o (decoding order must not matter either)
					dec := node.NewPool(node.NodeTypeSharder)
					if err := json.Unmarshal(raw, dec); err != nil {
						panic(fmt.Sprintf("pool json: %v", err))
					}
					pool = dec
				}
				mb := block.NewMagicBlock()
				mb.Miners = w.MB.Miners
				mb.Sharders = pool
				mb.StartingRound = nextStart
				mb.MagicBlockNumber = nextStart
				mb.Hash = fmt.Sprintf("c42-mb-%d", nextStart)
				c.SetMagicBlock(mb)
				mbs = append(mbs, mbr{nextStart + 10, pool})
				nextStart += 100
			}
			ks := []int{0, 1, n, n + 1}
			if n > 2 {
				ks = append(ks, 2+rnd.Intn(n-2))
			}
			if n > 5 {
				ks = append(ks, n/2)
			}
			for _, k := range ks {
				checkpoint(run)
				setK(k)
				for h := 0; h < hashesPer; h++ {
					raw := make([]byte, 32)
					for i := range raw {
						raw[i] = byte(rnd.U64())
					}
					if h%5 == 4 { // low-entropy hashes produce many score ties
						for i := range raw {
							raw[i] = byte(0xff * (h % 2))
						}
						raw[h%32] ^= byte(1 << uint(h%8))
					}
					hash := hex.EncodeToString(raw)
					var firstSet string
					var firstIDs []string
					for oi, m := range mbs {
						b := block.NewBlock(c.GetKey(), m.round)
						b.Hash = hash
						var ids, idsFromHash, idsCan []string
						var listed string
						for _, nd := range m.pool.CopyNodes() {
							if c.IsBlockSharder(b, nd) {
								ids = append(ids, nd.GetKey())
							}
							if c.IsBlockSharderFromHash(m.round, hash, nd) {
								idsFromHash = append(idsFromHash, nd.GetKey())
							}
							ok, nodes := c.CanShardBlockWithReplicators(m.round, hash, nd)
							if ok {
								idsCan = append(idsCan, nd.GetKey())
							}
							var l []string
							for _, x := range nodes {
								l = append(l, x.GetKey())
							}
							ls := strings.Join(sortedCopy(l), ",")
							if listed == "" {
								listed = ls
							} else if listed != ls {
								listed = "INCONSISTENT:" + listed + " vs " + ls
							}
						}
						run.Eval(1)
						set := strings.Join(sortedCopy(ids), ",")
						replay := map[string]interface{}{"n": n, "k": k, "hash": hash, "order": orders[oi], "construction": construction, "sharder_ids": shorts(idsOf(sub))}
						// the three entry points describe one set
						run.Count("entry_points_agree", 1)
						if set != strings.Join(sortedCopy(idsFromHash), ",") || set != strings.Join(sortedCopy(idsCan), ",") || (k <= n && set != listed) {
							violate(run, "C42:entry-points-disagree", fmt.Sprintf("n=%d k=%d hash=%s IsBlockSharder=%v FromHash=%v CanShard=%v listed=%s", n, k, short(hash), shorts(ids), shorts(idsFromHash), shorts(idsCan), listed), replay)
						}
						// size
						switch {
						case k <= 0:
							run.Count("k0_everyone", 1)
							if len(ids) != n || listed != strings.Join(sortedCopy(idsOf(sub)), ",") {
								violate(run, "C42:replication-disabled-not-everyone", fmt.Sprintf("n=%d k=%d responsible=%d listed=%s", n, k, len(ids), listed), replay)
							}
						case k <= n:
							run.Count("size_at_least_k", 1)
							if len(ids) < k {
								violate(run, "C42:fewer-than-configured-replicators", fmt.Sprintf("n=%d k=%d hash=%s responsible=%v", n, k, short(hash), shorts(ids)), replay)
							}
							if len(ids) > k {
								run.Count("obs_score_ties_extend_set", 1)
							}
						default:
							run.Count("obs_k_gt_n", 1)
							if len(ids) == 0 {
								run.Count("obs_k_gt_n_nobody_responsible", 1)
							}
						}
						// identical across insertion orders
						if oi == 0 {
							firstSet, firstIDs = set, ids
						} else {
							run.Count("order_independent_set", 1)
							if set != firstSet {
								violate(run, "C42:order-dependent-set", fmt.Sprintf("n=%d k=%d hash=%s order %v -> %v, order %v -> %v", n, k, short(hash), orders[0], shorts(sortedCopy(firstIDs)), orders[oi], shorts(sortedCopy(ids))), replay)
							}
						}
						if oi == 0 {
							if construction == "json" && k >= 1 && k <= n && len(ids) == n && n > k {
								run.Count("obs_json_decoded_pool_everyone_responsible", 1)
							}
							// pointer identity observation: an equal node object that is not the pool's own
							if k >= 1 && k <= n && len(ids) > 0 {
								twin := mkNode(walletByID(sub, ids[0]), node.NodeTypeSharder, 1)
								if !c.IsBlockSharder(b, twin) {
									run.Count("obs_equal_id_other_object_not_responsible", 1)
								}
							}
							run.Distinct(fmt.Sprintf("n=%d k=%d size=%d %s", n, k, len(ids), construction))
							if h == 1 && n >= 5 && k >= 2 && k <= n && construction == "newnode" {
								run.Sample(map[string]interface{}{"n": n, "k": k, "block_hash": hash, "responsible": shorts(sortedCopy(ids)), "insertion_orders_compared": len(orders), "sharders": shorts(sortedCopy(idsOf(sub)))})
							}
						}
					}
				}
			}
		}
	}
}

func idsOf(ws []*world.Wallet) []string {
	out := make([]string, len(ws))
	for i, w := range ws {
		out[i] = w.ID
	}
	return out
}

func walletByID(ws []*world.Wallet, id string) *world.Wallet {
	for _, w := range ws {
		if w.ID == id {
			return w
		}
	}
	panic("unknown wallet " + id)
}
