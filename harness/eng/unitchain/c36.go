package unitchain

import (
	"context"
	"errors"
	"fmt"
	"strings"
	"sync"
	"time"

	"verifh/mon"
	"verifh/world"

	"0chain.net/chaincore/block"
	"0chain.net/chaincore/chain"
	"0chain.net/chaincore/round"
)

// treeSpec is a level-structured tree of notarized blocks: level 0 is the root (the genesis block), level d >= 1 is
// round d; par[d][i] is the index (in level d-1) of the parent of block i of level d.
type treeSpec struct {
	par [][]int // par[0] = nil
}

func (t treeSpec) depth() int { return len(t.par) - 1 }

func (t treeSpec) String() string {
	var s []string
	for d := 1; d < len(t.par); d++ {
		s = append(s, strings.Trim(strings.ReplaceAll(fmt.Sprint(t.par[d]), " ", ""), "[]"))
	}
	return strings.Join(s, "/")
}

// refAncestor: index of the level-`level` ancestor of block (d,i), from the parent vectors only.
func (t treeSpec) refAncestor(d, i, level int) int {
	for d > level {
		i = t.par[d][i]
		d--
	}
	return i
}

// refDCA is the reference model: the deepest (level, index), level < top, that is an ancestor of every block of the
// top level. Level 0 (the root) always qualifies.
func (t treeSpec) refDCA() (int, int) {
	top := t.depth()
	for lvl := top - 1; lvl >= 0; lvl-- {
		first := t.refAncestor(top, 0, lvl)
		all := true
		for i := 1; i < len(t.par[top]); i++ {
			if t.refAncestor(top, i, lvl) != first {
				all = false
				break
			}
		}
		if all {
			return lvl, first
		}
	}
	panic("unreachable: the root is a common ancestor")
}

type builtTree struct {
	spec   treeSpec
	blocks [][]*block.Block // [level][index]; level 0 = root
	rounds []*round.Round   // rounds[d] for d >= 1 (index 0 unused), plus tail rounds
	all    []*block.Block
}

type c36Env struct {
	w      *world.World
	c      *chain.Chain
	serial uint64
}

func (e *c36Env) newBlock(prev *block.Block, rank int) *block.Block {
	e.serial++
	b := block.NewBlock(e.c.GetKey(), prev.Round+1)
	b.Hash = fmt.Sprintf("%048x%016x", 0xC36, e.serial)
	b.MinerID = e.w.Miners[rank%len(e.w.Miners)].ID
	b.RoundRank = rank
	b.SetPreviousBlock(prev)
	b.SetStateStatus(block.StateSuccessful)
	return b
}

// build materialises the tree in the real chain: blocks linked and added to the block cache, one round object per
// level holding the level's blocks as notarized blocks, `tail` further rounds without notarized blocks.
func (e *c36Env) build(spec treeSpec, base int64, root *block.Block, tail int) *builtTree {
	bt := &builtTree{spec: spec}
	bt.blocks = append(bt.blocks, []*block.Block{root})
	bt.rounds = append(bt.rounds, nil)
	for d := 1; d <= spec.depth(); d++ {
		r := round.NewRound(base + int64(d))
		if got := e.c.AddRound(r); got != round.RoundI(r) {
			panic(fmt.Sprintf("round %d already present", base+int64(d)))
		}
		var lvl []*block.Block
		for i, p := range spec.par[d] {
			b := e.newBlock(bt.blocks[d-1][p], i)
			if b.Round != base+int64(d) {
				panic("round numbering")
			}
			e.c.AddBlock(b)
			r.AddNotarizedBlock(b)
			lvl = append(lvl, b)
			bt.all = append(bt.all, b)
		}
		bt.blocks = append(bt.blocks, lvl)
		bt.rounds = append(bt.rounds, r)
	}
	for k := 1; k <= tail; k++ {
		r := round.NewRound(base + int64(spec.depth()+k))
		e.c.AddRound(r)
		bt.rounds = append(bt.rounds, r)
	}
	return bt
}

func (e *c36Env) addTail(bt *builtTree, base int64) {
	r := round.NewRound(base + int64(len(bt.rounds)))
	e.c.AddRound(r)
	bt.rounds = append(bt.rounds, r)
}

func (e *c36Env) destroy(bt *builtTree) {
	for _, r := range bt.rounds {
		if r != nil {
			e.c.DeleteRound(context.Background(), r)
		}
	}
	e.c.DeleteBlocks(bt.all)
}

func (bt *builtTree) unlink() {
	for _, b := range bt.all {
		b.PrevBlock = nil
	}
}

func (bt *builtTree) relink() {
	for d := 1; d < len(bt.blocks); d++ {
		for i, b := range bt.blocks[d] {
			b.PrevBlock = bt.blocks[d-1][bt.spec.par[d][i]]
		}
	}
}

func descBlock(bt *builtTree, b *block.Block) string {
	if b == nil {
		return "nil"
	}
	for d, lvl := range bt.blocks {
		for i, x := range lvl {
			if x == b {
				return fmt.Sprintf("(level %d, #%d)", d, i)
			}
		}
	}
	return "unknown block " + short(b.Hash)
}

// judge one built tree with the given top round.
func (e *c36Env) judge(run *mon.Run, bt *builtTree, lfbr int64, top *round.Round, mode string, tail int) {
	got := e.c.ComputeFinalizedBlock(context.Background(), lfbr, top)
	run.Eval(1)
	run.Count("dca_"+mode, 1)
	lvl, idx := bt.spec.refDCA()
	want := bt.blocks[lvl][idx]
	if got != want {
		sig := "C36:wrong-finalized-block"
		if got == nil {
			sig = "C36:no-finalized-block-for-complete-tree"
		}
		violate(run, sig, fmt.Sprintf("tree %s (parent index per block, levels separated by /), %d trailing rounds without notarized blocks, %s: ComputeFinalizedBlock returned %s, the deepest common ancestor in an earlier round is (level %d, #%d)",
			bt.spec, tail, mode, descBlock(bt, got), lvl, idx),
			map[string]interface{}{"parents": bt.spec.par[1:], "tail_empty_rounds": tail, "mode": mode, "lfb_round": lfbr})
	}
}

func runC36(run *mon.Run, thorough bool) {
	w := newWorld(mon.Seed())
	defer w.Close()
	rnd := mon.NewRand(mon.Seed()).Fork("C36")
	e := &c36Env{w: w, c: w.Chain}
	maxDepth, maxWidth := 4, 3
	if thorough {
		maxDepth = 5
	}
	run.Set("bound", fmt.Sprintf("every tree with 1..%d rounds below the root, 1..%d notarized blocks per round, every assignment of parents (ordered by rank), x {0,1,2} trailing rounds without notarized blocks x {PrevBlock linked, PrevBlock resolved through the block cache}", maxDepth, maxWidth))
	run.Assume("every block of the tree is locally available (linked or in the block cache with computed state): fetching a missing previous block from the network is out of reach")
	run.Assume("chain-extension part: the harness stands in for the finalized-block worker (it records the block, sets it as latest finalized block and reports success); in the plain growth histories notarized blocks of a round are all known before a later round is finalized; late notarizations on a competing fork (growth histories marked late, and the whole rollback part) are judged by the single-chain rule: the latest finalized block stays, moves to a descendant, or rolls back to the most recent common ancestor of itself and the notarized blocks of the latest round")
	run.Assume("rollback part: the stand-in for the finalized-block worker refuses a block whose previous block is not the latest finalized block, as the real worker does (finalizeBlockProcess: 'previous round not finalized' / 'could not connect to lfb')")
	run.Assume("sibling part: the stand-in for the finalized-block worker decides like the real worker, on the PrevHash field the handed-over block carries at that moment (the real worker has nothing else); whether an accepted block really descends from the latest finalized block is judged from the harness' own parent map, which no code under check can touch; the one block that is not locally available sits in the round of the latest finalized block, where the real code decides without asking the network")

	// ---- exhaustive part
	trees := 0
	var sampleN int
	var rec func(spec treeSpec)
	evalTree := func(spec treeSpec) {
		trees++
		if trees%500 == 0 {
			checkpoint(run)
		}
		bt := e.build(spec, 0, w.GB, 0)
		D := spec.depth()
		for tail := 0; tail <= 2; tail++ {
			if tail > 0 {
				e.addTail(bt, 0)
			}
			top := bt.rounds[D+tail]
			bt.relink()
			e.judge(run, bt, 0, top, "linked", tail)
			bt.unlink()
			e.judge(run, bt, 0, top, "via_block_cache", tail)
		}
		widths := make([]string, 0, D)
		forks := false
		for d := 1; d <= D; d++ {
			widths = append(widths, fmt.Sprint(len(spec.par[d])))
			if len(spec.par[d]) > 1 {
				forks = true
			}
		}
		if forks {
			run.Distinct("tree:" + spec.String())
		}
		if sampleN < 3 && D == maxDepth && len(spec.par[D]) == 2 && spec.par[D][0] != spec.par[D][1] {
			sampleN++
			l, i := spec.refDCA()
			run.Sample(map[string]interface{}{"parents_per_level": spec.par[1:], "widths": strings.Join(widths, ","), "reference_dca": fmt.Sprintf("level %d #%d", l, i)})
		}
		e.destroy(bt)
	}
	rec = func(spec treeSpec) {
		if spec.depth() >= 1 {
			evalTree(spec)
		}
		if spec.depth() == maxDepth {
			return
		}
		prevW := 1
		if spec.depth() >= 1 {
			prevW = len(spec.par[spec.depth()])
		}
		for wd := 1; wd <= maxWidth; wd++ {
			// every parent vector in prevW^wd
			vec := make([]int, wd)
			for {
				next := treeSpec{par: append(append([][]int{}, spec.par...), append([]int{}, vec...))}
				rec(next)
				k := 0
				for k < wd {
					vec[k]++
					if vec[k] < prevW {
						break
					}
					vec[k] = 0
					k++
				}
				if k == wd {
					break
				}
			}
		}
	}
	rec(treeSpec{par: [][]int{nil}})
	run.Set("exhaustive_trees", trees)
	run.Set("exhaustive_part_complete", true)

	// ---- seeded random larger trees, latest-finalized-round cut-offs, a missing round object
	nRandom := 400
	if thorough {
		nRandom = 20000
	}
	for i := 0; i < nRandom; i++ {
		D := 2 + rnd.Intn(11)
		maxW := 1 + rnd.Intn(6)
		spec := treeSpec{par: [][]int{nil}}
		prevW := 1
		pFork := float64(rnd.Intn(4)) / 4
		for d := 1; d <= D; d++ {
			wd := 1
			if rnd.Chance(0.6) {
				wd = 1 + rnd.Intn(maxW)
			}
			vec := make([]int, wd)
			for k := range vec {
				if rnd.Chance(pFork) {
					vec[k] = rnd.Intn(prevW)
				} else {
					vec[k] = 0 // long common prefixes: forks that survive several rounds
					if d > 1 && k < prevW && rnd.Chance(0.7) {
						vec[k] = k
					}
				}
			}
			spec.par = append(spec.par, vec)
			prevW = wd
		}
		tail := rnd.Intn(4)
		bt := e.build(spec, 0, w.GB, tail)
		top := bt.rounds[D+tail]
		mode := "linked"
		if rnd.Chance(0.4) {
			bt.unlink()
			mode = "via_block_cache"
		}
		lvl, _ := spec.refDCA()
		switch rnd.Intn(4) {
		case 0: // latest finalized round somewhere below the top notarized round: no influence on the answer
			lfbr := int64(rnd.Intn(D))
			run.Count("random_lfb_round_below_top", 1)
			e.judge(run, bt, lfbr, top, mode, tail)
		case 1: // every round with notarized blocks is already at or below the latest finalized round: nothing to choose
			lfbr := int64(D + rnd.Intn(tail+1))
			got := e.c.ComputeFinalizedBlock(context.Background(), lfbr, top)
			run.Eval(1)
			run.Count("nothing_above_lfb_round", 1)
			if got != nil {
				violate(run, "C36:block-chosen-without-notarized-round-above-lfb", fmt.Sprintf("tree %s tail=%d lfb round=%d: returned %s", spec, tail, lfbr, descBlock(bt, got)),
					map[string]interface{}{"parents": spec.par[1:], "tail_empty_rounds": tail, "lfb_round": lfbr})
			}
		case 2: // a trailing round object is missing: the walk down cannot continue; nil or the right block are acceptable, a wrong block is not
			if tail >= 2 {
				e.c.DeleteRound(context.Background(), bt.rounds[D+1])
				got := e.c.ComputeFinalizedBlock(context.Background(), 0, top)
				run.Eval(1)
				run.Count("missing_round_object", 1)
				l, ix := spec.refDCA()
				if got != nil && got != bt.blocks[l][ix] {
					violate(run, "C36:wrong-finalized-block", fmt.Sprintf("tree %s tail=%d with round object %d missing: returned %s", spec, tail, D+1, descBlock(bt, got)),
						map[string]interface{}{"parents": spec.par[1:], "tail_empty_rounds": tail, "missing_round": D + 1})
				}
				if got == nil {
					run.Count("obs_missing_round_object_gives_nil", 1)
				}
				break
			}
			fallthrough
		default:
			e.judge(run, bt, 0, top, mode, tail)
		}
		run.Distinct(fmt.Sprintf("rtree:%s:t%d:dca%d", spec, tail, lvl))
		e.destroy(bt)
	}

	// ---- chain extension: repeated finalizeRound over growing trees
	e.c.SetViewChanger(noopViewChanger{})
	wk := c36StartWorker(e.c)
	c36Growth(run, e, wk, rnd.Fork("growth"), thorough)

	// ---- rollbacks: the latest finalized block on a fork that lost, competing forks that fork again
	c36Rollbacks(run, e, wk, rnd.Fork("rollback"), thorough)

	// ---- a competing fork whose block in the round of the latest finalized block is not locally available
	c36Siblings(run, e, wk, rnd.Fork("sibling"), thorough)
	wk.stop()
	// let the notification goroutines started by SetLatestFinalizedBlock drain before the state DB is closed
	time.Sleep(50 * time.Millisecond)
}

type noopViewChanger struct{}

func (noopViewChanger) ViewChange(ctx context.Context, lfb *block.Block) error { return nil }

type finEvent struct {
	b           *block.Block
	prevLFB     *block.Block
	accepted    bool
	claimedPrev string // the block's PrevHash field at the moment it was handed over
}

// c36Worker stands in for FinalizedBlockWorker: it receives the blocks finalizeRound hands over, records them and
// makes them the latest finalized block. With requireConnected it refuses a block whose previous block is not the
// latest finalized block (the real worker's connection check).
type c36Worker struct {
	c                *chain.Chain
	ctx              context.Context
	cancel           context.CancelFunc
	done             chan struct{}
	mu               sync.Mutex
	events           []finEvent
	requireConnected bool
}

func c36StartWorker(c *chain.Chain) *c36Worker {
	ctx, cancel := context.WithCancel(context.Background())
	wk := &c36Worker{c: c, ctx: ctx, cancel: cancel, done: make(chan struct{})}
	go func() {
		defer close(wk.done)
		for {
			b, res := c.VerifUnitchainNextFinalized(ctx)
			if b == nil {
				return
			}
			lfb := c.GetLatestFinalizedBlock()
			wk.mu.Lock()
			ok := !wk.requireConnected || b.PrevHash == lfb.Hash
			wk.events = append(wk.events, finEvent{b, lfb, ok, b.PrevHash})
			wk.mu.Unlock()
			if !ok {
				res <- errors.New("could not connect to lfb")
				continue
			}
			c.SetLatestOwnFinalizedBlockRound(b.Round)
			c.SetLatestFinalizedBlock(b)
			res <- nil
		}
	}()
	return wk
}

func (wk *c36Worker) setRequireConnected(v bool) {
	wk.mu.Lock()
	wk.requireConnected = v
	wk.mu.Unlock()
}

func (wk *c36Worker) reset() {
	wk.mu.Lock()
	wk.events = wk.events[:0]
	wk.mu.Unlock()
}

func (wk *c36Worker) take() []finEvent {
	wk.mu.Lock()
	defer wk.mu.Unlock()
	return append([]finEvent{}, wk.events...)
}

func (wk *c36Worker) stop() {
	wk.cancel()
	<-wk.done
}

func c36Growth(run *mon.Run, e *c36Env, wk *c36Worker, rnd *mon.Rand, thorough bool) {
	c := e.c
	ctx := wk.ctx
	wk.setRequireConnected(false)
	nChains, maxRounds := 150, 14
	if thorough {
		nChains, maxRounds = 3000, 30
	}
	genesis := e.w.GB
	for ci := 0; ci < nChains; ci++ {
		checkpoint(run)
		c.SetLatestFinalizedBlock(genesis)
		c.LatestDeterministicBlock = genesis
		parent := map[*block.Block]*block.Block{} // reference ancestry, kept by the harness
		isAnc := func(a, b *block.Block) bool {    // a is an ancestor of b or b itself
			for x := b; x != nil; x = parent[x] {
				if x == a {
					return true
				}
			}
			return false
		}
		var all []*block.Block
		var rounds []*round.Round
		topBlocks := []*block.Block{genesis}
		T := 6 + rnd.Intn(maxRounds-5)
		pFork := float64(1+rnd.Intn(3)) / 4
		pCall := 0.6 + float64(rnd.Intn(5))/10
		var shape []string
		late := rnd.Chance(0.15) // observation-only scenario: a late notarization on a competing fork
		finalizedTotal := 0
		for t := 1; t <= T; t++ {
			r := round.NewRound(int64(t))
			if c.AddRound(r) != round.RoundI(r) {
				panic("round already present")
			}
			rounds = append(rounds, r)
			call := func(tag string) {
				lfbBefore := c.GetLatestFinalizedBlock()
				wk.reset()
				c.VerifUnitchainFinalizeRound(ctx, r)
				evs := wk.take()
				run.Eval(1)
				run.Count("growth_finalize_round_calls", 1)
				lfbAfter := c.GetLatestFinalizedBlock()
				replay := map[string]interface{}{"chain": ci, "round": t, "shape": strings.Join(shape, " "), "call": tag}
				if late {
					if lfbAfter.Round < lfbBefore.Round {
						run.Count("obs_rollback_after_late_notarization", 1)
					}
					// a late notarization may roll the latest finalized block back: judged by the single-chain rule
					c36JudgeCall(run, "late", lfbBefore, lfbAfter, topBlocks, parent, evs,
						fmt.Sprintf("chain %d round %d (%s); growth: %s", ci, t, tag, strings.Join(shape, " ")), replay)
					return
				}
				cur := lfbBefore
				for _, ev := range evs {
					finalizedTotal++
					run.Count("growth_finalized_descends_from_lfb", 1)
					if ev.prevLFB != cur || ev.b == cur || !isAnc(cur, ev.b) {
						violate(run, "C36:finalized-block-not-descendant-of-lfb", fmt.Sprintf("chain %d round %d (%s): finalizeRound handed over the block of round %d which does not descend from the latest finalized block of round %d; growth: %s",
							ci, t, tag, ev.b.Round, cur.Round, strings.Join(shape, " ")), replay)
					}
					run.Count("growth_finalized_is_common_ancestor", 1)
					for _, tb := range topBlocks {
						if !isAnc(ev.b, tb) || ev.b == tb {
							violate(run, "C36:finalized-block-not-common-ancestor", fmt.Sprintf("chain %d round %d (%s): the finalized block of round %d is not an ancestor of every notarized block of the latest round with notarized blocks; growth: %s",
								ci, t, tag, ev.b.Round, strings.Join(shape, " ")), replay)
							break
						}
					}
					cur = ev.b
				}
				run.Count("growth_lfb_monotone", 1)
				if lfbAfter != cur || lfbAfter.Round < lfbBefore.Round {
					violate(run, "C36:lfb-moved-off-the-finalized-chain", fmt.Sprintf("chain %d round %d (%s): latest finalized block went from round %d to round %d (last handed over: round %d); growth: %s",
						ci, t, tag, lfbBefore.Round, lfbAfter.Round, cur.Round, strings.Join(shape, " ")), replay)
				}
			}
			if rnd.Chance(0.25) {
				shape = append(shape, fmt.Sprintf("r%d:finalize-empty", t))
				run.Count("growth_empty_top_round_calls", 1)
				call("round without notarized blocks")
			}
			wd := 1
			if rnd.Chance(pFork) {
				wd = 1 + rnd.Intn(3)
			}
			var lvl []*block.Block
			var ps []string
			for i := 0; i < wd; i++ {
				pi := rnd.Intn(len(topBlocks))
				if rnd.Chance(0.5) {
					pi = 0
				}
				b := e.newBlock(topBlocks[pi], i)
				parent[b] = topBlocks[pi]
				c.AddBlock(b)
				r.AddNotarizedBlock(b)
				lvl = append(lvl, b)
				all = append(all, b)
				ps = append(ps, fmt.Sprint(pi))
			}
			shape = append(shape, fmt.Sprintf("r%d:[%s]", t, strings.Join(ps, ",")))
			prevTop := topBlocks
			topBlocks = lvl
			if rnd.Chance(pCall) || t == T {
				call("after notarization")
			}
			if late && t >= 5 && len(prevTop) > 1 && rnd.Chance(0.5) {
				// a sibling appears late in this round on another fork, then the round is finalized again
				b := e.newBlock(prevTop[len(prevTop)-1], len(lvl))
				parent[b] = prevTop[len(prevTop)-1]
				c.AddBlock(b)
				r.AddNotarizedBlock(b)
				all = append(all, b)
				topBlocks = append(topBlocks, b)
				shape = append(shape, fmt.Sprintf("r%d:late-sibling", t))
				run.Count("obs_late_notarization_scenarios", 1)
				call("late sibling")
			}
		}
		if !late {
			run.Distinct("growth:" + strings.Join(shape, " "))
			if finalizedTotal > 0 {
				run.Count("growth_chains_with_finalization", 1)
			}
			if ci < 2 {
				run.Sample(map[string]interface{}{"kind": "growth", "rounds": T, "shape": strings.Join(shape, " "), "blocks_finalized": finalizedTotal, "final_lfb_round": c.GetLatestFinalizedBlock().Round})
			}
		}
		c.SetLatestFinalizedBlock(genesis)
		c.LatestDeterministicBlock = genesis
		for _, r := range rounds {
			c.DeleteRound(context.Background(), r)
		}
		c.DeleteBlocks(all)
	}
}

// ---------------------------------------------------------------------------------------------------------------
// property-level oracle for one finalizeRound call (ancestry from the harness' own parent map, never from the code)
// ---------------------------------------------------------------------------------------------------------------

// c36JudgeCall judges the move of the latest finalized block made by one finalizeRound call:
//   - every block the worker accepted is a strict descendant of the latest finalized block at that moment;
//   - afterwards the latest finalized block is the same block, or a strict descendant that is an ancestor (in an
//     earlier round) of every notarized block of the latest round that has any, or - a rollback - a strict ancestor
//     of the previous one that is an ancestor of every such notarized block, and the most recent such ancestor.
//
// Anything else (a block of another fork) breaks "finalized blocks form one chain". Returns the kind of move.
func c36JudgeCall(run *mon.Run, pfx string, before, after *block.Block, tops []*block.Block,
	parent map[*block.Block]*block.Block, evs []finEvent, where string, replay interface{}) string {
	isAnc := func(a, b *block.Block) bool { // a is an ancestor of b or b itself
		for x := b; x != nil; x = parent[x] {
			if x == a {
				return true
			}
		}
		return false
	}
	cur := before
	for _, ev := range evs {
		if !ev.accepted {
			run.Count(pfx+"_handed_over_block_refused_by_worker", 1)
			continue
		}
		run.Count(pfx+"_finalized_descends_from_lfb", 1)
		if ev.prevLFB != cur || ev.b == cur || !isAnc(cur, ev.b) {
			note := ""
			if p := parent[ev.b]; p != nil && ev.claimedPrev != p.Hash {
				note = fmt.Sprintf(" (the worker accepted it because its PrevHash field named the latest finalized block at that moment; its true parent, by the harness' books, is another block of round %d)", p.Round)
			}
			violate(run, "C36:finalized-block-not-descendant-of-lfb", fmt.Sprintf("%s: finalizeRound handed over the block of round %d which does not descend from the latest finalized block of round %d%s",
				where, ev.b.Round, cur.Round, note), replay)
		}
		cur = ev.b
	}
	run.Count(pfx+"_lfb_single_chain", 1)
	commonAnc := func(x *block.Block) bool { // x is an ancestor, in an earlier round, of every top block
		for _, tb := range tops {
			if x == tb || !isAnc(x, tb) {
				return false
			}
		}
		return true
	}
	switch {
	case after == cur || isAnc(cur, after):
		// the block(s) the worker accepted, or (after != cur) a descendant set without the worker
		if after == before {
			return "unchanged"
		}
		run.Count(pfx+"_forward_is_common_ancestor", 1)
		if len(tops) > 0 && !commonAnc(after) {
			violate(run, "C36:finalized-block-not-common-ancestor", fmt.Sprintf("%s: the latest finalized block moved forward from round %d to round %d, to a block that is not an ancestor (in an earlier round) of every notarized block of the latest round with notarized blocks",
				where, before.Round, after.Round), replay)
		}
		return "forward"
	case isAnc(after, cur):
		run.Count(pfx+"_rollback_to_common_ancestor", 1)
		if !commonAnc(after) {
			violate(run, "C36:rollback-target-not-common-ancestor", fmt.Sprintf("%s: the latest finalized block was rolled back from round %d to round %d, to a block that is not an ancestor of every notarized block of the latest round with notarized blocks",
				where, cur.Round, after.Round), replay)
			return "rollback"
		}
		// most recent: the next block towards the previous latest finalized block must not qualify as well
		x := cur
		for parent[x] != after {
			x = parent[x]
		}
		run.Count(pfx+"_rollback_most_recent", 1)
		if commonAnc(x) {
			violate(run, "C36:rollback-beyond-most-recent-common-ancestor", fmt.Sprintf("%s: the latest finalized block was rolled back from round %d to round %d although the finalized block of round %d is still an ancestor of every notarized block of the latest round with notarized blocks",
				where, cur.Round, after.Round, x.Round), replay)
		}
		return "rollback"
	default:
		violate(run, "C36:lfb-moved-off-the-finalized-chain", fmt.Sprintf("%s: the latest finalized block went from round %d to a block of round %d that is neither the previous latest finalized block, nor one of its descendants, nor one of its ancestors: finalized blocks no longer form one chain",
			where, cur.Round, after.Round), replay)
		return "sideways"
	}
}

// ---------------------------------------------------------------------------------------------------------------
// rollback part: generated trees in which the latest finalized block sits on a fork that lost
// ---------------------------------------------------------------------------------------------------------------

// c36rbSpec describes one tree (rounds count from the genesis block, round 0):
//
//	trunk: one block per round 1..S (S = 0: the forks split at the genesis block)
//	fork A: rounds S+1..AEnd, the latest finalized block is its block of round L (S < L <= AEnd <= T)
//	fork B: rounds S+1..M (M = S: fork B is empty, its branches start at the split block itself)
//	K branches of fork B: rounds M+1..T, all notarized in the top round T; with NestAt > 0 the first branch splits once more
//	    after round NestAt (M < NestAt < T)
//	Tail further rounds without notarized blocks; finalizeRound is called for round T+Tail
//	Cont further rounds (only with Tail = 0) in which some of the top blocks are extended, finalizeRound after each
//
// AEnd == T: fork A is still alive in the top round, so the block computed for finalization is the split block itself
// (the ordinary rollback). AEnd < T: fork A is dead and the computed block is the block of round M on fork B, which is
// below, at or above the round of the latest finalized block and is not one of its ancestors (unless M == S).
type c36rbSpec struct {
	S, L, M, T, AEnd, K int
	NestAt              int
	Tail, Cont          int
	Linked              bool // PrevBlock pointers kept; otherwise every previous block is resolved through the block cache
	Driven              bool // the latest finalized block is reached by real forward finalization of fork A (rounds 1..L+3) before fork B becomes known; otherwise it is set directly (as after a restart / from an LFB ticket)
	Progressive         bool // fork B becomes known round by round (finalizeRound after each round above L) instead of all at once
	Repeat              bool // finalizeRound is called a second time for the same round
}

func (sp c36rbSpec) String() string {
	nest := "no nested split"
	if sp.NestAt > 0 {
		nest = fmt.Sprintf("the first branch splits again after round %d", sp.NestAt)
	}
	return fmt.Sprintf("forks A and B split after the block of round %d; fork A runs to round %d with the latest finalized block in round %d (%s); fork B runs to round %d and splits into %d branches, all notarized in the top round %d (%s); %d trailing rounds without notarized blocks; %s; late blocks %s",
		sp.S, sp.AEnd, sp.L, map[bool]string{true: "reached by forward finalization", false: "set directly"}[sp.Driven],
		sp.M, sp.K, sp.T, nest, sp.Tail,
		map[bool]string{true: "PrevBlock linked", false: "PrevBlock resolved through the block cache"}[sp.Linked],
		map[bool]string{true: "arrive round by round", false: "arrive all at once"}[sp.Progressive])
}

func (sp c36rbSpec) position() string {
	switch {
	case sp.AEnd == sp.T:
		return "fork-A-alive"
	case sp.M == sp.S:
		return "dead-fork/branches-from-split-block"
	case sp.M < sp.L:
		return "dead-fork/refork-below-lfb-round"
	case sp.M == sp.L:
		return "dead-fork/refork-at-lfb-round"
	default:
		return "dead-fork/refork-above-lfb-round"
	}
}

// normalise makes the spec consistent (the generators draw the fields independently).
func (sp c36rbSpec) normalise() c36rbSpec {
	alive := sp.AEnd >= sp.T
	if sp.Driven && sp.AEnd < sp.L+3 {
		sp.AEnd = sp.L + 3
	}
	if alive {
		if sp.T < sp.AEnd {
			sp.T = sp.AEnd
		}
		sp.AEnd = sp.T
	} else if sp.T <= sp.AEnd {
		sp.T = sp.AEnd + 1
	}
	if sp.M >= sp.T {
		sp.M = sp.T - 1
	}
	if sp.NestAt <= sp.M || sp.NestAt >= sp.T {
		sp.NestAt = 0
	}
	if sp.Tail > 0 {
		sp.Cont = 0
	}
	return sp
}

func c36rbScenario(run *mon.Run, e *c36Env, wk *c36Worker, rnd *mon.Rand, sp c36rbSpec, idx int) {
	c := e.c
	genesis := e.w.GB
	c.SetLatestFinalizedBlock(genesis)
	c.SetLatestOwnFinalizedBlockRound(genesis.Round)
	c.LatestDeterministicBlock = genesis
	R := sp.T + sp.Tail + sp.Cont
	parent := map[*block.Block]*block.Block{}
	var all []*block.Block
	rounds := make([]*round.Round, R+1)
	notar := make([][]*block.Block, R+1)
	for t := 1; t <= R; t++ {
		r := round.NewRound(int64(t))
		if c.AddRound(r) != round.RoundI(r) {
			panic("round already present")
		}
		rounds[t] = r
	}
	// a block becomes known (block cache) and notarized in its round at the same moment
	mk := func(prev *block.Block) *block.Block {
		t := int(prev.Round) + 1
		b := e.newBlock(prev, len(notar[t]))
		parent[b] = prev
		c.AddBlock(b)
		rounds[t].AddNotarizedBlock(b)
		notar[t] = append(notar[t], b)
		all = append(all, b)
		return b
	}
	replay := map[string]interface{}{"scenario": idx, "spec": sp}
	kinds := map[string]int{}
	call := func(t int, tag string) string {
		if !sp.Linked {
			for _, b := range all {
				b.PrevBlock = nil
			}
		}
		before := c.GetLatestFinalizedBlock()
		wk.reset()
		c.VerifUnitchainFinalizeRound(wk.ctx, rounds[t])
		evs := wk.take()
		after := c.GetLatestFinalizedBlock()
		var tops []*block.Block
		for u := t; u >= 1 && tops == nil; u-- {
			if len(notar[u]) > 0 {
				tops = notar[u]
			}
		}
		run.Eval(1)
		run.Count("rollback_finalize_round_calls", 1)
		kind := c36JudgeCall(run, "rollback", before, after, tops, parent, evs,
			fmt.Sprintf("scenario %d [%s], finalizeRound(%d) %s, latest finalized block before the call in round %d", idx, sp, t, tag, before.Round), replay)
		kinds[kind]++
		run.Count("rollback_move_"+kind, 1)
		return kind
	}

	// ---- what is known before fork B shows up
	trunk := genesis
	for t := 1; t <= sp.S; t++ {
		trunk = mk(trunk)
		if sp.Driven {
			call(t, "while the trunk grows")
		}
	}
	a := trunk
	var lfbA *block.Block
	aKnown := sp.AEnd
	if sp.Driven {
		aKnown = sp.L + 3
	}
	for t := sp.S + 1; t <= aKnown; t++ {
		a = mk(a)
		if t == sp.L {
			lfbA = a
		}
		if sp.Driven {
			call(t, "while fork A grows alone")
		}
	}
	if sp.Driven {
		if c.GetLatestFinalizedBlock() != lfbA {
			// judged call by call above; the tree is still a valid input, only not the intended one
			run.Count("rollback_obs_driven_lfb_differs_from_plan", 1)
		}
	} else {
		c.SetLatestOwnFinalizedBlockRound(lfbA.Round)
		c.SetLatestFinalizedBlock(lfbA)
	}
	lfbRound := int(c.GetLatestFinalizedBlock().Round)

	// ---- the late part: the rest of fork A, fork B and its branches
	b := trunk
	var branches []*block.Block
	var nested *block.Block
	for t := sp.S + 1; t <= sp.T; t++ {
		if t > aKnown && t <= sp.AEnd {
			a = mk(a)
		}
		switch {
		case t <= sp.M:
			b = mk(b)
		case t == sp.M+1:
			for j := 0; j < sp.K; j++ {
				branches = append(branches, mk(b))
			}
		default:
			if nested != nil {
				nested = mk(nested)
			}
			if sp.NestAt > 0 && t == sp.NestAt+1 {
				nested = mk(branches[0])
			}
			for j := range branches {
				branches[j] = mk(branches[j])
			}
		}
		if sp.Progressive && t > lfbRound && t < sp.T {
			call(t, "while the late blocks arrive")
		}
	}

	// reference facts about the shape (evidence only): the deepest common ancestor of the top round, from the parent map
	dca := append([]*block.Block{}, notar[sp.T]...)
	for {
		same := true
		for i := range dca {
			dca[i] = parent[dca[i]]
			if dca[i] != dca[0] {
				same = false
			}
		}
		if same {
			break
		}
	}
	plfb := c.GetLatestFinalizedBlock()
	onChain := false
	for x := plfb; x != nil; x = parent[x] {
		if x == dca[0] {
			onChain = true
		}
	}
	if !onChain && dca[0].Round <= plfb.Round {
		run.Count("rollback_shape_computed_block_on_other_fork_at_or_below_lfb_round", 1)
	} else if !onChain {
		run.Count("rollback_shape_computed_block_on_other_fork_above_lfb_round", 1)
	} else if dca[0] != plfb && dca[0].Round < plfb.Round {
		run.Count("rollback_shape_computed_block_is_ancestor_of_lfb", 1)
	}

	// ---- the call under observation
	kind := call(sp.T+sp.Tail, "after the late notarizations")
	if !onChain && dca[0].Round <= plfb.Round && kind == "rollback" {
		run.Count("rollback_dead_fork_rolled_back_to_split_block", 1)
	}
	if !onChain && kind == "unchanged" {
		run.Count("rollback_obs_lfb_stays_on_dead_fork", 1)
	}
	if sp.Repeat {
		call(sp.T+sp.Tail, "called again")
	}
	// ---- the chain goes on: some of the top blocks are extended
	tops := append([]*block.Block{}, notar[sp.T]...)
	for t := sp.T + 1; t <= sp.T+sp.Cont; t++ {
		n := 1
		if len(tops) > 1 && rnd.Chance(0.4) {
			n = 2
		}
		var next []*block.Block
		for j := 0; j < n; j++ {
			next = append(next, mk(tops[rnd.Intn(len(tops))]))
		}
		tops = next
		call(t, "while the chain goes on")
	}

	link := "cache"
	if sp.Linked {
		link = "linked"
	}
	run.Distinct(fmt.Sprintf("rollback:%s:split%d:lfb+%d:refork%+d:top+%d:k%d:nest%v:tail%d:%s:driven%v:prog%v:%s",
		sp.position(), sp.S, sp.L-sp.S, sp.M-sp.L, sp.T-sp.L, sp.K, sp.NestAt > 0, sp.Tail, link, sp.Driven, sp.Progressive, kind))
	run.Count("rollback_scenarios["+sp.position()+"]", 1)
	if idx < 3 {
		run.Sample(map[string]interface{}{"kind": "rollback", "spec": sp, "position": sp.position(), "lfb_round_before": plfb.Round,
			"lfb_round_after": c.GetLatestFinalizedBlock().Round, "moves": kinds})
	}

	c.SetLatestFinalizedBlock(genesis)
	c.SetLatestOwnFinalizedBlockRound(genesis.Round)
	c.LatestDeterministicBlock = genesis
	for t := 1; t <= R; t++ {
		c.DeleteRound(context.Background(), rounds[t])
	}
	c.DeleteBlocks(all)
}

func c36Rollbacks(run *mon.Run, e *c36Env, wk *c36Worker, rnd *mon.Rand, thorough bool) {
	wk.setRequireConnected(true)
	idx := 0
	decorate := func(sp c36rbSpec) c36rbSpec {
		sp.Tail = 0
		if rnd.Chance(0.4) {
			sp.Tail = 1 + rnd.Intn(2)
		}
		sp.Cont = rnd.Intn(4)
		sp.Linked = rnd.Chance(0.5)
		sp.Driven = rnd.Chance(0.3)
		sp.Progressive = rnd.Chance(0.2)
		sp.Repeat = rnd.Chance(0.3)
		if rnd.Chance(0.3) {
			sp.NestAt = sp.M + 1 + rnd.Intn(3)
		}
		return sp.normalise()
	}
	// ---- systematic core: every position of the re-fork point relative to the latest finalized block, several depths
	for _, s := range []int{0, 2} {
		for dA := 1; dA <= 3; dA++ {
			L := s + dA
			for m := s; m <= L+2; m++ {
				for dT := 1; dT <= 2; dT++ {
					T := L + dT
					if m >= L {
						T = m + dT
					}
					for _, aEnd := range []int{L, (L + T) / 2, T} {
						for k := 2; k <= 3; k++ {
							checkpoint(run)
							c36rbScenario(run, e, wk, rnd, decorate(c36rbSpec{S: s, L: L, M: m, T: T, AEnd: aEnd, K: k}), idx)
							idx++
						}
					}
				}
			}
		}
	}
	run.Set("rollback_systematic_scenarios", idx)
	// ---- seeded random, wider ranges (re-fork points further above the latest finalized block than finalizeRound walks back)
	n := 500
	if thorough {
		n = 20000
	}
	for i := 0; i < n; i++ {
		checkpoint(run)
		s := rnd.Intn(6)
		L := s + 1 + rnd.Intn(6)
		m := s + rnd.Intn(L-s+1) // at or below the round of the latest finalized block
		if rnd.Chance(0.4) {
			m = L + 1 + rnd.Intn(8)
		}
		T := L + 1 + rnd.Intn(4)
		if m >= L {
			T = m + 1 + rnd.Intn(4)
		}
		aEnd := L + rnd.Intn(T-L+1)
		if rnd.Chance(0.25) {
			aEnd = T
		}
		c36rbScenario(run, e, wk, rnd, decorate(c36rbSpec{S: s, L: L, M: m, T: T, AEnd: aEnd, K: 2 + rnd.Intn(3)}), idx)
		idx++
	}
	run.Set("rollback_scenarios", idx)
}

// ---------------------------------------------------------------------------------------------------------------
// sibling part: the competing fork passes the round of the latest finalized block in a block that is NOT locally available
// ---------------------------------------------------------------------------------------------------------------

// c36sibSpec describes one tree (rounds count from the genesis block, round 0):
//
//	trunk: one block per round 1..S
//	fork A: rounds S+1..AEnd, the latest finalized block is its block of round L (S < L <= AEnd <= T)
//	fork B: rounds S+1..M with M >= L, so fork B has a block H in round L: with S == L-1 a SIBLING of the latest finalized
//	    block (the forks split exactly at the round of the latest finalized block), with S < L-1 a cousin
//	K branches of fork B: rounds M+1..T (K = 1: fork B simply goes on), all notarized in the top round T
//	Tail further rounds without notarized blocks; Cont further rounds in which some top blocks are extended
//
// Hidden: H is not locally available - it is in no round and not in the block cache - and the fork-B block(s) of round L+1
// (H's children) carry no PrevBlock link, as for a node that received the fork from round L+1 on (it finalized A_L itself and
// never saw, or already dropped, the losing proposal of that round). Only the harness' parent map knows H is their parent.
// Nothing on fork B descends from the latest finalized block, so no finalizeRound call may finalize any of it.
type c36sibSpec struct {
	S, L, M, T, AEnd, K int
	Tail, Cont          int
	Hidden              bool // false: control, H is known like every other block (only its children's PrevBlock link is missing)
	Linked              bool // other PrevBlock pointers kept; otherwise every previous block is resolved through the block cache
	Driven              bool // the latest finalized block is reached by real forward finalization of fork A (rounds 1..L+3) before fork B becomes known
	Progressive         bool // fork B becomes known round by round (finalizeRound after each round above L)
	Repeat              bool // finalizeRound is called a second time for the same round
	ArrivesLater        bool // H becomes available (block cache + its round) after the observed call, which is then made again
}

func (sp c36sibSpec) relation() string {
	if sp.S == sp.L-1 {
		return "sibling-of-lfb"
	}
	return "cousin-in-lfb-round"
}

func (sp c36sibSpec) String() string {
	return fmt.Sprintf("forks A and B split after the block of round %d; fork A runs to round %d with the latest finalized block in round %d (%s); fork B runs to round %d and continues in %d branch(es) to the top round %d; its block of round %d (a %s) is %s; %d trailing rounds without notarized blocks; %s; late blocks %s",
		sp.S, sp.AEnd, sp.L, map[bool]string{true: "reached by forward finalization", false: "set directly"}[sp.Driven], sp.M, sp.K, sp.T, sp.L, sp.relation(),
		map[bool]string{true: "NOT locally available, its children carry no PrevBlock link", false: "known, only its children's PrevBlock link is missing"}[sp.Hidden], sp.Tail,
		map[bool]string{true: "other PrevBlock pointers linked", false: "PrevBlock resolved through the block cache"}[sp.Linked],
		map[bool]string{true: "arrive round by round", false: "arrive all at once"}[sp.Progressive])
}

func (sp c36sibSpec) normalise() c36sibSpec {
	if sp.L <= sp.S {
		sp.L = sp.S + 1
	}
	if sp.M < sp.L {
		sp.M = sp.L
	}
	if sp.T <= sp.M {
		sp.T = sp.M + 1
	}
	if sp.AEnd < sp.L {
		sp.AEnd = sp.L
	}
	if sp.Driven && sp.AEnd < sp.L+3 {
		sp.AEnd = sp.L + 3
	}
	if sp.T < sp.AEnd {
		sp.T = sp.AEnd
	}
	if sp.K < 1 {
		sp.K = 1
	}
	if sp.Tail > 0 {
		sp.Cont = 0
	}
	if !sp.Hidden {
		sp.ArrivesLater = false
	}
	return sp
}

func c36sibScenario(run *mon.Run, e *c36Env, wk *c36Worker, rnd *mon.Rand, sp c36sibSpec, idx int) {
	c := e.c
	genesis := e.w.GB
	c.SetLatestFinalizedBlock(genesis)
	c.SetLatestOwnFinalizedBlockRound(genesis.Round)
	c.LatestDeterministicBlock = genesis
	R := sp.T + sp.Tail + sp.Cont
	parent := map[*block.Block]*block.Block{} // reference ancestry, kept by the harness; never read back from the blocks
	trueHash := map[*block.Block]string{}     // hash of the true parent
	var all []*block.Block                    // blocks in the block cache
	rounds := make([]*round.Round, R+1)
	notar := make([][]*block.Block, R+1) // locally known notarized blocks per round
	ranks := make([]int, R+2)
	for t := 1; t <= R; t++ {
		r := round.NewRound(int64(t))
		if c.AddRound(r) != round.RoundI(r) {
			panic("round already present")
		}
		rounds[t] = r
	}
	cleanup := func() {
		c.SetLatestFinalizedBlock(genesis)
		c.SetLatestOwnFinalizedBlockRound(genesis.Round)
		c.LatestDeterministicBlock = genesis
		for t := 1; t <= R; t++ {
			c.DeleteRound(context.Background(), rounds[t])
		}
		c.DeleteBlocks(all)
	}
	var hidden *block.Block
	var orphans []*block.Block // children of the hidden block: their PrevBlock link is missing from the start
	publish := func(b *block.Block) {
		t := int(b.Round)
		c.AddBlock(b)
		rounds[t].AddNotarizedBlock(b)
		notar[t] = append(notar[t], b)
		all = append(all, b)
	}
	mk := func(prev *block.Block, hide bool) *block.Block {
		t := int(prev.Round) + 1
		b := e.newBlock(prev, ranks[t])
		ranks[t]++
		parent[b] = prev
		trueHash[b] = prev.Hash
		if hide {
			hidden = b
			if sp.Hidden {
				return b // known to the harness' books only
			}
		}
		if prev == hidden {
			b.PrevBlock = nil
			orphans = append(orphans, b)
		}
		publish(b)
		return b
	}
	replay := map[string]interface{}{"sibling_scenario": idx, "spec": sp}
	kinds := map[string]int{}
	handedOver, reparented := 0, 0
	call := func(t int, tag string) string {
		if !sp.Linked {
			for _, b := range all {
				b.PrevBlock = nil
			}
		}
		before := c.GetLatestFinalizedBlock()
		wk.reset()
		c.VerifUnitchainFinalizeRound(wk.ctx, rounds[t])
		evs := wk.take()
		after := c.GetLatestFinalizedBlock()
		var tops []*block.Block
		for u := t; u >= 1 && tops == nil; u-- {
			if len(notar[u]) > 0 {
				tops = notar[u]
			}
		}
		run.Eval(1)
		run.Count("sibling_finalize_round_calls", 1)
		for _, ev := range evs {
			handedOver++
			if ev.claimedPrev != trueHash[ev.b] {
				// evidence only: the verdict comes from the ancestry rule below
				reparented++
				run.Count("sibling_obs_handed_over_block_names_other_parent_than_its_true_one", 1)
			}
		}
		kind := c36JudgeCall(run, "sibling", before, after, tops, parent, evs,
			fmt.Sprintf("sibling scenario %d [%s], finalizeRound(%d) %s, latest finalized block before the call in round %d", idx, sp, t, tag, before.Round), replay)
		kinds[kind]++
		run.Count("sibling_move_"+kind, 1)
		return kind
	}

	// ---- what is known before fork B shows up
	trunk := genesis
	for t := 1; t <= sp.S; t++ {
		trunk = mk(trunk, false)
		if sp.Driven {
			call(t, "while the trunk grows")
		}
	}
	a := trunk
	var lfbA *block.Block
	aKnown := sp.AEnd
	if sp.Driven {
		aKnown = sp.L + 3
	}
	for t := sp.S + 1; t <= aKnown; t++ {
		a = mk(a, false)
		if t == sp.L {
			lfbA = a
		}
		if sp.Driven {
			call(t, "while fork A grows alone")
		}
	}
	if sp.Driven {
		if c.GetLatestFinalizedBlock() != lfbA {
			// judged call by call above; without the planned latest finalized block the missing block would not sit in its round
			run.Count("sibling_obs_driven_lfb_differs_from_plan", 1)
			cleanup()
			return
		}
	} else {
		c.SetLatestOwnFinalizedBlockRound(lfbA.Round)
		c.SetLatestFinalizedBlock(lfbA)
	}

	// ---- the late part: the rest of fork A, fork B (its block of round L possibly never seen) and its branches
	b := trunk
	var branches []*block.Block
	for t := sp.S + 1; t <= sp.T; t++ {
		if t > aKnown && t <= sp.AEnd {
			a = mk(a, false)
		}
		switch {
		case t <= sp.M:
			b = mk(b, t == sp.L)
		case t == sp.M+1:
			for j := 0; j < sp.K; j++ {
				branches = append(branches, mk(b, false))
			}
		default:
			for j := range branches {
				branches[j] = mk(branches[j], false)
			}
		}
		if sp.Progressive && t > sp.L && t < sp.T {
			call(t, "while the late blocks arrive")
		}
	}
	run.Count("sibling_orphan_blocks_built", int64(len(orphans)))

	// ---- the call under observation
	plfb := c.GetLatestFinalizedBlock()
	kind := call(sp.T+sp.Tail, "after the late notarizations")
	if sp.Repeat {
		call(sp.T+sp.Tail, "called again")
	}
	if sp.ArrivesLater && hidden != nil && c.GetLatestFinalizedBlock().Round == hidden.Round {
		publish(hidden)
		run.Count("sibling_hidden_block_arrives_later", 1)
		call(sp.T+sp.Tail, "after the missing block arrived")
	}
	// ---- the chain goes on: some of the top blocks are extended
	tops := append([]*block.Block{}, notar[sp.T]...)
	for t := sp.T + 1; t <= sp.T+sp.Cont; t++ {
		n := 1
		if len(tops) > 1 && rnd.Chance(0.4) {
			n = 2
		}
		var next []*block.Block
		for j := 0; j < n; j++ {
			next = append(next, mk(tops[rnd.Intn(len(tops))], false))
		}
		tops = next
		call(t, "while the chain goes on")
	}
	if c.GetLatestFinalizedBlock() == plfb {
		run.Count("sibling_lfb_stayed_on_its_fork", 1)
	}
	if handedOver == 0 {
		run.Count("sibling_scenarios_nothing_handed_over", 1)
	}

	link := "cache"
	if sp.Linked {
		link = "linked"
	}
	run.Distinct(fmt.Sprintf("sibling:%s:hidden%v:split%d:lfb+%d:refork+%d:top+%d:aend+%d:k%d:tail%d:cont%d:%s:driven%v:prog%v:later%v:%s",
		sp.relation(), sp.Hidden, sp.S, sp.L-sp.S, sp.M-sp.L, sp.T-sp.L, sp.AEnd-sp.L, sp.K, sp.Tail, sp.Cont, link, sp.Driven, sp.Progressive, sp.ArrivesLater, kind))
	run.Count(fmt.Sprintf("sibling_scenarios[%s,hidden=%v]", sp.relation(), sp.Hidden), 1)
	if sp.Hidden && sp.T+sp.Tail+sp.Cont >= sp.L+4 {
		run.Count("sibling_scenarios_hidden_and_deep_enough_to_finalize_above_lfb", 1)
	}
	if idx < 3 {
		run.Sample(map[string]interface{}{"kind": "sibling", "spec": sp, "relation": sp.relation(), "lfb_round_before": plfb.Round,
			"lfb_round_after": c.GetLatestFinalizedBlock().Round, "moves": kinds, "blocks_handed_over": handedOver, "handed_over_with_rewritten_parent": reparented})
	}
	cleanup()
}

func c36Siblings(run *mon.Run, e *c36Env, wk *c36Worker, rnd *mon.Rand, thorough bool) {
	wk.setRequireConnected(true)
	idx := 0
	decorate := func(sp c36sibSpec) c36sibSpec {
		sp.Hidden = !rnd.Chance(0.15)
		sp.Tail = 0
		if rnd.Chance(0.4) {
			sp.Tail = 1 + rnd.Intn(3)
		}
		sp.Cont = rnd.Intn(5)
		sp.Linked = rnd.Chance(0.5)
		sp.Driven = rnd.Chance(0.3)
		sp.Progressive = rnd.Chance(0.3)
		sp.Repeat = rnd.Chance(0.3)
		sp.ArrivesLater = rnd.Chance(0.25)
		return sp.normalise()
	}
	// ---- systematic core: split exactly at the round of the latest finalized block (and one / two rounds earlier), the
	// re-fork point at / above that round, one to three branches, fork A ending at / after the latest finalized block
	for _, s := range []int{0, 1, 3} {
		for dL := 1; dL <= 3; dL++ {
			if dL == 3 && s != 1 {
				continue
			}
			L := s + dL
			for dM := 0; dM <= 4; dM++ {
				for dT := 1; dT <= 3; dT++ {
					T := L + dM + dT
					for _, aEnd := range []int{L, L + 1, T} {
						for k := 1; k <= 3; k++ {
							checkpoint(run)
							c36sibScenario(run, e, wk, rnd, decorate(c36sibSpec{S: s, L: L, M: L + dM, T: T, AEnd: aEnd, K: k}), idx)
							idx++
						}
					}
				}
			}
		}
	}
	run.Set("sibling_systematic_scenarios", idx)
	// ---- seeded random, wider ranges; two thirds split exactly at the round of the latest finalized block
	n := 400
	if thorough {
		n = 15000
	}
	for i := 0; i < n; i++ {
		checkpoint(run)
		s := rnd.Intn(6)
		L := s + 1
		if rnd.Chance(0.33) {
			L = s + 2 + rnd.Intn(3)
		}
		M := L + rnd.Intn(7)
		T := M + 1 + rnd.Intn(4)
		aEnd := L + rnd.Intn(T-L+1)
		c36sibScenario(run, e, wk, rnd, decorate(c36sibSpec{S: s, L: L, M: M, T: T, AEnd: aEnd, K: 1 + rnd.Intn(3)}), idx)
		idx++
	}
	run.Set("sibling_scenarios", idx)
}
