package unitchain

import (
	"context"
	"fmt"
	"strings"
	"sync"
	"time"

	"verifh/mon"
	"verifh/world"

	"0chain.net/chaincore/block"
	"0chain.net/chaincore/chain"
	"0chain.net/chaincore/round"
)

// treeSpec is a level-structured tree of notarized blocks: level 0 is the root (the genesis block), level d >= 1 is
// round d; par[d][i] is the index (in level d-1) of the parent of block i of level d.
type treeSpec struct {
	par [][]int // par[0] = nil
}

func (t treeSpec) depth() int { return len(t.par) - 1 }

func (t treeSpec) String() string {
	var s []string
	for d := 1; d < len(t.par); d++ {
		s = append(s, strings.Trim(strings.ReplaceAll(fmt.Sprint(t.par[d]), " ", ""), "[]"))
	}
	return strings.Join(s, "/")
}

// refAncestor: index of the level-`level` ancestor of block (d,i), from the parent vectors only.
func (t treeSpec) refAncestor(d, i, level int) int {
	for d > level {
		i = t.par[d][i]
		d--
	}
	return i
}

// refDCA is the reference model: the deepest (level, index), level < top, that is an ancestor of every block of the
// top level. Level 0 (the root) always qualifies.
func (t treeSpec) refDCA() (int, int) {
	top := t.depth()
	for lvl := top - 1; lvl >= 0; lvl-- {
		first := t.refAncestor(top, 0, lvl)
		all := true
		for i := 1; i < len(t.par[top]); i++ {
			if t.refAncestor(top, i, lvl) != first {
				all = false
				break
			}
		}
		if all {
			return lvl, first
		}
	}
	panic("unreachable: the root is a common ancestor")
}

type builtTree struct {
	spec   treeSpec
	blocks [][]*block.Block // [level][index]; level 0 = root
	rounds []*round.Round   // rounds[d] for d >= 1 (index 0 unused), plus tail rounds
	all    []*block.Block
}

type c36Env struct {
	w      *world.World
	c      *chain.Chain
	serial uint64
}

func (e *c36Env) newBlock(prev *block.Block, rank int) *block.Block {
	e.serial++
	b := block.NewBlock(e.c.GetKey(), prev.Round+1)
	b.Hash = fmt.Sprintf("%048x%016x", 0xC36, e.serial)
	b.MinerID = e.w.Miners[rank%len(e.w.Miners)].ID
	b.RoundRank = rank
	b.SetPreviousBlock(prev)
	b.SetStateStatus(block.StateSuccessful)
	return b
}

// build materialises the tree in the real chain: blocks linked and added to the block cache, one round object per
// level holding the level's blocks as notarized blocks, `tail` further rounds without notarized blocks.
func (e *c36Env) build(spec treeSpec, base int64, root *block.Block, tail int) *builtTree {
	bt := &builtTree{spec: spec}
	bt.blocks = append(bt.blocks, []*block.Block{root})
	bt.rounds = append(bt.rounds, nil)
	for d := 1; d <= spec.depth(); d++ {
		r := round.NewRound(base + int64(d))
		if got := e.c.AddRound(r); got != round.RoundI(r) {
			panic(fmt.Sprintf("round %d already present", base+int64(d)))
		}
		var lvl []*block.Block
		for i, p := range spec.par[d] {
			b := e.newBlock(bt.blocks[d-1][p], i)
			if b.Round != base+int64(d) {
				panic("round numbering")
			}
			e.c.AddBlock(b)
			r.AddNotarizedBlock(b)
			lvl = append(lvl, b)
			bt.all = append(bt.all, b)
		}
		bt.blocks = append(bt.blocks, lvl)
		bt.rounds = append(bt.rounds, r)
	}
	for k := 1; k <= tail; k++ {
		r := round.NewRound(base + int64(spec.depth()+k))
		e.c.AddRound(r)
		bt.rounds = append(bt.rounds, r)
	}
	return bt
}

func (e *c36Env) addTail(bt *builtTree, base int64) {
	r := round.NewRound(base + int64(len(bt.rounds)))
	e.c.AddRound(r)
	bt.rounds = append(bt.rounds, r)
}

func (e *c36Env) destroy(bt *builtTree) {
	for _, r := range bt.rounds {
		if r != nil {
			e.c.DeleteRound(context.Background(), r)
		}
	}
	e.c.DeleteBlocks(bt.all)
}

func (bt *builtTree) unlink() {
	for _, b := range bt.all {
		b.PrevBlock = nil
	}
}

func (bt *builtTree) relink() {
	for d := 1; d < len(bt.blocks); d++ {
		for i, b := range bt.blocks[d] {
			b.PrevBlock = bt.blocks[d-1][bt.spec.par[d][i]]
		}
	}
}

func descBlock(bt *builtTree, b *block.Block) string {
	if b == nil {
		return "nil"
	}
	for d, lvl := range bt.blocks {
		for i, x := range lvl {
			if x == b {
				return fmt.Sprintf("(level %d, #%d)", d, i)
			}
		}
	}
	return "unknown block " + short(b.Hash)
}

// judge one built tree with the given top round.
func (e *c36Env) judge(run *mon.Run, bt *builtTree, lfbr int64, top *round.Round, mode string, tail int) {
	got := e.c.ComputeFinalizedBlock(context.Background(), lfbr, top)
	run.Eval(1)
	run.Count("dca_"+mode, 1)
	lvl, idx := bt.spec.refDCA()
	want := bt.blocks[lvl][idx]
	if got != want {
		sig := "C36:wrong-finalized-block"
		if got == nil {
			sig = "C36:no-finalized-block-for-complete-tree"
		}
		violate(run, sig, fmt.Sprintf("tree %s (parent index per block, levels separated by /), %d trailing rounds without notarized blocks, %s: ComputeFinalizedBlock returned %s, the deepest common ancestor in an earlier round is (level %d, #%d)",
			bt.spec, tail, mode, descBlock(bt, got), lvl, idx),
			map[string]interface{}{"parents": bt.spec.par[1:], "tail_empty_rounds": tail, "mode": mode, "lfb_round": lfbr})
	}
}

func runC36(run *mon.Run, thorough bool) {
	w := newWorld(mon.Seed())
	defer w.Close()
	rnd := mon.NewRand(mon.Seed()).Fork("C36")
	e := &c36Env{w: w, c: w.Chain}
	maxDepth, maxWidth := 4, 3
	if thorough {
		maxDepth = 5
	}
	run.Set("bound", fmt.Sprintf("every tree with 1..%d rounds below the root, 1..%d notarized blocks per round, every assignment of parents (ordered by rank), x {0,1,2} trailing rounds without notarized blocks x {PrevBlock linked, PrevBlock resolved through the block cache}", maxDepth, maxWidth))
	run.Assume("every block of the tree is locally available (linked or in the block cache with computed state): fetching a missing previous block from the network is out of reach")
	run.Assume("chain-extension part: the harness stands in for the finalized-block worker (it records the block, sets it as latest finalized block and reports success); notarized blocks of a round are all known before a later round is finalized (a late notarization on a competing fork makes finalizeRound roll the latest finalized block back by design - observed, not judged)")

	// ---- exhaustive part
	trees := 0
	var sampleN int
	var rec func(spec treeSpec)
	evalTree := func(spec treeSpec) {
		trees++
		if trees%500 == 0 {
			checkpoint(run)
		}
		bt := e.build(spec, 0, w.GB, 0)
		D := spec.depth()
		for tail := 0; tail <= 2; tail++ {
			if tail > 0 {
				e.addTail(bt, 0)
			}
			top := bt.rounds[D+tail]
			bt.relink()
			e.judge(run, bt, 0, top, "linked", tail)
			bt.unlink()
			e.judge(run, bt, 0, top, "via_block_cache", tail)
		}
		widths := make([]string, 0, D)
		forks := false
		for d := 1; d <= D; d++ {
			widths = append(widths, fmt.Sprint(len(spec.par[d])))
			if len(spec.par[d]) > 1 {
				forks = true
			}
		}
		if forks {
			run.Distinct("tree:" + spec.String())
		}
		if sampleN < 3 && D == maxDepth && len(spec.par[D]) == 2 && spec.par[D][0] != spec.par[D][1] {
			sampleN++
			l, i := spec.refDCA()
			run.Sample(map[string]interface{}{"parents_per_level": spec.par[1:], "widths": strings.Join(widths, ","), "reference_dca": fmt.Sprintf("level %d #%d", l, i)})
		}
		e.destroy(bt)
	}
	rec = func(spec treeSpec) {
		if spec.depth() >= 1 {
			evalTree(spec)
		}
		if spec.depth() == maxDepth {
			return
		}
		prevW := 1
		if spec.depth() >= 1 {
			prevW = len(spec.par[spec.depth()])
		}
		for wd := 1; wd <= maxWidth; wd++ {
			// every parent vector in prevW^wd
			vec := make([]int, wd)
			for {
				next := treeSpec{par: append(append([][]int{}, spec.par...), append([]int{}, vec...))}
				rec(next)
				k := 0
				for k < wd {
					vec[k]++
					if vec[k] < prevW {
						break
					}
					vec[k] = 0
					k++
				}
				if k == wd {
					break
				}
			}
		}
	}
	rec(treeSpec{par: [][]int{nil}})
	run.Set("exhaustive_trees", trees)
	run.Set("exhaustive_part_complete", true)

	// ---- seeded random larger trees, latest-finalized-round cut-offs, a missing round object
	nRandom := 400
	if thorough {
		nRandom = 20000
	}
	for i := 0; i < nRandom; i++ {
		D := 2 + rnd.Intn(11)
		maxW := 1 + rnd.Intn(6)
		spec := treeSpec{par: [][]int{nil}}
		prevW := 1
		pFork := float64(rnd.Intn(4)) / 4
		for d := 1; d <= D; d++ {
			wd := 1
			if rnd.Chance(0.6) {
				wd = 1 + rnd.Intn(maxW)
			}
			vec := make([]int, wd)
			for k := range vec {
				if rnd.Chance(pFork) {
					vec[k] = rnd.Intn(prevW)
				} else {
					vec[k] = 0 // long common prefixes: forks that survive several rounds
					if d > 1 && k < prevW && rnd.Chance(0.7) {
						vec[k] = k
					}
				}
			}
			spec.par = append(spec.par, vec)
			prevW = wd
		}
		tail := rnd.Intn(4)
		bt := e.build(spec, 0, w.GB, tail)
		top := bt.rounds[D+tail]
		mode := "linked"
		if rnd.Chance(0.4) {
			bt.unlink()
			mode = "via_block_cache"
		}
		lvl, _ := spec.refDCA()
		switch rnd.Intn(4) {
		case 0: // latest finalized round somewhere below the top notarized round: no influence on the answer
			lfbr := int64(rnd.Intn(D))
			run.Count("random_lfb_round_below_top", 1)
			e.judge(run, bt, lfbr, top, mode, tail)
		case 1: // every round with notarized blocks is already at or below the latest finalized round: nothing to choose
			lfbr := int64(D + rnd.Intn(tail+1))
			got := e.c.ComputeFinalizedBlock(context.Background(), lfbr, top)
			run.Eval(1)
			run.Count("nothing_above_lfb_round", 1)
			if got != nil {
				violate(run, "C36:block-chosen-without-notarized-round-above-lfb", fmt.Sprintf("tree %s tail=%d lfb round=%d: returned %s", spec, tail, lfbr, descBlock(bt, got)),
					map[string]interface{}{"parents": spec.par[1:], "tail_empty_rounds": tail, "lfb_round": lfbr})
			}
		case 2: // a trailing round object is missing: the walk down cannot continue; nil or the right block are acceptable, a wrong block is not
			if tail >= 2 {
				e.c.DeleteRound(context.Background(), bt.rounds[D+1])
				got := e.c.ComputeFinalizedBlock(context.Background(), 0, top)
				run.Eval(1)
				run.Count("missing_round_object", 1)
				l, ix := spec.refDCA()
				if got != nil && got != bt.blocks[l][ix] {
					violate(run, "C36:wrong-finalized-block", fmt.Sprintf("tree %s tail=%d with round object %d missing: returned %s", spec, tail, D+1, descBlock(bt, got)),
						map[string]interface{}{"parents": spec.par[1:], "tail_empty_rounds": tail, "missing_round": D + 1})
				}
				if got == nil {
					run.Count("obs_missing_round_object_gives_nil", 1)
				}
				break
			}
			fallthrough
		default:
			e.judge(run, bt, 0, top, mode, tail)
		}
		run.Distinct(fmt.Sprintf("rtree:%s:t%d:dca%d", spec, tail, lvl))
		e.destroy(bt)
	}

	// ---- chain extension: repeated finalizeRound over growing trees
	c36Growth(run, e, rnd.Fork("growth"), thorough)

}

type noopViewChanger struct{}

func (noopViewChanger) ViewChange(ctx context.Context, lfb *block.Block) error { return nil }

type finEvent struct {
	b       *block.Block
	prevLFB *block.Block
}

func c36Growth(run *mon.Run, e *c36Env, rnd *mon.Rand, thorough bool) {
	c := e.c
	c.SetViewChanger(noopViewChanger{})
	ctx, cancel := context.WithCancel(context.Background())
	defer cancel()
	var mu sync.Mutex
	var events []finEvent
	go func() { // stand-in for FinalizedBlockWorker
		for {
			b, res := c.VerifUnitchainNextFinalized(ctx)
			if b == nil {
				return
			}
			mu.Lock()
			events = append(events, finEvent{b, c.GetLatestFinalizedBlock()})
			mu.Unlock()
			c.SetLatestOwnFinalizedBlockRound(b.Round)
			c.SetLatestFinalizedBlock(b)
			res <- nil
		}
	}()
	nChains, maxRounds := 150, 14
	if thorough {
		nChains, maxRounds = 3000, 30
	}
	genesis := e.w.GB
	for ci := 0; ci < nChains; ci++ {
		checkpoint(run)
		c.SetLatestFinalizedBlock(genesis)
		c.LatestDeterministicBlock = genesis
		parent := map[*block.Block]*block.Block{} // reference ancestry, kept by the harness
		isAnc := func(a, b *block.Block) bool {    // a is an ancestor of b or b itself
			for x := b; x != nil; x = parent[x] {
				if x == a {
					return true
				}
			}
			return false
		}
		var all []*block.Block
		var rounds []*round.Round
		topBlocks := []*block.Block{genesis}
		T := 6 + rnd.Intn(maxRounds-5)
		pFork := float64(1+rnd.Intn(3)) / 4
		pCall := 0.6 + float64(rnd.Intn(5))/10
		var shape []string
		late := rnd.Chance(0.15) // observation-only scenario: a late notarization on a competing fork
		finalizedTotal := 0
		for t := 1; t <= T; t++ {
			r := round.NewRound(int64(t))
			if c.AddRound(r) != round.RoundI(r) {
				panic("round already present")
			}
			rounds = append(rounds, r)
			call := func(tag string) {
				lfbBefore := c.GetLatestFinalizedBlock()
				mu.Lock()
				events = events[:0]
				mu.Unlock()
				c.VerifUnitchainFinalizeRound(ctx, r)
				mu.Lock()
				evs := append([]finEvent{}, events...)
				mu.Unlock()
				run.Eval(1)
				run.Count("growth_finalize_round_calls", 1)
				lfbAfter := c.GetLatestFinalizedBlock()
				replay := map[string]interface{}{"chain": ci, "round": t, "shape": strings.Join(shape, " "), "call": tag}
				if late {
					if lfbAfter.Round < lfbBefore.Round {
						run.Count("obs_rollback_after_late_notarization", 1)
					}
					return
				}
				cur := lfbBefore
				for _, ev := range evs {
					finalizedTotal++
					run.Count("growth_finalized_descends_from_lfb", 1)
					if ev.prevLFB != cur || ev.b == cur || !isAnc(cur, ev.b) {
						violate(run, "C36:finalized-block-not-descendant-of-lfb", fmt.Sprintf("chain %d round %d (%s): finalizeRound handed over the block of round %d which does not descend from the latest finalized block of round %d; growth: %s",
							ci, t, tag, ev.b.Round, cur.Round, strings.Join(shape, " ")), replay)
					}
					run.Count("growth_finalized_is_common_ancestor", 1)
					for _, tb := range topBlocks {
						if !isAnc(ev.b, tb) || ev.b == tb {
							violate(run, "C36:finalized-block-not-common-ancestor", fmt.Sprintf("chain %d round %d (%s): the finalized block of round %d is not an ancestor of every notarized block of the latest round with notarized blocks; growth: %s",
								ci, t, tag, ev.b.Round, strings.Join(shape, " ")), replay)
							break
						}
					}
					cur = ev.b
				}
				run.Count("growth_lfb_monotone", 1)
				if lfbAfter != cur || lfbAfter.Round < lfbBefore.Round {
					violate(run, "C36:lfb-moved-off-the-finalized-chain", fmt.Sprintf("chain %d round %d (%s): latest finalized block went from round %d to round %d (last handed over: round %d); growth: %s",
						ci, t, tag, lfbBefore.Round, lfbAfter.Round, cur.Round, strings.Join(shape, " ")), replay)
				}
			}
			if rnd.Chance(0.25) {
				shape = append(shape, fmt.Sprintf("r%d:finalize-empty", t))
				run.Count("growth_empty_top_round_calls", 1)
				call("round without notarized blocks")
			}
			wd := 1
			if rnd.Chance(pFork) {
				wd = 1 + rnd.Intn(3)
			}
			var lvl []*block.Block
			var ps []string
			for i := 0; i < wd; i++ {
				pi := rnd.Intn(len(topBlocks))
				if rnd.Chance(0.5) {
					pi = 0
				}
				b := e.newBlock(topBlocks[pi], i)
				parent[b] = topBlocks[pi]
				c.AddBlock(b)
				r.AddNotarizedBlock(b)
				lvl = append(lvl, b)
				all = append(all, b)
				ps = append(ps, fmt.Sprint(pi))
			}
			shape = append(shape, fmt.Sprintf("r%d:[%s]", t, strings.Join(ps, ",")))
			prevTop := topBlocks
			topBlocks = lvl
			if rnd.Chance(pCall) || t == T {
				call("after notarization")
			}
			if late && t >= 5 && len(prevTop) > 1 && rnd.Chance(0.5) {
				// a sibling appears late in this round on another fork, then the round is finalized again
				b := e.newBlock(prevTop[len(prevTop)-1], len(lvl))
				parent[b] = prevTop[len(prevTop)-1]
				c.AddBlock(b)
				r.AddNotarizedBlock(b)
				all = append(all, b)
				topBlocks = append(topBlocks, b)
				shape = append(shape, fmt.Sprintf("r%d:late-sibling", t))
				run.Count("obs_late_notarization_scenarios", 1)
				call("late sibling")
			}
		}
		if !late {
			run.Distinct("growth:" + strings.Join(shape, " "))
			if finalizedTotal > 0 {
				run.Count("growth_chains_with_finalization", 1)
			}
			if ci < 2 {
				run.Sample(map[string]interface{}{"kind": "growth", "rounds": T, "shape": strings.Join(shape, " "), "blocks_finalized": finalizedTotal, "final_lfb_round": c.GetLatestFinalizedBlock().Round})
			}
		}
		c.SetLatestFinalizedBlock(genesis)
		c.LatestDeterministicBlock = genesis
		for _, r := range rounds {
			c.DeleteRound(context.Background(), r)
		}
		c.DeleteBlocks(all)
	}
	// let the notification goroutines started by SetLatestFinalizedBlock drain before the state DB is closed
	time.Sleep(50 * time.Millisecond)
}
