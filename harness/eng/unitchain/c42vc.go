package unitchain

import (
	"encoding/hex"
	"fmt"
	"sort"
	"strings"

	"verifh/mon"
	"verifh/world"

	"0chain.net/chaincore/block"
	"0chain.net/chaincore/chain"
	"0chain.net/chaincore/node"
	"0chain.net/chaincore/round"
	"0chain.net/core/encryption"
	"0chain.net/core/viper"
)

// View-change family of C42.
//
// A real chain holds two or three magic blocks with DIFFERENT sharder sets (sharders added, removed, replaced, all new) at
// generated starting rounds. A magic block stored at starting round s is in force for the blocks of the rounds >= s+ViewChangeOffset;
// the blocks of the rounds s .. s+ViewChangeOffset-1 still belong to the sharders of the magic block before it. For every round
// around every view change, many block hashes and several replicator counts the three entry points of the chain are asked about
// every sharder of every set and compared with each other and with a reference model written from the statement: the responsible
// sharders are the top-k (ties at the cut included) of the sharders IN FORCE for the round of the block, ranked by the exported
// XOR hash scorer over (sharder id bytes, block hash bytes); with replication disabled they are all the sharders in force.

const (
	c42SigVC         = "C42:replicators-differ-across-view-change"
	c42SigVCDisabled = "C42:replication-disabled-not-sharders-in-force-across-view-change"
)

// c42vcMB is what the harness knows about one generated magic block: its starting round and the ids of its sharders.
type c42vcMB struct {
	start int64
	ids   []string              // sorted
	nodes map[string]*node.Node // id -> the object held by this magic block's pool
}

// c42vcInForce is the reference rule: the blocks of round r belong to the magic block with the highest starting round
// <= r-ViewChangeOffset (rounds up to the offset are looked up as they are). mbs is sorted by starting round, mbs[0].start == 0.
func c42vcInForce(mbs []*c42vcMB, r int64) *c42vcMB {
	e := r
	if r > chain.ViewChangeOffset {
		e = r - chain.ViewChangeOffset
	}
	in := mbs[0]
	for _, m := range mbs[1:] {
		if m.start <= e {
			in = m
		}
	}
	return in
}

// c42vcReference returns the sorted ids responsible for the hash among ids: everyone when k <= 0, otherwise every sharder
// whose score is at least the k-th highest score. judged == false: fewer sharders than k (the statement conditions on enough sharders).
func c42vcReference(scorer encryption.HashScorer, ids []string, hashBytes []byte, k int) (want []string, judged bool) {
	if k <= 0 {
		return append([]string{}, ids...), true
	}
	if k > len(ids) {
		return nil, false
	}
	sc := make(map[string]int32, len(ids))
	all := make([]int32, 0, len(ids))
	for _, id := range ids {
		raw, err := hex.DecodeString(id)
		if err != nil {
			panic(fmt.Sprintf("sharder id not hex: %v", err))
		}
		sc[id] = scorer.Score(raw, hashBytes)
		all = append(all, sc[id])
	}
	sort.Slice(all, func(i, j int) bool { return all[i] > all[j] })
	cut := all[k-1]
	for _, id := range ids {
		if sc[id] >= cut {
			want = append(want, id)
		}
	}
	sort.Strings(want)
	return want, true
}

func c42vcSetReplicators(c *chain.Chain, k int) {
	viper.Set("server_chain.block.replicators", k)
	_ = c.ChainConfig.FromViper()
	if c.NumReplicators() != k {
		panic(fmt.Sprintf("replicators not applied: %d != %d", c.NumReplicators(), k))
	}
}

// c42vcMutate derives the next sharder set (indexes into the wallet universe) from cur.
func c42vcMutate(rnd *mon.Rand, universe int, cur []int, kind string) []int {
	in := map[int]bool{}
	for _, i := range cur {
		in[i] = true
	}
	var out []int
	for i := 0; i < universe; i++ {
		if !in[i] {
			out = append(out, i)
		}
	}
	rnd.Shuffle(len(out), func(i, j int) { out[i], out[j] = out[j], out[i] })
	keep := append([]int{}, cur...)
	rnd.Shuffle(len(keep), func(i, j int) { keep[i], keep[j] = keep[j], keep[i] })
	take := func(max int) int {
		if max < 1 {
			return 0
		}
		n := 1 + rnd.Intn(3)
		if n > max {
			n = max
		}
		return n
	}
	switch kind {
	case "added":
		return append(keep, out[:take(len(out))]...)
	case "removed":
		return keep[take(len(keep)-1):]
	case "replaced":
		n := take(len(keep))
		if n > len(out) {
			n = len(out)
		}
		return append(keep[n:], out[:n]...)
	case "all-new":
		n := len(cur)
		if n > len(out) {
			n = len(out)
		}
		return append([]int{}, out[:n]...)
	default: // "mixed": some removed, another number added
		rm := take(len(keep) - 1)
		return append(keep[rm:], out[:take(len(out))]...)
	}
}

var c42vcKinds = []string{"added", "removed", "replaced", "all-new", "mixed"}

func runC42ViewChange(run *mon.Run, w *world.World, rnd *mon.Rand, thorough bool) {
	c := w.Chain
	run.Assume("view-change family: a magic block with starting round s is in force for the blocks of the rounds >= s+ViewChangeOffset (GetMagicBlock semantics, chain.ViewChangeOffset); non-genesis magic blocks start after round ViewChangeOffset")
	run.Assume("view-change family: with replication disabled IsBlockSharder/IsBlockSharderFromHash answer true for any node object; they are judged for the sharders in force, the answer for a sharder of another magic block is observed only")
	scenarios, hashesPer := 20, 12
	if thorough {
		scenarios, hashesPer = 120, 40
	}
	const universe = 14
	ws := wallets(fmt.Sprintf("c42-vc-sharder-%d", mon.Seed()), universe)
	scorer := encryption.NewXORHashScorer()
	savedStorage := c.MagicBlockStorage
	defer func() { c.MagicBlockStorage = savedStorage }()

	for sc := 0; sc < scenarios; sc++ {
		checkpoint(run)
		nMB := 2 + sc%2 // genesis + one or two view changes
		objects := []string{"shared", "own"}[(sc/8)%2]
		// sharder sets
		n0 := 2 + rnd.Intn(7)
		sets := [][]int{randPerm(rnd, universe)[:n0]}
		var kinds []string
		for i := 1; i < nMB; i++ {
			kind := c42vcKinds[(sc+i*3)%len(c42vcKinds)]
			if sc >= 2*len(c42vcKinds) {
				kind = c42vcKinds[rnd.Intn(len(c42vcKinds))]
			}
			next := c42vcMutate(rnd, universe, sets[i-1], kind)
			if len(next) == len(sets[i-1]) && kind == "removed" { // a single sharder left: nothing to remove
				kind = "added"
				next = c42vcMutate(rnd, universe, sets[i-1], kind)
			}
			kinds = append(kinds, kind)
			sets = append(sets, next)
		}
		// starting rounds: genesis at 0, the first view change at a generated round, the second one after a gap below / equal to /
		// above the view-change offset (a new magic block stored before the previous one is in force) or far away
		starts := []int64{0, int64(20 + rnd.Intn(400))}
		gapClass := "one-view-change"
		if nMB == 3 {
			var gap int64
			switch (sc / 2) % 4 {
			case 0:
				gap, gapClass = int64(1+rnd.Intn(chain.ViewChangeOffset-1)), "gap<offset"
			case 1:
				gap, gapClass = chain.ViewChangeOffset, "gap=offset"
			case 2:
				gap, gapClass = chain.ViewChangeOffset+int64(1+rnd.Intn(8)), "gap>offset"
			default:
				gap, gapClass = int64(30+rnd.Intn(300)), "gap-far"
			}
			starts = append(starts, starts[1]+gap)
		}
		// the real chain
		c.MagicBlockStorage = round.NewRoundStartingStorage()
		shared := map[string]*node.Node{}
		var mbs []*c42vcMB
		minN, maxN := universe, 0
		for i := 0; i < nMB; i++ {
			m := &c42vcMB{start: starts[i], nodes: map[string]*node.Node{}}
			pool := node.NewPool(node.NodeTypeSharder)
			order := append([]int{}, sets[i]...)
			rnd.Shuffle(len(order), func(a, b int) { order[a], order[b] = order[b], order[a] })
			for p, wi := range order {
				id := ws[wi].ID
				nd := shared[id]
				if nd == nil || objects == "own" {
					nd = mkNode(ws[wi], node.NodeTypeSharder, 9300+p) // node.NewNode: sets the id bytes the scorer ranks on
					shared[id] = nd
				}
				if err := pool.AddNode(nd); err != nil {
					panic(fmt.Sprintf("Pool.AddNode: %v", err))
				}
				m.nodes[id] = nd
				m.ids = append(m.ids, id)
			}
			sort.Strings(m.ids)
			if len(m.ids) < minN {
				minN = len(m.ids)
			}
			if len(m.ids) > maxN {
				maxN = len(m.ids)
			}
			mb := block.NewMagicBlock()
			mb.Miners = w.MB.Miners
			mb.Sharders = pool
			mb.StartingRound = m.start
			mb.MagicBlockNumber = int64(i + 1)
			mb.Hash = fmt.Sprintf("c42-vc-mb-%d-%d", sc, i)
			c.SetMagicBlock(mb)
			mbs = append(mbs, m)
			if i > 0 && strings.Join(m.ids, ",") == strings.Join(mbs[i-1].ids, ",") {
				panic("view-change family generated two equal consecutive sharder sets")
			}
		}
		run.Count("vc_scenarios", 1)
		run.Count("vc_scenarios["+gapClass+"]", 1)
		run.Count("vc_scenarios[objects="+objects+"]", 1)
		// every sharder of every set, asked through the object of the pool in force when it is a member of it
		var unionIDs []string
		anyObj := map[string]*node.Node{}
		for _, m := range mbs {
			for _, id := range m.ids {
				if anyObj[id] == nil {
					anyObj[id] = m.nodes[id]
					unionIDs = append(unionIDs, id)
				}
			}
		}
		sort.Strings(unionIDs)

		ks := []int{0, 1}
		if minN > 1 {
			ks = append(ks, minN)
		}
		if minN > 2 {
			ks = append(ks, 2+rnd.Intn(minN-2))
		}
		if maxN > minN {
			ks = append(ks, maxN) // more than the smaller set holds: "not enough sharders" on one side of the view change
		}
		describe := func() map[string]interface{} {
			d := map[string]interface{}{"objects": objects, "mutations": kinds, "view_change_offset": chain.ViewChangeOffset}
			for i, m := range mbs {
				d[fmt.Sprintf("magic_block_%d", i)] = map[string]interface{}{"starting_round": m.start, "sharders": shorts(m.ids)}
			}
			return d
		}
		for _, k := range ks {
			c42vcSetReplicators(c, k)
			mode := "enabled"
			if k <= 0 {
				mode = "disabled"
			}
			for vi := 1; vi < nMB; vi++ {
				s := mbs[vi].start
				for r := s - 6; r <= s+chain.ViewChangeOffset+6; r++ {
					class := "after"
					if r < s {
						class = "before"
					} else if r < s+chain.ViewChangeOffset {
						class = "in_window"
					}
					in := c42vcInForce(mbs, r)
					for h := 0; h < hashesPer; h++ {
						raw := make([]byte, 32)
						for i := range raw {
							raw[i] = byte(rnd.U64())
						}
						if h%6 == 5 { // low-entropy hashes: score ties at the cut
							for i := range raw {
								raw[i] = byte(0xff * (h % 2))
							}
							raw[int(r)%32] ^= byte(1 << uint(h%8))
						}
						hash := hex.EncodeToString(raw)
						want, judged := c42vcReference(scorer, in.ids, raw, k)
						b := block.NewBlock(c.GetKey(), r)
						b.Hash = hash
						var is, fromHash, can []string
						var nonMemberTrue int64
						listed, listedSame := "", true
						for qi, id := range unionIDs {
							nd, member := in.nodes[id]
							if !member {
								nd = anyObj[id]
							}
							a1 := c.IsBlockSharder(b, nd)
							a2 := c.IsBlockSharderFromHash(r, hash, nd)
							a3, nodes := c.CanShardBlockWithReplicators(r, hash, nd)
							if k <= 0 && !member {
								// replication disabled: the boolean does not depend on the node asked about; observed only
								if a1 || a2 || a3 {
									nonMemberTrue++
								}
							} else {
								if a1 {
									is = append(is, id)
								}
								if a2 {
									fromHash = append(fromHash, id)
								}
								if a3 {
									can = append(can, id)
								}
							}
							var l []string
							for _, x := range nodes {
								l = append(l, x.GetKey())
							}
							ls := strings.Join(sortedCopy(l), ",")
							if qi == 0 {
								listed = ls
							} else if ls != listed {
								listedSame = false
							}
						}
						run.Eval(1)
						run.Count("vc_compared["+class+","+mode+"]", 1)
						run.Count("vc_compared", 1)
						if nonMemberTrue > 0 {
							run.Count("vc_obs_disabled_true_for_sharder_not_in_force", nonMemberTrue)
						}
						sIs, sFrom, sCan := strings.Join(sortedCopy(is), ","), strings.Join(sortedCopy(fromHash), ","), strings.Join(sortedCopy(can), ",")
						sWant := strings.Join(want, ",")
						replay := describe()
						replay["round"], replay["k"], replay["hash"], replay["round_class"] = r, k, hash, class
						replay["sharders_in_force"] = shorts(in.ids)
						detail := func() string {
							return fmt.Sprintf("round %d (%s view change at %d, offset %d) k=%d hash=%s: in force %v; reference %v; IsBlockSharder=%v IsBlockSharderFromHash=%v CanShardBlockWithReplicators=%v listed=%v (same list for every sharder asked: %v)",
								r, class, s, chain.ViewChangeOffset, k, short(hash), shorts(in.ids), shorts(want), shorts(sortedCopy(is)), shorts(sortedCopy(fromHash)), shorts(sortedCopy(can)), shorts(strings.Split(listed, ",")), listedSame)
						}
						switch {
						case k <= 0:
							// everyone in force, nobody else
							if sIs != sWant || sFrom != sWant || sCan != sWant || listed != sWant || !listedSame {
								violate(run, c42SigVCDisabled, detail(), replay)
							}
						case judged:
							if len(want) > k {
								run.Count("vc_obs_score_ties_extend_set", 1)
							}
							if sIs != sWant || sFrom != sWant || sCan != sWant || listed != sWant || !listedSame {
								violate(run, c42SigVC, detail(), replay)
							}
						default:
							// fewer sharders in force than k: no reference set, the entry points still have to describe one set
							run.Count("vc_obs_k_gt_sharders_in_force", 1)
							if sIs != sFrom || sIs != sCan || listed != sIs || !listedSame {
								violate(run, c42SigVC, detail(), replay)
							}
						}
						if h == 0 {
							run.Distinct(fmt.Sprintf("vc mbs=%d %s objects=%s mutation=%s round=%s %s in_force=%d k=%d", nMB, gapClass, objects, kinds[vi-1], class, mode, len(in.ids), k))
						}
						if h == 1 && class == "in_window" && k == minN && sc < 2 && r == s {
							run.Sample(map[string]interface{}{"view_change": replay, "responsible": shorts(want)})
						}
					}
				}
			}
		}
	}
	// a run in which the in-window classes were not reached says nothing about view changes (the parent's RequireMin list lives in engine.go)
	for _, m := range []struct {
		name string
		min  int64
	}{
		{"vc_compared[in_window,enabled]", 2000}, {"vc_compared[in_window,disabled]", 500},
		{"vc_compared[before,enabled]", 2000}, {"vc_compared[after,enabled]", 2000},
		{"vc_compared[before,disabled]", 500}, {"vc_compared[after,disabled]", 500},
		{"vc_scenarios[gap<offset]", 1}, {"vc_scenarios[objects=shared]", 2}, {"vc_scenarios[objects=own]", 2},
	} {
		run.RequireMin(m.name, m.min)
		if got := run.Counter(m.name); got < m.min {
			run.Inconclusive(fmt.Sprintf("monitor %q evaluated %d times (< %d)", m.name, got, m.min))
		}
	}
}
