// Package evdb is the C20 engine: the query database keeps every finalized bridge / pool event.
//
//	layer 1: the real merge step (mergeEvents, through VerifMergeEvents) on generated block event lists; additive
//	         effects and append-only rows are summarised the same way before and after the merge and compared;
//	real emission (real.go): blocks of real zcnsc burn / mint transactions executed through Chain.UpdateState; the events the
//	         execution returned go through the same merge step and handlers, the reference is read from the transactions;
//	layer 2: the real EventDb.ProcessEvents on the in-memory (sqlite) event database, fed with the bridge events of the
//	         generated blocks; afterwards GetBurnTickets must return one row per burn, and the batch UPDATE that the
//	         authorizer-total handlers issue (Postgres-only SQL, captured from the gorm logger, not executed) must carry
//	         every burner / signer with the right amount.
package evdb

import (
	"flag"
	"fmt"
	"os"
	"runtime/debug"
	"sort"
	"strings"
	"time"

	"0chain.net/smartcontract/dbs/event"

	"verifh/mon"
)

const rule = "blocks = seeded lists of operations (0-6 burns, 0-6 mints, 0-3 each of stake/read-pool/write-pool lock+unlock, rewards, penalties, reward collection, write/read markers, challenge add/update, plain, chain and error events) over entity pools of size 1, 2 or 6 " +
	"(so operations share or do not share a client / ethereum address / provider), each operation emitting the events its contract function emits (tag, index, payload type) after the chain's transaction + fee events; " +
	"one evaluation = one block through the real merge step (layer 1) or through the real ProcessEvents on the sqlite event DB (layer 2); " +
	"real emission = blocks of real zcnsc transactions (1-6 burns by 1, 2 or more clients toward 1, 2 or more ethereum addresses incl. two clients toward one address, one client toward two addresses, one client twice toward one address; mints signed by registered authorizers; refused burns) executed through Chain.UpdateState, their returned events merged and handled as above and judged against a reference read from the transactions; " +
	"distinct = (tag, number of events of that tag in the block capped at 4, largest group of them sharing one index capped at 3) triples plus bridge classes (burns, ethereum addresses, burners / mints, minters per block), for real blocks (burns, addresses, burners, the three sharing classes, mints, minters, refused)"

// Main is the engine entry point.
func Main(args []string) int {
	fs := flag.NewFlagSet("evdb", flag.ExitOnError)
	prop := fs.String("prop", "C20", "property id")
	tier := fs.String("tier", "quick", "quick|thorough")
	child := fs.String("child", "", "child kind (internal): merge|db|real")
	idx := fs.Int("idx", 0, "child index (internal)")
	blocks := fs.Int("blocks", 0, "blocks per child")
	hists := fs.Int("hists", 1, "real histories per child (internal)")
	_ = fs.Parse(args)
	if *prop != "C20" {
		fmt.Println("evdb serves C20 only")
		return 2
	}
	nMerge, nDB, nbMerge, nbDB := 4, 4, 1500, 60
	// real emission: children x histories x blocks per history
	nReal, nhReal, nbReal := 3, 2, 40
	if *tier == "thorough" {
		nMerge, nDB, nbMerge, nbDB = 12, 12, 20000, 600
		nReal, nhReal, nbReal = 10, 4, 160
	}
	if *child != "" {
		n := *blocks
		return childMain(*tier, *child, *idx, n, *hists)
	}
	defer mon.CleanScratch()
	run := mon.NewRun("C20", *tier, "exploration", rule)
	var specs []mon.ChildSpec
	to := 3 * time.Minute
	if *tier == "thorough" {
		to = 25 * time.Minute
	}
	for i := 0; i < nMerge; i++ {
		specs = append(specs, mon.ChildSpec{Name: fmt.Sprintf("merge%d", i), Timeout: to,
			Args: []string{"evdb", "-prop", "C20", "-tier", *tier, "-child", "merge", "-idx", fmt.Sprint(i), "-blocks", fmt.Sprint(nbMerge)}})
	}
	for i := 0; i < nDB; i++ {
		specs = append(specs, mon.ChildSpec{Name: fmt.Sprintf("db%d", i), Timeout: to,
			Args: []string{"evdb", "-prop", "C20", "-tier", *tier, "-child", "db", "-idx", fmt.Sprint(i), "-blocks", fmt.Sprint(nbDB)}})
	}
	for i := 0; i < nReal; i++ {
		specs = append(specs, mon.ChildSpec{Name: fmt.Sprintf("real%d", i), Timeout: to,
			Args: []string{"evdb", "-prop", "C20", "-tier", *tier, "-child", "real", "-idx", fmt.Sprint(i), "-blocks", fmt.Sprint(nbReal), "-hists", fmt.Sprint(nhReal)}})
	}
	res := mon.RunChildren(run, specs, 14)
	for _, cr := range res {
		if cr.Crashed && !cr.TimedOut {
			p := mon.KeepLog(cr, fmt.Sprintf("C20-crash-%s-seed%d.log", cr.Spec.Name, run.SeedV))
			run.Inconclusive(fmt.Sprintf("child %s crashed (log %s): %s", cr.Spec.Name, p, firstPanicLine(cr.LogTail)))
		}
	}
	run.RequireMin("mon:merge-blocks", 1000)
	run.RequireMin("mon:merge-additive-keys", 5000)
	run.RequireMin("mon:merge-append-rows", 5000)
	run.RequireMin("mon:db-blocks-with-burns", 50)
	run.RequireMin("mon:db-burn-tickets-expected", 100)
	run.RequireMin("mon:db-burn-total-statements", 20)
	run.RequireMin("mon:db-mint-total-statements", 20)
	run.RequireMin("blocks:burns>=2-same-address", 50)
	run.RequireMin("blocks:burns>=2-different-addresses", 50)
	// real emission: a run that did not execute the real bridge contracts in the decisive block classes proves nothing about them
	run.RequireMin("real:blocks", 100)
	run.RequireMin("real:burns", 200)
	run.RequireMin("real:blocks-two-clients-one-address", 20)
	run.RequireMin("real:blocks-one-client-two-addresses", 20)
	run.RequireMin("real:blocks-one-client-twice-one-address", 20)
	run.RequireMin("mon:db-real-burn-total-statements", 100)
	run.RequireMin("real:burn-tickets-expected", 200)
	run.RequireMin("real:mints", 20)
	run.RequireMin("mon:db-real-mint-total-statements", 15)
	run.Assume("the event lists of layers 1 and 2 are generated from the contracts' emission code (zcnsc/burn.go, mint.go, stakepool, storagesc *_eventdb.go, Chain.ComputeState); the bridge contract itself is driven in the real-emission part (next assumption), the other contracts by engine schist")
	run.Assume("real emission: burn, mint and add-authorizer transactions are executed through the real Chain.UpdateState on a genesis world (no storage / miner set-up, event database of the chain switched off); the events UpdateState returned for the block are what is merged and handled, so chain-level user events (emitted only with an event database attached) are not part of the real lists; the reference is read from the transactions (client, value, submitted payload, recorded output, balance change of the minting client)")
	run.Assume("the event database is sqlite in memory: gorm-native handlers (burn tickets, user mint nonce, event rows) really execute; the Postgres-only batch updaters (UPDATE … FROM unnest(…)) cannot execute — their SQL text with bound arrays is captured from the gorm logger and judged, the execution by Postgres is out of reach")
	return run.Finish()
}

func firstPanicLine(log string) string {
	for _, l := range strings.Split(log, "\n") {
		if strings.HasPrefix(l, "panic:") || strings.HasPrefix(l, "fatal error:") || strings.HasPrefix(l, "HARNESS-PANIC") {
			if len(l) > 200 {
				l = l[:200]
			}
			return l
		}
	}
	return "no panic line"
}

func childMain(tier, kind string, idx, n, nh int) int {
	run := mon.NewRun("C20", tier, "exploration", "")
	defer func() {
		if e := recover(); e != nil {
			fmt.Printf("HARNESS-PANIC %v\n%s\n", e, debug.Stack())
			run.Checkpoint()
			os.Exit(3)
		}
	}()
	r := mon.NewRand(mon.Seed()).Fork(fmt.Sprintf("evdb-%s-%d", kind, idx))
	switch kind {
	case "merge":
		mergeChild(run, r, idx, n)
	case "db":
		dbChild(run, r, idx, n)
	case "real":
		realChild(run, r, idx, nh, n)
	}
	run.Checkpoint()
	return 0
}

var vioCount = map[string]int{}

// violate keeps at most 3 witnesses per signature and process.
func violate(run *mon.Run, sig, detail string, replay interface{}) {
	vioCount[sig]++
	run.Count("violations_observed:"+sig, 1)
	if vioCount[sig] <= 3 {
		run.Violate(sig, detail, replay)
	}
}

// classify counts the bridge-relevant classes of a block.
func classify(run *mon.Run, b *block) {
	perEth, perClient := map[string]int{}, map[string]int{}
	for _, bu := range b.Burns {
		perEth[bu.Eth]++
		perClient[bu.Client]++
	}
	same := false
	for _, c := range perEth {
		if c >= 2 {
			same = true
		}
	}
	if same {
		run.Count("blocks:burns>=2-same-address", 1)
	}
	if len(perEth) >= 2 {
		run.Count("blocks:burns>=2-different-addresses", 1)
	}
	for _, c := range perClient {
		if c >= 2 {
			run.Count("blocks:burns>=2-same-client", 1)
			break
		}
	}
	perMinter := map[string]int{}
	for _, m := range b.Mints {
		perMinter[m.Client]++
	}
	for _, c := range perMinter {
		if c >= 2 {
			run.Count("blocks:mints>=2-same-client", 1)
			break
		}
	}
	run.Count(fmt.Sprintf("blocks:burns=%d", len(b.Burns)), 1)
}

func witness(b *block, evs []event.Event) map[string]interface{} {
	type ev struct {
		Tag   string      `json:"tag"`
		Index string      `json:"index"`
		Data  interface{} `json:"data"`
	}
	var list []ev
	for _, e := range evs {
		list = append(list, ev{tagName(e.Tag), e.Index, e.Data})
	}
	if len(list) > 40 {
		list = list[:40]
	}
	return map[string]interface{}{"block": b.ID, "round": b.Round, "ops": b.Ops, "events": list}
}

// ---- layer 1 -----------------------------------------------------------------------------------------------------------

func mergeChild(run *mon.Run, r *mon.Rand, idx, n int) {
	for i := 0; i < n; i++ {
		b := genBlock(r, fmt.Sprintf("m%d-%d", idx, i), int64(1+i))
		judgeMerge(run, b, i == 0 && idx == 0)
		if i%500 == 0 {
			run.Checkpoint()
		}
	}
	// minimal hand-written blocks: the smallest members of every class (always part of the case list)
	for _, mb := range minimalBlocks() {
		judgeMerge(run, mb, false)
	}
}

func judgeMerge(run *mon.Run, b *block, sample bool) {
	in := summarise(b.Events)
	// the merge works on its own copy: the emitted list is the reference
	cp := append([]event.Event{}, b.Events...)
	out, err := event.VerifMergeEvents(b.Round, b.Hash, cp)
	run.Eval(1)
	run.Count("mon:merge-blocks", 1)
	for _, c := range b.classes() {
		run.Distinct(c)
	}
	classify(run, b)
	if err != nil {
		violate(run, "C20:merge-fails", fmt.Sprintf("mergeEvents returns an error for a block of well-formed events: %v", err), witness(b, b.Events))
		return
	}
	os := summarise(out)
	run.Count("mon:merge-additive-keys", int64(len(in.sums)))
	run.Count("mon:merge-append-rows", int64(len(in.items)))
	run.Count("events_in", int64(len(b.Events)))
	run.Count("events_out", int64(len(out)))
	losses, inc := compare(in, os)
	if inc > 0 {
		run.Count("merge_adds_effect_not_emitted", int64(inc))
	}
	if sample {
		run.Sample(map[string]interface{}{"layer": 1, "block": b.ID, "ops": b.Ops, "events_in": len(b.Events), "events_out": len(out), "additive_keys": len(in.sums), "append_rows": len(in.items)})
	}
	seen := map[string]bool{}
	for _, l := range losses {
		if seen[l.Tag] {
			continue
		}
		seen[l.Tag] = true
		kind := "additive effect"
		if l.Append {
			kind = "append-only row"
		}
		// minimise: keep only the events of that tag
		var min []event.Event
		for _, e := range b.Events {
			if tagName(e.Tag) == l.Tag {
				min = append(min, e)
			}
		}
		violate(run, "C20:merge-drops-event:"+l.Tag, fmt.Sprintf("%s lost in the merge: %s emitted=%d after merge=%d (block with %d %s events)", kind, l.Key, l.In, l.Out, len(min), l.Tag), witness(b, min))
	}
}

// minimalBlocks: two operations of one kind hitting the same index, for every kind.
func minimalBlocks() []*block {
	var out []*block
	for ki, k := range opKinds {
		b := &block{ID: fmt.Sprintf("min-%s", k), Round: int64(900000 + ki), Hash: "blk-min-" + k}
		g := &gen{r: mon.NewRand(7).Fork(k), b: b, burnNonce: map[string]int64{}, mintNonce: map[string]int64{}}
		g.clients, g.eths, g.blobbers, g.allocs, g.pools, g.auths = names("client-", 1), names("0xeth-", 1), names("blobber-", 1), names("alloc-", 1), names("delegate-", 1), names("auth-", 2)
		g.op(k)
		g.op(k)
		out = append(out, b)
	}
	return out
}

func sortedKeys(m map[string]int) []string {
	var ks []string
	for k := range m {
		ks = append(ks, k)
	}
	sort.Strings(ks)
	return ks
}
