package evdb

import (
	"context"
	"fmt"
	"os"
	"regexp"
	"sort"
	"strconv"
	"strings"
	"sync"
	"time"

	"0chain.net/core/common"
	"0chain.net/core/config"
	"0chain.net/smartcontract/dbs"
	"0chain.net/smartcontract/dbs/event"
	"github.com/0chain/common/core/logging"
	"gorm.io/gorm"
	glogger "gorm.io/gorm/logger"

	"verifh/mon"
)

// capture is a gorm logger that records every statement (with its bound values) and its error.
type capture struct {
	mu    sync.Mutex
	stmts []stmt
}

type stmt struct {
	SQL string
	Err string
}

func (c *capture) LogMode(glogger.LogLevel) glogger.Interface    { return c }
func (c *capture) Info(context.Context, string, ...interface{})  {}
func (c *capture) Warn(context.Context, string, ...interface{})  {}
func (c *capture) Error(context.Context, string, ...interface{}) {}
func (c *capture) Trace(ctx context.Context, begin time.Time, fc func() (string, int64), err error) {
	sql, _ := fc()
	s := stmt{SQL: sql}
	if err != nil {
		s.Err = err.Error()
	}
	c.mu.Lock()
	c.stmts = append(c.stmts, s)
	c.mu.Unlock()
}

func (c *capture) take() []stmt {
	c.mu.Lock()
	defer c.mu.Unlock()
	s := c.stmts
	c.stmts = nil
	return s
}

// capStore wraps the event database's store so that every session logs into the capture.
type capStore struct {
	dbs.Store
	lg *capture
}

func (s *capStore) Get() *gorm.DB { return s.Store.Get().Session(&gorm.Session{Logger: s.lg}) }

var arrRe = regexp.MustCompile(`unnest\(["']\{(.*?)\}["']::(\w+)\[\]\) AS (\w+)`)

// parseUpdate extracts table, and the column -> values arrays of an UpdateBuilder statement.
func parseUpdate(sql string) (table string, cols map[string][]string) {
	f := strings.Fields(sql)
	if len(f) > 1 && strings.EqualFold(f[0], "UPDATE") {
		table = f[1]
	}
	cols = map[string][]string{}
	for _, m := range arrRe.FindAllStringSubmatch(sql, -1) {
		var vals []string
		if m[1] != "" {
			for _, v := range strings.Split(m[1], ",") {
				vals = append(vals, strings.Trim(strings.ReplaceAll(v, `\"`, `"`), `"`))
			}
		}
		cols[m[3]] = vals
	}
	return
}

func dbChild(run *mon.Run, r *mon.Rand, idx, n int) {
	_ = os.Chdir(mon.ScratchDir())
	logging.InitLogging("testing", "")
	common.SetupRootContext(context.Background())
	edb, err := event.NewInMemoryEventDb(config.DbAccess{}, config.DbSettings{Debug: false, PartitionChangePeriod: 1 << 40, PermanentPartitionChangePeriod: 1 << 40})
	if err != nil {
		run.Inconclusive("cannot create the in-memory event database: " + err.Error())
		return
	}
	lg := &capture{}
	edb.Store = &capStore{Store: edb.Store, lg: lg}
	time.Sleep(200 * time.Millisecond) // the worker's start-up partition statements (Postgres-only, fail on sqlite, logged only)
	lg.take()

	ctx := context.Background()
	noStore := func(event.BlockEvents) error { return nil }
	round := int64(idx)*1000000 + 1
	blocks := []*block{}
	for i := 0; i < n; i++ {
		blocks = append(blocks, genBlock(r, fmt.Sprintf("d%d-%d", idx, i), round))
		round++
	}
	for _, mb := range minimalBridgeBlocks(idx) {
		mb.Round = round
		round++
		blocks = append(blocks, mb)
	}
	for bi, b := range blocks {
		classify(run, b)
		for _, c := range b.classes() {
			run.Distinct("db|" + c)
		}
		var tickets, burns, mints []event.Event
		for _, e := range b.Events {
			switch e.Tag {
			case event.TagAddBurnTicket:
				tickets = append(tickets, e)
			case event.TagAuthorizerBurn:
				burns = append(burns, e)
			case event.TagAddBridgeMint:
				mints = append(mints, e)
			}
		}
		// ---- burn tickets: gorm-native handler, really stored ----
		if len(b.Burns) > 0 {
			run.Eval(1)
			run.Count("mon:db-blocks-with-burns", 1)
			_, _, perr := edb.ProcessEvents(ctx, tickets, b.Round, b.Hash, len(tickets), noStore, event.CommitNow())
			lg.take()
			perEth := map[string][]burn{}
			for _, bu := range b.Burns {
				perEth[bu.Eth] = append(perEth[bu.Eth], bu)
			}
			var missing []burn
			missingSame, missingOther := 0, 0
			for eth, want := range perEth {
				rows, gerr := edb.GetBurnTickets(eth)
				if gerr != nil {
					run.Inconclusive("GetBurnTickets failed: " + gerr.Error())
					return
				}
				lg.take()
				have := map[string]int{}
				for _, t := range rows {
					have[fmt.Sprintf("%s|%d|%d|%s", t.EthereumAddress, uint64(t.Amount), t.Nonce, t.Hash)]++
				}
				for _, w := range want {
					run.Count("mon:db-burn-tickets-expected", 1)
					k := fmt.Sprintf("%s|%d|%d|%s", w.Eth, w.Amount, w.Nonce, w.Hash)
					if have[k] > 0 {
						have[k]--
						run.Count("db-burn-tickets-found", 1)
						continue
					}
					missing = append(missing, w)
					if len(want) >= 2 {
						missingSame++
					} else {
						missingOther++
					}
				}
				if len(rows) > len(want) {
					run.Count("db-unexpected-burn-ticket-rows", int64(len(rows)-len(want)))
				}
			}
			if len(missing) > 0 {
				sort.Slice(missing, func(i, j int) bool { return missing[i].Hash < missing[j].Hash })
				rp := map[string]interface{}{"block": b.ID, "round": b.Round, "burns": b.Burns, "missing": missing, "process_events_error": fmt.Sprint(perr)}
				if missingSame > 0 {
					violate(run, "C20:burn-ticket-missing:same-address-twice-in-block", fmt.Sprintf("block with %d burns (%d ethereum addresses): %d burn ticket(s) of an address burnt to more than once in the block are not in the burn_tickets table after ProcessEvents (err=%v)", len(b.Burns), len(perEth), missingSame, perr), rp)
				}
				if missingOther > 0 {
					violate(run, "C20:burn-ticket-missing:several-addresses-in-block", fmt.Sprintf("block with %d burns to %d different ethereum addresses: %d burn ticket(s) of addresses burnt to once are not in the burn_tickets table after ProcessEvents (err=%v)", len(b.Burns), len(perEth), missingOther, perr), rp)
				}
			} else if perr != nil {
				run.Count("db-process-events-error-but-tickets-present", 1)
			}
			if bi == 0 && idx == 0 {
				run.Sample(map[string]interface{}{"layer": 2, "block": b.ID, "burns": b.Burns, "missing_tickets": len(missing)})
			}
		}
		// ---- authorizer totals: Postgres-only batch update; judged on the captured statement ----
		if len(burns) > 0 {
			_, _, _ = edb.ProcessEvents(ctx, burns, b.Round, b.Hash, len(burns), noStore, event.CommitNow())
			want := map[string]int64{}
			for _, bu := range b.Burns {
				want[bu.Client] += int64(bu.Amount)
			}
			judgeTotals(run, lg.take(), "total_burn", "burn", want, b, map[string]interface{}{"burns": b.Burns})
		}
		if len(mints) > 0 {
			_, _, _ = edb.ProcessEvents(ctx, mints, b.Round, b.Hash, len(mints), noStore, event.CommitNow())
			want := map[string]int64{}
			for _, m := range b.Mints {
				for _, s := range m.Signers {
					want[s] += int64(m.Amount)
				}
			}
			judgeTotals(run, lg.take(), "total_mint", "mint", want, b, map[string]interface{}{"mints": b.Mints})
		}
		if bi%20 == 0 {
			run.Checkpoint()
		}
	}
}

// judgeTotals finds the UPDATE authorizers statement among the captured ones and compares the (id, amount) pairs it
// carries with the reference sums of the block.
func judgeTotals(run *mon.Run, stmts []stmt, column, kind string, want map[string]int64, b *block, rp map[string]interface{}) {
	var found *stmt
	for i := range stmts {
		if strings.Contains(stmts[i].SQL, "UPDATE authorizers") && strings.Contains(stmts[i].SQL, column) {
			found = &stmts[i]
		}
	}
	rp["block"] = b.ID
	if found == nil {
		var all []string
		for _, s := range stmts {
			all = append(all, trunc(s.SQL, 160)+" => "+trunc(s.Err, 80))
		}
		rp["statements"] = all
		violate(run, "C20:authorizer-total-not-counted:"+kind, fmt.Sprintf("block with %d %ss: no UPDATE authorizers … %s statement was issued", len(want), kind, column), rp)
		return
	}
	run.Eval(1)
	run.Count("mon:db-"+kind+"-total-statements", 1)
	_, cols := parseUpdate(found.SQL)
	got := map[string]int64{}
	ids, amts := cols["id"], cols[column]
	for i := range ids {
		if i < len(amts) {
			v, _ := strconv.ParseInt(amts[i], 10, 64)
			got[ids[i]] += v
		}
	}
	rp["statement"] = trunc(found.SQL, 700)
	allEmpty := len(ids) > 0
	for _, id := range ids {
		if id != "" {
			allEmpty = false
		}
	}
	if allEmpty {
		violate(run, "C20:authorizer-total-not-counted:"+kind+":empty-authorizer-id", fmt.Sprintf("block %s: the batch update of authorizers.%s addresses authorizer id \"\" for every row (%d rows): no authorizer's total is updated", b.ID, column, len(ids)), rp)
		return
	}
	var bad []string
	for id, w := range want {
		if got[id] != w {
			bad = append(bad, fmt.Sprintf("%s: expected %d, statement carries %d", id, w, got[id]))
		}
	}
	sort.Strings(bad)
	if len(bad) > 0 {
		violate(run, "C20:authorizer-total-not-counted:"+kind+":amount-missing", fmt.Sprintf("block %s: the batch update of authorizers.%s does not carry every %s of the block: %s", b.ID, column, kind, strings.Join(bad, "; ")), rp)
	}
	// duplicate ids in one UPDATE … FROM unnest statement: Postgres applies only one of the joined rows
	seen := map[string]bool{}
	for _, id := range ids {
		if seen[id] {
			violate(run, "C20:authorizer-total-not-counted:"+kind+":duplicate-id-in-batch", fmt.Sprintf("block %s: authorizer %s appears twice in one UPDATE … FROM unnest batch (only one joined row is applied)", b.ID, id), rp)
			break
		}
		seen[id] = true
	}
}

func trunc(s string, n int) string {
	if len(s) > n {
		return s[:n] + "…"
	}
	return s
}

// minimalBridgeBlocks: the smallest blocks of each bridge class (always part of the case list of every db child).
func minimalBridgeBlocks(idx int) []*block {
	mk := func(name string, clients, eths int, ops ...string) *block {
		b := &block{ID: fmt.Sprintf("min%d-%s", idx, name), Hash: fmt.Sprintf("blk-min%d-%s", idx, name)}
		g := &gen{r: mon.NewRand(11).Fork(name), b: b, burnNonce: map[string]int64{}, mintNonce: map[string]int64{}}
		g.clients, g.eths = names("client-"+b.ID+"-", clients), names("0xeth-"+b.ID+"-", eths)
		g.blobbers, g.allocs, g.pools, g.auths = names("blobber-", 1), names("alloc-", 1), names("delegate-", 1), names("auth-", 2)
		for _, o := range ops {
			g.op(o)
		}
		return b
	}
	two := mk("two-burns-two-addresses", 2, 2, "burn")
	// force the second burn onto the other address / client
	g := &gen{r: mon.NewRand(11).Fork("x"), b: two, burnNonce: map[string]int64{}, mintNonce: map[string]int64{}, txSeq: 1}
	used := two.Burns[0]
	for _, c := range names("client-"+two.ID+"-", 2) {
		if c != used.Client {
			g.clients = []string{c}
		}
	}
	for _, e := range names("0xeth-"+two.ID+"-", 2) {
		if e != used.Eth {
			g.eths = []string{e}
		}
	}
	g.op("burn")
	return []*block{
		mk("one-burn", 1, 1, "burn"),
		mk("two-burns-one-address", 1, 1, "burn", "burn"),
		two,
		mk("one-mint", 1, 1, "mint"),
		mk("two-mints-one-client", 1, 1, "mint", "mint"),
	}
}
