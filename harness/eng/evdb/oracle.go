package evdb

import (
	"fmt"
	"reflect"
	"sort"

	"0chain.net/chaincore/state"
	"0chain.net/smartcontract/dbs"
	"0chain.net/smartcontract/dbs/event"
)

// tagNames: stable names of the tags this engine judges (EventTag.String() has no entry for some of them).
var tagNames = map[event.EventTag]string{
	event.TagAuthorizerBurn:             "TagAuthorizerBurn",
	event.TagAddBurnTicket:              "TagAddBurnTicket",
	event.TagAddBridgeMint:              "TagAddBridgeMint",
	event.TagLockStakePool:              "TagLockStakePool",
	event.TagUnlockStakePool:            "TagUnlockStakePool",
	event.TagLockReadPool:               "TagLockReadPool",
	event.TagUnlockReadPool:             "TagUnlockReadPool",
	event.TagLockWritePool:              "TagLockWritePool",
	event.TagUnlockWritePool:            "TagUnlockWritePool",
	event.TagStakePoolReward:            "TagStakePoolReward",
	event.TagStakePoolPenalty:           "TagStakePoolPenalty",
	event.TagMintReward:                 "TagMintReward",
	event.TagUpdateUserCollectedRewards: "TagUpdateUserCollectedRewards",
	event.TagUpdateUserPayedFees:        "TagUpdateUserPayedFees",
	event.TagAddTransactions:            "TagAddTransactions",
	event.TagAddWriteMarker:             "TagAddWriteMarker",
	event.TagAddReadMarker:              "TagAddReadMarker",
	event.TagAddChallenge:               "TagAddChallenge",
	event.TagUpdateChallenge:            "TagUpdateChallenge",
	event.TagUpdateBlobberChallenge:     "TagUpdateBlobberChallenge",
	event.TagUpdateBlobberStat:          "TagUpdateBlobberStat",
}

func tagName(t event.EventTag) string {
	if n, ok := tagNames[t]; ok {
		return n
	}
	if s := t.String(); s != "" && s != "unknown tag" {
		return s
	}
	return fmt.Sprintf("tag-%d", int(t))
}

// summary of a list of events, computed the same way for the list the contracts emitted and for the merged list:
//
//	sums:  additive effects  — "tag|identity|quantity" -> sum of the quantity over all payloads
//	items: append-only rows  — "tag|row identity"       -> number of payloads with that identity
//
// identity is the key the handler of that tag aggregates on (burner, user, signer, provider, delegate pool, …).
type summary struct {
	sums  map[string]int64
	items map[string]int
}

// payloads flattens Event.Data (T, *T, []T or []*T) into single values.
func payloads(d interface{}) []interface{} {
	if d == nil {
		return nil
	}
	v := reflect.ValueOf(d)
	for v.Kind() == reflect.Ptr {
		if v.IsNil() {
			return nil
		}
		v = v.Elem()
	}
	if v.Kind() == reflect.Slice {
		var out []interface{}
		for i := 0; i < v.Len(); i++ {
			out = append(out, payloads(v.Index(i).Interface())...)
		}
		return out
	}
	return []interface{}{v.Interface()}
}

func summarise(events []event.Event) summary {
	s := summary{sums: map[string]int64{}, items: map[string]int{}}
	add := func(tag event.EventTag, id, q string, v int64) {
		if v != 0 {
			s.sums[tagName(tag)+"|"+id+"|"+q] += v
		}
	}
	item := func(tag event.EventTag, id string) { s.items[tagName(tag)+"|"+id]++ }
	for _, e := range events {
		if e.Type != event.TypeStats {
			continue
		}
		for _, p := range payloads(e.Data) {
			switch x := p.(type) {
			case state.Burn:
				if e.Tag == event.TagAuthorizerBurn {
					add(e.Tag, x.Burner, "amount", int64(x.Amount))
				}
			case event.BurnTicket:
				if e.Tag == event.TagAddBurnTicket {
					item(e.Tag, fmt.Sprintf("%s/nonce=%d/amount=%d/txn=%s", x.EthereumAddress, x.Nonce, x.Amount, x.Hash))
				}
			case event.BridgeMint:
				if e.Tag == event.TagAddBridgeMint {
					add(e.Tag, "user:"+x.UserID, "amount", int64(x.Amount))
					for _, sg := range x.Signers {
						add(e.Tag, "signer:"+sg, "amount", int64(x.Amount))
					}
				}
			case event.DelegatePoolLock:
				add(e.Tag, x.Client, "amount", x.Amount)
			case event.ReadPoolLock:
				add(e.Tag, x.Client, "amount", x.Amount)
			case event.WritePoolLock:
				add(e.Tag, x.AllocationId, "amount", x.Amount)
			case dbs.StakePoolReward:
				add(e.Tag, x.ID, "reward", int64(x.Reward))
				for k, v := range x.DelegateRewards {
					add(e.Tag, x.ID+"/"+k, "delegate-reward", int64(v))
				}
				for k, v := range x.DelegatePenalties {
					add(e.Tag, x.ID+"/"+k, "delegate-penalty", int64(v))
				}
			case event.RewardMint:
				add(e.Tag, x.ClientID, "amount", x.Amount)
			case event.UserAggregate:
				add(e.Tag, x.UserID, "collected", x.CollectedReward)
				add(e.Tag, x.UserID, "fees", x.PayedFees)
			case event.ChallengeStatsDeltas:
				add(e.Tag, x.Id, "open", x.OpenDelta)
				add(e.Tag, x.Id, "completed", x.CompletedDelta)
				add(e.Tag, x.Id, "passed", x.PassedDelta)
			case event.Blobber:
				if e.Tag == event.TagUpdateBlobberStat {
					add(e.Tag, x.ID, "saved", x.SavedData)
					add(e.Tag, x.ID, "read", x.ReadData)
				}
			case event.Transaction:
				item(e.Tag, x.Hash)
			case event.WriteMarker:
				item(e.Tag, x.TransactionID)
			case event.ReadMarker:
				item(e.Tag, x.TransactionID)
			case event.Challenge:
				item(e.Tag, x.ChallengeID)
			}
		}
	}
	return s
}

type loss struct {
	Tag    string
	Key    string
	In     int64
	Out    int64
	Append bool
}

// compare returns every key whose effect in the merged list is smaller than in the emitted list.
func compare(in, out summary) (losses []loss, increases int) {
	for k, v := range in.sums {
		o := out.sums[k]
		if o == v {
			continue
		}
		// a lost negative delta shows as o > v: any difference of an additive quantity whose inputs all have one sign is a loss
		losses = append(losses, loss{Tag: tagOf(k), Key: k, In: v, Out: o})
	}
	for k, o := range out.sums {
		if _, ok := in.sums[k]; !ok && o != 0 {
			increases++
		}
	}
	for k, v := range in.items {
		if o := out.items[k]; o < v {
			losses = append(losses, loss{Tag: tagOf(k), Key: k, In: int64(v), Out: int64(o), Append: true})
		}
	}
	for k, o := range out.items {
		if o > in.items[k] {
			increases++
		}
	}
	sort.Slice(losses, func(i, j int) bool { return losses[i].Key < losses[j].Key })
	return
}

func tagOf(k string) string {
	for i := 0; i < len(k); i++ {
		if k[i] == '|' {
			return k[:i]
		}
	}
	return k
}
