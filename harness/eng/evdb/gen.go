package evdb

import (
	"fmt"
	"sort"
	"strings"

	"0chain.net/chaincore/state"
	"0chain.net/core/common"
	"0chain.net/smartcontract/dbs"
	"0chain.net/smartcontract/dbs/event"
	"0chain.net/smartcontract/stakepool/spenum"
	"github.com/0chain/common/core/currency"

	"verifh/mon"
)

// burn / mint are the bridge operations of a generated block (the reference for layer 2).
type burn struct {
	Client string `json:"client"`
	Eth    string `json:"ethereum_address"`
	Hash   string `json:"txn"`
	Amount uint64 `json:"amount"`
	Nonce  int64  `json:"nonce"`
}

type mint struct {
	Client  string   `json:"client"`
	Nonce   int64    `json:"nonce"`
	Amount  uint64   `json:"amount"`
	Signers []string `json:"signers"`
}

// block is one generated finalized block: the events in the order the chain and the contracts emit them.
type block struct {
	ID     string
	Round  int64
	Hash   string
	Events []event.Event
	Burns  []burn
	Mints  []mint
	Ops    []string // op kinds in block order
}

type gen struct {
	r     *mon.Rand
	b     *block
	txSeq int
	// entity pools of this block (their sizes decide how often two operations share an index)
	clients, eths, blobbers, allocs, auths, pools []string
	burnNonce                                     map[string]int64
	mintNonce                                     map[string]int64
	chSeq                                         int
	curTxn                                        string
}

func names(prefix string, n int) []string {
	out := make([]string, n)
	for i := range out {
		out[i] = fmt.Sprintf("%s%d", prefix, i)
	}
	return out
}

func (g *gen) pick(p []string) string { return p[g.r.Intn(len(p))] }

// emit appends an event exactly as StateContext.EmitEvent builds it.
func (g *gen) emit(tag event.EventTag, index string, data interface{}) {
	g.b.Events = append(g.b.Events, event.Event{BlockNumber: g.b.Round, TxHash: g.curTxn, Type: event.TypeStats, Tag: tag, Index: index, Data: data, Version: event.Version1})
}

// txn opens a transaction of `client`: Chain.ComputeState emits the transaction row and the fee before the contract runs.
func (g *gen) txn(client string) string {
	g.txSeq++
	h := fmt.Sprintf("txn-%s-%03d", g.b.ID, g.txSeq)
	g.curTxn = h
	fee := uint64(g.r.Intn(1000))
	g.b.Events = append(g.b.Events, event.Event{BlockNumber: g.b.Round, TxHash: h, Type: event.TypeStats, Tag: event.TagAddTransactions, Index: h,
		Data: event.Transaction{Hash: h, BlockHash: g.b.Hash, Round: g.b.Round, ClientId: client, Fee: currency.Coin(fee), Nonce: int64(g.txSeq)}})
	g.b.Events = append(g.b.Events, event.Event{Type: event.TypeStats, Tag: event.TagUpdateUserPayedFees, Index: client,
		Data: event.UserAggregate{UserID: client, PayedFees: int64(fee)}})
	return h
}

func (g *gen) amount() uint64 {
	switch g.r.Intn(6) {
	case 0:
		return 1
	case 1:
		return uint64(1) << 40
	}
	return 1 + g.r.U64()%1000000
}

// op kinds: every one emits what the named contract function emits (tag, index, payload type)
var opKinds = []string{"burn", "mint", "stake-lock", "stake-unlock", "readpool-lock", "readpool-unlock", "writepool-lock", "writepool-unlock",
	"reward", "penalty", "collect-reward", "write-marker", "read-marker", "challenge-add", "challenge-update", "plain-txn", "chain-event", "error-event"}

func (g *gen) op(kind string) {
	g.b.Ops = append(g.b.Ops, kind)
	switch kind {
	case "burn": // zcnsc/burn.go
		c, e := g.pick(g.clients), g.pick(g.eths)
		h := g.txn(c)
		amt := g.amount()
		g.burnNonce[e]++
		g.emit(event.TagAuthorizerBurn, c, state.Burn{Burner: c, Amount: currency.Coin(amt)})
		g.emit(event.TagAddBurnTicket, e, &event.BurnTicket{EthereumAddress: e, Hash: h, Amount: currency.Coin(amt), Nonce: g.burnNonce[e]})
		g.b.Burns = append(g.b.Burns, burn{Client: c, Eth: e, Hash: h, Amount: amt, Nonce: g.burnNonce[e]})
	case "mint": // zcnsc/mint.go
		c := g.pick(g.clients)
		g.txn(c)
		amt := g.amount()
		g.mintNonce[c]++
		ns := 1 + g.r.Intn(len(g.auths))
		sig := append([]string{}, g.auths...)
		g.r.Shuffle(len(sig), func(i, j int) { sig[i], sig[j] = sig[j], sig[i] })
		sig = sig[:ns]
		g.emit(event.TagAddBridgeMint, c, &event.BridgeMint{UserID: c, MintNonce: g.mintNonce[c], Amount: currency.Coin(amt), Signers: sig})
		g.b.Mints = append(g.b.Mints, mint{Client: c, Nonce: g.mintNonce[c], Amount: amt, Signers: sig})
	case "stake-lock": // stakepool/lock.go: index = pool id = client id
		c, p := g.pick(g.clients), g.pick(g.blobbers)
		g.txn(c)
		a := int64(g.amount())
		g.emit(event.TagLockStakePool, c, event.DelegatePoolLock{Client: c, ProviderId: p, ProviderType: spenum.Blobber, Amount: a, Total: a})
	case "stake-unlock": // stakepool/unlock.go
		c, p := g.pick(g.clients), g.pick(g.blobbers)
		g.txn(c)
		a, rw := int64(g.amount()), g.amount()%1000
		g.emit(event.TagUnlockStakePool, c, event.DelegatePoolLock{Client: c, ProviderId: p, ProviderType: spenum.Blobber, Amount: a, Reward: currency.Coin(rw), Total: a + int64(rw)})
	case "readpool-lock": // storagesc/readpool.go
		c := g.pick(g.clients)
		g.txn(c)
		g.emit(event.TagLockReadPool, c, event.ReadPoolLock{Client: c, PoolId: c, Amount: int64(g.amount())})
	case "readpool-unlock":
		c := g.pick(g.clients)
		g.txn(c)
		g.emit(event.TagUnlockReadPool, c, event.ReadPoolLock{Client: c, PoolId: c, Amount: int64(g.amount())})
	case "writepool-lock": // storagesc/writepool.go: index = allocation id
		c, a := g.pick(g.clients), g.pick(g.allocs)
		g.txn(c)
		g.emit(event.TagLockWritePool, a, event.WritePoolLock{Client: c, AllocationId: a, Amount: int64(g.amount())})
	case "writepool-unlock":
		c, a := g.pick(g.clients), g.pick(g.allocs)
		g.txn(c)
		g.emit(event.TagUnlockWritePool, a, event.WritePoolLock{Client: c, AllocationId: a, Amount: int64(g.amount())})
	case "reward": // stakepool/edb_stakepool.go Emit: index = reward type + provider id
		c, p := g.pick(g.clients), g.pick(g.blobbers)
		g.txn(c)
		rt := []spenum.Reward{spenum.BlockRewardBlobber, spenum.ChallengePassReward, spenum.FileDownloadReward}[g.r.Intn(3)]
		sp := &dbs.StakePoolReward{ProviderID: dbs.ProviderID{ID: p, Type: spenum.Blobber}, Reward: currency.Coin(g.amount()), RewardType: rt,
			DelegateRewards: map[string]currency.Coin{}, DelegatePenalties: map[string]currency.Coin{}, AllocationID: g.pick(g.allocs), DelegateWallet: g.pick(g.pools)}
		for i := 0; i < 1+g.r.Intn(3); i++ {
			sp.DelegateRewards[g.pick(g.pools)] += currency.Coin(g.amount())
		}
		g.emit(event.TagStakePoolReward, rt.String()+p, sp)
	case "penalty": // storagesc/stakepool.go slash: one event per failed challenge of a blobber
		c, p := g.pick(g.clients), g.pick(g.blobbers)
		g.txn(c)
		rt := spenum.ChallengeSlashPenalty
		sp := &dbs.StakePoolReward{ProviderID: dbs.ProviderID{ID: p, Type: spenum.Blobber}, RewardType: rt,
			DelegateRewards: map[string]currency.Coin{}, DelegatePenalties: map[string]currency.Coin{}, AllocationID: g.pick(g.allocs), DelegateWallet: g.pick(g.pools)}
		for i := 0; i < 1+g.r.Intn(3); i++ {
			sp.DelegatePenalties[g.pick(g.pools)] += currency.Coin(g.amount())
		}
		g.emit(event.TagStakePoolPenalty, rt.String()+p, sp)
	case "collect-reward": // stakepool/stakepool.go MintRewards
		c, p := g.pick(g.clients), g.pick(g.blobbers)
		g.txn(c)
		a := int64(g.amount())
		g.emit(event.TagMintReward, c, event.RewardMint{Amount: a, BlockNumber: g.b.Round, ClientID: c, ProviderType: "blobber", ProviderID: p})
		g.emit(event.TagUpdateUserCollectedRewards, c, event.UserAggregate{UserID: c, CollectedReward: a})
	case "write-marker": // storagesc/writemarker_eventdb.go
		c, bl, a := g.pick(g.clients), g.pick(g.blobbers), g.pick(g.allocs)
		h := g.txn(bl)
		sz := int64(g.amount())
		g.emit(event.TagAddWriteMarker, h, &event.WriteMarker{ClientID: c, BlobberID: bl, AllocationID: a, TransactionID: h, Size: sz, Timestamp: int64(g.b.Round)})
		g.emit(event.TagUpdateBlobberStat, bl, event.Blobber{Provider: event.Provider{ID: bl}, SavedData: sz})
	case "read-marker": // storagesc/readmarker_eventdb.go
		c, bl, a := g.pick(g.clients), g.pick(g.blobbers), g.pick(g.allocs)
		h := g.txn(bl)
		g.emit(event.TagAddReadMarker, h, &event.ReadMarker{ClientID: c, BlobberID: bl, AllocationID: a, TransactionID: h, ReadCounter: int64(g.txSeq), ReadSize: 0.5})
		g.emit(event.TagUpdateBlobberStat, bl, event.Blobber{Provider: event.Provider{ID: bl}, ReadData: int64(g.amount())})
	case "challenge-add": // storagesc/challenge_eventdb.go emitAddChallenge
		bl, a := g.pick(g.blobbers), g.pick(g.allocs)
		g.txn(g.pick(g.clients))
		g.chSeq++
		id := fmt.Sprintf("ch-%s-%d", g.b.ID, g.chSeq)
		g.emit(event.TagAddChallenge, id, &event.Challenge{ChallengeID: id, CreatedAt: common.Timestamp(g.b.Round), AllocationID: a, BlobberID: bl, RoundCreatedAt: g.b.Round})
		g.emit(event.TagUpdateBlobberChallenge, bl, event.ChallengeStatsDeltas{Id: bl, CompletedDelta: 1, OpenDelta: 1})
	case "challenge-update": // emitUpdateChallenge
		bl, a := g.pick(g.blobbers), g.pick(g.allocs)
		g.txn(bl)
		g.chSeq++
		id := fmt.Sprintf("ch-%s-%d", g.b.ID, g.chSeq)
		passed := g.r.Intn(2) == 0
		pd := int64(0)
		if passed {
			pd = 1
		}
		g.emit(event.TagUpdateChallenge, id, event.Challenge{ChallengeID: id, AllocationID: a, BlobberID: bl, RoundResponded: g.b.Round, Passed: passed, Responded: 1})
		g.emit(event.TagUpdateBlobberChallenge, bl, event.ChallengeStatsDeltas{Id: bl, OpenDelta: -1, PassedDelta: pd})
	case "plain-txn":
		g.txn(g.pick(g.clients))
	case "chain-event": // block finalization record: passed through untouched
		g.b.Events = append(g.b.Events, event.Event{BlockNumber: g.b.Round, Type: event.TypeChain, Tag: event.TagFinalizeBlock, Index: g.b.Hash, Data: "finalize"})
	case "error-event": // a failed transaction's error event (TypeError): not additive, merge may drop it
		h := g.txn(g.pick(g.clients))
		g.b.Events = append(g.b.Events, event.Event{BlockNumber: g.b.Round, TxHash: h, Type: event.TypeError, Tag: event.TagNone, Index: h, Data: "some error"})
	}
}

// genBlock builds block number i of a stream. nb / nm = number of burns / mints (0..6); the pool sizes decide whether
// operations hit the same or different clients / ethereum addresses / providers.
func genBlock(r *mon.Rand, id string, round int64) *block {
	b := &block{ID: id, Round: round, Hash: "blk-" + id}
	g := &gen{r: r, b: b, burnNonce: map[string]int64{}, mintNonce: map[string]int64{}}
	sizes := []int{1, 2, 6}
	g.clients = names("client-"+id+"-", sizes[r.Intn(3)])
	g.eths = names("0xeth-"+id+"-", sizes[r.Intn(3)])
	g.blobbers = names("blobber-", sizes[r.Intn(3)])
	g.allocs = names("alloc-", sizes[r.Intn(3)])
	g.pools = names("delegate-", sizes[r.Intn(3)])
	g.auths = names("auth-", 1+r.Intn(4))
	for _, e := range g.eths {
		g.burnNonce[e] = int64(r.Intn(50))
	}
	for _, c := range g.clients {
		g.mintNonce[c] = int64(r.Intn(50))
	}
	var ops []string
	nb, nm := r.Intn(7), r.Intn(7)
	for i := 0; i < nb; i++ {
		ops = append(ops, "burn")
	}
	for i := 0; i < nm; i++ {
		ops = append(ops, "mint")
	}
	for _, k := range opKinds[2:] {
		for i, n := 0, r.Intn(4); i < n; i++ {
			ops = append(ops, k)
		}
	}
	r.Shuffle(len(ops), func(i, j int) { ops[i], ops[j] = ops[j], ops[i] })
	for _, k := range ops {
		g.op(k)
	}
	return b
}

// classes: the distinct-case keys of a block (see the rule in engine.go).
func (b *block) classes() []string {
	out := strings.Split(b.shape(), ",")
	eth, cl, mc := map[string]bool{}, map[string]bool{}, map[string]bool{}
	for _, x := range b.Burns {
		eth[x.Eth], cl[x.Client] = true, true
	}
	for _, x := range b.Mints {
		mc[x.Client] = true
	}
	out = append(out, fmt.Sprintf("bridge:burns=%d/eth=%d/burners=%d", len(b.Burns), len(eth), len(cl)), fmt.Sprintf("bridge:mints=%d/minters=%d", len(b.Mints), len(mc)))
	return out
}

// shape: per tag, how many events and the largest group sharing one index.
func (b *block) shape() string {
	type st struct {
		n   int
		idx map[string]int
	}
	m := map[string]*st{}
	for _, e := range b.Events {
		if e.Type != event.TypeStats {
			continue
		}
		k := tagName(e.Tag)
		if m[k] == nil {
			m[k] = &st{idx: map[string]int{}}
		}
		m[k].n++
		m[k].idx[e.Index]++
	}
	var parts []string
	for k, s := range m {
		mx := 0
		for _, c := range s.idx {
			if c > mx {
				mx = c
			}
		}
		parts = append(parts, fmt.Sprintf("%s:%d/%d", k, capN(s.n, 4), capN(mx, 3)))
	}
	sort.Strings(parts)
	return strings.Join(parts, ",")
}

func capN(n, c int) int {
	if n > c {
		return c
	}
	return n
}
