package evdb

import (
	"context"
	"encoding/json"
	"fmt"
	"os"
	"sort"
	"strconv"
	"strings"
	"time"

	"0chain.net/core/config"
	"0chain.net/smartcontract/dbs/event"

	"verifh/eng/schist"
	"verifh/mon"
	"verifh/obs"
	"verifh/world"
)

// ---- real emission -------------------------------------------------------------------------------------------------------------
//
// Layers 1 and 2 judge the event database on event lists that gen.go writes down the way the contracts emit them. This part takes
// the event lists from the contracts themselves: real bridge transactions (several burns per block - two clients toward one
// Ethereum address, one client toward two addresses, one client twice toward one address, mixtures, refused burns - and mints
// signed by registered authorizers) are executed through Chain.UpdateState (schist.EvdbRealRun), the events that execution
// returned for a block go through the same real merge step and the same real handlers on the sqlite event database as in
// layers 1 and 2, and the reference is computed from the TRANSACTIONS of the block, never from its events:
//
//	burner = the client of a successful burn transaction, amount = its value, target address = the submitted payload,
//	nonce = the burn response recorded as the transaction's output;
//	minted amount = what the submitting client's balance gained over the transaction (plus the fee it paid), signers = the
//	authorizer ids of the submitted signature list.
//
// Judged: per burner the total that the merged list / the batched authorizers.total_burn update carries equals the sum of that
// burner's successful burns of the block; one burn ticket per successful burn (address, amount, nonce, transaction) after the
// merge and in the burn_tickets table; per signer the total_mint update carries the minted amounts; no id twice in one batch.

type realMint struct {
	Client  string   `json:"client"`
	Hash    string   `json:"txn"`
	Nonce   int64    `json:"nonce"`
	Minted  int64    `json:"minted"`
	Signers []string `json:"signers"`
}

// realOracle is the reference of one real block, read from its transactions.
type realOracle struct {
	Burns   []burn     `json:"burns"`
	Mints   []realMint `json:"mints"`
	Refused int        `json:"refused_bridge_txns"`
}

type realTxnData struct {
	Name  string `json:"name"`
	Input struct {
		Eth        *string     `json:"ethereum_address"`
		Recv       string      `json:"receiving_client_id"`
		Nonce      json.Number `json:"nonce"`
		Signatures []struct {
			ID string `json:"authorizer_id"`
		} `json:"signatures"`
	} `json:"input"`
}

// realRead builds the reference from the transactions. counts is the per-address number of successful burns of the history so far
// (the burn nonce of an address as the statement defines it); it is only compared with the recorded response, not used as reference.
func realRead(run *mon.Run, b *schist.EvdbRealBlock, counts map[string]int64) (or realOracle, ok bool) {
	for _, t := range b.Txns {
		var d realTxnData
		dec := json.NewDecoder(strings.NewReader(t.Data))
		dec.UseNumber()
		if err := dec.Decode(&d); err != nil || (d.Name != "burn" && d.Name != "mint") {
			continue
		}
		if t.Outcome != "success" {
			or.Refused++
			continue
		}
		switch d.Name {
		case "burn":
			if d.Input.Eth == nil {
				run.Count("real:burn-payload-unreadable", 1)
				return or, false
			}
			var resp struct {
				Nonce *int64 `json:"nonce"`
			}
			if json.Unmarshal([]byte(t.Output), &resp) != nil || resp.Nonce == nil {
				run.Count("real:burn-response-unreadable", 1)
				return or, false
			}
			counts[*d.Input.Eth]++
			if counts[*d.Input.Eth] != *resp.Nonce {
				run.Count("real:obs-burn-response-nonce-differs-from-burns-of-address-so-far", 1)
			}
			or.Burns = append(or.Burns, burn{Client: t.ClientID, Eth: *d.Input.Eth, Hash: t.Hash, Amount: t.Value, Nonce: *resp.Nonce})
		case "mint":
			n, err := strconv.ParseInt(d.Input.Nonce.String(), 10, 64)
			if err != nil {
				run.Count("real:mint-payload-unreadable", 1)
				return or, false
			}
			m := realMint{Client: t.ClientID, Hash: t.Hash, Nonce: n, Minted: t.ClientDelta + int64(t.Fee)}
			seen := map[string]bool{}
			for _, s := range d.Input.Signatures {
				if !seen[s.ID] {
					seen[s.ID] = true
					m.Signers = append(m.Signers, s.ID)
				}
			}
			or.Mints = append(or.Mints, m)
		}
	}
	return or, true
}

func realChild(run *mon.Run, r *mon.Rand, idx, nHist, nBlocks int) {
	_ = os.Chdir(mon.ScratchDir())
	o := obs.Install()
	w := world.New(world.Options{Seed: mon.Seed()*1000 + 900 + uint64(idx)})
	defer w.Close()
	edb, err := event.NewInMemoryEventDb(config.DbAccess{}, config.DbSettings{Debug: false, PartitionChangePeriod: 1 << 40, PermanentPartitionChangePeriod: 1 << 40})
	if err != nil {
		run.Inconclusive("cannot create the in-memory event database: " + err.Error())
		return
	}
	lg := &capture{}
	edb.Store = &capStore{Store: edb.Store, lg: lg}
	time.Sleep(200 * time.Millisecond) // the worker's start-up partition statements (Postgres-only, fail on sqlite, logged only)
	lg.take()
	round := int64(idx)*1000000 + 500000
	for j := 0; j < nHist; j++ {
		tag := fmt.Sprintf("c20s%dr%dh%d", mon.Seed(), idx, j)
		counts := map[string]int64{}
		first := true
		schist.EvdbRealRun(w, o, r.Fork(fmt.Sprintf("hist%d", j)), tag, nBlocks, func(b *schist.EvdbRealBlock) {
			round++
			if judgeReal(run, edb, lg, b, round, counts, first && idx == 0 && j == 0) {
				first = false
			}
		})
		run.Count("real:histories", 1)
		run.Checkpoint()
	}
}

func realWitness(b *schist.EvdbRealBlock, or realOracle) map[string]interface{} {
	type ev struct {
		Tag   string      `json:"tag"`
		Index string      `json:"index"`
		Txn   string      `json:"txn"`
		Data  interface{} `json:"data"`
	}
	var evs []ev
	for _, e := range b.Events {
		if e.Tag == event.TagAuthorizerBurn || e.Tag == event.TagAddBurnTicket || e.Tag == event.TagAddBridgeMint {
			evs = append(evs, ev{tagName(e.Tag), e.Index, e.TxHash, e.Data})
		}
	}
	type tx struct {
		Op, Outcome, Client, Hash string
		Value, Fee                uint64
		Data, Output              string
	}
	var txs []tx
	for _, t := range b.Txns {
		c := t.ClientID
		if n, ok := b.Names[c]; ok {
			c = n + ":" + c
		}
		txs = append(txs, tx{t.Op, t.Outcome, c, t.Hash, t.Value, t.Fee, trunc(t.Data, 300), trunc(t.Output, 300)})
	}
	return map[string]interface{}{"history": b.History, "round": b.Round, "block": b.Hash, "workload_shape": b.Shape, "transactions": txs, "reference_from_transactions": or, "bridge_events_emitted": evs}
}

func judgeReal(run *mon.Run, edb *event.EventDb, lg *capture, b *schist.EvdbRealBlock, round int64, counts map[string]int64, sample bool) (judged bool) {
	or, ok := realRead(run, b, counts)
	if !ok {
		run.Count("real:blocks-not-judged", 1)
		return false
	}
	if len(or.Burns) == 0 && len(or.Mints) == 0 && or.Refused == 0 {
		return false // set-up block without bridge transfers
	}
	run.Eval(1)
	run.Count("real:blocks", 1)
	run.Count("real:burns", int64(len(or.Burns)))
	run.Count("real:mints", int64(len(or.Mints)))
	run.Count("real:refused-bridge-txns", int64(or.Refused))
	run.Count("real:shape:"+b.Shape, 1)

	// ---- classes, from the transactions ----
	ethClients, clientEths, pair := map[string]map[string]bool{}, map[string]map[string]bool{}, map[string]int{}
	for _, bu := range or.Burns {
		if ethClients[bu.Eth] == nil {
			ethClients[bu.Eth] = map[string]bool{}
		}
		if clientEths[bu.Client] == nil {
			clientEths[bu.Client] = map[string]bool{}
		}
		ethClients[bu.Eth][bu.Client], clientEths[bu.Client][bu.Eth] = true, true
		pair[bu.Client+">"+bu.Eth]++
	}
	twoClientsOneAddr, oneClientTwoAddrs, twice := false, false, false
	for _, cs := range ethClients {
		twoClientsOneAddr = twoClientsOneAddr || len(cs) >= 2
	}
	for _, es := range clientEths {
		oneClientTwoAddrs = oneClientTwoAddrs || len(es) >= 2
	}
	for _, n := range pair {
		twice = twice || n >= 2
	}
	if twoClientsOneAddr {
		run.Count("real:blocks-two-clients-one-address", 1)
	}
	if oneClientTwoAddrs {
		run.Count("real:blocks-one-client-two-addresses", 1)
	}
	if twice {
		run.Count("real:blocks-one-client-twice-one-address", 1)
	}
	minters := map[string]bool{}
	for _, m := range or.Mints {
		minters[m.Client] = true
	}
	run.Distinct(fmt.Sprintf("real|burns=%d/eth=%d/burners=%d/2c1a=%v/1c2a=%v/twice=%v|mints=%d/minters=%d|refused=%v", capN(len(or.Burns), 6), len(ethClients), len(clientEths), twoClientsOneAddr, oneClientTwoAddrs, twice, len(or.Mints), len(minters), or.Refused > 0))

	wantBurn, wantMint, wantUser := map[string]int64{}, map[string]int64{}, map[string]int64{}
	for _, bu := range or.Burns {
		wantBurn[bu.Client] += int64(bu.Amount)
	}
	for _, m := range or.Mints {
		wantUser[m.Client] += m.Minted
		for _, s := range m.Signers {
			wantMint[s] += m.Minted
		}
	}
	class := "other"
	switch {
	case twoClientsOneAddr && oneClientTwoAddrs:
		class = "both-sharings"
	case twoClientsOneAddr:
		class = "two-clients-one-address"
	case oneClientTwoAddrs:
		class = "one-client-two-addresses"
	case twice:
		class = "one-client-twice-one-address"
	case len(or.Burns) == 1:
		class = "single-burn"
	}
	rp := func() map[string]interface{} { return realWitness(b, or) }
	blk := &block{ID: fmt.Sprintf("%s-round%d", b.History, b.Round), Round: round, Hash: b.Hash}

	var tickets, burns, mints []event.Event
	for _, e := range b.Events {
		switch e.Tag {
		case event.TagAddBurnTicket:
			tickets = append(tickets, e)
		case event.TagAuthorizerBurn:
			burns = append(burns, e)
		case event.TagAddBridgeMint:
			mints = append(mints, e)
		}
	}
	run.Count("real:bridge-events-emitted", int64(len(tickets)+len(burns)+len(mints)))
	if len(or.Burns) == 0 && len(burns)+len(tickets) > 0 || len(or.Mints) == 0 && len(mints) > 0 {
		run.Count("real:obs-bridge-events-in-block-without-successful-bridge-txn-of-that-kind", 1)
	}

	// ---- the real merge step on the whole real event list ----
	cp := append([]event.Event{}, b.Events...)
	out, err := event.VerifMergeEvents(round, b.Hash, cp)
	if err != nil {
		violate(run, "C20:real-emission:merge-fails", fmt.Sprintf("mergeEvents returns an error for the events of a real block: %v", err), rp())
		return true
	}
	sm := summarise(out)
	var bad []string
	for id, wv := range wantBurn {
		if g := sm.sums["TagAuthorizerBurn|"+id+"|amount"]; g != wv {
			bad = append(bad, fmt.Sprintf("burner %s burned %d in the block, merged events carry %d", id, wv, g))
		}
	}
	sort.Strings(bad)
	if len(bad) > 0 {
		violate(run, "C20:real-emission:burner-total-wrong-after-merge:"+class, fmt.Sprintf("real block (%d successful burns, class %s): %v", len(or.Burns), class, bad), rp())
	}
	for k, v := range sm.sums {
		if tagOf(k) == "TagAuthorizerBurn" && v != 0 {
			if _, ok := wantBurn[k[len("TagAuthorizerBurn|"):len(k)-len("|amount")]]; !ok {
				run.Count("real:obs-merged-burn-total-for-a-client-without-successful-burn", 1)
			}
		}
	}
	lost := 0
	for _, bu := range or.Burns {
		run.Count("real:burn-tickets-expected", 1)
		if sm.items[fmt.Sprintf("TagAddBurnTicket|%s/nonce=%d/amount=%d/txn=%s", bu.Eth, bu.Nonce, bu.Amount, bu.Hash)] < 1 {
			lost++
		}
	}
	if lost > 0 {
		violate(run, "C20:real-emission:ticket-missing-after-merge:"+class, fmt.Sprintf("real block with %d successful burns: %d of them have no burn ticket (address, amount, nonce, transaction) in the merged events", len(or.Burns), lost), rp())
	}
	bad = nil
	for id, wv := range wantMint {
		if g := sm.sums["TagAddBridgeMint|signer:"+id+"|amount"]; g != wv {
			bad = append(bad, fmt.Sprintf("signer %s signed mints of %d in the block, merged events carry %d", id, wv, g))
		}
	}
	for id, wv := range wantUser {
		if g := sm.sums["TagAddBridgeMint|user:"+id+"|amount"]; g != wv {
			bad = append(bad, fmt.Sprintf("client %s received %d from mints in the block, merged events carry %d", id, wv, g))
		}
	}
	sort.Strings(bad)
	if len(bad) > 0 {
		violate(run, "C20:real-emission:mint-total-wrong-after-merge", fmt.Sprintf("real block (%d successful mints): %v", len(or.Mints), bad), rp())
	}

	// ---- the real handlers on the event database (as in layer 2: one ProcessEvents per bridge tag) ----
	ctx := context.Background()
	noStore := func(event.BlockEvents) error { return nil }
	if len(or.Burns) > 0 {
		run.Count("real:db-blocks-with-burns", 1)
		var perr error
		if len(tickets) > 0 {
			_, _, perr = edb.ProcessEvents(ctx, tickets, round, b.Hash, len(tickets), noStore, event.CommitNow())
		}
		lg.take()
		perEth := map[string][]burn{}
		for _, bu := range or.Burns {
			perEth[bu.Eth] = append(perEth[bu.Eth], bu)
		}
		var missing []burn
		missingSame, missingOther := 0, 0
		for eth, want := range perEth {
			rows, gerr := edb.GetBurnTickets(eth)
			lg.take()
			if gerr != nil {
				run.Inconclusive("GetBurnTickets failed: " + gerr.Error())
				return true
			}
			have := map[string]int{}
			for _, t := range rows {
				have[fmt.Sprintf("%s|%d|%d|%s", t.EthereumAddress, uint64(t.Amount), t.Nonce, t.Hash)]++
			}
			for _, wt := range want {
				k := fmt.Sprintf("%s|%d|%d|%s", wt.Eth, wt.Amount, wt.Nonce, wt.Hash)
				if have[k] > 0 {
					have[k]--
					run.Count("real:db-burn-tickets-found", 1)
					continue
				}
				missing = append(missing, wt)
				if len(want) >= 2 {
					missingSame++
				} else {
					missingOther++
				}
			}
		}
		if len(missing) > 0 {
			sort.Slice(missing, func(i, j int) bool { return missing[i].Hash < missing[j].Hash })
			w := rp()
			w["missing"], w["process_events_error"] = missing, fmt.Sprint(perr)
			if missingSame > 0 {
				violate(run, "C20:real-emission:burn-ticket-missing:same-address-twice-in-block", fmt.Sprintf("real block with %d successful burns (%d ethereum addresses): %d burn ticket(s) of an address burnt to more than once in the block are not in the burn_tickets table after ProcessEvents (err=%v)", len(or.Burns), len(perEth), missingSame, perr), w)
			}
			if missingOther > 0 {
				violate(run, "C20:real-emission:burn-ticket-missing:address-once-in-block", fmt.Sprintf("real block with %d successful burns to %d ethereum addresses: %d burn ticket(s) of addresses burnt to once are not in the burn_tickets table after ProcessEvents (err=%v)", len(or.Burns), len(perEth), missingOther, perr), w)
			}
		}
		var stmts []stmt
		if len(burns) > 0 {
			_, _, _ = edb.ProcessEvents(ctx, burns, round, b.Hash, len(burns), noStore, event.CommitNow())
			stmts = lg.take()
		}
		judgeTotals(run, stmts, "total_burn", "real-burn", wantBurn, blk, rp())
	}
	if len(or.Mints) > 0 {
		var stmts []stmt
		if len(mints) > 0 {
			_, _, _ = edb.ProcessEvents(ctx, mints, round, b.Hash, len(mints), noStore, event.CommitNow())
			stmts = lg.take()
		}
		judgeTotals(run, stmts, "total_mint", "real-mint", wantMint, blk, rp())
	}
	if sample {
		run.Sample(map[string]interface{}{"layer": "real-emission", "block": blk.ID, "shape": b.Shape, "reference_from_transactions": or, "events_emitted": len(b.Events), "events_after_merge": len(out)})
	}
	return true
}
