// Package codec is the C08 engine: every value the contracts store in state must round-trip losslessly and canonically.
//
// Two value sources are judged by the same oracle (oracle.go):
//
//	(a) observed: every value actually passed to InsertTrieNode while generated transaction histories (the schist
//	    workload) run through the real Chain.UpdateState, taken from the observation hook's value stream;
//	(b) generated: for every Go type seen in (a) and for the prototypes of stored types the workload may not reach,
//	    values whose every field is filled through reflection (zero / 1 / max / min / random / mixed).
//
// Entity versions (entitywrapper) are judged by migrate.go.
package codec

import (
	"flag"
	"fmt"
	"os"
	"reflect"
	"runtime/debug"
	"sort"
	"strings"
	"sync"
	"time"

	"github.com/0chain/common/core/util"

	"verifh/eng/schist"
	"verifh/mon"
	"verifh/obs"
	"verifh/world"
)

const rule = "values = (a) every value passed to InsertTrieNode during generated transaction histories through the real Chain.UpdateState " +
	"and (b) reflection-filled values (modes zero/one/max/min/random/mixed, every exported and unexported field, every registered entity version) of every Go type seen in (a) plus the prototypes of the stored types; " +
	"one evaluation = one value judged (same-value re-encode x6, decode with no leftover, re-encode identical, deep equality modulo the listed derived fields) or one version migration; " +
	"distinct = (Go type, field-shape) pairs, field-shape = per field zero/positive/negative/max, empty/short/long string, nil/empty/1/few/many container, two levels deep"

// Main is the engine entry point.
func Main(args []string) int {
	fs := flag.NewFlagSet("codec", flag.ExitOnError)
	prop := fs.String("prop", "C08", "property id")
	tier := fs.String("tier", "quick", "quick|thorough")
	child := fs.Int("child", -1, "child index (internal)")
	hists := fs.Int("hists", 0, "histories per child")
	hlen := fs.Int("len", 0, "transactions per history")
	reps := fs.Int("reps", 0, "generated values per (type, mode)")
	children := fs.Int("children", 0, "number of child processes")
	_ = fs.Parse(args)
	if *prop != "C08" {
		fmt.Printf("codec serves C08 only\n")
		return 2
	}
	nc, nh, nl, nr := 8, 3, 80, 6
	if *tier == "thorough" {
		nc, nh, nl, nr = 32, 10, 250, 40
	}
	if *children > 0 {
		nc = *children
	}
	if *hists > 0 {
		nh = *hists
	}
	if *hlen > 0 {
		nl = *hlen
	}
	if *reps > 0 {
		nr = *reps
	}
	if *child >= 0 {
		return childMain(*tier, *child, nh, nl, nr)
	}
	defer mon.CleanScratch()
	run := mon.NewRun("C08", *tier, "exploration", rule)
	var specs []mon.ChildSpec
	for i := 0; i < nc; i++ {
		to := 4 * time.Minute
		if *tier == "thorough" {
			to = 25 * time.Minute
		}
		specs = append(specs, mon.ChildSpec{Name: fmt.Sprintf("c%d", i), Timeout: to,
			Args: []string{"codec", "-prop", "C08", "-tier", *tier, "-child", fmt.Sprint(i), "-hists", fmt.Sprint(nh), "-len", fmt.Sprint(nl), "-reps", fmt.Sprint(nr)}})
	}
	res := mon.RunChildren(run, specs, 14)
	for _, cr := range res {
		if cr.Crashed && !cr.TimedOut {
			p := mon.KeepLog(cr, fmt.Sprintf("C08-crash-%s-seed%d.log", cr.Spec.Name, run.SeedV))
			run.Inconclusive(fmt.Sprintf("child %s crashed (log %s): %s", cr.Spec.Name, p, firstPanicLine(cr.LogTail)))
		}
	}
	// distinct Go types judged, by source
	cnt := run.Export().Counters
	types := map[string]bool{}
	var nObs, nGen int64
	for k := range cnt {
		switch {
		case strings.HasPrefix(k, "observed:"):
			types[strings.TrimPrefix(k, "observed:")] = true
			nObs++
		case strings.HasPrefix(k, "generated:"):
			types[strings.TrimPrefix(k, "generated:")] = true
			nGen++
		}
	}
	var names []string
	for k := range types {
		names = append(names, k)
	}
	sort.Strings(names)
	run.Set("types_judged", names)
	run.Count("distinct_types_judged", int64(len(names)))
	run.Count("distinct_types_observed_at_hook", nObs)
	run.Count("distinct_types_generated", nGen)
	run.RequireMin("distinct_types_judged", 40)
	run.RequireMin("distinct_types_observed_at_hook", 20)
	run.RequireMin("observed_values", 2000)
	run.RequireMin("generated_values", 2000)
	run.RequireMin("mon:deep-equal", 4000)
	run.RequireMin("mon:migration-common-fields", 50)
	var dl []string
	for k, v := range derived {
		dl = append(dl, k+": "+v)
	}
	sort.Strings(dl)
	run.Set("derived_fields_not_compared", dl)
	run.Assume("fields listed under derived_fields_not_compared are documented as not stored (msg:\"-\" in the unchanged tree or rebuilt by a hand-written UnmarshalMsg) and are excluded from the equality check; any other field must survive")
	run.Assume("generated values respect three structural invariants of the code: state.State carries a 32-byte transaction hash, a node carries a valid bls0chain public key and id = hash(public key), a node.Pool is keyed by node id with SetIndex = rank of the id")
	run.Assume("generated slices and maps of pointers hold no nil element (hand-written decoders such as AllocationChallenges.UnmarshalMsg index every element; the code never appends nil)")
	run.Assume("interface-typed fields are left nil by the generator; github.com/0chain/common (MPT node encoding around the value) is exercised by the workload but lives outside the repository")
	return run.Finish()
}

func firstPanicLine(log string) string {
	for _, l := range strings.Split(log, "\n") {
		if strings.HasPrefix(l, "panic:") || strings.HasPrefix(l, "fatal error:") || strings.HasPrefix(l, "HARNESS-PANIC") {
			if len(l) > 200 {
				l = l[:200]
			}
			return l
		}
	}
	return "no panic line"
}

func childMain(tier string, idx, nh, nl, nr int) int {
	seed := mon.Seed()
	run := mon.NewRun("C08", tier, "exploration", "")
	defer func() {
		if e := recover(); e != nil {
			fmt.Printf("HARNESS-PANIC %v\n%s\n", e, debug.Stack())
			run.Checkpoint()
			os.Exit(3)
		}
	}()
	registerPrototypes()

	// ---- (a) observed values ------------------------------------------------------------------------------------------
	var mu sync.Mutex
	seen := map[reflect.Type]bool{}
	sampled := map[string]bool{}
	o := obs.Install()
	o.ValueSink = func(key string, v util.MPTSerializable, enc []byte) {
		defer func() {
			if e := recover(); e != nil {
				run.Inconclusive(fmt.Sprintf("oracle panicked on an observed %T: %v", v, e))
				fmt.Printf("SINK-PANIC %T %v\n%s\n", v, e, debug.Stack())
			}
		}()
		if v == nil || reflect.ValueOf(v).Kind() != reflect.Ptr || reflect.ValueOf(v).IsNil() {
			run.Count("observed_nil_or_non_pointer", 1)
			return
		}
		tn := typeName(v)
		mu.Lock()
		seen[reflect.TypeOf(v)] = true
		first := !sampled[tn]
		sampled[tn] = true
		mu.Unlock()
		if judge(run, v, "observed", map[string]interface{}{"key": key, "child": idx}) {
			run.Count("observed_values", 1)
			run.Count("observed:"+tn, 1)
			if first && idx == 0 {
				run.Sample(map[string]interface{}{"source": "observed", "type": tn, "key": trunc(key, 80), "encoded_len": len(enc)})
			}
		}
	}
	w := world.New(world.Options{Seed: seed*1000 + uint64(idx)})
	defer w.Close()
	out := schist.RunWorkload(w, o, seed, fmt.Sprintf("codec-child%d", idx), nh, nl)
	o.ValueSink = nil
	_, _, ins := o.Stats()
	for k, n := range ins {
		run.Count("hook_inserts:"+strings.TrimPrefix(k, "*"), n)
	}
	for k, n := range out {
		run.Count("workload_txn:"+k, int64(n))
	}
	run.Checkpoint()

	// ---- (b) generated values ------------------------------------------------------------------------------------------
	type subject struct {
		name string
		mk   func() util.MPTSerializable
	}
	subj := map[string]subject{}
	for t := range seen {
		t := t
		n := strings.TrimPrefix(t.String(), "*")
		subj[n] = subject{n, func() util.MPTSerializable { return reflect.New(t.Elem()).Interface().(util.MPTSerializable) }}
	}
	for n, p := range prototypes {
		p := p
		if _, ok := subj[n]; !ok {
			t := reflect.TypeOf(p())
			subj[n] = subject{n, func() util.MPTSerializable { return reflect.New(t.Elem()).Interface().(util.MPTSerializable) }}
		}
	}
	var names []string
	for n := range subj {
		names = append(names, n)
	}
	sort.Strings(names)
	base := mon.NewRand(seed).Fork(fmt.Sprintf("codec-gen-child%d", idx))
	for _, n := range names {
		s := subj[n]
		r := base.Fork(n)
		// the empty value as the contracts create it
		if c := ctors[n]; c != nil {
			if judge(run, c(), "generated:ctor-empty", nil) {
				run.Count("generated_values", 1)
				run.Count("generated:"+n, 1)
			}
		}
		for mode := 0; mode < nModes; mode++ {
			k := 1
			if mode >= mRand {
				k = nr
			}
			for i := 0; i < k; i++ {
				x := s.mk()
				f := newFiller(r, mode)
				f.fill(reflect.ValueOf(x).Elem(), 0)
				src := "generated:" + modeNames[mode]
				if judge(run, x, src, map[string]interface{}{"child": idx, "case": i}) {
					run.Count("generated_values", 1)
					run.Count("generated:"+n, 1)
					run.Count("generated_mode:"+modeNames[mode], 1)
					if idx == 0 && i == 0 && mode == mMix && (n == "storagesc.StorageAllocation" || n == "state.State") {
						run.Sample(map[string]interface{}{"source": src, "type": n, "value": describe(reflect.ValueOf(x))})
					}
				}
			}
		}
		run.Checkpoint()
	}

	// ---- (c) version migrations ------------------------------------------------------------------------------------------
	for _, mk := range wrappedTypes {
		tn := mk().TypeName()
		vs := versionsOf(tn)
		r := base.Fork("migrate:" + tn)
		run.Count("registered_versions:"+tn, int64(len(vs)))
		for _, from := range vs[:len(vs)-1] {
			for mode := 0; mode < nModes; mode++ {
				k := 1
				if mode >= mRand {
					k = nr
				}
				for i := 0; i < k; i++ {
					judgeMigration(run, mk, from, newFiller(r, mode), "generated:"+modeNames[mode])
				}
			}
		}
	}
	run.Checkpoint()
	return 0
}

func trunc(s string, n int) string {
	if len(s) > n {
		return s[:n] + "…"
	}
	return s
}
