package codec

import (
	"encoding/hex"
	"fmt"
	"math"
	"reflect"
	"sort"
	"strings"
	"time"

	"0chain.net/core/util/entitywrapper"

	"verifh/mon"
	"verifh/world"
)

// generation modes: every settable leaf of a value is filled according to the mode
const (
	mZero = iota // everything zero / nil
	mOne         // 1, "a", one-element containers, pointers allocated
	mMax         // MaxInt / MaxUint, long strings, long containers
	mMin         // MinInt, empty-but-non-nil containers, empty strings, pointers allocated
	mRand        // seeded random values
	mMix         // every leaf draws its own mode from the five above
	nModes
)

var modeNames = []string{"zero", "one", "max", "min", "rand", "mix"}

type filler struct {
	r    *mon.Rand
	mode int
	// version choice for entitywrapper-based types: "" = drawn per value
	version string
	keys    []*world.Wallet // valid bls0chain key pairs (id = hash of the public key)
	elem    bool            // the value being filled is a container element (never a nil pointer)
}

var pubKeys []*world.Wallet

func validKeys() []*world.Wallet {
	if pubKeys == nil {
		for i := 0; i < 12; i++ {
			pubKeys = append(pubKeys, world.NewWallet(fmt.Sprintf("codec-key-%d", i)))
		}
	}
	return pubKeys
}

func newFiller(r *mon.Rand, mode int) *filler {
	return &filler{r: r, mode: mode, keys: validKeys()}
}

func (f *filler) leafMode() int {
	if f.mode == mMix {
		return f.r.Intn(5)
	}
	return f.mode
}

var alphabet = []string{"a", "Z", "0", "-", "_", " ", "é", "ß", "世", "界", "\n", "\t", "\"", "\\", "{", "}", ":", "/", "\u0000", "🙂"}

func (f *filler) str(m, depth int) string {
	switch m {
	case mZero, mMin:
		return ""
	case mOne:
		return "a"
	case mMax:
		n := 300
		if depth > 3 {
			n = 40
		}
		var sb strings.Builder
		for sb.Len() < n {
			sb.WriteString(alphabet[f.r.Intn(len(alphabet))])
		}
		return sb.String()
	}
	n := 1 + f.r.Intn(24)
	var sb strings.Builder
	for i := 0; i < n; i++ {
		sb.WriteString(alphabet[f.r.Intn(len(alphabet))])
	}
	return sb.String()
}

func (f *filler) clen(m, depth int) (n int, isNil bool) {
	switch m {
	case mZero:
		return 0, true
	case mMin:
		return 0, false
	case mOne:
		return 1, false
	case mMax:
		if depth > 4 {
			return 2, false
		}
		if depth > 2 {
			return 4, false
		}
		return 9, false
	}
	if depth > 4 {
		return f.r.Intn(2), false
	}
	return f.r.Intn(4), f.r.Intn(6) == 0
}

// wrapperI is what every entitywrapper-based stored type offers.
type wrapperI interface {
	SetEntity(entitywrapper.EntityI)
	Entity() entitywrapper.EntityI
	TypeName() string
}

// versionsOf returns the registered versions of a wrapped type, oldest first ("v1" < "v2" < "v10").
func versionsOf(typeName string) []string {
	fs, ok := entitywrapper.GetEntityVersionFuncs(typeName)
	if !ok {
		return nil
	}
	var vs []string
	for v := range fs {
		vs = append(vs, v)
	}
	sort.Slice(vs, func(i, j int) bool { return vnum(vs[i]) < vnum(vs[j]) })
	return vs
}

func vnum(v string) int {
	n := 0
	fmt.Sscanf(strings.TrimPrefix(v, "v"), "%d", &n)
	return n
}

// post-fill hooks establish the structural invariants that every value of that type built by the code satisfies
// (they restrict the generator's domain; they are not part of the oracle).
var postFill = map[string]func(f *filler, v reflect.Value, depth int){}

func init() {
	postFill["state.State"] = func(f *filler, v reflect.Value, depth int) {
		// fixed binary layout: a State always carries the 32 bytes of a transaction hash (SetTxnHash)
		b := make([]byte, 32)
		switch f.leafMode() {
		case mZero, mMin:
		case mMax:
			for i := range b {
				b[i] = 0xff
			}
		case mOne:
			b[31] = 1
		default:
			for i := range b {
				b[i] = byte(f.r.Intn(256))
			}
		}
		access(v.FieldByName("TxnHashBytes")).SetBytes(b)
		access(v.FieldByName("TxnHash")).SetString(hex.EncodeToString(b))
	}
	postFill["client.Client"] = func(f *filler, v reflect.Value, depth int) {
		// Pool.UnmarshalMsg re-derives id and signature scheme from PublicKey (Client.SetPublicKey): a node's key is a
		// valid bls0chain key and its id is the hash of that key
		w := f.keys[f.r.Intn(len(f.keys))]
		access(v.FieldByName("PublicKey")).SetString(w.PubKey)
		access(v.FieldByName("ID")).SetString(w.ID)
	}
	postFill["node.Pool"] = func(f *filler, v reflect.Value, depth int) {
		// a pool is keyed by node id, holds no nil node, and SetIndex is the rank of the id (computeNodePositions)
		m := access(v.FieldByName("NodesMap"))
		if m.IsNil() || m.Len() == 0 {
			return
		}
		var nodes []reflect.Value
		it := m.MapRange()
		for it.Next() {
			if !it.Value().IsNil() {
				nodes = append(nodes, it.Value())
			}
		}
		nm := reflect.MakeMap(m.Type())
		ids := map[string]bool{}
		var order []string
		byID := map[string]reflect.Value{}
		for i, n := range nodes {
			w := f.keys[i%len(f.keys)] // distinct key pairs: pools hold at most 9 generated nodes
			id := w.ID
			if ids[id] {
				continue
			}
			ids[id] = true
			access(n.Elem().FieldByName("ID")).SetString(id)
			access(n.Elem().FieldByName("PublicKey")).SetString(w.PubKey)
			order = append(order, id)
			byID[id] = n
		}
		sort.Strings(order)
		for rank, id := range order {
			access(byID[id].Elem().FieldByName("SetIndex")).SetInt(int64(rank))
			nm.SetMapIndex(reflect.ValueOf(id), byID[id])
		}
		m.Set(nm)
	}
}

// fill sets every field of v (exported or not) according to the mode. v must be addressable.
func (f *filler) fill(v reflect.Value, depth int) {
	elem := f.elem
	f.elem = false
	v = access(v)
	t := v.Type()
	if skipType(t) || !v.CanSet() {
		return
	}
	if depth > 9 {
		return
	}
	if t == tTime {
		switch f.leafMode() {
		case mZero:
		case mOne:
			v.Set(reflect.ValueOf(time.Unix(1, 1).UTC()))
		case mMax:
			v.Set(reflect.ValueOf(time.Unix(253402300799, 999999999).UTC()))
		case mMin:
			v.Set(reflect.ValueOf(time.Unix(-62135596800, 0).UTC()))
		default:
			v.Set(reflect.ValueOf(time.Unix(int64(f.r.U64()%4000000000), int64(f.r.Intn(1000000000))).UTC()))
		}
		return
	}
	switch t.Kind() {
	case reflect.Bool:
		switch m := f.leafMode(); m {
		case mZero, mMin:
			v.SetBool(false)
		case mOne, mMax:
			v.SetBool(true)
		default:
			v.SetBool(f.r.Intn(2) == 0)
		}
	case reflect.Int, reflect.Int8, reflect.Int16, reflect.Int32, reflect.Int64:
		bits := t.Bits()
		max := int64(1)<<(bits-1) - 1
		switch f.leafMode() {
		case mZero:
			v.SetInt(0)
		case mOne:
			v.SetInt(1)
		case mMax:
			v.SetInt(max)
		case mMin:
			v.SetInt(-max - 1)
		default:
			x := int64(f.r.U64())
			switch f.r.Intn(4) {
			case 0:
				x %= 256
			case 1:
				x %= 1 << 31
			}
			if bits < 64 {
				x %= max
			}
			v.SetInt(x)
		}
	case reflect.Uint, reflect.Uint8, reflect.Uint16, reflect.Uint32, reflect.Uint64, reflect.Uintptr:
		bits := t.Bits()
		max := uint64(math.MaxUint64)
		if bits < 64 {
			max = uint64(1)<<bits - 1
		}
		switch f.leafMode() {
		case mZero, mMin:
			v.SetUint(0)
		case mOne:
			v.SetUint(1)
		case mMax:
			v.SetUint(max)
		default:
			x := f.r.U64()
			switch f.r.Intn(4) {
			case 0:
				x %= 256
			case 1:
				x %= 1 << 40
			}
			v.SetUint(x & max)
		}
	case reflect.Float32, reflect.Float64:
		switch f.leafMode() {
		case mZero:
			v.SetFloat(0)
		case mOne:
			v.SetFloat(1)
		case mMax:
			if t.Kind() == reflect.Float32 {
				v.SetFloat(math.MaxFloat32)
			} else {
				v.SetFloat(math.MaxFloat64)
			}
		case mMin:
			if t.Kind() == reflect.Float32 {
				v.SetFloat(-math.MaxFloat32)
			} else {
				v.SetFloat(-math.MaxFloat64)
			}
		default:
			x := (float64(f.r.U64()%2000001) - 1000000) / float64(1+f.r.Intn(1000))
			if t.Kind() == reflect.Float32 {
				x = float64(float32(x))
			}
			v.SetFloat(x)
		}
	case reflect.String:
		v.SetString(f.str(f.leafMode(), depth))
	case reflect.Ptr:
		m := f.leafMode()
		if !elem && (m == mZero || (m == mRand && f.r.Intn(5) == 0)) {
			v.Set(reflect.Zero(t))
			return
		}
		if t.Elem().Kind() == reflect.Struct && depth > 7 {
			v.Set(reflect.Zero(t))
			return
		}
		p := reflect.New(t.Elem())
		f.fill(p.Elem(), depth+1)
		v.Set(p)
	case reflect.Interface:
		// interface-typed fields are not serialisable by generated code unless the code installs a concrete value itself
		return
	case reflect.Struct:
		if f.fillWrapper(v, depth) {
			return
		}
		for i := 0; i < t.NumField(); i++ {
			sf := t.Field(i)
			if isDerived(t, sf) || skipType(sf.Type) {
				continue
			}
			f.fill(v.Field(i), depth+1)
		}
		if h := postFill[t.String()]; h != nil {
			h(f, v, depth)
		}
	case reflect.Slice:
		m := f.leafMode()
		n, isNil := f.clen(m, depth)
		if isNil {
			v.Set(reflect.Zero(t))
			return
		}
		s := reflect.MakeSlice(t, n, n)
		for i := 0; i < n; i++ {
			f.elem = true // containers built by the code never hold nil elements
			f.fill(s.Index(i), depth+1)
		}
		v.Set(s)
	case reflect.Array:
		for i := 0; i < v.Len(); i++ {
			f.fill(v.Index(i), depth+1)
		}
	case reflect.Map:
		m := f.leafMode()
		n, isNil := f.clen(m, depth)
		if isNil {
			v.Set(reflect.Zero(t))
			return
		}
		mp := reflect.MakeMapWithSize(t, n)
		for i := 0; i < n; i++ {
			k := reflect.New(t.Key()).Elem()
			f.fill(k, depth+1)
			if t.Key().Kind() == reflect.String {
				// distinct keys, including the empty key once
				if i > 0 || m == mMax {
					k.SetString(fmt.Sprintf("%s%d", k.String(), i))
				}
			} else if t.Key().Kind() >= reflect.Int && t.Key().Kind() <= reflect.Int64 {
				k.SetInt(k.Int()%1000 + int64(i)*1000)
			}
			e := reflect.New(t.Elem()).Elem()
			f.elem = true
			f.fill(e, depth+1)
			mp.SetMapIndex(k, e)
		}
		v.Set(mp)
	}
}

// fillWrapper handles entitywrapper-based stored types: the inner entity of the chosen registered version is created
// through the registry (as UnmarshalMsgType does) and installed with SetEntity (as the contracts do).
func (f *filler) fillWrapper(v reflect.Value, depth int) bool {
	if !v.CanAddr() {
		return false
	}
	w, ok := v.Addr().Interface().(wrapperI)
	if !ok {
		return false
	}
	vs := versionsOf(w.TypeName())
	if len(vs) == 0 {
		return false
	}
	ver := f.version
	if ver == "" {
		ver = vs[len(vs)-1]
		if f.r.Intn(3) == 0 {
			ver = vs[f.r.Intn(len(vs))]
		}
	}
	fs, _ := entitywrapper.GetEntityVersionFuncs(w.TypeName())
	mk, ok := fs[ver]
	if !ok {
		return false
	}
	e := mk()
	sub := *f
	sub.version = "" // nested wrappers draw their own version
	sub.fill(reflect.ValueOf(e).Elem(), depth+1)
	e.InitVersion()
	w.SetEntity(e)
	return true
}
