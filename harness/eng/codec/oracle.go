package codec

import (
	"bytes"
	"encoding/hex"
	"fmt"
	"reflect"
	"strings"
	"sync"

	"github.com/0chain/common/core/util"

	"verifh/mon"
)

// typeName is the stable name of a stored Go type used in signatures ("storagesc.StorageAllocation").
func typeName(v interface{}) string {
	return strings.TrimPrefix(reflect.TypeOf(v).String(), "*")
}

// ctors: type name -> constructor the contracts use to obtain a decode target (pre-allocated embedded pointers etc.)
var ctors = map[string]func() util.MPTSerializable{}

func safeMarshal(x util.MPTSerializable) (b []byte, err error) {
	defer func() {
		if e := recover(); e != nil {
			err = fmt.Errorf("panic: %v", e)
		}
	}()
	return x.MarshalMsg(nil)
}

func safeUnmarshal(y util.MPTSerializable, b []byte) (left []byte, err error, panicked bool) {
	defer func() {
		if e := recover(); e != nil {
			err = fmt.Errorf("panic: %v", e)
			panicked = true
		}
	}()
	left, err = y.UnmarshalMsg(b)
	return
}

var (
	vioMu    sync.Mutex
	vioCount = map[string]int{}
)

// violate reports at most 3 witnesses per signature and process (mon keeps 200 violations per run: a frequent
// signature must not crowd out a rare one); the rest is counted.
func violate(run *mon.Run, sig, detail string, replay interface{}) {
	vioMu.Lock()
	vioCount[sig]++
	n := vioCount[sig]
	vioMu.Unlock()
	run.Count("violations_observed:"+sig, 1)
	if n <= 3 {
		run.Violate(sig, detail, replay)
	}
}

type judgeResult struct {
	sig    string
	detail string
}

// judge is the C08 oracle for one value x (observed at the hook or generated). source is "observed" / "generated:<mode>".
// It reports at most one violation per value and returns whether the value could be judged at all.
func judge(run *mon.Run, x util.MPTSerializable, source string, replay map[string]interface{}) bool {
	tn := typeName(x)
	rt := reflect.TypeOf(x)
	if rt.Kind() != reflect.Ptr {
		run.Count("skipped_non_pointer_value", 1)
		return false
	}
	b1, err := safeMarshal(x)
	if err != nil {
		// a value whose encoding fails is never stored (InsertTrieNode fails the same way): not a stored value
		run.Count("encode_error:"+tn, 1)
		return false
	}
	fail := func(sig, detail string) bool {
		rp := map[string]interface{}{"type": tn, "source": source, "encoded_hex": hex.EncodeToString(trimBytes(b1, 4096)), "value": describe(reflect.ValueOf(x))}
		for k, v := range replay {
			rp[k] = v
		}
		violate(run, sig, detail, rp)
		return true
	}
	run.Eval(1)
	run.Count("judged:"+tn, 1)
	run.Distinct(tn + "|" + shape(reflect.ValueOf(x), 0))

	// (1) the same value encodes to the same bytes every time (Go map iteration order must not leak into the encoding)
	for i := 0; i < 6; i++ {
		bb, err := safeMarshal(x)
		if err != nil || !bytes.Equal(bb, b1) {
			return fail("C08:non-canonical-encoding:"+tn, fmt.Sprintf("the same %s value marshalled twice gives different bytes (%s): %x vs %x", tn, source, trimBytes(b1, 200), trimBytes(bb, 200)))
		}
	}
	run.Count("mon:same-value-reencode", 1)

	// (2) decode into a fresh value; the form the contract uses (constructor) is the one judged when new(T) cannot work
	type target struct {
		name string
		mk   func() util.MPTSerializable
	}
	targets := []target{{"new", func() util.MPTSerializable { return reflect.New(rt.Elem()).Interface().(util.MPTSerializable) }}}
	if c := ctors[tn]; c != nil {
		targets = append(targets, target{"ctor", c})
	}
	var firstFail *judgeResult
	okTargets := 0
	decisive := targets[len(targets)-1].name
	for _, tg := range targets {
		res := judgeTarget(run, x, tn, source, b1, tg.name, tg.mk)
		if res == nil {
			if tg.name == decisive {
				okTargets++
			}
			continue
		}
		if tg.name != decisive {
			// new(T) is not how the contract obtains its decode target for this type: recorded, the constructor form decides
			run.Count("new_target_unusable:"+tn, 1)
			continue
		}
		firstFail = res
	}
	if firstFail != nil {
		return fail(firstFail.sig, firstFail.detail)
	}
	_ = okTargets
	return true
}

// judgeTarget runs decode / re-encode / deep-compare against one decode target; nil = all assertions held.
func judgeTarget(run *mon.Run, x util.MPTSerializable, tn, source string, b1 []byte, tname string, mk func() util.MPTSerializable) *judgeResult {
	y := mk()
	left, err, _ := safeUnmarshal(y, b1)
	if err != nil {
		return &judgeResult{"C08:decode-fails:" + tn, fmt.Sprintf("%s value (%s) encodes to %d bytes that %s(%s).UnmarshalMsg rejects: %v", tn, source, len(b1), tname, tn, err)}
	}
	if len(left) != 0 {
		return &judgeResult{"C08:decode-fails:" + tn, fmt.Sprintf("%s value (%s): UnmarshalMsg leaves %d of %d bytes unread", tn, source, len(left), len(b1))}
	}
	run.Count("mon:decode", 1)
	b2, err := safeMarshal(y)
	if err != nil {
		return &judgeResult{"C08:reencode-differs:" + tn, fmt.Sprintf("%s value (%s): decoded value cannot be re-encoded: %v", tn, source, err)}
	}
	run.Count("mon:reencode", 1)
	d := diff(reflect.ValueOf(x), reflect.ValueOf(y), "", 0)
	// the signature names the innermost type with its own codec on the path to the lost field (the codec at fault)
	owner, rel := tn, ""
	if d != nil {
		rel = stripIdx(d.Rel)
		if d.Owner != "" {
			owner = d.Owner
		}
	}
	if !bytes.Equal(b1, b2) {
		return &judgeResult{"C08:reencode-differs:" + owner, fmt.Sprintf("%s value (%s, target %s): encode(decode(encode(x))) != encode(x): %s; first field that differs after decode: %s (codec of %s, field %s)", tn, source, tname, firstDiff(b1, b2), d.String(), owner, rel)}
	}
	run.Count("mon:deep-equal", 1)
	if d != nil {
		return &judgeResult{"C08:roundtrip-not-equal:" + owner + ":" + rel, fmt.Sprintf("%s value (%s, target %s): field %s differs after decode although the encodings are equal (the field is not carried by the encoding of %s)", tn, source, tname, d.Full, owner)}
	}
	return nil
}

func stripIdx(p string) string {
	p = strings.ReplaceAll(p, "[]", "")
	p = strings.ReplaceAll(p, "{}", "")
	return p
}

func trimBytes(b []byte, n int) []byte {
	if len(b) > n {
		return b[:n]
	}
	return b
}

func firstDiff(a, b []byte) string {
	n := len(a)
	if len(b) < n {
		n = len(b)
	}
	i := 0
	for i < n && a[i] == b[i] {
		i++
	}
	lo := i - 8
	if lo < 0 {
		lo = 0
	}
	ha, hb := i+16, i+16
	if ha > len(a) {
		ha = len(a)
	}
	if hb > len(b) {
		hb = len(b)
	}
	return fmt.Sprintf("len %d vs %d, first difference at byte %d: …%x vs …%x", len(a), len(b), i, a[lo:ha], b[lo:hb])
}
