package codec

import (
	"fmt"
	"reflect"

	"0chain.net/core/util/entitywrapper"
	"github.com/0chain/common/core/util"

	"verifh/mon"
)

type wrapped interface {
	util.MPTSerializable
	wrapperI
	Update(e entitywrapper.EntityI, f func(entitywrapper.EntityI) error) error
}

// commonFieldLoss returns the first field present (same name, same type) in both entity structs whose value differs.
// "Version" is the version tag itself and is expected to change.
func commonFieldLoss(from, to reflect.Value) string {
	return commonFieldLossD(from, to).String()
}

func commonFieldLossD(from, to reflect.Value) *difference {
	ft, tt := from.Type(), to.Type()
	for i := 0; i < ft.NumField(); i++ {
		sf := ft.Field(i)
		if sf.Name == "Version" || skipType(sf.Type) || isDerived(ft, sf) {
			continue
		}
		tf, ok := tt.FieldByName(sf.Name)
		if !ok || tf.Type != sf.Type || len(tf.Index) != 1 {
			continue
		}
		if d := diff(from.Field(i), to.FieldByIndex(tf.Index), sf.Name, 0); d != nil {
			return d
		}
	}
	return nil
}

// judgeMigration: for one wrapped type and one older registered version `from`, build a from-value, store it (encode),
// load it through the wrapper (decode dispatches on the version tag), migrate it the way the code does and require every
// field common to both versions to be preserved. Two migration routes are judged:
//   - step by step (from -> from+1 -> … -> latest) with each version's MigrateFrom,
//   - directly to every later version `to` with Wrapper.Update(to-entity, …), which is what the contracts call
//     (e.g. updateBlobberSettings: Update(&storageNodeV3{}, …) on whatever version the trie holds).
func judgeMigration(run *mon.Run, mk func() wrapped, from string, f *filler, source string) {
	w := mk()
	tname := w.TypeName()
	vs := versionsOf(tname)
	fs, _ := entitywrapper.GetEntityVersionFuncs(tname)
	fi := -1
	for i, v := range vs {
		if v == from {
			fi = i
		}
	}
	if fi < 0 || fi == len(vs)-1 {
		return
	}
	orig := fs[from]()
	f.fill(reflect.ValueOf(orig).Elem(), 1)
	w.SetEntity(orig)
	b, err := safeMarshal(w)
	if err != nil {
		run.Count("encode_error:migration:"+tname, 1)
		return
	}
	run.Eval(1)
	run.Count("mon:migration", 1)
	run.Distinct("migrate|" + tname + "|" + from + "|" + shape(reflect.ValueOf(orig), 0))
	replay := func(extra string) map[string]interface{} {
		return map[string]interface{}{"wrapped_type": tname, "from_version": from, "source": source, "encoded_hex": fmt.Sprintf("%x", trimBytes(b, 4096)), "value": describe(reflect.ValueOf(orig)), "step": extra}
	}
	load := func() (wrapped, bool) {
		w2 := mk()
		left, err, _ := safeUnmarshal(w2, b)
		if err != nil || len(left) != 0 {
			violate(run, "C08:decode-fails:"+typeName(w), fmt.Sprintf("%s stored as %s does not decode through the wrapper: err=%v leftover=%d", tname, from, err, len(left)), replay("decode"))
			return nil, false
		}
		if got := w2.Entity().GetVersion(); got != from {
			violate(run, "C08:decode-fails:"+typeName(w), fmt.Sprintf("%s stored as %s is decoded as version %s", tname, from, got), replay("decode"))
			return nil, false
		}
		if d := diff(reflect.ValueOf(orig), reflect.ValueOf(w2.Entity()), "", 0); d != nil {
			violate(run, "C08:roundtrip-not-equal:"+d.Owner+":"+stripIdx(d.Rel), fmt.Sprintf("%s %s: field %s differs after decode", tname, from, d.Full), replay("decode"))
			return nil, false
		}
		return w2, true
	}
	// route 1: step by step
	if w2, ok := load(); ok {
		cur := w2.Entity()
		okSteps := true
		for j := fi + 1; j < len(vs); j++ {
			next := fs[vs[j]]()
			if err := safeMigrate(next, cur); err != nil {
				violate(run, fmt.Sprintf("C08:migration-fails:%s:%s->%s", tname, vs[j-1], vs[j]), fmt.Sprintf("%s: %s.MigrateFrom(%s entity) fails: %v", tname, vs[j], vs[j-1], err), replay("stepwise"))
				okSteps = false
				break
			}
			run.Count("mon:migration-step", 1)
			cur = next
		}
		if okSteps {
			if d := commonFieldLoss(reflect.ValueOf(orig).Elem(), reflect.ValueOf(cur).Elem()); d != "" {
				violate(run, "C08:migration-loses-field:"+tname+":"+stripIdx(d), fmt.Sprintf("%s %s -> %s step by step: common field %s is not preserved", tname, from, vs[len(vs)-1], d), replay("stepwise"))
			} else {
				run.Count("mon:migration-common-fields", 1)
				// the migrated entity is what gets stored next: it must itself round-trip
				w3 := mk()
				w3.SetEntity(cur)
				judge(run, w3, source+":migrated-from-"+from, nil)
			}
		}
	}
	// route 2: directly to each later version through Wrapper.Update, as the contracts do
	for j := fi + 1; j < len(vs); j++ {
		w2, ok := load()
		if !ok {
			return
		}
		target := fs[vs[j]]()
		err := safeUpdate(w2, target)
		run.Count("mon:migration-update", 1)
		if err != nil {
			violate(run, fmt.Sprintf("C08:migration-fails:%s:%s->%s", tname, from, vs[j]), fmt.Sprintf("%s stored as %s: Wrapper.Update(%s entity) fails: %v", tname, from, vs[j], err), replay("update"))
			continue
		}
		if got := w2.Entity().GetVersion(); got != vs[j] {
			violate(run, fmt.Sprintf("C08:migration-fails:%s:%s->%s", tname, from, vs[j]), fmt.Sprintf("%s stored as %s: after Update(%s entity) the wrapper holds version %s", tname, from, vs[j], got), replay("update"))
			continue
		}
		if d := commonFieldLoss(reflect.ValueOf(orig).Elem(), reflect.ValueOf(w2.Entity()).Elem()); d != "" {
			violate(run, "C08:migration-loses-field:"+tname+":"+stripIdx(d), fmt.Sprintf("%s %s -> %s via Wrapper.Update: common field %s is not preserved", tname, from, vs[j], d), replay("update"))
			continue
		}
		run.Count("mon:migration-common-fields", 1)
	}
}

func safeMigrate(next, cur entitywrapper.EntityI) (err error) {
	defer func() {
		if e := recover(); e != nil {
			err = fmt.Errorf("panic: %v", e)
		}
	}()
	return next.MigrateFrom(cur)
}

func safeUpdate(w wrapped, target entitywrapper.EntityI) (err error) {
	defer func() {
		if e := recover(); e != nil {
			err = fmt.Errorf("panic: %v", e)
		}
	}()
	return w.Update(target, func(entitywrapper.EntityI) error { return nil })
}
