package codec

import (
	"fmt"
	"math"
	"reflect"
	"sync"
	"time"
	"unsafe"
)

// derived lists the fields that are DOCUMENTED as not being part of the stored form (tag `msg:"-"` / `msgpack:"-"` in the
// unchanged tree, or a custom codec that rebuilds them): key = "<pkg.Type>.<Field>", value = why it may differ after a decode.
// The list is explicit on purpose: a field that stops being serialised (new `msg:"-"`, dropped from a *_gen.go) is NOT in it
// and makes the oracle fire.
var derived = map[string]string{
	"state.State.TxnHash": "hex string derived from TxnHashBytes by ComputeProperties (msgpack:\"-\")",

	"storagesc.storageAllocationV1.BlobberAllocsMap":   "index over BlobberAllocs rebuilt by StorageAllocation.UnmarshalMsg",
	"storagesc.storageAllocationV2.BlobberAllocsMap":   "index over BlobberAllocs rebuilt by StorageAllocation.UnmarshalMsg",
	"storagesc.storageAllocationBase.BlobberAllocsMap": "index over BlobberAllocs rebuilt by StorageAllocation.UnmarshalMsg",
	"storagesc.AllocationChallenges.ChallengeMap":      "index over OpenChallenges rebuilt by AllocationChallenges.UnmarshalMsg",
	"storagesc.StorageChallenge.ValidatorIDMap":        "index over ValidatorIDs built lazily, msg:\"-\"",
	"storagesc.ValidationNode.PublicKey":               "msg:\"-\": taken from the transaction on every call, never read from state",
	"storagesc.stakePool.isOfferChanged":               "dirty flag of the in-memory stake pool, msg:\"-\"",

	"partitions.Partitions.Partitions": "loaded partitions cache; every partition is its own trie node (msg:\"-\")",
	"partitions.Partitions.locations":  "item->partition cache; every location is its own trie node (msg:\"-\")",
	"partitions.partition.Key":         "the trie key the partition was loaded from (msg:\"-\")",
	"partitions.partition.Changed":     "dirty flag (msg:\"-\")",

	"minersc.SimpleNode.Status": "msg:\"-\": liveness status filled by the REST layer only",

	"node.Pool.Nodes":             "slice view of NodesMap rebuilt by Pool.UnmarshalMsg (msg:\"-\")",
	"node.Pool.medianNetworkTime": "runtime network telemetry (msg:\"-\")",
	"node.Pool.mmx":               "lock",

	"node.Node.LastActiveTime":            "runtime network telemetry (msg:\"-\")",
	"node.Node.ErrorCount":                "runtime network telemetry (msg:\"-\")",
	"node.Node.CommChannel":               "runtime channel (msg:\"-\")",
	"node.Node.sent":                      "runtime network telemetry (msg:\"-\")",
	"node.Node.sendErrors":                "runtime network telemetry (msg:\"-\")",
	"node.Node.received":                  "runtime network telemetry (msg:\"-\")",
	"node.Node.TimersByURI":               "runtime network telemetry (msg:\"-\")",
	"node.Node.SizeByURI":                 "runtime network telemetry (msg:\"-\")",
	"node.Node.LargeMessagePullServeTime": "runtime network telemetry (msg:\"-\")",
	"node.Node.SmallMessagePullServeTime": "runtime network telemetry (msg:\"-\")",
	"node.Node.ProtocolStats":             "runtime network telemetry (msg:\"-\")",
	"node.Node.idBytes":                   "cache of the decoded ID",
	"node.Node.largeMessageSendTime":      "unexported runtime network telemetry (package generated without -unexported)",
	"node.Node.smallMessageSendTime":      "unexported runtime network telemetry (package generated without -unexported)",
	"client.Client.sigSchemeType":         "unexported process configuration (signature scheme name), set from the chain config, not stored",
	"node.Info.AsOf":                      "runtime network telemetry (msg:\"-\")",

	"client.Client.CollectionMemberField": "redis collection bookkeeping (msg:\"-\")",
	"client.Client.PublicKeyBytes":        "cache derived from PublicKey by SetPublicKey (msg:\"-\")",
	"client.Client.SigScheme":             "cache derived from PublicKey by SetPublicKey (msg:\"-\")",
}

var (
	tTime    = reflect.TypeOf(time.Time{})
	tMutex   = reflect.TypeOf(sync.Mutex{})
	tRWMutex = reflect.TypeOf(sync.RWMutex{})
)

func typeKey(t reflect.Type) string { // "pkg.Type" as printed by reflect
	return t.String()
}

func isDerived(st reflect.Type, f reflect.StructField) bool {
	_, ok := derived[typeKey(st)+"."+f.Name]
	return ok
}

func skipType(t reflect.Type) bool {
	switch t {
	case tMutex, tRWMutex:
		return true
	}
	switch t.Kind() {
	case reflect.Chan, reflect.Func, reflect.UnsafePointer:
		return true
	}
	return false
}

// access makes an unexported-field value readable through Interface()/settable (harness-side reflection only).
func access(v reflect.Value) reflect.Value {
	if v.CanInterface() || !v.CanAddr() {
		return v
	}
	return reflect.NewAt(v.Type(), unsafe.Pointer(v.UnsafeAddr())).Elem()
}

type codecI interface {
	MarshalMsg([]byte) ([]byte, error)
	UnmarshalMsg([]byte) ([]byte, error)
}

var tCodec = reflect.TypeOf((*codecI)(nil)).Elem()

// difference describes the first field where two values differ: the full path from the judged value, and the innermost
// enclosing type that has its own MarshalMsg/UnmarshalMsg (the codec that loses the field) with the path relative to it.
type difference struct {
	Full  string
	Owner string
	Rel   string
}

func (d *difference) String() string {
	if d == nil {
		return ""
	}
	return d.Full
}

// diff returns the first difference between a and b (nil if equal). nil and empty slices/maps are equal here:
// their encodings are compared separately (b1 == b2), which is what the trie hashes.
func diff(a, b reflect.Value, path string, depth int) *difference {
	return diffW(a, b, path, "", path, depth)
}

func diffW(a, b reflect.Value, path, owner, rel string, depth int) *difference {
	here := func(suffix string) *difference {
		return &difference{Full: path + suffix, Owner: owner, Rel: rel + suffix}
	}
	if depth > 60 {
		return nil
	}
	if !a.IsValid() || !b.IsValid() {
		if a.IsValid() != b.IsValid() {
			return here("")
		}
		return nil
	}
	if a.Type() != b.Type() {
		return here("(type)")
	}
	t := a.Type()
	if skipType(t) {
		return nil
	}
	if t == tTime {
		aa, bb := access(a), access(b)
		if aa.CanInterface() && bb.CanInterface() {
			if !aa.Interface().(time.Time).Equal(bb.Interface().(time.Time)) {
				return here("")
			}
			return nil
		}
	}
	switch t.Kind() {
	case reflect.Bool:
		if a.Bool() != b.Bool() {
			return here("")
		}
	case reflect.Int, reflect.Int8, reflect.Int16, reflect.Int32, reflect.Int64:
		if a.Int() != b.Int() {
			return here("")
		}
	case reflect.Uint, reflect.Uint8, reflect.Uint16, reflect.Uint32, reflect.Uint64, reflect.Uintptr:
		if a.Uint() != b.Uint() {
			return here("")
		}
	case reflect.Float32, reflect.Float64:
		if math.Float64bits(a.Float()) != math.Float64bits(b.Float()) {
			return here("")
		}
	case reflect.Complex64, reflect.Complex128:
		if a.Complex() != b.Complex() {
			return here("")
		}
	case reflect.String:
		if a.String() != b.String() {
			return here("")
		}
	case reflect.Ptr, reflect.Interface:
		if a.IsNil() || b.IsNil() {
			if a.IsNil() != b.IsNil() {
				return here("(nil)")
			}
			return nil
		}
		return diffW(a.Elem(), b.Elem(), path, owner, rel, depth+1)
	case reflect.Struct:
		if reflect.PtrTo(t).Implements(tCodec) {
			owner, rel = t.String(), ""
		}
		for i := 0; i < t.NumField(); i++ {
			f := t.Field(i)
			if isDerived(t, f) || skipType(f.Type) {
				continue
			}
			if d := diffW(a.Field(i), b.Field(i), join(path, f.Name), owner, join(rel, f.Name), depth+1); d != nil {
				return d
			}
		}
	case reflect.Slice, reflect.Array:
		if a.Len() != b.Len() {
			return here("(len)")
		}
		for i := 0; i < a.Len(); i++ {
			if d := diffW(a.Index(i), b.Index(i), path+"[]", owner, rel+"[]", depth+1); d != nil {
				return d
			}
		}
	case reflect.Map:
		if a.Len() != b.Len() {
			return here("(len)")
		}
		it := a.MapRange()
		for it.Next() {
			bv := b.MapIndex(it.Key())
			if !bv.IsValid() {
				return here("(key)")
			}
			if d := diffW(it.Value(), bv, path+"{}", owner, rel+"{}", depth+1); d != nil {
				return d
			}
		}
	}
	return nil
}

func join(p, f string) string {
	if p == "" {
		return f
	}
	return p + "." + f
}

// shape is a coarse description of which fields of a value are zero / small / large: the "field-shape" of the Distinct rule.
func shape(v reflect.Value, depth int) string {
	if !v.IsValid() {
		return "_"
	}
	t := v.Type()
	if skipType(t) {
		return ""
	}
	switch t.Kind() {
	case reflect.Bool:
		if v.Bool() {
			return "T"
		}
		return "F"
	case reflect.Int, reflect.Int8, reflect.Int16, reflect.Int32, reflect.Int64:
		x := v.Int()
		switch {
		case x == 0:
			return "0"
		case x < 0:
			return "-"
		case x == math.MaxInt64:
			return "M"
		}
		return "+"
	case reflect.Uint, reflect.Uint8, reflect.Uint16, reflect.Uint32, reflect.Uint64:
		x := v.Uint()
		switch {
		case x == 0:
			return "0"
		case x == math.MaxUint64:
			return "M"
		}
		return "+"
	case reflect.Float32, reflect.Float64:
		if v.Float() == 0 {
			return "0"
		}
		return "f"
	case reflect.String:
		switch n := v.Len(); {
		case n == 0:
			return "e"
		case n > 100:
			return "L"
		}
		return "s"
	case reflect.Ptr, reflect.Interface:
		if v.IsNil() {
			return "n"
		}
		return "*" + shape(v.Elem(), depth)
	case reflect.Slice, reflect.Map, reflect.Array:
		if t.Kind() != reflect.Array && v.IsNil() {
			return "n"
		}
		switch n := v.Len(); {
		case n == 0:
			return "[]"
		case n == 1:
			return "[1]"
		case n > 4:
			return "[L]"
		}
		return "[k]"
	case reflect.Struct:
		if depth >= 2 {
			return "{}"
		}
		s := "{"
		for i := 0; i < t.NumField(); i++ {
			if skipType(t.Field(i).Type) || isDerived(t, t.Field(i)) {
				continue
			}
			s += shape(v.Field(i), depth+1)
		}
		return s + "}"
	}
	return "?"
}

func describe(v reflect.Value) string {
	s := fmt.Sprintf("%+v", safeIface(v))
	if len(s) > 400 {
		s = s[:400] + "…"
	}
	return s
}

func safeIface(v reflect.Value) (out interface{}) {
	defer func() {
		if e := recover(); e != nil {
			out = fmt.Sprintf("<unprintable %v>", e)
		}
	}()
	if v.CanInterface() {
		return v.Interface()
	}
	return "<unexported>"
}
