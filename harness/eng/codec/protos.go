package codec

import (
	"reflect"
	"strings"

	"0chain.net/chaincore/block"
	cstate "0chain.net/chaincore/chain/state"
	"0chain.net/chaincore/node"
	"0chain.net/chaincore/state"
	"0chain.net/core/config"
	"0chain.net/core/datastore"
	"0chain.net/smartcontract/faucetsc"
	"0chain.net/smartcontract/minersc"
	"0chain.net/smartcontract/multisigsc"
	"0chain.net/smartcontract/partitions"
	"0chain.net/smartcontract/stakepool"
	"0chain.net/smartcontract/storagesc"
	"0chain.net/smartcontract/vestingsc"
	"0chain.net/smartcontract/zcnsc"
	"github.com/0chain/common/core/util"
)

// prototypes: type name -> constructor of the empty value as the code creates it. Filled by registerPrototypes.
var prototypes = map[string]func() util.MPTSerializable{}

// wrappedTypes are the entitywrapper-based stored types (every one registered with entitywrapper.RegisterWrapper).
var wrappedTypes = []func() wrapped{
	func() wrapped { return &storagesc.StorageAllocation{} },
	func() wrapped { return &storagesc.StorageNode{} },
	func() wrapped { return &storagesc.WriteMarker{} },
}

func registerPrototypes() {
	add := func(fs ...func() util.MPTSerializable) {
		for _, f := range fs {
			n := strings.TrimPrefix(reflect.TypeOf(f()).String(), "*")
			prototypes[n] = f
			ctors[n] = f
		}
	}
	add(minersc.VerifEntityPrototypes()...)
	add(storagesc.VerifEntityPrototypes()...)
	add(stakepool.VerifEntityPrototypes()...)
	add(zcnsc.VerifEntityPrototypes()...)
	add(vestingsc.VerifEntityPrototypes()...)
	add(faucetsc.VerifEntityPrototypes()...)
	add(multisigsc.VerifEntityPrototypes()...)
	add(partitions.VerifEntityPrototypes()...)
	add(
		func() util.MPTSerializable { return &state.State{} },
		func() util.MPTSerializable { return block.NewMagicBlock() },
		func() util.MPTSerializable { return node.NewPool(node.NodeTypeMiner) },
		func() util.MPTSerializable { return block.NewMpks() },
		func() util.MPTSerializable { return block.NewGroupSharesOrSigns() },
		func() util.MPTSerializable { return &block.ShareOrSigns{} },
		func() util.MPTSerializable { return &block.MPK{} },
		func() util.MPTSerializable { return cstate.NewHardFork("", 0) },
		func() util.MPTSerializable { return &datastore.NOIDField{} },
		func() util.MPTSerializable { return new(config.StringMap) },
	)
}
