package store

import (
	"bytes"
	"encoding/hex"
	"errors"
	"fmt"
	"io"
	"os"
	"path/filepath"
	"runtime"
	"runtime/debug"
	"sort"
	"strings"
	"time"

	"0chain.net/sharder/blockdb"

	"verifh/mon"
)

// lookupBound is the logical bound of one lookup (pure CPU / one page of file IO on a tiny structure: microseconds).
const lookupBound = 20 * time.Second

// ---------------------------------------------------------------------------------------------------------------
// records

type rec struct {
	key  string
	data []byte
}

func (r *rec) GetKey() blockdb.Key            { return blockdb.Key(r.key) }
func (r *rec) Encode(w io.Writer) error       { _, err := w.Write(r.data); return err }
func (r *rec) Decode(rd io.Reader) error      { b, err := io.ReadAll(rd); r.data = b; return err }
func (recProvider) NewRecord() blockdb.Record { return &rec{} }

type recProvider struct{}

type hdr struct{ data []byte }

func (h *hdr) Encode(w io.Writer) error  { _, err := w.Write(h.data); return err }
func (h *hdr) Decode(rd io.Reader) error { b, err := io.ReadAll(rd); h.data = b; return err }

// ---------------------------------------------------------------------------------------------------------------
// shapes

type shape struct {
	Name       string
	L          int
	K          int
	Compress   bool
	Header     bool
	KeyStyle   string // fixed|hex|bin|dense|extreme
	Payload    string // tagged|raw
	MaxPayload int
	FixedKeys  []string
}

func (s shape) class() string {
	kb := "K>=256"
	switch {
	case s.K == 0:
		kb = "K=0"
	case s.K == 1:
		kb = "K=1"
	case s.K == 2:
		kb = "K=2"
	case s.K <= 4:
		kb = "K=3-4"
	case s.K <= 8:
		kb = "K=5-8"
	case s.K <= 16:
		kb = "K=9-16"
	case s.K <= 33:
		kb = "K=17-33"
	case s.K < 256:
		kb = "K=34-255"
	}
	return fmt.Sprintf("L=%d/%s/%s/comp=%v/hdr=%v/%s", s.L, kb, s.KeyStyle, s.Compress, s.Header, s.Payload)
}

func shapes(tier string) []shape {
	out := []shape{
		{Name: "min-1", L: 1, K: 1, KeyStyle: "fixed", FixedKeys: []string{"b"}, Payload: "tagged", MaxPayload: 8},
		{Name: "min-2", L: 1, K: 2, KeyStyle: "fixed", FixedKeys: []string{"b", "d"}, Payload: "tagged", MaxPayload: 8},
		{Name: "min-3", L: 1, K: 3, KeyStyle: "fixed", FixedKeys: []string{"b", "d", "f"}, Payload: "tagged", MaxPayload: 8},
		{Name: "min-4", L: 2, K: 4, KeyStyle: "fixed", FixedKeys: []string{"bb", "dd", "ff", "hh"}, Payload: "tagged", MaxPayload: 8, Compress: true, Header: true},
		{Name: "empty", L: 4, K: 0, KeyStyle: "fixed", Payload: "tagged", MaxPayload: 8, Header: true},
		{Name: "hash-1", L: 64, K: 1, KeyStyle: "hex", Payload: "tagged", MaxPayload: 300, Compress: true, Header: true},
		{Name: "len-118", L: 118, K: 3, KeyStyle: "hex", Payload: "tagged", MaxPayload: 40},
		{Name: "len-119", L: 119, K: 1, KeyStyle: "hex", Payload: "tagged", MaxPayload: 40}, // int8 key length: 127 is the largest the API and the .idx format admit
		{Name: "len-127", L: 127, K: 1, KeyStyle: "hex", Payload: "tagged", MaxPayload: 40},
	}
	n := 42
	if tier == "thorough" {
		n = 220
	}
	r := mon.NewRand(mon.Seed()).Fork("blockdb-shapes")
	Ls := []int{1, 2, 3, 4, 8, 16, 32, 64, 64, 64, 100}
	Ks := []int{0, 1, 2, 3, 4, 5, 6, 7, 8, 9, 12, 15, 16, 17, 24, 31, 32, 33, 50, 64, 100, 255, 256, 1000}
	styles := []string{"hex", "bin", "dense", "extreme"}
	for i := 0; i < n; i++ {
		s := shape{Name: fmt.Sprintf("g%d", i)}
		s.L = Ls[r.Intn(len(Ls))]
		s.K = Ks[r.Intn(len(Ks))]
		if tier != "thorough" && s.K > 256 && r.Chance(0.6) {
			s.K = 40 + r.Intn(60)
		}
		s.KeyStyle = styles[r.Intn(len(styles))]
		s.Compress = r.Chance(0.5)
		s.Header = r.Chance(0.5)
		s.Payload = "tagged"
		if r.Chance(0.25) {
			s.Payload = "raw"
		}
		s.MaxPayload = []int{0, 16, 200, 200, 5000, 70000}[r.Intn(6)]
		if s.K > 100 && s.MaxPayload > 5000 {
			s.MaxPayload = 5000
		}
		// the key space must hold K keys comfortably
		space := 1 << 30
		switch s.KeyStyle {
		case "hex":
			if s.L < 8 {
				space = 1
				for j := 0; j < s.L; j++ {
					space *= 16
				}
			}
		default:
			if s.L < 4 {
				space = 1 << (8 * uint(s.L))
			}
		}
		if s.KeyStyle == "dense" && s.K > 200 {
			s.K = 200
		}
		if s.K > space/2 {
			s.K = space / 2
		}
		out = append(out, s)
	}
	return out
}

func genKeys(s shape) []string {
	if s.KeyStyle == "fixed" {
		return append([]string{}, s.FixedKeys...)
	}
	r := mon.NewRand(mon.Seed()).Fork("keys:" + s.Name)
	seen := map[string]bool{}
	var keys []string
	add := func(k string) {
		if len(keys) < s.K && !seen[k] {
			seen[k] = true
			keys = append(keys, k)
		}
	}
	rnd := func() string {
		b := make([]byte, s.L)
		for i := range b {
			if s.KeyStyle == "hex" {
				b[i] = "0123456789abcdef"[r.Intn(16)]
			} else {
				b[i] = byte(r.Intn(256))
			}
		}
		return string(b)
	}
	switch s.KeyStyle {
	case "dense":
		base := []byte(rnd())
		start := r.Intn(256 - min(s.K, 255))
		for i := 0; len(keys) < s.K && i < 256; i++ {
			b := append([]byte{}, base...)
			b[s.L-1] = byte(start + i)
			if start+i > 255 {
				break
			}
			add(string(b))
		}
	case "extreme":
		add(strings.Repeat("\x00", s.L))
		add(strings.Repeat("\xff", s.L))
		if s.L > 1 {
			add(strings.Repeat("\x00", s.L-1) + "\x01")
			add(strings.Repeat("\xff", s.L-1) + "\xfe")
		}
	}
	for tries := 0; len(keys) < s.K && tries < 100*s.K+100; tries++ {
		add(rnd())
	}
	// write order is a seeded permutation (the map index sorts on Save)
	r.Shuffle(len(keys), func(i, j int) { keys[i], keys[j] = keys[j], keys[i] })
	return keys
}

func genPayload(s shape, key string) []byte {
	r := mon.NewRand(mon.Seed()).Fork("payload:" + s.Name + ":" + hex.EncodeToString([]byte(key)))
	n := 0
	if s.MaxPayload > 0 {
		n = r.Intn(s.MaxPayload + 1)
		if r.Chance(0.1) {
			n = 0
		}
		if r.Chance(0.1) {
			n = s.MaxPayload
		}
	}
	body := make([]byte, n)
	if r.Chance(0.4) { // compressible
		pat := []byte(fmt.Sprintf("{\"k\":%q,\"v\":%d}", hex.EncodeToString([]byte(key)), r.Intn(1000)))
		for i := range body {
			body[i] = pat[i%len(pat)]
		}
	} else {
		for i := range body {
			body[i] = byte(r.U64())
		}
	}
	if s.Payload == "raw" {
		return body
	}
	out := []byte{0xA5, byte(len(key))}
	out = append(out, key...)
	return append(out, body...)
}

// ---------------------------------------------------------------------------------------------------------------
// building a database through the real writer

type built struct {
	sh      shape
	base    string // file base name (without extension)
	keys    []string
	sorted  []string
	want    map[string][]byte
	hdr     []byte
	datEnds []int64 // .dat size after each WriteData
	dat     []byte
	idx     []byte
}

func buildDB(run *mon.Run, s shape, dir string) (*built, error) {
	b := &built{sh: s, base: filepath.Join(dir, "db"), want: map[string][]byte{}}
	b.keys = genKeys(s)
	b.sorted = append([]string{}, b.keys...)
	sort.Slice(b.sorted, func(i, j int) bool { return bytes.Compare([]byte(b.sorted[i]), []byte(b.sorted[j])) < 0 })
	fmt.Printf("OP build shape=%s class=%s keys=%d\n", s.Name, s.class(), len(b.keys))
	// a third of the databases are written over the files of an earlier attempt for the same path: either a writer that died
	// after some WriteData calls and before Save (a .dat without .idx), or a complete earlier database with other content;
	// what is read back must be what THIS writer wrote
	if mode := mon.NewRand(mon.Seed()).Fork("leftover:" + s.Name).Intn(6); mode < 2 && len(b.keys) > 0 {
		old, err := blockdb.NewBlockDB(b.base, int8(s.L), s.Compress)
		if err != nil {
			return nil, err
		}
		if s.Header {
			old.SetDBHeader(&hdr{data: []byte("header of the earlier attempt")})
		}
		if err := old.Create(); err != nil {
			return nil, err
		}
		n := 1 + len(b.keys)/2
		for i := 0; i < n; i++ {
			k := b.keys[len(b.keys)-1-i%len(b.keys)]
			if err := old.WriteData(&rec{key: k, data: []byte(fmt.Sprintf("earlier attempt, record %d of %x", i, k))}); err != nil {
				return nil, fmt.Errorf("earlier attempt WriteData: %w", err)
			}
		}
		if mode == 1 {
			if err := old.Save(); err != nil {
				return nil, fmt.Errorf("earlier attempt Save: %w", err)
			}
			run.Count("blockdb_written_over_complete_earlier_database", 1)
		} else {
			_ = old.Close()
			run.Count("blockdb_written_over_unsaved_earlier_attempt", 1)
		}
	}
	db, err := blockdb.NewBlockDB(b.base, int8(s.L), s.Compress)
	if err != nil {
		return nil, err
	}
	if s.Header {
		b.hdr = genPayload(shape{Name: s.Name, Payload: "raw", MaxPayload: 300}, "header")
		db.SetDBHeader(&hdr{data: append([]byte{}, b.hdr...)})
	}
	if err := db.Create(); err != nil {
		return nil, err
	}
	for _, k := range b.keys {
		p := genPayload(s, k)
		b.want[k] = p
		if err := db.WriteData(&rec{key: k, data: append([]byte{}, p...)}); err != nil {
			return nil, fmt.Errorf("WriteData: %w", err)
		}
		st, err := os.Stat(b.base + ".dat")
		if err != nil {
			return nil, err
		}
		b.datEnds = append(b.datEnds, st.Size())
		run.Count("blockdb_writes", 1)
	}
	if err := db.Save(); err != nil {
		return nil, fmt.Errorf("Save: %w", err)
	}
	if b.dat, err = os.ReadFile(b.base + ".dat"); err != nil {
		return nil, err
	}
	if b.idx, err = os.ReadFile(b.base + ".idx"); err != nil {
		return nil, err
	}
	return b, nil
}

// reopen opens the database at base the way a reader does. kind: "fixed" (what Open installs by itself) or "map".
func reopen(base string, s shape, kind string) (*blockdb.BlockDB, *hdr, error) {
	db, err := blockdb.NewBlockDB(base, int8(s.L), s.Compress)
	if err != nil {
		return nil, nil, err
	}
	var h *hdr
	if s.Header {
		h = &hdr{}
		db.SetDBHeader(h)
	}
	if kind == "map" {
		db.SetIndex(blockdb.VerifNewMapIndex())
	}
	if err := db.Open(); err != nil {
		return nil, nil, err
	}
	return db, h, nil
}

// safeReopen is reopen under the logical bound and with panics recovered; a panic or hang on the complete,
// untouched files is reported here (nil database returned), an error is returned to the caller.
func safeReopen(run *mon.Run, b *built, kind string) (*blockdb.BlockDB, *hdr, error) {
	var db *blockdb.BlockDB
	var h *hdr
	fmt.Printf("OP open shape=%s index=%s\n", b.sh.Name, kind)
	o := bounded(func() ([]byte, error) {
		d, hh, err := reopen(b.base, b.sh, kind)
		db, h = d, hh
		return nil, err
	})
	switch {
	case o.hung:
		hangVerdict(run, "C26:blockdb-open-hang", b, kind, "open", "", 0)
	case o.panicked:
		sig := "C26:blockdb-open-panic"
		if b.sh.L > 118 {
			sig = "C26:blockdb-keylen-over-118-open-panic"
		}
		w := witness(b, kind, "open", "")
		w["panic"] = o.pval
		w["stack"] = firstLines(o.stack, 14)
		run.Violate(sig, fmt.Sprintf("Open of a database written and saved without error panicked (%s): %s", o.pval, describeKeys(b)), w)
		run.Distinct(strings.Join([]string{"blockdb", b.sh.class(), "nofault", kind, "open", "panic"}, "|"))
		return nil, nil, errors.New("open panicked: " + o.pval)
	}
	return db, h, o.err
}

// ---------------------------------------------------------------------------------------------------------------
// bounded calls

type outcome struct {
	data     []byte
	err      error
	hung     bool
	panicked bool
	pval     string
	stack    string
}

func bounded(f func() ([]byte, error)) outcome {
	ch := make(chan outcome, 1)
	go func() {
		defer func() {
			if p := recover(); p != nil {
				ch <- outcome{panicked: true, pval: fmt.Sprint(p), stack: string(debug.Stack())}
			}
		}()
		d, err := f()
		ch <- outcome{data: d, err: err}
	}()
	t := time.NewTimer(lookupBound)
	defer t.Stop()
	select {
	case o := <-ch:
		return o
	case <-t.C:
		return outcome{hung: true}
	}
}

func readKey(db *blockdb.BlockDB, key string) outcome {
	return bounded(func() ([]byte, error) {
		var r rec
		err := db.Read(blockdb.Key(key), &r)
		return r.data, err
	})
}

// ownFrames are the frames of the operation under judgement; a hang counts only if one of them is on a stack.
var ownFrames = []string{"blockdb.(*fixedKeyArrayIndex).GetOffset", "blockdb.(*mapIndex).GetOffset", "blockdb.(*BlockDB).Read", "blockdb.(*BlockDB).read("}

// hangVerdict is called when a lookup exceeded its logical bound: it takes the goroutine dump (the same text SIGQUIT
// prints), decides, records and ends the child (the spinning goroutine cannot be stopped and would distort what follows).
func hangVerdict(run *mon.Run, sig string, b *built, kind, class, key string, skipped int) {
	buf := make([]byte, 4<<20)
	n := runtime.Stack(buf, true)
	dump := string(buf[:n])
	fmt.Printf("HANG after %s: full goroutine dump follows\n%s\n", lookupBound, dump)
	var own string
	for _, g := range strings.Split(dump, "\n\n") {
		for _, f := range ownFrames {
			if strings.Contains(g, f) {
				own = g
				break
			}
		}
		if own != "" {
			break
		}
	}
	w := witness(b, kind, class, key)
	run.Count("blockdb_lookups_skipped_after_hang", int64(skipped))
	if own == "" {
		run.Inconclusive(fmt.Sprintf("lookup exceeded %s but no goroutine shows a blockdb frame (witness %v)", lookupBound, w))
	} else {
		lines := strings.Split(own, "\n")
		if len(lines) > 9 {
			lines = lines[:9]
		}
		w["goroutine"] = strings.Join(lines, " | ")
		run.Violate(sig, fmt.Sprintf("Read(%s key %s) on a database holding %s did not return within %s; goroutine dump shows it inside %s",
			class, hexs(key), describeKeys(b), lookupBound, frameOf(own)), w)
		run.Distinct(strings.Join([]string{"blockdb", b.sh.class(), "nofault", kind, class, "hang"}, "|"))
	}
	run.Checkpoint()
	os.Stdout.Sync()
	os.Exit(0)
}

func frameOf(g string) string {
	for _, f := range ownFrames {
		if strings.Contains(g, f) {
			return f
		}
	}
	return "?"
}

func hexs(k string) string {
	printable := len(k) > 0
	for i := 0; i < len(k); i++ {
		if k[i] < 0x21 || k[i] > 0x7e {
			printable = false
		}
	}
	if printable {
		return fmt.Sprintf("%q", k)
	}
	return "0x" + hex.EncodeToString([]byte(k))
}

func describeKeys(b *built) string {
	if len(b.sorted) <= 8 {
		var s []string
		for _, k := range b.sorted {
			s = append(s, hexs(k))
		}
		return fmt.Sprintf("%d key(s) {%s} (key length %d, compress=%v)", len(b.sorted), strings.Join(s, ","), b.sh.L, b.sh.Compress)
	}
	return fmt.Sprintf("%d keys (key length %d, compress=%v, min %s, max %s)", len(b.sorted), b.sh.L, b.sh.Compress, hexs(b.sorted[0]), hexs(b.sorted[len(b.sorted)-1]))
}

func witness(b *built, kind, class, key string) map[string]interface{} {
	w := map[string]interface{}{"shape": b.sh.Name, "shape_class": b.sh.class(), "key_length": b.sh.L, "compress": b.sh.Compress,
		"index": kind, "lookup_class": class, "lookup_key": hexs(key), "stored_keys_count": len(b.sorted), "seed": mon.Seed()}
	var ks []string
	for i, k := range b.sorted {
		if i >= 16 {
			break
		}
		ks = append(ks, hexs(k))
	}
	w["stored_keys_sorted_first16"] = ks
	// neighbours of the looked-up key
	i := sort.Search(len(b.sorted), func(i int) bool { return bytes.Compare([]byte(b.sorted[i]), []byte(key)) >= 0 })
	if i > 0 {
		w["stored_predecessor"] = hexs(b.sorted[i-1])
	}
	if i < len(b.sorted) {
		w["stored_successor_or_equal"] = hexs(b.sorted[i])
	}
	w["rank"] = i
	return w
}

// ---------------------------------------------------------------------------------------------------------------
// judging

// judgePresent judges one read of a stored key. fault == "" means the untouched files.
func judgePresent(run *mon.Run, b *built, db *blockdb.BlockDB, kind, fault, key string, remaining int) string {
	if fault == "" {
		fmt.Printf("LOOKUP shape=%s index=%s class=present key=%s\n", b.sh.Name, kind, hexs(key))
	}
	o := readKey(db, key)
	run.Eval(1)
	res := ""
	switch {
	case o.hung:
		fmt.Printf("LOOKUP shape=%s index=%s fault=%q class=present key=%s  (exceeded bound)\n", b.sh.Name, kind, fault, hexs(key))
		hangVerdict(run, "C26:blockdb-present-key-hang", b, kind, "present", key, remaining)
	case o.panicked:
		res = "panic"
		sig := "C26:blockdb-read-panic"
		if fault != "" {
			sig = "C26:blockdb-crash-on-truncated-file"
		}
		w := witness(b, kind, "present", key)
		w["fault"] = fault
		w["panic"] = o.pval
		w["stack"] = firstLines(o.stack, 14)
		run.Violate(sig, fmt.Sprintf("Read of stored key %s panicked (%s) with fault %q on %s", hexs(key), o.pval, fault, describeKeys(b)), w)
	case o.err != nil:
		res = "error"
		if fault == "" {
			w := witness(b, kind, "present", key)
			w["error"] = o.err.Error()
			run.Violate("C26:blockdb-readback-mismatch", fmt.Sprintf("Read of stored key %s after Save+Open returned error %q on %s", hexs(key), o.err, describeKeys(b)), w)
		}
	case bytes.Equal(o.data, b.want[key]):
		res = "exact"
	default:
		res = "corrupt"
		other := ""
		for k, v := range b.want {
			if k != key && bytes.Equal(v, o.data) && len(v) > 0 {
				other = k
				res = "other-record"
				break
			}
		}
		w := witness(b, kind, "present", key)
		w["fault"] = fault
		w["got_len"] = len(o.data)
		w["want_len"] = len(b.want[key])
		if other != "" {
			w["got_record_of_key"] = hexs(other)
		}
		sig := "C26:blockdb-readback-mismatch"
		if fault != "" {
			sig = "C26:blockdb-crash-wrong-record"
		}
		run.Violate(sig, fmt.Sprintf("Read of stored key %s returned %s (no error) with fault %q on %s", hexs(key), res, fault, describeKeys(b)), w)
	}
	return res
}

func firstLines(s string, n int) string {
	l := strings.Split(s, "\n")
	if len(l) > n {
		l = l[:n]
	}
	return strings.Join(l, " | ")
}

type lookup struct {
	class string
	key   string
}

func judgeAbsent(run *mon.Run, b *built, db *blockdb.BlockDB, kind string, lk lookup, remaining int) string {
	fmt.Printf("LOOKUP shape=%s index=%s class=%s key=%s stored=%d\n", b.sh.Name, kind, lk.class, hexs(lk.key), len(b.sorted))
	os.Stdout.Sync()
	o := readKey(db, lk.key)
	run.Eval(1)
	run.Count("blockdb_absent_lookups_"+kind+"index", 1)
	res := ""
	switch {
	case o.hung:
		hangVerdict(run, "C26:blockdb-absent-key-hang", b, kind, lk.class, lk.key, remaining)
	case o.panicked:
		res = "panic"
		w := witness(b, kind, lk.class, lk.key)
		w["panic"] = o.pval
		w["stack"] = firstLines(o.stack, 14)
		run.Violate("C26:blockdb-absent-key-panic", fmt.Sprintf("Read of absent key %s (%s) panicked (%s) on %s", hexs(lk.key), lk.class, o.pval, describeKeys(b)), w)
	case errors.Is(o.err, blockdb.ErrKeyNotFound):
		res = "not-found"
	case o.err != nil:
		res = "other-error"
		w := witness(b, kind, lk.class, lk.key)
		w["error"] = o.err.Error()
		run.Violate("C26:blockdb-absent-key-other-error", fmt.Sprintf("Read of absent key %s (%s) returned %q instead of not-found on %s", hexs(lk.key), lk.class, o.err, describeKeys(b)), w)
	default:
		res = "wrong-record"
		w := witness(b, kind, lk.class, lk.key)
		w["got_len"] = len(o.data)
		for k, v := range b.want {
			if bytes.Equal(v, o.data) && len(v) > 0 {
				w["got_record_of_key"] = hexs(k)
			}
		}
		run.Violate("C26:blockdb-absent-key-wrong-record", fmt.Sprintf("Read of absent key %s (%s) returned a record instead of not-found on %s", hexs(lk.key), lk.class, describeKeys(b)), w)
	}
	run.Distinct(strings.Join([]string{"blockdb", b.sh.class(), "nofault", kind, lk.class, res}, "|"))
	return res
}

// ---------------------------------------------------------------------------------------------------------------
// absent keys

func incKey(k string) (string, bool) {
	b := []byte(k)
	for i := len(b) - 1; i >= 0; i-- {
		if b[i] != 0xff {
			b[i]++
			return string(b), true
		}
		b[i] = 0
	}
	return "", false
}

func decKey(k string) (string, bool) {
	b := []byte(k)
	for i := len(b) - 1; i >= 0; i-- {
		if b[i] != 0 {
			b[i]--
			return string(b), true
		}
		b[i] = 0xff
	}
	return "", false
}

func absentKeys(b *built, shuffle bool) []lookup {
	stored := map[string]bool{}
	for _, k := range b.sorted {
		stored[k] = true
	}
	seen := map[string]bool{}
	var out []lookup
	add := func(class, k string) {
		if stored[k] || seen[class+"\x00"+k] {
			return
		}
		seen[class+"\x00"+k] = true
		out = append(out, lookup{class, k})
	}
	L := b.sh.L
	n := len(b.sorted)
	less := func(a, c string) bool { return bytes.Compare([]byte(a), []byte(c)) < 0 }
	if n == 0 {
		add("empty-db", strings.Repeat("m", L))
		add("empty-db", strings.Repeat("\x00", L))
		add("empty-key", "")
		return out
	}
	mn, mx := b.sorted[0], b.sorted[n-1]
	if k, ok := decKey(mn); ok {
		add("below-min", k)
	}
	if z := strings.Repeat("\x00", L); less(z, mn) {
		add("below-min", z)
	}
	add("empty-key", "")
	if k, ok := incKey(mx); ok {
		add("above-max", k)
	}
	if f := strings.Repeat("\xff", L); less(mx, f) {
		add("above-max", f)
	}
	for i := 0; i+1 < n; i++ {
		a, c := b.sorted[i], b.sorted[i+1]
		if k, ok := incKey(a); ok && less(k, c) {
			add("between", k)
		}
		if k, ok := decKey(c); ok && less(a, k) {
			add("between", k)
		}
	}
	r := mon.NewRand(mon.Seed()).Fork("absent:" + b.sh.Name)
	pick := n
	if pick > 12 {
		pick = 12
	}
	for j := 0; j < pick; j++ {
		k := b.sorted[(j*n)/pick]
		if L > 1 {
			add("prefix", k[:L-1])
		}
		add("extension", k+"\x00")
		add("extension", k+"\xff")
	}
	for j := 0; j < 16; j++ {
		kb := make([]byte, L)
		for i := range kb {
			if b.sh.KeyStyle == "hex" || b.sh.KeyStyle == "fixed" {
				kb[i] = "0123456789abcdefghz"[r.Intn(19)]
			} else {
				kb[i] = byte(r.Intn(256))
			}
		}
		add("random", string(kb))
	}
	if shuffle {
		r.Shuffle(len(out), func(i, j int) { out[i], out[j] = out[j], out[i] })
	}
	return out
}

// ---------------------------------------------------------------------------------------------------------------
// crash states

type cstate struct {
	class string
	dat   int64 // bytes of .dat kept
	idx   int64 // bytes of .idx kept; -1 = the file does not exist
}

func crashStates(b *built, tier string) []cstate {
	var out []cstate
	seen := map[[2]int64]bool{}
	D, I := int64(len(b.dat)), int64(len(b.idx))
	add := func(class string, d, i int64) {
		if d < 0 || d > D || i < -1 || i > I {
			return
		}
		if d == D && i == I {
			return // the complete database, judged separately
		}
		k := [2]int64{d, i}
		if seen[k] {
			return
		}
		seen[k] = true
		out = append(out, cstate{class, d, i})
	}
	// (a) writer order: .dat grows by two write(2) per record (4-byte length, then data); .idx is created by Save afterwards
	start := int64(0)
	add("w:noidx", 0, -1)
	for _, e := range b.datEnds {
		add("w:noidx", start+4, -1)
		add("w:noidx", e, -1)
		start = e
	}
	ksz := int64(b.sh.L + 9)
	idxEnd := 4 + int64(len(b.keys))*ksz
	add("w:idx-created-empty", D, 0)
	add("w:idx-count-only", D, 4)
	add("w:idx-no-header", D, idxEnd)
	// (b) .dat truncated at every record boundary and +-1 byte, .idx complete
	start = 0
	for _, e := range b.datEnds {
		for _, d := range []int64{-1, 0, 1} {
			add(fmt.Sprintf("t:dat-len%+d", d), start+4+d, I)
			add(fmt.Sprintf("t:dat-recend%+d", d), e+d, I)
		}
		start = e
	}
	add("t:dat-empty", 0, I)
	// (c) .idx truncated at every entry boundary and +-1 byte, .dat complete
	for i := int64(0); i <= int64(len(b.keys)); i++ {
		for _, d := range []int64{-1, 0, 1} {
			add(fmt.Sprintf("t:idx-entry%+d", d), D, 4+i*ksz+d)
		}
	}
	for _, i := range []int64{1, 2, 3} {
		add("t:idx-count-partial", D, i)
	}
	add("t:idx-last-byte", D, I-1)
	// large databases: a seeded sample of the states
	limit := 120
	if tier == "thorough" {
		limit = 600
	}
	if len(out) > limit && len(b.keys) > 33 {
		r := mon.NewRand(mon.Seed()).Fork("cstates:" + b.sh.Name)
		r.Shuffle(len(out), func(i, j int) { out[i], out[j] = out[j], out[i] })
		out = out[:limit]
	}
	return out
}

func judgeCrashState(run *mon.Run, b *built, dir string, cs cstate, n int) {
	sd := filepath.Join(dir, fmt.Sprintf("cs%d", n))
	_ = os.MkdirAll(sd, 0o755)
	defer os.RemoveAll(sd)
	base := filepath.Join(sd, "db")
	if err := os.WriteFile(base+".dat", b.dat[:cs.dat], 0o644); err != nil {
		run.Inconclusive("scratch write failed: " + err.Error())
		return
	}
	if cs.idx >= 0 {
		if err := os.WriteFile(base+".idx", b.idx[:cs.idx], 0o644); err != nil {
			run.Inconclusive("scratch write failed: " + err.Error())
			return
		}
	}
	fault := fmt.Sprintf("%s dat=%d/%d idx=%d/%d", cs.class, cs.dat, len(b.dat), cs.idx, len(b.idx))
	fmt.Printf("OP crash-state shape=%s %s\n", b.sh.Name, fault)
	run.Count("blockdb_crash_states", 1)
	run.Count("crash_class:"+cs.class, 1)
	for _, kind := range []string{"fixed", "map"} {
		var db *blockdb.BlockDB
		o := bounded(func() ([]byte, error) {
			d, _, err := reopen(base, b.sh, kind)
			db = d
			return nil, err
		})
		run.Eval(1)
		switch {
		case o.hung:
			hangVerdict(run, "C26:blockdb-open-hang", b, kind, "open:"+cs.class, "", 0)
		case o.panicked:
			w := witness(b, kind, "open", "")
			w["fault"] = fault
			w["panic"] = o.pval
			w["stack"] = firstLines(o.stack, 14)
			run.Violate("C26:blockdb-crash-on-truncated-file", fmt.Sprintf("Open panicked (%s) with fault %q on %s", o.pval, fault, describeKeys(b)), w)
			run.Distinct(strings.Join([]string{"blockdb", b.sh.class(), cs.class, kind, "open", "panic"}, "|"))
			continue
		case o.err != nil:
			run.Count("blockdb_crash_open_error", 1)
			run.Distinct(strings.Join([]string{"blockdb", b.sh.class(), cs.class, kind, "open", "error"}, "|"))
			continue
		}
		run.Count("blockdb_crash_open_ok", 1)
		hist := map[string]int{}
		for _, k := range b.keys {
			res := judgePresent(run, b, db, kind, fault, k, 0)
			run.Count("blockdb_crash_reads", 1)
			run.Count("blockdb_crash_read_"+res, 1)
			hist[res]++
		}
		var hs []string
		for r := range hist {
			hs = append(hs, r)
		}
		sort.Strings(hs)
		run.Distinct(strings.Join([]string{"blockdb", b.sh.class(), cs.class, kind, "reads", strings.Join(hs, "+")}, "|"))
		_ = db.Close()
	}
}

// ---------------------------------------------------------------------------------------------------------------
// children

// roundTrip judges the complete database: header, every stored key (both index kinds), ReadAll.
func roundTrip(run *mon.Run, b *built) (openable bool) {
	openable = true
	for _, kind := range []string{"fixed", "map"} {
		db, h, err := safeReopen(run, b, kind)
		run.Eval(1)
		run.Count("blockdb_opens", 1)
		if err != nil {
			openable = false
			if db == nil && strings.HasPrefix(err.Error(), "open panicked") {
				continue // already reported
			}
			w := witness(b, kind, "open", "")
			w["error"] = err.Error()
			run.Violate("C26:blockdb-readback-mismatch", fmt.Sprintf("Open after Save failed (%v) on %s", err, describeKeys(b)), w)
			continue
		}
		if b.sh.Header {
			run.Eval(1)
			run.Count("blockdb_header_checks", 1)
			if !bytes.Equal(h.data, b.hdr) {
				w := witness(b, kind, "header", "")
				w["got_len"], w["want_len"] = len(h.data), len(b.hdr)
				run.Violate("C26:blockdb-header-mismatch", fmt.Sprintf("database header read back differs on %s", describeKeys(b)), w)
			}
		}
		// lookups in sorted order: the position of the key in the index is the lookup class
		hist := map[string]int{}
		for i, k := range b.sorted {
			res := judgePresent(run, b, db, kind, "", k, len(b.sorted)-i-1)
			run.Count("blockdb_present_reads", 1)
			run.Count("blockdb_present_read_"+res, 1)
			hist[res]++
			pos := "middle"
			if i == 0 {
				pos = "first"
			} else if i == len(b.sorted)-1 {
				pos = "last"
			}
			run.Distinct(strings.Join([]string{"blockdb", b.sh.class(), "nofault", kind, "present-" + pos, res}, "|"))
		}
		_ = db.Close()
		// ReadAll on a freshly opened database returns the records in write order
		db, _, err = safeReopen(run, b, kind)
		if err != nil {
			continue
		}
		var recs []blockdb.Record
		o := bounded(func() ([]byte, error) {
			r, err := db.ReadAll(recProvider{})
			recs = r
			return nil, err
		})
		run.Eval(1)
		run.Count("blockdb_readall_checks", 1)
		bad := ""
		switch {
		case o.hung:
			hangVerdict(run, "C26:blockdb-readall-hang", b, kind, "readall", "", 0)
		case o.panicked:
			bad = "panic " + o.pval
		case o.err != nil:
			bad = "error " + o.err.Error()
		case len(recs) != len(b.keys):
			bad = fmt.Sprintf("%d records, want %d", len(recs), len(b.keys))
		default:
			for i, r := range recs {
				if !bytes.Equal(r.(*rec).data, b.want[b.keys[i]]) {
					bad = fmt.Sprintf("record %d differs from the %d-th record written", i, i)
					break
				}
			}
		}
		if bad != "" {
			w := witness(b, kind, "readall", "")
			w["problem"] = bad
			run.Violate("C26:blockdb-readall-mismatch", fmt.Sprintf("ReadAll after Save+Open: %s on %s", bad, describeKeys(b)), w)
		}
		_ = db.Close()
	}
	return openable
}

func childSweep(run *mon.Run, tier string, idx, n int) {
	scratch := mon.ScratchDir()
	all := shapes(tier)
	sampled := 0
	for si, s := range all {
		if si%n != idx {
			continue
		}
		dir := filepath.Join(scratch, "sw-"+s.Name)
		_ = os.MkdirAll(dir, 0o755)
		b, err := buildDB(run, s, dir)
		if err != nil {
			run.Inconclusive(fmt.Sprintf("shape %s: writer failed: %v", s.Name, err))
			os.RemoveAll(dir)
			continue
		}
		run.Count("blockdb_databases", 1)
		if sampled < 2 && len(b.keys) > 0 && len(b.keys) <= 4 {
			sampled++
			run.Sample(map[string]interface{}{"store": "blockdb", "shape": s, "keys_sorted": hexList(b.sorted), "dat_bytes": len(b.dat), "idx_bytes": len(b.idx), "record_ends": b.datEnds})
		}
		if !roundTrip(run, b) {
			// the complete database cannot be opened (reported above): crash states of it have nothing to add
			os.RemoveAll(dir)
			run.Checkpoint()
			continue
		}
		// absent keys through the map index (reopened database with SetIndex(map index))
		if db, _, err := safeReopen(run, b, "map"); err == nil {
			lks := absentKeys(b, false)
			for i, lk := range lks {
				judgeAbsent(run, b, db, "map", lk, len(lks)-i-1)
			}
			_ = db.Close()
		}
		run.Checkpoint()
		for ci, cs := range crashStates(b, tier) {
			judgeCrashState(run, b, dir, cs, ci)
		}
		os.RemoveAll(dir)
		run.Checkpoint()
	}
}

func hexList(ks []string) []string {
	var o []string
	for _, k := range ks {
		o = append(o, hexs(k))
	}
	return o
}

// childAbsent does the hostile part: absent-key lookups through the index Open installs (fixedKeyArrayIndex).
func childAbsent(run *mon.Run, tier string, idx, n int) {
	scratch := mon.ScratchDir()
	all := shapes(tier)
	sampled := 0
	for si, s := range all {
		if si%n != idx {
			continue
		}
		dir := filepath.Join(scratch, "ab-"+s.Name)
		_ = os.MkdirAll(dir, 0o755)
		b, err := buildDB(run, s, dir)
		if err != nil {
			run.Inconclusive(fmt.Sprintf("shape %s: writer failed: %v", s.Name, err))
			os.RemoveAll(dir)
			continue
		}
		db, _, err := safeReopen(run, b, "fixed")
		if err != nil {
			// judged by the sweep child; here only the lookups matter
			os.RemoveAll(dir)
			continue
		}
		lks := absentKeys(b, s.KeyStyle != "fixed")
		for i, lk := range lks {
			res := judgeAbsent(run, b, db, "fixed", lk, len(lks)-i-1)
			if sampled < 2 {
				sampled++
				run.Sample(map[string]interface{}{"store": "blockdb", "lookup": lk.class, "key": hexs(lk.key), "stored": describeKeys(b), "result": res})
			}
			if i%64 == 0 {
				run.Checkpoint()
			}
		}
		_ = db.Close()
		os.RemoveAll(dir)
		run.Checkpoint()
	}
}
