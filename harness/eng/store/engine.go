// Package store is the C26 engine: sharder block store (zlib+msgpack files) and block database (blockdb) read back
// exactly what was written, absent keys are reported as not found (and the lookup returns), and after a crash at
// any point of a write every key still yields its own record or an error.
package store

import (
	"flag"
	"fmt"
	"strings"
	"time"

	"verifh/mon"
)

const rule = "fault enumeration over generated inputs. blockdb: seeded database shapes (key length 1..127 = the int8 range of the API, 0..1000 keys, " +
	"hex/binary/dense/extreme keys, compression on/off, header on/off) written through the real WriteData/Save, reopened with the real " +
	"fixedKeyArrayIndex (and the map index): every stored key is read back (exact bytes vs. the bytes handed to WriteData) and absent " +
	"keys {below min, between every adjacent pair, above max, prefix, extension, random, empty} are looked up, every lookup under a 20 s " +
	"logical bound with the lookup printed before it starts; crash points = the writer's file states at every write(2) boundary of " +
	"WriteData/Save plus truncation of .dat and .idx at every record/entry boundary and +-1 byte, each reopened and every key read. " +
	"blockstore: seeded blocks (0..N signed txns with outputs, tickets, optional magic block with miners/sharders/mpks/shares) through the real " +
	"Init/Write/Read (one child with the block cache enabled: Write, then three sequential Reads), compared field by field with a snapshot taken before Write; the stored file truncated at 0,1,2, every 4 KiB, every " +
	"64 KiB +-1 and the last 9 bytes. distinct = (store, shape class, fault class, lookup class, outcome class) tuples."

// Main is the engine entry point: verifh store -prop C26 -tier quick|thorough.
func Main(args []string) int {
	fs := flag.NewFlagSet("store", flag.ExitOnError)
	prop := fs.String("prop", "C26", "property id")
	tier := fs.String("tier", "quick", "quick|thorough")
	child := fs.String("child", "", "child mode (internal): sweep|absent|bs")
	idx := fs.Int("idx", 0, "child index (internal)")
	n := fs.Int("n", 1, "number of children of this mode (internal)")
	cache := fs.Int("cache", 0, "blockstore child: enable the block cache (internal)")
	_ = fs.Parse(args)
	if *prop != "C26" {
		fmt.Printf("store: unknown property %q\n", *prop)
		return 2
	}
	if *child != "" {
		return childMain(*tier, *child, *idx, *n, *cache == 1)
	}
	defer mon.CleanScratch()
	run := mon.NewRun("C26", *tier, "fault_enumeration", rule)
	run.Assume("crash = any prefix of the writer's syscall-ordered file contents, plus truncation of either final file at record boundaries +-1 byte; no torn-page / reordered-sector model of the filesystem")
	run.Assume("blockdb keys written to one database all have the declared key length (the API contract of NewBlockDB); lookup keys have any length")
	run.Assume("a truncated block file that still decodes to the identical block is counted, not reported: the statement only forbids a different block")
	run.Assume("the block cache is filled by goroutines the store starts itself; the harness calls Write/Read strictly sequentially, so a mismatch there (signature C26:blockstore-cache-readback-mismatch) depends on the store's internal scheduling and is not reproducible from the seed alone")

	nSweep, nAbsent, nBS := 4, 6, 3
	to := 4 * time.Minute
	if *tier == "thorough" {
		nSweep, nAbsent, nBS = 12, 24, 8
		to = 25 * time.Minute
	}
	var specs []mon.ChildSpec
	mk := func(mode string, i, n int, extra ...string) {
		a := []string{"store", "-prop", "C26", "-tier", *tier, "-child", mode, "-idx", fmt.Sprint(i), "-n", fmt.Sprint(n)}
		a = append(a, extra...)
		specs = append(specs, mon.ChildSpec{Name: fmt.Sprintf("%s%d", mode, i), Timeout: to, Args: a})
	}
	for i := 0; i < nAbsent; i++ {
		mk("absent", i, nAbsent)
	}
	for i := 0; i < nSweep; i++ {
		mk("sweep", i, nSweep)
	}
	for i := 0; i < nBS; i++ {
		c := "0"
		if i == nBS-1 {
			c = "1"
		}
		mk("bs", i, nBS, "-cache", c)
	}
	res := mon.RunChildren(run, specs, 10)
	for _, cr := range res {
		if cr.Crashed && !cr.TimedOut {
			p := mon.KeepLog(cr, fmt.Sprintf("C26-crash-%s-seed%d.log", cr.Spec.Name, run.SeedV))
			last := lastMarker(cr.LogTail)
			if strings.Contains(cr.LogTail, "panic:") || strings.Contains(cr.LogTail, "fatal error:") {
				sig := "C26:blockdb-crash-unrecovered"
				if strings.HasPrefix(cr.Spec.Name, "bs") {
					sig = "C26:blockstore-crash-unrecovered"
				}
				run.Violate(sig, fmt.Sprintf("child %s died outside the recovered call; last operation announced: %s", cr.Spec.Name, last),
					map[string]string{"log": p, "child": cr.Spec.Name})
			} else {
				run.Inconclusive(fmt.Sprintf("child %s exited with code %d (log %s); last operation: %s", cr.Spec.Name, cr.ExitCode, p, last))
			}
		}
		if cr.TimedOut {
			p := mon.KeepLog(cr, fmt.Sprintf("C26-watchdog-%s-seed%d.log", cr.Spec.Name, run.SeedV))
			fmt.Printf("store: child %s hit the process watchdog, log %s, last operation: %s\n", cr.Spec.Name, p, lastMarker(cr.LogTail))
		}
	}
	run.RequireMin("blockdb_present_reads", 2000)
	run.RequireMin("blockdb_absent_lookups_fixedindex", int64(nAbsent))
	run.RequireMin("blockdb_absent_lookups_mapindex", 200)
	run.RequireMin("blockdb_crash_states", 300)
	run.RequireMin("blockdb_crash_reads", 2000)
	run.RequireMin("blockstore_roundtrips", 20)
	run.RequireMin("blockstore_truncations", 100)
	return run.Finish()
}

func lastMarker(log string) string {
	last := ""
	for _, l := range strings.Split(log, "\n") {
		if strings.HasPrefix(l, "LOOKUP ") || strings.HasPrefix(l, "OP ") {
			last = l
		}
	}
	if len(last) > 400 {
		last = last[:400]
	}
	return last
}

func childMain(tier, mode string, idx, n int, cache bool) int {
	run := mon.NewRun("C26", tier, "fault_enumeration", rule)
	defer run.Checkpoint()
	switch mode {
	case "sweep":
		childSweep(run, tier, idx, n)
	case "absent":
		childAbsent(run, tier, idx, n)
	case "bs":
		childBlockstore(run, tier, idx, n, cache)
	default:
		fmt.Println("unknown child mode", mode)
		return 2
	}
	run.Checkpoint()
	return 0
}
