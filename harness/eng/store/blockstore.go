package store

import (
	"bytes"
	"encoding/hex"
	"encoding/json"
	"fmt"
	"os"
	"path/filepath"
	"runtime"
	"strings"
	"time"

	"0chain.net/chaincore/block"
	"0chain.net/chaincore/node"
	"0chain.net/chaincore/threshold/bls"
	"0chain.net/chaincore/transaction"
	"0chain.net/core/common"
	"0chain.net/core/datastore"
	"0chain.net/core/encryption"
	"0chain.net/core/memorystore"
	"0chain.net/core/viper"
	"0chain.net/sharder/blockstore"
	"github.com/0chain/common/core/currency"
	"github.com/0chain/common/core/logging"

	"verifh/mon"
	"verifh/world"
)

// ---------------------------------------------------------------------------------------------------------------
// snapshots: plain copies of everything the statement names, taken from a block without calling any codec

type txnSnap struct {
	Hash, Version, ClientID, PublicKey, ToClientID, ChainID, Data string
	Value, Fee                                                    uint64
	Signature                                                     string
	CreationDate, Nonce                                           int64
	Type, Status                                                  int
	Output, OutputHash                                            string
}

type ticketSnap struct{ Verifier, Sig string }

type blockSnap struct {
	Hash, Version, Signature, ChainID, PrevHash, MinerID, LFMBHash string
	CreationDate, LFMBRound, Round, Seed, RunningTxnCount          int64
	TimeoutCount, StateChangesCount                                int
	StateHash                                                      string
	PrevTickets, Tickets                                           []ticketSnap
	Txns                                                           []txnSnap
	HasMB                                                          bool
	MBHash, MBComputedHash, MBJSON                                 string
}

func tickets(v []*block.VerificationTicket) []ticketSnap {
	out := []ticketSnap{}
	for _, t := range v {
		if t == nil {
			out = append(out, ticketSnap{"<nil>", "<nil>"})
			continue
		}
		out = append(out, ticketSnap{t.VerifierID, t.Signature})
	}
	return out
}

// snapRead snapshots a block that came back from Read; a block so incomplete that its own hash functions
// panic is reported as unusable (the caller treats that as "differs").
func snapRead(b *block.Block) (s blockSnap, computed string, unusable string) {
	defer func() {
		if p := recover(); p != nil {
			unusable = fmt.Sprint(p)
		}
	}()
	if b == nil {
		return s, "", "nil block without error"
	}
	s = snapBlock(b)
	computed = b.ComputeHash()
	return s, computed, ""
}

func snapBlock(b *block.Block) blockSnap {
	s := blockSnap{Hash: b.Hash, Version: b.Version, Signature: b.Signature, ChainID: b.ChainID, PrevHash: b.PrevHash, MinerID: b.MinerID,
		LFMBHash: b.LatestFinalizedMagicBlockHash, CreationDate: int64(b.CreationDate), LFMBRound: b.LatestFinalizedMagicBlockRound,
		Round: b.Round, Seed: b.RoundRandomSeed, RunningTxnCount: b.RunningTxnCount, TimeoutCount: b.RoundTimeoutCount,
		StateChangesCount: b.StateChangesCount, StateHash: hex.EncodeToString(b.ClientStateHash),
		PrevTickets: tickets(b.PrevBlockVerificationTickets), Tickets: tickets(b.VerificationTickets), Txns: []txnSnap{}}
	for _, t := range b.Txns {
		if t == nil {
			s.Txns = append(s.Txns, txnSnap{Hash: "<nil>"})
			continue
		}
		s.Txns = append(s.Txns, txnSnap{Hash: t.Hash, Version: t.Version, ClientID: t.ClientID, PublicKey: t.PublicKey, ToClientID: t.ToClientID,
			ChainID: t.ChainID, Data: t.TransactionData, Value: uint64(t.Value), Fee: uint64(t.Fee), Signature: t.Signature,
			CreationDate: int64(t.CreationDate), Nonce: t.Nonce, Type: t.TransactionType, Status: t.Status, Output: t.TransactionOutput, OutputHash: t.OutputHash})
	}
	if b.MagicBlock != nil {
		s.HasMB = true
		s.MBHash = b.MagicBlock.Hash
		s.MBComputedHash = b.MagicBlock.GetHash()
		j, err := json.Marshal(b.MagicBlock)
		if err != nil {
			s.MBJSON = "marshal error: " + err.Error()
		} else {
			s.MBJSON = string(j)
		}
	}
	return s
}

// diffSnap names the parts of the statement that differ (hash / header field / txn i field / magic block).
func diffSnap(a, b blockSnap) []string {
	var d []string
	ne := func(name string, x, y interface{}) {
		if fmt.Sprint(x) != fmt.Sprint(y) {
			d = append(d, name)
		}
	}
	ne("hash", a.Hash, b.Hash)
	ne("header.version", a.Version, b.Version)
	ne("header.signature", a.Signature, b.Signature)
	ne("header.chain_id", a.ChainID, b.ChainID)
	ne("header.prev_hash", a.PrevHash, b.PrevHash)
	ne("header.miner_id", a.MinerID, b.MinerID)
	ne("header.lfmb_hash", a.LFMBHash, b.LFMBHash)
	ne("header.creation_date", a.CreationDate, b.CreationDate)
	ne("header.lfmb_round", a.LFMBRound, b.LFMBRound)
	ne("header.round", a.Round, b.Round)
	ne("header.round_random_seed", a.Seed, b.Seed)
	ne("header.running_txn_count", a.RunningTxnCount, b.RunningTxnCount)
	ne("header.round_timeout_count", a.TimeoutCount, b.TimeoutCount)
	ne("header.state_changes_count", a.StateChangesCount, b.StateChangesCount)
	ne("header.state_hash", a.StateHash, b.StateHash)
	ne("header.prev_verification_tickets", a.PrevTickets, b.PrevTickets)
	ne("header.verification_tickets", a.Tickets, b.Tickets)
	if len(a.Txns) != len(b.Txns) {
		d = append(d, "txns.count")
	} else {
		for i := range a.Txns {
			x, y := a.Txns[i], b.Txns[i]
			if x != y {
				f := "txn.other"
				switch {
				case x.Hash != y.Hash:
					f = "txn.hash"
				case x.Output != y.Output:
					f = "txn.output"
				case x.OutputHash != y.OutputHash:
					f = "txn.output_hash"
				case x.Status != y.Status:
					f = "txn.status"
				case x.Data != y.Data:
					f = "txn.data"
				case x.Signature != y.Signature:
					f = "txn.signature"
				}
				d = append(d, f)
				break
			}
		}
	}
	ne("magic_block.present", a.HasMB, b.HasMB)
	ne("magic_block.hash", a.MBHash, b.MBHash)
	ne("magic_block.computed_hash", a.MBComputedHash, b.MBComputedHash)
	if a.MBJSON != b.MBJSON {
		d = append(d, "magic_block.content")
	}
	return d
}

// ---------------------------------------------------------------------------------------------------------------
// block generation

type blockGen struct {
	r       *mon.Rand
	wallets []*world.Wallet
	chainID string
}

func (g *blockGen) hash() string {
	b := make([]byte, 32)
	for i := range b {
		b[i] = byte(g.r.U64())
	}
	return hex.EncodeToString(b)
}

func (g *blockGen) text(n int, kind int) string {
	switch kind {
	case 0: // json-ish, compressible
		var sb strings.Builder
		sb.WriteString("{\"items\":[")
		for sb.Len() < n {
			fmt.Fprintf(&sb, "{\"id\":%q,\"amount\":%d},", g.hash()[:8+g.r.Intn(8)], g.r.Intn(1000000))
		}
		sb.WriteString("]}")
		return sb.String()
	case 1: // random hex, poorly compressible
		var sb strings.Builder
		for sb.Len() < n {
			sb.WriteString(g.hash())
		}
		return sb.String()[:n]
	case 2: // unicode
		return strings.Repeat("pagó ✓ 成功   \"quoted\" \\ \x00 end;", 1+n/40)
	default: // arbitrary bytes
		b := make([]byte, n)
		for i := range b {
			b[i] = byte(g.r.U64())
		}
		return string(b)
	}
}

func (g *blockGen) txn(i int) *transaction.Transaction {
	r := g.r
	w := g.wallets[r.Intn(len(g.wallets))]
	t := &transaction.Transaction{}
	t.Version = "1.0"
	t.ClientID = w.ID
	if r.Chance(0.7) {
		t.PublicKey = w.PubKey
	}
	t.ChainID = g.chainID
	t.CreationDate = common.Timestamp(1400000000 + r.Intn(1000000))
	t.Nonce = int64(1 + r.Intn(1000))
	t.Value = currency.Coin(r.U64() >> uint(r.Intn(64)))
	t.Fee = currency.Coin(r.Intn(1000000))
	switch r.Intn(3) {
	case 0:
		t.TransactionType = transaction.TxnTypeSend
		t.ToClientID = g.wallets[r.Intn(len(g.wallets))].ID
	case 1:
		t.TransactionType = transaction.TxnTypeData
		t.TransactionData = g.text(r.Intn(300), r.Intn(3))
	default:
		t.TransactionType = transaction.TxnTypeSmartContract
		t.ToClientID = "6dba10422e368813802877a85039d3985d96760ed844092319743fb3a76712d7"
		t.TransactionData = fmt.Sprintf("{\"name\":%q,\"input\":%s}", []string{"pour", "add_miner", "new_allocation_request", "vestingpool"}[r.Intn(4)], g.text(20+r.Intn(200), 0))
	}
	t.Hash = t.ComputeHash()
	t.Signature = w.Sign(t.Hash)
	switch r.Intn(6) {
	case 0:
		t.TransactionOutput = ""
	case 1:
		t.TransactionOutput = g.text(10+r.Intn(100), 0)
	case 2:
		t.TransactionOutput = g.text(100+r.Intn(3000), 1)
	case 3:
		t.TransactionOutput = g.text(40+r.Intn(400), 2)
	case 4:
		t.TransactionOutput = g.text(1+r.Intn(200), 3)
	default:
		t.TransactionOutput = g.text(10+r.Intn(400), 0)
	}
	if i%97 == 13 {
		t.TransactionOutput = g.text(20000+r.Intn(50000), 1)
	}
	t.OutputHash = t.ComputeOutputHash()
	t.Status = []int{transaction.TxnSuccess, transaction.TxnSuccess, transaction.TxnFail, transaction.TxnError}[r.Intn(4)]
	return t
}

func (g *blockGen) magicBlock(starting int64) *block.MagicBlock {
	r := g.r
	mb := block.NewMagicBlock()
	mb.Miners = node.NewPool(node.NodeTypeMiner)
	mb.Sharders = node.NewPool(node.NodeTypeSharder)
	mb.StartingRound = starting
	mb.MagicBlockNumber = int64(1 + r.Intn(50))
	if r.Chance(0.7) {
		mb.PreviousMagicBlockHash = g.hash()
	}
	nm, ns := 1+r.Intn(5), 1+r.Intn(3)
	perm := make([]int, len(g.wallets))
	for i := range perm {
		perm[i] = i
	}
	r.Shuffle(len(perm), func(i, j int) { perm[i], perm[j] = perm[j], perm[i] })
	var ids []string
	for i := 0; i < nm+ns && i < len(perm); i++ {
		w := g.wallets[perm[i]]
		n := &node.Node{Host: fmt.Sprintf("h%d.example", i), N2NHost: fmt.Sprintf("n%d.example", i), Port: 7000 + r.Intn(1000), Path: "p",
			Status: node.NodeStatusActive, SetIndex: i, Description: g.text(r.Intn(30), 2), InPrevMB: r.Chance(0.5)}
		n.ID = w.ID
		n.PublicKey = w.PubKey
		n.Version = "1.0"
		n.CreationDate = common.Timestamp(1400000000 + r.Intn(1000))
		n.Info.BuildTag = g.hash()[:10]
		n.Info.StateMissingNodes = int64(r.Intn(10))
		n.Info.AvgBlockTxns = r.Intn(100)
		n.Info.MinersMedianNetworkTime = time.Duration(r.Intn(1000000))
		pool := mb.Miners
		n.Type = node.NodeTypeMiner
		if i >= nm {
			pool = mb.Sharders
			n.Type = node.NodeTypeSharder
		}
		if err := pool.AddNode(n); err != nil {
			panic(err)
		}
		if i < nm {
			ids = append(ids, w.ID)
		}
	}
	for _, id := range ids {
		if r.Chance(0.8) {
			mb.Mpks.Mpks[id] = &block.MPK{ID: id, Mpk: []string{g.hash(), g.hash()}}
		}
		if r.Chance(0.8) {
			sos := block.NewShareOrSigns()
			sos.ID = id
			for _, id2 := range ids {
				ks := &bls.DKGKeyShare{Message: g.hash()[:12], Share: g.hash(), Sign: g.hash()}
				ks.ID = id2
				sos.ShareOrSigns[id2] = ks
			}
			mb.ShareOrSigns.Shares[id] = sos
		}
	}
	mb.N = nm
	mb.K = nm
	mb.T = (nm*66 + 99) / 100
	mb.Hash = mb.GetHash()
	return mb
}

func (g *blockGen) block(i int, tier string) *block.Block {
	sizes := []int{0, 1, 2, 5, 20, 100, 400, 3, 40}
	if tier == "thorough" {
		sizes = append(sizes, 1500, 4000)
	}
	return g.blockOf(sizes[i%len(sizes)], i%3)
}

// blockOf builds a block with nt transactions; mb: 0 none, 1 magic block of an earlier round, 2 magic block starting at this round.
func (g *blockGen) blockOf(nt int, mb int) *block.Block {
	r := g.r
	i := mb
	round := int64(1 + r.Intn(1000000))
	b := block.NewBlock(g.chainID, round)
	b.Version = "1.0"
	b.CreationDate = common.Timestamp(1400000000 + r.Intn(100000000))
	b.MinerID = g.wallets[r.Intn(len(g.wallets))].ID
	b.PrevHash = g.hash()
	b.LatestFinalizedMagicBlockHash = g.hash()
	b.LatestFinalizedMagicBlockRound = int64(r.Intn(1000))
	switch r.Intn(4) {
	case 0:
		b.RoundRandomSeed = -int64(r.U64() >> 2)
	case 1:
		b.RoundRandomSeed = int64(r.U64() >> 1)
	default:
		b.RoundRandomSeed = int64(r.Intn(1 << 30))
	}
	b.RoundTimeoutCount = r.Intn(5)
	sh := make([]byte, 32)
	for j := range sh {
		sh[j] = byte(r.U64())
	}
	b.ClientStateHash = sh
	b.StateChangesCount = r.Intn(5000)
	b.RunningTxnCount = int64(r.Intn(1 << 40))
	for j := r.Intn(5); j > 0; j-- {
		w := g.wallets[r.Intn(len(g.wallets))]
		b.PrevBlockVerificationTickets = append(b.PrevBlockVerificationTickets, &block.VerificationTicket{VerifierID: w.ID, Signature: w.Sign(b.PrevHash)})
	}
	for j := 0; j < nt; j++ {
		b.Txns = append(b.Txns, g.txn(j))
	}
	mbKind := "none"
	if i%3 == 1 {
		mbKind = "mb-other-round"
		b.MagicBlock = g.magicBlock(round - int64(1+r.Intn(100)))
	} else if i%3 == 2 {
		mbKind = "mb-starting-here"
		b.MagicBlock = g.magicBlock(round)
	}
	_ = mbKind
	b.HashBlock()
	miner := g.wallets[0]
	for _, w := range g.wallets {
		if w.ID == b.MinerID {
			miner = w
		}
	}
	b.Signature = miner.Sign(b.Hash)
	for j := r.Intn(5); j > 0; j-- {
		w := g.wallets[r.Intn(len(g.wallets))]
		b.VerificationTickets = append(b.VerificationTickets, &block.VerificationTicket{VerifierID: w.ID, Signature: w.Sign(b.Hash)})
	}
	return b
}

// ---------------------------------------------------------------------------------------------------------------

func firstDiff(a, b string) map[string]interface{} {
	i := 0
	for i < len(a) && i < len(b) && a[i] == b[i] {
		i++
	}
	lo := i - 60
	if lo < 0 {
		lo = 0
	}
	cut := func(s string) string {
		hi := i + 100
		if hi > len(s) {
			hi = len(s)
		}
		if lo > len(s) {
			return ""
		}
		return s[lo:hi]
	}
	return map[string]interface{}{"offset": i, "want_len": len(a), "got_len": len(b), "want": cut(a), "got": cut(b)}
}

// blockPath is the documented layout: BasePath/h0/h1/h2/h3/h4/<rest>.dat.zlib (see the comment on subDirs in fs_store.go).
func blockPath(workDir, hash string) string {
	p := filepath.Join(workDir, "data", "blocks")
	for i := 0; i < 5; i++ {
		p = filepath.Join(p, string(hash[i]))
	}
	return filepath.Join(p, hash[5:]+".dat.zlib")
}

func readBlock(st blockstore.BlockStoreI, hash string) (*block.Block, outcome) {
	var rb *block.Block
	o := bounded(func() ([]byte, error) {
		b, err := st.Read(hash)
		rb = b
		return nil, err
	})
	return rb, o
}

func bsHang(run *mon.Run, what string, w map[string]interface{}) {
	buf := make([]byte, 4<<20)
	n := runtime.Stack(buf, true)
	dump := string(buf[:n])
	fmt.Printf("HANG after %s: full goroutine dump follows\n%s\n", lookupBound, dump)
	own := false
	for _, g := range strings.Split(dump, "\n\n") {
		if strings.Contains(g, "blockstore.(*BlockStore).") {
			own = true
			w["goroutine"] = firstLines(g, 9)
		}
	}
	if own {
		run.Violate("C26:blockstore-read-hang", what+fmt.Sprintf(" did not return within %s", lookupBound), w)
	} else {
		run.Inconclusive(what + " exceeded its bound but no goroutine shows a blockstore frame")
	}
	run.Checkpoint()
	os.Stdout.Sync()
	os.Exit(0)
}

func sizeClass(n int) string {
	switch {
	case n == 0:
		return "txns=0"
	case n == 1:
		return "txns=1"
	case n <= 5:
		return "txns=2-5"
	case n <= 40:
		return "txns=6-40"
	case n <= 400:
		return "txns=41-400"
	}
	return "txns>400"
}

func childBlockstore(run *mon.Run, tier string, idx, n int, cache bool) {
	logging.InitLogging("testing", "")
	block.SetupEntity(memorystore.GetStorageProvider())
	block.SetupBlockSummaryEntity(memorystore.GetStorageProvider())
	scratch := mon.ScratchDir()
	work := filepath.Join(scratch, fmt.Sprintf("bs%d", idx))
	_ = os.MkdirAll(work, 0o755)
	defer os.RemoveAll(work)
	var sv *viper.Viper
	cacheDir := filepath.Join(work, "cache")
	if cache {
		viper.GetViper().SetConfigType("yaml")
		cfg := fmt.Sprintf("storage:\n  cache:\n    path: %q\n    total_blocks: 1000\n", cacheDir)
		if err := viper.ReadConfig(bytes.NewReader([]byte(cfg))); err != nil {
			run.Inconclusive("cache config: " + err.Error())
			return
		}
		sv = viper.Sub("storage")
	}
	blockstore.Init(work, sv)
	st := blockstore.GetStore()

	g := &blockGen{r: mon.NewRand(mon.Seed()).Fork(fmt.Sprintf("blocks:%d", idx)), chainID: "0afc093ffb509f059c55478bc1a60351cef7b4e9c008a53a6cc8241ca8617dfe"}
	for i := 0; i < 10; i++ {
		g.wallets = append(g.wallets, world.NewWallet(fmt.Sprintf("store:%d:w%d", mon.Seed(), i)))
	}
	per := 18
	truncBlocks := 5
	if tier == "thorough" {
		per = 66
		truncBlocks = 22
	}
	sampled := 0
	extra := 0
	if cache {
		// the cache is filled asynchronously: more small blocks with a magic block (maps => several valid encodings) read right after Write
		extra = 150
		if tier == "thorough" {
			extra = 1500
		}
	}
	for i := 0; i < per+extra; i++ {
		var b *block.Block
		if i < per {
			b = g.block(i*n+idx, tier)
		} else {
			b = g.blockOf(1+g.r.Intn(4), 1+i%2)
		}
		want := snapBlock(b)
		mbClass := "mb=none"
		if b.MagicBlock != nil {
			mbClass = "mb=other-round"
			if b.MagicBlock.StartingRound == b.Round {
				mbClass = "mb=starting-round"
			}
		}
		cls := sizeClass(len(b.Txns)) + "/" + mbClass + fmt.Sprintf("/cache=%v", cache)
		fmt.Printf("OP blockstore write+read block=%d hash=%s %s\n", i, b.Hash, cls)
		o := bounded(func() ([]byte, error) { return nil, st.Write(b) })
		if o.hung {
			bsHang(run, "Write of block "+b.Hash, map[string]interface{}{"class": cls})
		}
		if o.panicked || o.err != nil {
			run.Violate("C26:blockstore-write-failed", fmt.Sprintf("Write failed for a %s block: %v %s", cls, o.err, o.pval), map[string]interface{}{"class": cls, "stack": firstLines(o.stack, 12)})
			continue
		}
		if after := snapBlock(b); len(diffSnap(want, after)) > 0 {
			run.Inconclusive("Write mutated the block handed to it: " + strings.Join(diffSnap(want, after), ","))
		}
		hashes := []string{b.Hash}
		if b.MagicBlock != nil && b.MagicBlock.StartingRound == b.Round {
			hashes = append(hashes, b.MagicBlock.Hash) // the block that starts a magic block is also stored under the magic block's hash
		}
		reads := 1
		if cache {
			reads = 3
		}
		for hi, h := range hashes {
			for rd := 0; rd < reads; rd++ {
				if cache && rd == 2 {
					// give the asynchronous cache writer a moment so that the cache path is exercised too (synchronisation only)
					for w := 0; w < 200; w++ {
						if fi, err := os.Stat(filepath.Join(cacheDir, h)); err == nil && fi.Size() > 0 {
							run.Count("blockstore_cache_file_present", 1)
							break
						}
						time.Sleep(5 * time.Millisecond)
					}
				}
				rb, o := readBlock(st, h)
				run.Eval(1)
				run.Count("blockstore_roundtrips", 1)
				key := "by-block-hash"
				if hi == 1 {
					key = "by-magic-block-hash"
				}
				w := map[string]interface{}{"class": cls, "read_key": key, "block_hash": b.Hash, "txns": len(b.Txns), "seed": mon.Seed(), "child": idx, "block_index": i}
				res := "equal"
				sigMismatch := "C26:blockstore-readback-mismatch"
				if cache {
					sigMismatch = "C26:blockstore-cache-readback-mismatch" // Read answered (or could have answered) from the asynchronously written cache
				}
				switch {
				case o.hung:
					bsHang(run, "Read("+key+") of a "+cls+" block", w)
				case o.panicked:
					res = "panic"
					w["panic"], w["stack"] = o.pval, firstLines(o.stack, 14)
					run.Violate("C26:blockstore-read-panic", fmt.Sprintf("Read(%s) of a stored %s block panicked: %s", key, cls, o.pval), w)
				case o.err != nil:
					res = "error"
					w["error"] = o.err.Error()
					run.Violate(sigMismatch, fmt.Sprintf("Read(%s) of a stored %s block failed: %v", key, cls, o.err), w)
				default:
					got, ch, unusable := snapRead(rb)
					d := diffSnap(want, got)
					if ch != b.Hash {
						d = append(d, "computed_hash")
					}
					if unusable != "" {
						d = []string{"unusable block (" + unusable + ")"}
					}
					run.Count("blockstore_txns_compared", int64(len(want.Txns)))
					if len(d) > 0 {
						res = "differs"
						w["differing"] = d
						w["read_number"] = rd
						if want.MBJSON != got.MBJSON {
							w["magic_block_first_difference"] = firstDiff(want.MBJSON, got.MBJSON)
						}
						run.Violate(sigMismatch, fmt.Sprintf("Read(%s) of a stored %s block (read number %d after Write) differs in %s", key, cls, rd, strings.Join(d, ",")), w)
					}
				}
				run.Distinct(strings.Join([]string{"blockstore", cls, "nofault", key, res}, "|"))
			}
		}
		if sampled < 1 && len(b.Txns) > 0 && len(b.Txns) <= 5 {
			sampled++
			fi, _ := os.Stat(blockPath(work, b.Hash))
			sz := int64(-1)
			if fi != nil {
				sz = fi.Size()
			}
			run.Sample(map[string]interface{}{"store": "blockstore", "class": cls, "hash": b.Hash, "round": b.Round, "txns": len(b.Txns), "file_bytes": sz, "first_txn_output_len": len(b.Txns[0].TransactionOutput)})
		}
		// fault enumeration on the stored file (only without the cache, which would otherwise answer instead of the file)
		if !cache && (i < truncBlocks || len(b.Txns) >= 400) {
			truncations(run, st, work, b, want, cls)
		}
		run.Checkpoint()
	}
}

func truncations(run *mon.Run, st blockstore.BlockStoreI, work string, b *block.Block, want blockSnap, cls string) {
	p := blockPath(work, b.Hash)
	orig, err := os.ReadFile(p)
	if err != nil {
		run.Inconclusive("stored block file not found at the documented path: " + err.Error())
		return
	}
	S := len(orig)
	type cut struct {
		class string
		n     int
	}
	var cuts []cut
	seen := map[int]bool{}
	add := func(class string, n int) {
		if n < 0 || n >= S || seen[n] {
			return
		}
		seen[n] = true
		cuts = append(cuts, cut{class, n})
	}
	for d := 1; d <= 9; d++ {
		add(fmt.Sprintf("end-%d", d), S-d)
	}
	add("empty", 0)
	add("zlib-header-1", 1)
	add("zlib-header-2", 2)
	add("after-zlib-header", 3)
	for n := 4096; n < S; n += 4096 {
		add("4KiB", n)
	}
	for n := 65536; n < S+2; n += 65536 {
		add("64KiB-1", n-1)
		add("64KiB+1", n+1)
	}
	add("half", S/2)
	defer func() {
		_ = os.WriteFile(p, orig, 0o600)
		rb, o := readBlock(st, b.Hash)
		got, _, unusable := snapRead(rb)
		if o.err != nil || o.panicked || o.hung || unusable != "" || len(diffSnap(want, got)) > 0 {
			run.Inconclusive("restored block file does not read back (harness problem)")
		}
	}()
	for _, c := range cuts {
		if err := os.WriteFile(p, orig[:c.n], 0o600); err != nil {
			run.Inconclusive("scratch write failed: " + err.Error())
			return
		}
		fmt.Printf("OP blockstore truncated-read hash=%s cut=%d/%d (%s)\n", b.Hash, c.n, S, c.class)
		rb, o := readBlock(st, b.Hash)
		run.Eval(1)
		run.Count("blockstore_truncations", 1)
		w := map[string]interface{}{"class": cls, "block_hash": b.Hash, "txns": len(b.Txns), "file_bytes": S, "kept_bytes": c.n, "cut_class": c.class, "seed": mon.Seed()}
		res := "error"
		switch {
		case o.hung:
			bsHang(run, "Read of a truncated block file ("+c.class+")", w)
		case o.panicked:
			res = "panic"
			w["panic"], w["stack"] = o.pval, firstLines(o.stack, 14)
			run.Violate("C26:blockstore-crash-on-truncated-file", fmt.Sprintf("Read of a block file truncated at %s panicked: %s", c.class, o.pval), w)
		case o.err != nil:
			run.Count("blockstore_truncated_error", 1)
		default:
			got, ch, unusable := snapRead(rb)
			d := diffSnap(want, got)
			if ch != b.Hash {
				d = append(d, "computed_hash")
			}
			if unusable != "" {
				d = []string{"unusable block (" + unusable + ")"}
			}
			if len(d) == 0 {
				res = "identical-block"
				run.Count("blockstore_truncated_identical_block", 1)
				run.Count("blockstore_truncated_identical_block:"+c.class, 1)
			} else {
				res = "different-block"
				w["differing"] = d
				run.Violate("C26:blockstore-truncated-accepted", fmt.Sprintf("Read of a block file truncated at %s (%d of %d bytes) returned a block without error that differs in %s",
					c.class, c.n, S, strings.Join(d, ",")), w)
			}
		}
		run.Distinct(strings.Join([]string{"blockstore", cls, "trunc:" + c.class, res}, "|"))
	}
}

var _ = datastore.GetEntityMetadata
var _ = encryption.Hash
