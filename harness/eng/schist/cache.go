package schist

import (
	"bytes"
	"fmt"
	"reflect"

	"0chain.net/chaincore/transaction"
	"github.com/0chain/common/core/statecache"
	"github.com/0chain/common/core/util"

	"0chain.net/chaincore/chain"
)

// C07: (1) the hook's shadow read at every cache hit (obs.Shadow) — value served from the transaction/block/global cache must
// equal the value stored in the trie at that key, a hit for an absent key is a violation, and a value must not change between
// two reads of one txn without an insert (alias mutation); (2) after every txn, every key it touched is read back through a fresh
// state context WITH the block cache and through one WITHOUT any cache on the same MPT: bytes must agree (catches residue of
// failed txns and stale committed entries).
func monC07(h *Hist, o *TxnObs) {
	r := h.Runs["C07"]
	if r == nil {
		return
	}
	for _, m := range h.Obs.TakeMismatches() {
		h.V("C07", "cache-"+m.Kind+":"+m.Type, m.String(), o)
	}
	// second oracle
	seen := map[string]bool{}
	for _, op := range o.Ops {
		if seen[op.Key] {
			continue
		}
		seen[op.Key] = true
		ki := h.Obs.ByKeyLookup(op.Key)
		if ki == nil || ki.Type == nil || ki.Type.Kind() != reflect.Ptr {
			continue
		}
		mk := func() util.MPTSerializable { return reflect.New(ki.Type.Elem()).Interface().(util.MPTSerializable) }
		probe := &transaction.Transaction{}
		probe.Hash = o.Txn.Hash
		// with cache: a transaction cache on top of the block cache, as the next txn would see it
		cached := chain.CreateTxnMPT(h.BC.State, statecache.NewTransactionCache(h.BC.Cache))
		sc1 := h.W.Chain.NewStateContext(h.BC.B, cached, probe, nil)
		v1 := mk()
		e1 := sc1.GetTrieNode(op.Key, v1)
		// without cache: straight from the trie
		raw, e2 := h.BC.State.GetNodeValueRaw(util.Path(ki.Path))
		r.Count("reread_checks", 1)
		r.Eval(1)
		switch {
		case e1 != nil && e2 != nil:
			// both absent: fine
		case e1 == nil && e2 != nil:
			h.V("C07", "cache-serves-absent-key:"+ki.Type.String(), fmt.Sprintf("key %q readable through the cache but absent in the trie after %s (%s)", op.Key, o.Call.Name, o.Outcome), o)
		case e1 != nil && e2 == nil:
			h.V("C07", "cache-hides-present-key:"+ki.Type.String(), fmt.Sprintf("key %q present in the trie but unreadable through the cache (%v) after %s (%s)", op.Key, e1, o.Call.Name, o.Outcome), o)
		default:
			b1, err := v1.MarshalMsg(nil)
			v2 := mk()
			_, err2 := v2.UnmarshalMsg(raw)
			if err == nil && err2 == nil {
				b2, _ := v2.MarshalMsg(nil)
				if !bytes.Equal(b1, b2) {
					h.V("C07", "cache-differs-after-txn:"+ki.Type.String(), fmt.Sprintf("key %q: cached read %x != trie %x after %s (%s)", op.Key, trunc(string(b1), 200), trunc(string(b2), 200), o.Call.Name, o.Outcome), o)
				}
			}
		}
		r.Distinct(ki.Type.String() + "|" + o.Outcome)
	}
	// the probes themselves produced hook events: drop them
	h.Obs.ResetTxn()
	h.Obs.TakeMismatches()
}
