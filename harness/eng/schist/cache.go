package schist

import (
	"bytes"
	"fmt"
	"reflect"

	"0chain.net/chaincore/transaction"
	"github.com/0chain/common/core/statecache"
	"github.com/0chain/common/core/util"

	"0chain.net/chaincore/chain"
)

// C07: (1) the hook's shadow read at every cache hit (obs.Shadow) — value served from the transaction/block/global cache must
// equal the value stored in the trie at that key, a hit for an absent key is a violation, and a value must not change between
// two reads of one txn without an insert (alias mutation); (2) after every txn, every key it touched is read back through a fresh
// state context WITH the block cache and through one WITHOUT any cache on the same MPT: bytes must agree (catches residue of
// failed txns and stale committed entries).
func monC07(h *Hist, o *TxnObs) {
	r := h.Runs["C07"]
	if r == nil {
		return
	}
	for _, m := range h.Obs.TakeMismatches() {
		h.V("C07", "cache-"+m.Kind+":"+m.Type, m.String(), o)
	}
	// second oracle
	h.rereadTouched(o, "C07", func(sig, detail string) { h.V("C07", sig, detail, o) })
	// the probes themselves produced hook events: drop them
	h.Obs.ResetTxn()
	h.Obs.TakeMismatches()
}

// rereadTouched re-reads every key the transaction touched through a fresh state context WITH the block cache (as the
// next transaction would) and straight from the trie, and reports disagreements. For a failed call this is the
// "no trace left" check: whatever it wrote must be invisible to later reads.
func (h *Hist) rereadTouched(o *TxnObs, prop string, report func(sig, detail string)) {
	r := h.Runs[prop]
	if r == nil {
		return
	}
	seen := map[string]bool{}
	for _, op := range o.Ops {
		if seen[op.Key] {
			continue
		}
		seen[op.Key] = true
		ki := h.Obs.ByKeyLookup(op.Key)
		if ki == nil || ki.Type == nil || ki.Type.Kind() != reflect.Ptr {
			continue
		}
		mk := func() util.MPTSerializable { return reflect.New(ki.Type.Elem()).Interface().(util.MPTSerializable) }
		probe := &transaction.Transaction{}
		probe.Hash = o.Txn.Hash
		cached := chain.CreateTxnMPT(h.BC.State, statecache.NewTransactionCache(h.BC.Cache))
		sc1 := h.W.Chain.NewStateContext(h.BC.B, cached, probe, nil)
		v1 := mk()
		e1 := sc1.GetTrieNode(op.Key, v1)
		raw, e2 := h.BC.State.GetNodeValueRaw(util.Path(ki.Path))
		r.Count("reread_checks", 1)
		if prop == "C07" {
			r.Eval(1)
		}
		switch {
		case e1 != nil && e2 != nil:
		case e1 == nil && e2 != nil:
			report("cache-serves-absent-key:"+ki.Type.String(), fmt.Sprintf("key %q readable through the cache but absent in the trie after %s (%s)", op.Key, o.Call.Name, o.Outcome))
		case e1 != nil && e2 == nil:
			report("cache-hides-present-key:"+ki.Type.String(), fmt.Sprintf("key %q present in the trie but unreadable through the cache (%v) after %s (%s)", op.Key, e1, o.Call.Name, o.Outcome))
		default:
			b1, err := v1.MarshalMsg(nil)
			v2 := mk()
			_, err2 := v2.UnmarshalMsg(raw)
			if err == nil && err2 == nil {
				b2, _ := v2.MarshalMsg(nil)
				if !bytes.Equal(b1, b2) {
					report("cache-differs-after-txn:"+ki.Type.String(), fmt.Sprintf("key %q: cached read %x != trie %x after %s (%s)", op.Key, trunc(string(b1), 200), trunc(string(b2), 200), o.Call.Name, o.Outcome))
				}
			}
		}
		if prop == "C07" {
			r.Distinct(ki.Type.String() + "|" + o.Outcome)
		}
	}
	h.Obs.ResetTxn()
	h.Obs.TakeMismatches()
}

// forkScenarioC07 is a directed fork schedule: a cacheable value K is created in block X, left alone in A, changed in B (child of A),
// read by a sibling C (child of A), then read again by D (child of B). Every read is judged by the shadow-read oracle.
func forkScenarioC07(h *Hist, mons []Monitor) {
	find := func(name string) *OpDef {
		for _, op := range catalogue() {
			if op.Name == name {
				o := op
				return &o
			}
		}
		return nil
	}
	add, stake := find("zcn.add-authorizer"), find("zcn.mint")
	if add == nil || stake == nil {
		return
	}
	r := h.R.Fork("c07-fork")
	save := h.Vars["hostile"]
	h.Vars["hostile"] = 0.0
	defer func() { h.Vars["hostile"] = save }()
	submitUntil := func(op *OpDef, ms []Monitor, keepAfter bool) bool {
		for i := 0; i < 30; i++ {
			c := op.Build(h, r)
			if c == nil {
				continue
			}
			if !keepAfter {
				c.After = nil
			}
			if o := h.Submit(c, ms); o.Outcome == "success" {
				return true
			}
		}
		return false
	}
	// X: authorizers, and a first mint creating the minted-nonce partitions (cacheable value K)
	for i := 0; i < 3; i++ {
		if !submitUntil(add, mons, true) {
			return
		}
	}
	if !submitUntil(stake, mons, true) {
		return
	}
	h.EndBlock()
	// A: unrelated
	h.Submit(&Call{Name: "data", Spec: dataSpec(h)}, mons)
	h.EndBlock()
	// B: change K
	if !submitUntil(stake, mons, true) {
		return
	}
	h.EndBlock()
	// C: sibling of B reads (and changes) K from A's point of view
	var stateless []Monitor
	for _, m := range mons {
		switch m.Prop {
		case "C01", "C05", "C07":
			stateless = append(stateless, m)
		}
	}
	saveHead, saveCur, saveRef, saveRound := h.Head, h.Cur, h.RefNonce, h.Round
	parent := h.Head.PrevBlock
	cur, err := snapTake(parent)
	if err != nil {
		return
	}
	h.Head, h.Cur, h.Round = parent, cur, parent.Round
	h.RefNonce = refNonces(h, cur)
	submitUntil(stake, stateless, false)
	h.EndBlock()
	h.Head, h.Cur, h.RefNonce, h.Round = saveHead, saveCur, saveRef, saveRound
	// D: child of B reads K again
	submitUntil(stake, mons, true)
	h.EndBlock()
	if r := h.Runs["C07"]; r != nil {
		r.Count("directed_fork_scenarios", 1)
	}
}
